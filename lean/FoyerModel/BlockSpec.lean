import FoyerModel.Block
/-
  FoyerModel.BlockSpec — the *specification* of the on-disk layout: a monotone cursor allocator.

  A block is a chain of blobs; a blob is an index page (`I` bytes) followed by its entries, each
  aligned up to the page size; an entry goes right behind the previous allocation; a new blob is
  started when the open blob's index is full, a new block when the entry does not fit any more.
  `FoyerProofs.C07` shows that the splitter model (`Foyer.Blk.split`) refines this allocator and that
  the allocator's blocks are non-overlapping and are read back exactly by the scanner.
-/
namespace Foyer.Blk

structure Blob where
  off : Nat
  ents : List BEI
deriving DecidableEq, Repr

/-- bytes taken by the entries of a blob -/
def esize (c : LCfg) : List BEI → Nat
  | [] => 0
  | e :: es => alignUp c.P e.len + esize c es

/-- index page + entries -/
def bsize (c : LCfg) (b : Blob) : Nat := c.I + esize c b.ents

structure Spec where
  /-- finished blocks, oldest first -/
  done : List (List Blob) := []
  /-- closed blobs of the current block, oldest first -/
  blobs : List Blob := []
  /-- the open blob -/
  cur : Blob := { off := 0, ents := [] }
deriving Repr

/-- Close the open blob when its index is full. -/
def roll (c : LCfg) (sp : Spec) : Spec :=
  if sp.cur.ents.length ≥ c.cap then
    { sp with blobs := sp.blobs ++ [sp.cur], cur := { off := sp.cur.off + bsize c sp.cur, ents := [] } }
  else sp

/-- Place one entry; returns the block number and the absolute offset it got. -/
def placeS (c : LCfg) (sp : Spec) (i : Info) : Spec × (Nat × Nat) :=
  let sp1 := roll c sp
  let z := alignUp c.P i.len
  if sp1.cur.off + bsize c sp1.cur + z > c.B then
    let closed := if sp1.cur.ents.isEmpty then sp1.blobs else sp1.blobs ++ [sp1.cur]
    ({ done := sp1.done ++ [closed], blobs := [],
       cur := { off := 0, ents := [{ hash := i.hash, seq := i.seq, off := c.I, len := i.len }] } },
     (sp1.done.length + 1, c.I))
  else
    ({ sp1 with cur := { sp1.cur with ents := sp1.cur.ents ++
         [{ hash := i.hash, seq := i.seq, off := bsize c sp1.cur, len := i.len }] } },
     (sp1.done.length, sp1.cur.off + bsize c sp1.cur))

def placeAll (c : LCfg) : Spec → List Info → Spec × List (Nat × Nat)
  | sp, [] => (sp, [])
  | sp, i :: is =>
    let (sp1, p) := placeS c sp i
    let (sp2, ps) := placeAll c sp1 is
    (sp2, p :: ps)

/-- The blobs of the current block (closed ones and the open one if it has entries). -/
def Spec.curBlobs (sp : Spec) : List Blob :=
  if sp.cur.ents.isEmpty then sp.blobs else sp.blobs ++ [sp.cur]

/-- The index map a block of the specification shows to the scanner. -/
def idxMapOf (bs : List Blob) : IdxMap := bs.map fun b => (b.off, b.ents)

/-- All entries of a block with their absolute positions, in order. -/
def placedOf (bs : List Blob) : List Placed := bs.flatMap fun b => b.ents.map (place b.off)

end Foyer.Blk
