import FoyerModel.Mem
/-
  FoyerModel.Hybrid — the hybrid cache (`foyer/src/hybrid/cache.rs`, `foyer-storage/src/store.rs`)
  over the memory model `FoyerModel.Mem` and an abstract disk tier:

    * `keeper`  — pieces submitted to the disk tier and not yet flushed (looked up by *key*),
    * `queue`   — what the flusher has received and not yet written,
    * `index`   — hash ↦ address-of-an-entry | tombstone, sequence-guarded,
    * `disk`    — every entry ever written (what recovery scans), `tombs` — the tombstone log.

  One step = one API call followed by quiescence.  While the flusher is held (or device writes are
  gated) submissions stay in `queue` / `keeper`; otherwise a flush writes them, updates the index
  and releases the keeper.  Disk capacity eviction is an environment step (`lose`): which block the
  reclaimer takes, and when, is the business of `FoyerModel.Block` (C07 / C09); here any indexed entry
  may vanish together with everything written before it.

  The model is the *intended* behaviour (see DESIGN.md §7): keeper entries are released by piece
  identity, a delete drops the queued piece, `InMem` pieces are never submitted (also not at close),
  a cache hit submits nothing.
-/
namespace Foyer.Hyb

structure DiskEnt where
  key : Nat
  hash : Nat
  ver : Nat
  seq : Nat
  /-- placement advice the entry was inserted with (C12) -/
  loc : Loc := .default
deriving DecidableEq, Repr

inductive Idx where
  | addr (e : DiskEnt)
  | tomb (seq : Nat)
deriving DecidableEq, Repr

def Idx.seq : Idx → Nat
  | .addr e => e.seq
  | .tomb s => s

inductive Sub where
  | entry (e : DiskEnt) (fits : Bool)
  | tomb (hash seq : Nat)
deriving DecidableEq, Repr

structure HCfg where
  woi : Bool
  foc : Bool
  tombLog : Bool
  mcfg : Cfg

structure HState (σ : Type) where
  mem : Cache σ
  keeper : List (Nat × Rec)
  queue : List Sub
  /-- the batch whose device writes were issued and have not completed (only while writes are gated) -/
  inflight : List Sub
  index : List (Nat × Idx)
  disk : List DiskEnt
  tombs : List (Nat × Nat)
  seq : Nat
  held : Bool
  gated : Bool
  /-- versions whose serialized size exceeds the per-entry disk limit -/
  big : List Nat
  /-- everything ever submitted to the disk tier (C12) -/
  subs : List Sub

def assocGet {β : Type} (l : List (Nat × β)) (k : Nat) : Option β := (l.find? (·.1 = k)).map (·.2)
def assocDel {β : Type} (l : List (Nat × β)) (k : Nat) : List (Nat × β) := l.filter (·.1 ≠ k)
def assocSet {β : Type} (l : List (Nat × β)) (k : Nat) (v : β) : List (Nat × β) := (k, v) :: assocDel l k

/-- `Indexer::insert_inner`: replace iff `new.seq ≥ old.seq`. -/
def indexInsert (index : List (Nat × Idx)) (h : Nat) (new : Idx) : List (Nat × Idx) :=
  match assocGet index h with
  | none => assocSet index h new
  | some old => if new.seq ≥ old.seq then assocSet index h new else index

/-- `Indexer::remove_batch` for one `(hash, seq)`: remove iff `seq ≥ current.seq`. -/
def indexRemoveSeq (index : List (Nat × Idx)) (h s : Nat) : List (Nat × Idx) :=
  match assocGet index h with
  | none => index
  | some cur => if s ≥ cur.seq then assocDel index h else index

/-- `Indexer::get`: an address, never a tombstone. -/
def indexAddr (index : List (Nat × Idx)) (h : Nat) : Option DiskEnt :=
  match assocGet index h with
  | some (.addr e) => some e
  | _ => none

section
variable {σ : Type} (P : Policy σ) (hc : HCfg)

/-- Completion of one flusher batch: entries reach the device and the index (`insert_batch`), the
keeper lets go of the pieces (by identity), tombstones reach the log and then leave the index
(`remove_batch`).  An entry that exceeded the per-entry limit was dropped on receipt; it acts as a
tombstone with the entry's own sequence. -/
def applyBatch (s : HState σ) (batch : List Sub) : HState σ :=
  let ents := batch.filterMap fun q => match q with
    | .entry e true => some e
    | _ => none
  let dropped := batch.filterMap fun q => match q with
    | .entry e false => some e
    | _ => none
  let tbs := batch.filterMap fun q => match q with
    | .tomb h sq => some (h, sq)
    | .entry e false => some (e.hash, e.seq)
    | _ => none
  let index1 := ents.foldl (fun ix e => indexInsert ix e.hash (.addr e)) s.index
  let keeper1 := s.keeper.filter fun (k, r) => !((ents ++ dropped).any fun e => e.key = k && e.ver = r.ver)
  let index2 := tbs.foldl (fun ix (h, sq) => indexRemoveSeq ix h sq) index1
  { s with index := index2, keeper := keeper1, disk := s.disk ++ ents,
           tombs := if hc.tombLog then s.tombs ++ tbs else s.tombs }

/-- Does completing the batch need a device write? (entries; tombstones only with the log enabled) -/
def needsIO (batch : List Sub) : Bool :=
  batch.any fun q => match q with
    | .entry _ true => true
    | _ => hc.tombLog

/-- The flusher task runs to quiescence (end of every API call): everything received since the last
batch forms the next batch (`try_recv` drains the channel); it is issued unless flushing is held or a
batch is still in flight; without gating its writes complete at once. -/
def flush (s : HState σ) : HState σ :=
  if s.held then s
  else if s.gated then
    if s.inflight.isEmpty && !s.queue.isEmpty then
      (if needsIO hc s.queue then { s with inflight := s.queue, queue := [] }
       else { applyBatch hc s s.queue with queue := [] })
    else s
  else
    { applyBatch hc (applyBatch hc s s.inflight) s.queue with inflight := [], queue := [] }

/-- `Store::enqueue` + `BlockEngine::enqueue` + the flusher's `recv` (admission filter: admit).  An
entry larger than the per-entry limit is dropped on receipt: the keeper lets go of it and the older
copies of its hash are invalidated. -/
def submit (s : HState σ) (r : Rec) : HState σ :=
  if r.age = .young then s         -- skipped by the engine: already on disk, not about to be reclaimed
  else
    let e : DiskEnt := { key := r.key, hash := r.hash, ver := r.ver, seq := s.seq, loc := r.loc }
    if s.big.contains r.ver then
      { s with seq := s.seq + 1,
               keeper := assocDel s.keeper r.key,
               index := indexInsert s.index r.hash (.tomb s.seq),
               queue := s.queue ++ [.entry e false],
               subs := s.subs ++ [.entry e false] }
    else
      { s with seq := s.seq + 1,
               keeper := assocSet s.keeper r.key r,
               queue := s.queue ++ [.entry e true],
               subs := s.subs ++ [.entry e true] }

/-- `Store::delete`. -/
def delete (s : HState σ) (key : Nat) : HState σ :=
  let h := hc.mcfg.H key
  { s with seq := s.seq + 1,
           index := indexInsert s.index h (.tomb s.seq),
           keeper := assocDel s.keeper key,
           queue := s.queue ++ [.tomb h s.seq],
           subs := s.subs ++ [.tomb h s.seq] }

/-- `HybridCachePipe::send`: only under write-on-eviction, never for `InMem` advice. -/
def pipeSend (s : HState σ) (r : Rec) : HState σ :=
  if hc.woi then s else if r.loc = .inMem then s else submit s r

/-- Run a memory operation and hand what memory evicted to the pipe. -/
def memOp (s : HState σ) (op : Op) : HState σ × Out :=
  let (m, out) := Cache.step P hc.mcfg s.mem op
  (out.piped.foldl (pipeSend hc) { s with mem := m }, out)

/-- Insert into memory and drop the returned handle at once (as the harness does). -/
def memInsert (s : HState σ) (key ver : Nat) (phantom : Bool) (loc : Loc) (age : Age) : HState σ × Option Rec :=
  let (s1, out) := memOp P hc s (.ins key ver 1 .normal phantom loc age)
  match out.ret with
  | .handle r => ((memOp P hc s1 (.drop r.id)).1, some r)
  | _ => (s1, none)

inductive HOp where
  | ins (key ver : Nat) (loc : Loc) (big : Bool)
  | wins (key ver : Nat) (force : Bool)
  | rm (key : Nat)
  | clear
  | get (key : Nat)
  | fetch (key : Nat) (originVer : Nat)
  | evict
  | contains (key : Nat)
  | wait
  | hold | unhold | gate | releaseAll | releaseBatch
  | reopen
  /-- environment: disk capacity eviction (block reclaim) of the entry indexed under `hash` -/
  | lose (hash : Nat)
deriving Repr

inductive HRet where
  | ok
  | miss
  | val (key ver : Nat) (src : String)
  | bool (b : Bool)
deriving DecidableEq, Repr

/-- `Store::load` followed by the population of memory (`get` / `get_or_fetch` miss path). -/
def loadAndPopulate (s : HState σ) (key : Nat) : HState σ × Option (Nat × String) :=
  match assocGet s.keeper key with
  | some r =>
    -- the queued piece itself re-enters memory (`insert_piece`)
    let (s1, _) := memInsert P hc s key r.ver r.phantom r.loc r.age
    (s1, some (r.ver, "memory"))
  | none =>
    match indexAddr s.index (hc.mcfg.H key) with
    | none => (s, none)
    | some e =>
      if e.key = key then
        let (s1, _) := memInsert P hc s key e.ver false .default .young
        (s1, some (e.ver, "disk"))
      else (s, none)       -- another key with the same hash: a miss, never a foreign value

/-- Recovery: per hash the highest sequence among the entries on the device and the logged
tombstones wins; a winning tombstone means "absent". -/
def recover (disk : List DiskEnt) (tombs : List (Nat × Nat)) : List (Nat × Idx) :=
  let ix := disk.foldl (fun ix e => indexInsert ix e.hash (.addr e)) []
  let ix := tombs.foldl (fun ix (h, sq) => indexInsert ix h (.tomb sq)) ix
  ix.filter fun (_, i) => match i with
    | .addr _ => true
    | .tomb _ => false

def maxSeq (disk : List DiskEnt) (tombs : List (Nat × Nat)) : Nat :=
  (disk.map (·.seq) ++ tombs.map (·.2)).foldl Nat.max 0

/-- The API call itself; the flusher task runs afterwards (`step`). -/
def stepCore (s : HState σ) : HOp → HState σ × HRet
  | .ins key ver loc big =>
    let s0 := if big then { s with big := ver :: s.big } else s
    let (s1, out) := memOp P hc s0 (.ins key ver 1 .normal (loc = .onDisk) loc .fresh)
    match out.ret with
    | .handle r =>
      let s2 := if hc.woi && loc ≠ .inMem then submit s1 r else s1
      ((memOp P hc s2 (.drop r.id)).1, .ok)
    | _ => (s1, .ok)
  | .wins key ver _force =>
    let (s1, out) := memOp P hc s (.ins key ver 1 .normal true .default .fresh)
    match out.ret with
    | .handle r =>
      let s2 := if hc.woi then submit s1 r else s1
      ((memOp P hc s2 (.drop r.id)).1, .ok)
    | _ => (s1, .ok)
  | .rm key =>
    let (s1, out) := memOp P hc s (.remove key)
    let s2 := match out.ret with
      | .handle r => (memOp P hc s1 (.drop r.id)).1
      | _ => s1
    (delete hc s2 key, .ok)
  | .clear =>
    let (s1, _) := memOp P hc s .clear
    let s2 := flush hc { s1 with seq := s1.seq + 1, queue := s1.queue ++ [.tomb 0 s1.seq], subs := s1.subs ++ [.tomb 0 s1.seq] }
    ({ s2 with index := [], disk := [] }, .ok)
  | .get key =>
    let (s1, out) := memOp P hc s (.get key)
    match out.ret with
    | .handle r => ((memOp P hc s1 (.drop r.id)).1, .val key r.ver "memory")
    | _ =>
      match loadAndPopulate P hc s1 key with
      | (s2, some (ver, src)) => (s2, .val key ver src)
      | (s2, none) => (s2, .miss)
  | .fetch key originVer =>
    let (s1, out) := memOp P hc s (.get key)
    match out.ret with
    | .handle r => ((memOp P hc s1 (.drop r.id)).1, .val key r.ver "memory")
    | _ =>
      match loadAndPopulate P hc s1 key with
      | (s2, some (ver, src)) => (s2, .val key ver src)
      | (s2, none) =>
        -- memory missed and the disk lookup missed: only now the origin is asked
        let (s3, out3) := memOp P hc s2 (.ins key originVer 1 .normal false .default .fresh)
        match out3.ret with
        | .handle r =>
          let s4 := if hc.woi then submit s3 r else s3
          ((memOp P hc s4 (.drop r.id)).1, .val key originVer "outer")
        | _ => (s3, .miss)
  | .evict => ((memOp P hc s .evictAll).1, .ok)
  | .contains key =>
    (s, .bool ((Cache.lookup hc.mcfg s.mem key).isSome || (indexAddr s.index (hc.mcfg.H key)).isSome))
  | .wait => (s, .ok)
  | .lose h =>
    -- environment step: the block holding `h`'s indexed entry is reclaimed.  Blocks are reclaimed oldest
    -- first, so the older copies of the same hash are gone as well.
    match indexAddr s.index h with
    | none => (s, .ok)
    | some e => ({ s with index := assocDel s.index h,
                          disk := s.disk.filter fun d => !(d.hash = e.hash && d.seq ≤ e.seq) }, .ok)
  | .hold => ({ s with held := true }, .ok)
  | .unhold => ({ s with held := false }, .ok)
  | .gate => ({ s with gated := true }, .ok)
  | .releaseAll => ({ s with gated := false }, .ok)
  | .releaseBatch =>
    -- the in-flight batch completes; the gate stays closed for the next one
    ({ applyBatch hc s s.inflight with inflight := [] }, .ok)
  | .reopen =>
    -- graceful close: optionally flush memory through the pipe, drain the flusher, then recover
    let s1 := if hc.foc then (memOp P hc s .flush).1 else s
    let s2 := flush hc { s1 with held := false, gated := false }
    let tombs := if hc.tombLog then s2.tombs else []
    ({ s2 with mem := Cache.new P hc.mcfg ((s.mem.shards.map (·.cap)).sum), keeper := [], queue := [], inflight := [],
               index := recover s2.disk tombs, seq := maxSeq s2.disk tombs + 1 }, .ok)

def step (s : HState σ) (op : HOp) : HState σ × HRet :=
  let r := stepCore P hc s op
  (flush hc r.1, r.2)

/-- Run a history. -/
def run (s : HState σ) : List HOp → HState σ
  | [] => s
  | op :: ops => run (step P hc s op).1 ops

def init (memcap : Nat) : HState σ :=
  { mem := Cache.new P hc.mcfg memcap, keeper := [], queue := [], inflight := [], index := [], disk := [], tombs := [],
    seq := 1, held := false, gated := false, big := [], subs := [] }

end
end Foyer.Hyb
