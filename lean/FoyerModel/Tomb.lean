/-
  FoyerModel.Tomb — the tombstone log (`foyer-storage/src/engine/block/tombstone.rs`): a ring of
  16-byte slots `(hash, sequence)`, 256 per page; `sequence = 0` marks an empty slot.

  `open` scans every slot, returns the non-empty ones (in scan order) and positions the tail right
  after the slot holding the globally highest sequence (an empty log starts at slot 1).  The model
  is the *intended* behaviour: the position of a slot is its page-absolute index.
-/
namespace Foyer.Tomb

structure Tomb where
  hash : Nat
  seq : Nat
deriving DecidableEq, Repr

def SPP : Nat := 256

structure Log where
  pages : Nat
  slots : List Tomb
  tail : Nat
deriving Repr

def empty : Tomb := { hash := 0, seq := 0 }

/-- `calculate_slot_addr`: page `(slot / 256) % pages`, in-page slot `slot % 256`. -/
def slotIndex (pages slot : Nat) : Nat := (slot / SPP % pages) * SPP + slot % SPP

def append (l : Log) (t : Tomb) : Log :=
  { l with slots := l.slots.set (slotIndex l.pages l.tail) t, tail := l.tail + 1 }

def recovered (slots : List Tomb) : List Tomb := slots.filter (·.seq ≠ 0)

/-- Scan with index: the latest tombstone so far as `(seq, index)`; a later one with an equal
sequence wins (`reduce(|a, b| if a.seq > b.seq { a } else { b })`). -/
def scanLatest : List Tomb → Nat → Option (Nat × Nat) → Option (Nat × Nat)
  | [], _, acc => acc
  | t :: ts, i, acc =>
    if t.seq = 0 then scanLatest ts (i + 1) acc
    else
      match acc with
      | none => scanLatest ts (i + 1) (some (t.seq, i))
      | some (s, j) => if s > t.seq then scanLatest ts (i + 1) (some (s, j)) else scanLatest ts (i + 1) (some (t.seq, i))

def latestIndex (slots : List Tomb) : Nat := ((scanLatest slots 0 none).map (·.2)).getD 0

/-- `TombstoneLog::open` on a device image. -/
def openLog (pages : Nat) (slots : List Tomb) : Log :=
  { pages, slots, tail := latestIndex slots + 1 }

inductive Op where
  | append (t : Tomb)
  | reopen
deriving Repr

def step (l : Log) : Op → Log
  | .append t => append l t
  | .reopen => openLog l.pages l.slots

def run (l : Log) (ops : List Op) : Log := ops.foldl step l

def fresh (pages : Nat) : Log := openLog pages (List.replicate (pages * SPP) empty)

/-- the tombstones an operation sequence appended, in order -/
def appended : List Op → List Tomb
  | [] => []
  | .append t :: ops => t :: appended ops
  | .reopen :: ops => appended ops

end Foyer.Tomb
