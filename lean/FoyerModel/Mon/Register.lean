/-
  FoyerModel.Mon.Register — exact linearizability check of a recorded concurrent history against the
  per-key *register whose reads may additionally miss* (the specification C02 states, and the one
  `Foyer.C02.concurrent_reads_latest` proves of the model).

  The check is exact for the given history: a depth-first search over all linearization orders that
  respect real time (Wing & Gong), per key.
-/
namespace Foyer.Mon.Register

inductive Kind where
  | write (v : Option Nat)          -- insert (`some ver`), disk-only insert / clear (`none`)
  | del (ret : Option Nat)          -- remove, returning the removed version or a miss
  | read (ret : Option Nat)         -- get: a version or a miss
  | present                         -- contains / touch returned true
  | noop
deriving Repr, DecidableEq

structure Call where
  inv : Nat
  res : Nat
  kind : Kind
deriving Repr, DecidableEq

/-- Apply a call at its linearization point to the register; `none` = not allowed here. -/
def apply (reg : Option Nat) : Kind → Option (Option Nat)
  | .write v => some v
  | .del none => some none                     -- a remove that missed: whatever was there is gone
  | .del (some v) => if reg = some v then some none else none
  | .read none => some reg                     -- reads may miss
  | .read (some v) => if reg = some v then some reg else none
  | .present => if reg.isSome then some reg else none
  | .noop => some reg

/-- Calls that may be linearized next: no other remaining call finished before they started. -/
def minimal (rem : List Call) : List Call :=
  rem.filter fun c => rem.all fun d => !(d.res < c.inv)

def search : Nat → List Call → Option Nat → Bool
  | 0, rem, _ => rem.isEmpty
  | fuel + 1, rem, reg =>
    rem.isEmpty ||
      (minimal rem).any fun c =>
        match apply reg c.kind with
        | none => false
        | some reg' => search fuel (rem.erase c) reg'

/-- Is the per-key history linearizable w.r.t. the register-with-misses? -/
def linearizable (calls : List Call) : Bool := search (calls.length + 1) calls none

end Foyer.Mon.Register
