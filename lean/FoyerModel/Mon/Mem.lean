import FoyerModel.Mem
/-
  FoyerModel.Mon.Mem — executable *property monitors* for the in-memory cache properties
  (C02, C05, C13, C17, C18), evaluated on an *observed* trace of the implementation.

  The monitor never looks at the model state: it reconstructs what the properties talk about (which
  record is resident for a key, how many handles are outstanding, which records were looked up and
  are still held) from the operations issued and the implementation's own notifications, and checks
  every clause of the properties on the implementation's own answers.  It is used (a) to classify
  a correspondence mismatch (does the property fail on this very trace?) and (b) as an independent
  run-time cross-check of the theorems: a trace accepted by the model must satisfy the monitor.
-/
namespace Foyer.Mon

structure ORec where
  rid : Nat
  key : Nat
  ver : Nat
deriving DecidableEq, Repr

inductive ORet where
  | unit | miss | bad | panic
  | bool (b : Bool)
  | handle (r : ORec)
deriving DecidableEq, Repr

/-- One observed step of the implementation. -/
structure MemObs where
  op : Op
  ret : ORet
  leaves : List (Reason × ORec)
  piped : List ORec
  /-- state observations; `none` when the line does not carry them (the outer line of an operation
  whose callbacks re-enter the cache) -/
  usage : Option Nat
  entries : Option Nat
  has : Option (List Nat)
  /-- `(rid, refs, is_outdated)` for every record the harness holds a handle to -/
  held : Option (List (Nat × Nat × Bool))
  stable : Bool
  /-- hand-offs observed separately from the nested operations' (absent in re-entrant traces) -/
  pipedKnown : Bool := true

structure MRec where
  rid : Nat
  key : Nat
  ver : Nat
  weight : Nat
  phantom : Bool
  shard : Nat
deriving Repr

structure St where
  recs : List MRec := []
  /-- key ↦ rid of the record a lookup should find -/
  resident : List (Nat × Nat) := []
  /-- rids that already produced their leave notification -/
  left : List Nat := []
  /-- rid ↦ number of handles the harness holds -/
  nheld : List (Nat × Nat) := []
  /-- rids looked up (acquired) while resident and held ever since (LRU: pinned) -/
  pinned : List Nat := []
  /-- rids that were pinned once and whose last handle has been dropped since (must be evictable again) -/
  released : List Nat := []
  caps : List Nat := []
  nextRid : Nat := 0

structure Params where
  cfg : Cfg
  isLru : Bool

structure Fail where
  prop : String
  clause : String
  detail : String

def findRec (st : St) (rid : Nat) : Option MRec := st.recs.find? (·.rid = rid)
def assoc (l : List (Nat × Nat)) (k : Nat) : Option Nat := (l.find? (·.1 = k)).map (·.2)
def assocDel (l : List (Nat × Nat)) (k : Nat) : List (Nat × Nat) := l.filter (·.1 ≠ k)
def assocSet (l : List (Nat × Nat)) (k v : Nat) : List (Nat × Nat) := (k, v) :: assocDel l k
def nheldOf (st : St) (rid : Nat) : Nat := (assoc st.nheld rid).getD 0
def weightOf (st : St) (rid : Nat) : Nat := ((findRec st rid).map (·.weight)).getD 0
def shardOfRid (st : St) (rid : Nat) : Nat := ((findRec st rid).map (·.shard)).getD 0

def shardUsage (st : St) (i : Nat) : Nat :=
  ((st.resident.filter fun (_, rid) => shardOfRid st rid = i).map fun (_, rid) => weightOf st rid).sum

def totalUsage (st : St) : Nat := (st.resident.map fun (_, rid) => weightOf st rid).sum

def incHeld (st : St) (rid : Nat) : St := { st with nheld := assocSet st.nheld rid (nheldOf st rid + 1) }

def sortNat (l : List Nat) : List Nat :=
  l.foldr (fun x acc => (acc.filter (· < x)) ++ [x] ++ (acc.filter (· ≥ x))) []

/-- Check that each victim (in order) was popped while `usage > target`, and that the loop only
stopped when the target was met or nothing poppable was left.  Returns the usage after. -/
def checkVictims (st : St) (p : Params) (shard target : Nat) (victims : List Nat) (exclude : List Nat) :
    Option Fail :=
  let rec go (u : Nat) : List Nat → Option Fail × Nat
    | [] => (none, u)
    | v :: vs =>
      if u > target then go (u - weightOf st v) vs
      else (some { prop := "C05", clause := "evict_only_while_over",
                   detail := s!"victim rid={v} evicted although usage {u} <= target {target} (shard {shard})" }, u)
  match go (shardUsage st shard) victims with
  | (some f, _) => some f
  | (none, u) =>
    if u ≤ target then none
    else
      -- still over target: everything left in the shard must be unevictable
      let rest := st.resident.filter fun (_, rid) =>
        shardOfRid st rid = shard && !victims.contains rid && !exclude.contains rid
      let evictable := rest.filter fun (_, rid) => !(p.isLru && st.pinned.contains rid)
      if evictable.isEmpty then none
      else if p.isLru && (evictable.any fun (_, rid) => st.released.contains rid) then
        -- C18: the entry was pinned by a lookup and its last handle is gone; it must have become evictable again
        some { prop := "C05+C18", clause := "released_entry_evictable_again",
               detail := s!"shard {shard}: usage {u} > target {target} after the evictions although rid {((evictable.filter fun (_, rid) => st.released.contains rid).map (·.2))} was released by its last handle" }
      else some { prop := "C05", clause := "evict_until_within_capacity",
                  detail := s!"shard {shard}: usage {u} > target {target} after the evictions but rid {(evictable.map (·.2))} evictable" }

def victimsOfShard (st : St) (o : MemObs) (i : Nat) : List Nat :=
  (o.leaves.filter fun (e, r) => e = Reason.evict && shardOfRid st r.rid = i).map (·.2.rid)

def firstFail : List (Option Fail) → Option Fail
  | [] => none
  | some f :: _ => some f
  | none :: r => firstFail r

/-- Apply the leave notifications of a step to the reconstruction, checking C13's clauses. -/
def applyLeaves (st : St) (o : MemObs) : St × Option Fail :=
  o.leaves.foldl (fun (acc : St × Option Fail) (e, r) =>
    let (st, fl) := acc
    match findRec st r.rid with
    | none => (st, fl <|> some { prop := "C13", clause := "leave_of_unknown_entry", detail := s!"rid={r.rid}" })
    | some m =>
      let identOk := m.key = r.key && m.ver = r.ver
      let f1 := if identOk then none else
        some { prop := "C13", clause := "leave_identity", detail := s!"rid={r.rid} reported key/ver {r.key}/{r.ver}, inserted {m.key}/{m.ver}" }
      if m.phantom then
        -- disk-only entries: `Remove` at insert, `Evict` (+ hand-off) when the last handle goes
        (st, fl <|> f1)
      else
        let f2 := if st.left.contains r.rid then
            some { prop := "C13", clause := "exactly_one_leave", detail := s!"second leave notification for rid={r.rid}" }
          else none
        let f3 := if assoc st.resident m.key = some r.rid then none else
          some { prop := "C13", clause := "leave_of_non_resident", detail := s!"rid={r.rid} notified ({e.toString}) but not the resident entry of key {m.key}" }
        ({ st with left := r.rid :: st.left, resident := if assoc st.resident m.key = some r.rid then assocDel st.resident m.key else st.resident,
                   pinned := st.pinned.filter (· ≠ r.rid) },
         fl <|> f1 <|> f2 <|> f3)) (st, none)

/-- Reasons must match what happened. -/
def checkReasons (st : St) (o : MemObs) : Option Fail :=
  firstFail (o.leaves.map fun (e, r) =>
    let ph := ((findRec st r.rid).map (·.phantom)).getD false
    let ok : Bool := match e, o.op with
      | .evict, .ins .. => !ph
      | .evict, .resize _ => !ph
      | .evict, .evictAll => !ph
      | .evict, .flush => !ph
      | .evict, .drop rid => ph && rid = r.rid
      | .replace, .ins key .. => r.key = key && !ph
      | .remove, .remove key => r.key = key && !ph
      | .remove, .ins key .. => ph && r.key = key
      | .clear, .clear => !ph
      | _, _ => false
    if ok then none else
      some { prop := "C13", clause := "reason_matches_cause", detail := s!"{e.toString} for rid={r.rid} during {repr o.op}" })

def step (p : Params) (st : St) (o : MemObs) : St × Option Fail :=
  -- 0. what the harness does with handles / new records (inputs, not observations)
  let newRec : Option MRec := match o.op with
    | .ins key ver weight _ phantom _ _ =>
      some { rid := st.nextRid, key, ver, weight, phantom, shard := p.cfg.shardOf (p.cfg.H key) }
    | _ => none
  let stR : St := match newRec with
    | some m => { st with recs := m :: st.recs, nextRid := st.nextRid + 1 }
    | none => st
  -- 1. C02 / C17: a lookup returns nothing or the resident (= latest not superseded) value of *that* key
  let fLookup : Option Fail := match o.op, o.ret with
    | .get key, .handle r =>
      if r.key ≠ key then some { prop := "C17", clause := "foreign_value", detail := s!"get {key} returned an entry of key {r.key}" }
      else if assoc st.resident key = some r.rid && ((findRec st r.rid).map (·.ver)) = some r.ver then none
      else some { prop := "C02", clause := "stale_or_unknown_value", detail := s!"get {key} returned rid={r.rid} ver={r.ver}, resident is {repr (assoc st.resident key)}" }
    | .remove key, .handle r =>
      if r.key ≠ key then some { prop := "C17", clause := "foreign_value", detail := s!"remove {key} returned an entry of key {r.key}" }
      else if assoc st.resident key = some r.rid then none
      else some { prop := "C02", clause := "stale_or_unknown_value", detail := s!"remove {key} returned rid={r.rid}" }
    | .contains key, .bool true =>
      if (assoc st.resident key).isSome then none
      else some { prop := "C02", clause := "contains_of_absent", detail := s!"contains {key} = true" }
    | .touch key, .bool true =>
      if (assoc st.resident key).isSome then none
      else some { prop := "C02", clause := "contains_of_absent", detail := s!"touch {key} = true" }
    | .ins key ver .., .handle r =>
      if r.key = key && r.ver = ver && r.rid = st.nextRid then none
      else some { prop := "C02", clause := "insert_returns_other_entry", detail := s!"insert {key} v{ver} returned rid={r.rid} {r.key}/{r.ver}" }
    | _, .panic => some { prop := "C05", clause := "no_panic", detail := "operation panicked" }
    | _, _ => none
  -- 2. C05: evictions are necessary and sufficient (judged on the pre-state reconstruction)
  let nsh := p.cfg.nshards
  let fEvict : Option Fail := match o.op with
    | .ins key _ weight _ phantom _ _ =>
      let i := p.cfg.shardOf (p.cfg.H key)
      let vict := (o.leaves.filter fun (e, _) => e = Reason.evict).map (·.2.rid)
      if phantom then
        (if vict.isEmpty then none else some { prop := "C05", clause := "evict_only_while_over", detail := "a disk-only insert evicted entries" })
      else
        let wrongShard := vict.filter fun v => shardOfRid st v ≠ i
        if !wrongShard.isEmpty then some { prop := "C05", clause := "evict_only_while_over", detail := s!"victims {wrongShard} are in another shard" }
        else checkVictims st p i ((st.caps.getD i 0) - weight) vict []
    | .evictAll => firstFail ((List.range nsh).map fun i => checkVictims st p i 0 (victimsOfShard st o i) [])
    | .flush => firstFail ((List.range nsh).map fun i => checkVictims st p i 0 (victimsOfShard st o i) [])
    | .resize cap => firstFail ((List.range nsh).map fun i =>
        checkVictims st p i (shardCapacityFor cap nsh i) (victimsOfShard st o i) [])
    | _ =>
      if (o.leaves.any fun (e, r) => e = Reason.evict && !(((findRec stR r.rid).map (·.phantom)).getD false)) then
        some { prop := "C05", clause := "evict_only_while_over", detail := s!"eviction during {repr o.op}" }
      else none
  -- C18: under LRU an entry that was looked up and is still held is never a victim
  let fPinned : Option Fail :=
    if p.isLru then
      firstFail (o.leaves.map fun (e, r) =>
        if e = Reason.evict && st.pinned.contains r.rid then
          some { prop := "C18", clause := "held_entry_not_evicted_under_lru", detail := s!"rid={r.rid} evicted while a looked-up handle is held" }
        else none)
    else none
  -- 3. C13: notifications
  let fReason := checkReasons stR o
  let fPipe : Option Fail :=
    let ev := (o.leaves.filter fun (e, _) => e = Reason.evict).map (·.2)
    -- `resize` works on the shards in parallel threads: notifications and hand-offs of different shards
    -- interleave freely, only the order within a shard is defined
    let same : Bool := match o.op with
      | .resize _ => (List.range nsh).all fun i =>
          (ev.filter fun r => shardOfRid st r.rid = i) = (o.piped.filter fun r => shardOfRid st r.rid = i)
      | _ => ev = o.piped
    if !o.pipedKnown || same then none
    else some { prop := "C13", clause := "disk_handoff_iff_evicted", detail := s!"evicted {repr (ev.map (·.rid))} handed off {repr (o.piped.map (·.rid))}" }
  let fPhantom : Option Fail := match o.op with
    | .drop rid =>
      if o.pipedKnown && ((findRec st rid).map (·.phantom)).getD false && nheldOf st rid = 1 then
        (if o.piped.map (·.rid) = [rid] then none
         else some { prop := "C13", clause := "disk_only_entry_handed_off_once", detail := s!"last handle of disk-only rid={rid} dropped, handed off: {repr (o.piped.map (·.rid))}" })
      else none
    | _ => none
  let (st1, fLeave) := applyLeaves stR o
  -- 4. new state of the reconstruction
  let st2 : St := match o.op, newRec with
    | .ins .., some m =>
      let s := incHeld st1 m.rid
      if m.phantom then s else { s with resident := assocSet s.resident m.key m.rid }
    | .get _, _ => (match o.ret with
        | .handle r => { incHeld st1 r.rid with pinned := if st1.pinned.contains r.rid then st1.pinned else r.rid :: st1.pinned }
        | _ => st1)
    | .touch key, _ => (match o.ret, assoc st1.resident key with
        | .bool true, some rid =>
          if nheldOf st1 rid > 0 && !st1.pinned.contains rid then { st1 with pinned := rid :: st1.pinned } else st1
        | _, _ => st1)
    | .remove _, _ => (match o.ret with
        | .handle r => incHeld st1 r.rid
        | _ => st1)
    | .clone rid, _ => if nheldOf st1 rid > 0 then incHeld st1 rid else st1
    | .drop rid, _ =>
      let n := nheldOf st1 rid
      if n = 0 then st1
      else if n = 1 then { st1 with nheld := assocDel st1.nheld rid, pinned := st1.pinned.filter (· ≠ rid),
                                    released := if st1.pinned.contains rid then rid :: st1.released else st1.released }
      else { st1 with nheld := assocSet st1.nheld rid (n - 1) }
    | .resize cap, _ => { st1 with caps := (List.range nsh).map fun i => shardCapacityFor cap nsh i }
    | _, _ => st1
  -- a replaced / removed / evicted record is no longer pinned (it left the eviction container)
  -- 5. C05 / C13: accounting and findability on the post-state
  let expHas := sortNat (st2.resident.map (·.1))
  let fHas : Option Fail :=
    match o.has with
    | none => none
    | some ohas =>
    if sortNat ohas = expHas then none
    else
      let ghosts := ohas.filter fun k => !expHas.contains k
      if !ghosts.isEmpty then some { prop := "C13", clause := "not_findable_once_notified", detail := s!"keys {ghosts} still findable after their leave notification" }
      else some { prop := "C13", clause := "every_leave_is_notified", detail := s!"keys {expHas.filter fun k => !ohas.contains k} vanished without a leave notification" }
  let fUsage : Option Fail :=
    match o.usage, o.entries with
    | some u, some en =>
      if u ≠ totalUsage st2 then some { prop := "C05", clause := "usage_exact", detail := s!"usage()={u}, findable entries weigh {totalUsage st2}" }
      else if en ≠ st2.resident.length then some { prop := "C05", clause := "entries_exact", detail := s!"entries()={en}, findable entries: {st2.resident.length}" }
      else none
    | _, _ => none
  -- 6. C18: handles
  let fHeld : Option Fail :=
    match o.held with
    | none => none
    | some oheld =>
    let expRids := sortNat (st2.nheld.map (·.1))
    if sortNat (oheld.map (·.1)) ≠ expRids then none   -- harness bookkeeping, not an observation
    else firstFail (oheld.map fun (rid, refs, outdated) =>
      if refs ≠ nheldOf st2 rid then
        some { prop := "C18", clause := "refs_equal_outstanding_handles", detail := s!"rid={rid} refs()={refs} but {nheldOf st2 rid} handles are outstanding" }
      else
        let key := ((findRec st2 rid).map (·.key)).getD 0
        let exp : Bool := assoc st2.resident key ≠ some rid
        if outdated ≠ exp then
          some { prop := "C18", clause := "is_outdated_truthful", detail := s!"rid={rid} is_outdated()={outdated} but a lookup of key {key} finds {repr (assoc st2.resident key)}" }
        else none)
  let fStable : Option Fail :=
    if o.stable then none else some { prop := "C18", clause := "held_data_unchanged", detail := "key/value/weight read through a held handle changed" }
  (st2, firstFail [fLookup, fEvict, fPinned, fReason, fPipe, fPhantom, fLeave, fHas, fUsage, fHeld, fStable])

def init (p : Params) (capacity : Nat) : St :=
  { caps := (List.range p.cfg.nshards).map fun i => shardCapacityFor capacity p.cfg.nshards i }

/-- Run the monitor over an observed trace: the first failing clause with its step index. -/
def run (p : Params) (capacity : Nat) (obs : List MemObs) : Option (Nat × Fail) :=
  let rec go (st : St) (i : Nat) : List MemObs → Option (Nat × Fail)
    | [] => none
    | o :: os =>
      match step p st o with
      | (_, some f) => some (i, f)
      | (st', none) => go st' (i + 1) os
  go (init p capacity) 0 obs

end Foyer.Mon
