import FoyerModel.Basic
/-
  FoyerModel.Policy — the contract of `foyer_memory::eviction::Eviction` as a record of pure
  functions over a policy state `σ`, and the laws every policy has to obey (`Lawful`).

  `members s` is the list of records whose `IN_EVICTION` flag is set (for LRU this includes the
  pinned list: a pinned record is "in eviction" but cannot be popped).
-/
namespace Foyer

structure Policy (σ : Type) where
  /-- `Eviction::new(capacity, config)`; the configuration is captured in the closure. -/
  init : Nat → σ
  push : σ → Rec → σ
  pop : σ → Option (Rec × σ)
  /-- `Eviction::remove`; the caller guarantees membership. -/
  remove : σ → Rec → σ
  /-- `Eviction::acquire()` applied to a record (called on every successful lookup). -/
  acquire : σ → Rec → σ
  /-- `Eviction::release()` applied to a record (called when the last handle is dropped). -/
  release : σ → Rec → σ
  /-- `Eviction::update(capacity, None)`. -/
  update : σ → Nat → σ
  clear : σ → σ
  members : σ → List Rec

/-- The `Eviction` trait contract.  `Ok` is the policy's own representation invariant. -/
structure Lawful {σ : Type} (P : Policy σ) (Ok : σ → Prop) : Prop where
  init_ok : ∀ cap, Ok (P.init cap)
  init_members : ∀ cap, P.members (P.init cap) = []
  nodup : ∀ s, Ok s → ((P.members s).map (·.id)).Nodup
  push_ok : ∀ s r, Ok s → r.id ∉ (P.members s).map (·.id) → Ok (P.push s r)
  push_mem : ∀ s r, Ok s → r.id ∉ (P.members s).map (·.id) →
    ∀ x, x ∈ P.members (P.push s r) ↔ x = r ∨ x ∈ P.members s
  pop_ok : ∀ s r s', Ok s → P.pop s = some (r, s') → Ok s'
  pop_mem : ∀ s r s', Ok s → P.pop s = some (r, s') →
    r ∈ P.members s ∧ ∀ x, x ∈ P.members s' ↔ (x ∈ P.members s ∧ x ≠ r)
  remove_ok : ∀ s r, Ok s → r ∈ P.members s → Ok (P.remove s r)
  remove_mem : ∀ s r, Ok s → r ∈ P.members s →
    ∀ x, x ∈ P.members (P.remove s r) ↔ (x ∈ P.members s ∧ x ≠ r)
  acquire_ok : ∀ s r, Ok s → Ok (P.acquire s r)
  acquire_mem : ∀ s r, Ok s → ∀ x, x ∈ P.members (P.acquire s r) ↔ x ∈ P.members s
  release_ok : ∀ s r, Ok s → Ok (P.release s r)
  release_mem : ∀ s r, Ok s → ∀ x, x ∈ P.members (P.release s r) ↔ x ∈ P.members s
  update_ok : ∀ s c, Ok s → Ok (P.update s c)
  update_mem : ∀ s c, Ok s → ∀ x, x ∈ P.members (P.update s c) ↔ x ∈ P.members s
  clear_ok : ∀ s, Ok s → Ok (P.clear s)
  clear_mem : ∀ s, Ok s → P.members (P.clear s) = []

end Foyer
