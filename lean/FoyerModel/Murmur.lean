/-
  FoyerModel.Murmur — MurmurHash3 x64_128 (first word) for an 8-byte little-endian input, exactly
  as `datasketches::hash::MurmurHash3X64128` computes it, and the count-min sketch geometry derived
  from it (`make_hash_seeds`, `bucket_index`).
-/
namespace Foyer.Murmur

def C1 : UInt64 := 0x87c37b91114253d5
def C2 : UInt64 := 0x4cf5ad432745937f

def rotl (x : UInt64) (r : UInt64) : UInt64 := (x <<< r) ||| (x >>> (64 - r))

def fmix64 (k : UInt64) : UInt64 :=
  let k := k ^^^ (k >>> 33)
  let k := k * 0xff51afd7ed558ccd
  let k := k ^^^ (k >>> 33)
  let k := k * 0xc4ceb9fe1a85ec53
  k ^^^ (k >>> 33)

/-- `h1` of MurmurHash3-x64-128 with `seed` over the 8 little-endian bytes of `x`. -/
def hash8 (seed : UInt64) (x : UInt64) : UInt64 :=
  let k1 := x * C1
  let k1 := rotl k1 31
  let k1 := k1 * C2
  let h1 := seed ^^^ k1
  let h2 := seed
  let h1 := h1 ^^^ 8
  let h2 := h2 ^^^ 8
  let h1 := h1 + h2
  let h2 := h2 + h1
  let h1 := fmix64 h1
  let h2 := fmix64 h2
  h1 + h2

/-- `DEFAULT_UPDATE_SEED` -/
def updateSeed : UInt64 := 9001

/-- `make_hash_seeds`: the seed of row `i`. -/
def rowSeed (i : Nat) : UInt64 := hash8 updateSeed (UInt64.ofNat i)

/-- `bucket_index` of `hash` in `row`, as an absolute counter index. -/
def bucket (numBuckets : Nat) (row hash : Nat) : Nat :=
  row * numBuckets + (hash8 (rowSeed row) (UInt64.ofNat hash)).toNat % numBuckets

end Foyer.Murmur
