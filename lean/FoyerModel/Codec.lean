/-
  FoyerModel.Codec — byte-level model of the disk format.

  * `foyer_common::code::Code` for the built-in types: integers / floats (as bit patterns)
    little-endian fixed width (`usize` / `isize` are 8 bytes), `bool` one byte, `Vec<u8>` / `Bytes` /
    `String` a `u64` LE length followed by the bytes;
  * the entry header (`foyer-storage/src/engine/block/serde.rs`): 36 bytes, big-endian fields
    (the `bytes` crate's `put_u32` / `put_u64`), magic `0x97032700 | compression`;
  * an entry on disk: `header ‖ value ‖ key`;
  * the blob-index entry (24 bytes) and the tombstone slot (16 bytes), big-endian.

  Bytes are naturals `< 256`.
-/
namespace Foyer.Codec

abbrev Bytes := List Nat

def wfBytes (bs : Bytes) : Prop := ∀ b ∈ bs, b < 256

/-- little-endian, `w` bytes -/
def encLE : Nat → Nat → Bytes
  | 0, _ => []
  | w + 1, n => (n % 256) :: encLE w (n / 256)

def decLE : Nat → Bytes → Option (Nat × Bytes)
  | 0, bs => some (0, bs)
  | _ + 1, [] => none
  | w + 1, b :: bs =>
    match decLE w bs with
    | none => none
    | some (v, rest) => some (b + 256 * v, rest)

/-- big-endian, `w` bytes (`BufMut::put_u32` / `put_u64`) -/
def encBE : Nat → Nat → Bytes
  | 0, _ => []
  | w + 1, n => (n / 256 ^ w % 256) :: encBE w (n % 256 ^ w)

def decBEAux : Nat → Nat → Bytes → Option (Nat × Bytes)
  | 0, acc, bs => some (acc, bs)
  | _ + 1, _, [] => none
  | w + 1, acc, b :: bs => decBEAux w (acc * 256 + b) bs

def decBE (w : Nat) (bs : Bytes) : Option (Nat × Bytes) := decBEAux w 0 bs

/-- two's complement signed integers of `w` bytes -/
def encInt (w : Nat) (i : Int) : Bytes := encLE w (i % (256 ^ w : Nat)).toNat

def decInt (w : Nat) (bs : Bytes) : Option (Int × Bytes) :=
  match decLE w bs with
  | none => none
  | some (n, rest) => some (if 2 * n < 256 ^ w then (n : Int) else (n : Int) - (256 ^ w : Nat), rest)

def encBool (b : Bool) : Bytes := [if b then 1 else 0]

inductive DecErr where
  | eof            -- `read_exact` failed (io error)
  | parse          -- invalid bool byte / invalid UTF-8 / invalid compression tag
  | magic
deriving DecidableEq, Repr

def decBool : Bytes → Except DecErr (Bool × Bytes)
  | [] => .error .eof
  | 0 :: rest => .ok (false, rest)
  | 1 :: rest => .ok (true, rest)
  | _ :: _ => .error .parse

/-- `Vec<u8>` / `Bytes`: `len: u64 LE` then the bytes -/
def encVec (bs : Bytes) : Bytes := encLE 8 bs.length ++ bs

def decVec (bs : Bytes) : Except DecErr (Bytes × Bytes) :=
  match decLE 8 bs with
  | none => .error .eof
  | some (len, rest) => if rest.length < len then .error .eof else .ok (rest.take len, rest.drop len)

/-- `String`: as `Vec<u8>`, decoding additionally requires valid UTF-8 (a parameter). -/
def decString (valid : Bytes → Bool) (bs : Bytes) : Except DecErr (Bytes × Bytes) :=
  match decVec bs with
  | .error e => .error e
  | .ok (s, rest) => if valid s then .ok (s, rest) else .error .parse

/-! ### entry header -/

structure Header where
  keyLen : Nat
  valueLen : Nat
  hash : Nat
  seq : Nat
  checksum : Nat
  compression : Nat      -- 0 none, 1 zstd, 2 lz4
deriving DecidableEq, Repr

def HEADER_LEN : Nat := 36
def ENTRY_MAGIC : Nat := 0x97032700

def Header.wf (h : Header) : Prop :=
  h.keyLen < 2 ^ 32 ∧ h.valueLen < 2 ^ 32 ∧ h.hash < 2 ^ 64 ∧ h.seq < 2 ^ 64 ∧ h.checksum < 2 ^ 64 ∧ h.compression ≤ 2

def encHeader (h : Header) : Bytes :=
  encBE 4 h.keyLen ++ encBE 4 h.valueLen ++ encBE 8 h.hash ++ encBE 8 h.seq ++ encBE 8 h.checksum ++
    encBE 4 (ENTRY_MAGIC + h.compression)

def decHeader (bs : Bytes) : Except DecErr (Header × Bytes) :=
  match decBE 4 bs with
  | none => .error .eof
  | some (keyLen, r1) =>
  match decBE 4 r1 with
  | none => .error .eof
  | some (valueLen, r2) =>
  match decBE 8 r2 with
  | none => .error .eof
  | some (hash, r3) =>
  match decBE 8 r3 with
  | none => .error .eof
  | some (seq, r4) =>
  match decBE 8 r4 with
  | none => .error .eof
  | some (checksum, r5) =>
  match decBE 4 r5 with
  | none => .error .eof
  | some (v, r6) =>
    if v / 256 * 256 ≠ ENTRY_MAGIC then .error .magic
    else if v % 256 > 2 then .error .parse
    else .ok ({ keyLen, valueLen, hash, seq, checksum, compression := v % 256 }, r6)

/-! ### a whole entry (compression = none): `header ‖ value ‖ key` -/

/-- Serialize an entry whose key / value are already `Code`-encoded byte strings `k`, `v`;
`cs` is the checksum function (XxHash64 of `v ‖ k`). -/
def encEntry (cs : Bytes → Nat) (hash seq : Nat) (k v : Bytes) : Bytes :=
  encHeader { keyLen := k.length, valueLen := v.length, hash, seq, checksum := cs (v ++ k), compression := 0 } ++ v ++ k

inductive LoadErr where
  | header (e : DecErr)
  | outOfRange
  | checksum
deriving DecidableEq, Repr

/-- What `load` does with the bytes read at an address: parse the header, check the range and the
checksum, split value and key (compression = none). -/
def decEntry (cs : Bytes → Nat) (bs : Bytes) : Except LoadErr (Header × Bytes × Bytes) :=
  match decHeader bs with
  | .error e => .error (.header e)
  | .ok (h, rest) =>
    if rest.length < h.valueLen + h.keyLen then .error .outOfRange
    else if cs (rest.take (h.valueLen + h.keyLen)) ≠ h.checksum then .error .checksum
    else .ok (h, (rest.take h.valueLen), ((rest.drop h.valueLen).take h.keyLen))

/-! ### blob-index entries and tombstones (big-endian) -/

structure IndexEnt where
  hash : Nat
  seq : Nat
  offset : Nat
  len : Nat
deriving DecidableEq, Repr

def encIndexEnt (e : IndexEnt) : Bytes := encBE 8 e.hash ++ encBE 8 e.seq ++ encBE 4 e.offset ++ encBE 4 e.len

def decIndexEnt (bs : Bytes) : Option (IndexEnt × Bytes) :=
  match decBE 8 bs with
  | none => none
  | some (hash, r1) =>
  match decBE 8 r1 with
  | none => none
  | some (seq, r2) =>
  match decBE 4 r2 with
  | none => none
  | some (offset, r3) =>
  match decBE 4 r3 with
  | none => none
  | some (len, r4) => some ({ hash, seq, offset, len }, r4)

def PAGE : Nat := 4096

def alignUp (a n : Nat) : Nat := (n + a - 1) / a * a

/-! ### `Buffer::push` bookkeeping -/

structure Buf where
  cap : Nat              -- size of the io buffer
  written : Nat
  maxEntry : Nat         -- `block_size - blob_index_size`
  infos : List (Nat × Nat × Nat × Nat)   -- (hash, seq, offset, len)
deriving DecidableEq, Repr

/-- `Buffer::push` for an entry whose serialized payload has `klen + vlen` bytes: either the entry
is recorded as a whole and the buffer advances by the aligned length, or nothing changes. -/
def Buf.push (b : Buf) (hash seq klen vlen : Nat) : Buf × Bool :=
  let room := b.cap - b.written
  if room < HEADER_LEN then (b, false)
  else if room - HEADER_LEN < klen + vlen then (b, false)          -- serialization hits the end of the buffer
  else
    let len := HEADER_LEN + klen + vlen
    let aligned := alignUp PAGE len
    if aligned > b.maxEntry then (b, false)
    else ({ b with written := b.written + aligned, infos := b.infos ++ [(hash, seq, b.written, len)] }, true)

end Foyer.Codec
