/-
  FoyerModel.Conc — the interleaving semantics "every call is invoke ; one atomic step ; respond"
  over an arbitrary sequential object, with explicit timestamps.  Used for C02 Part B.
-/
namespace Foyer.Conc

structure SeqObj (S O R : Type) where
  init : S
  step : S → O → S × R

inductive Action (O : Type) where
  | inv (t : Nat) (op : O)     -- thread `t` invokes `op`
  | lin (t : Nat)              -- thread `t` takes the lock and performs its atomic step
  | res (t : Nat)              -- thread `t` returns

inductive TStatus (O R : Type) where
  | idle
  | pending (id : Nat) (op : O)
  | done (id : Nat) (op : O) (ret : R)

/-- History events (what an outside observer sees) and linearization records, with timestamps. -/
structure InvEv (O : Type) where
  id : Nat
  time : Nat
  op : O
structure ResEv (R : Type) where
  id : Nat
  time : Nat
  ret : R
structure LinRec (O R : Type) where
  id : Nat
  time : Nat
  op : O
  ret : R

structure CState (S O R : Type) where
  obj : S
  th : Nat → TStatus O R
  nextId : Nat
  time : Nat
  invs : List (InvEv O)
  ress : List (ResEv R)
  lins : List (LinRec O R)      -- oldest first

def CState.init {S O R : Type} (o : SeqObj S O R) : CState S O R :=
  { obj := o.init, th := fun _ => .idle, nextId := 0, time := 0, invs := [], ress := [], lins := [] }

def setTh {O R : Type} (th : Nat → TStatus O R) (t : Nat) (st : TStatus O R) : Nat → TStatus O R :=
  fun u => if u = t then st else th u

/-- One action; actions that are not enabled (e.g. `lin` of an idle thread) only advance the clock. -/
def cstep {S O R : Type} (o : SeqObj S O R) (c : CState S O R) : Action O → CState S O R
  | .inv t op =>
    match c.th t with
    | .idle => { c with th := setTh c.th t (.pending c.nextId op), nextId := c.nextId + 1, time := c.time + 1,
                        invs := c.invs ++ [{ id := c.nextId, time := c.time, op }] }
    | _ => { c with time := c.time + 1 }
  | .lin t =>
    match c.th t with
    | .pending id op =>
      let (s', r) := o.step c.obj op
      { c with obj := s', th := setTh c.th t (.done id op r), time := c.time + 1,
               lins := c.lins ++ [{ id, time := c.time, op, ret := r }] }
    | _ => { c with time := c.time + 1 }
  | .res t =>
    match c.th t with
    | .done id _ r => { c with th := setTh c.th t .idle, time := c.time + 1,
                                ress := c.ress ++ [{ id, time := c.time, ret := r }] }
    | _ => { c with time := c.time + 1 }

def crun {S O R : Type} (o : SeqObj S O R) (c : CState S O R) (as : List (Action O)) : CState S O R :=
  as.foldl (cstep o) c

/-- Run the sequential object over a list of operations, returning the final state and results. -/
def seqRun {S O R : Type} (o : SeqObj S O R) (s : S) : List O → S × List R
  | [] => (s, [])
  | op :: ops =>
    let (s1, r) := o.step s op
    let (s2, rs) := seqRun o s1 ops
    (s2, r :: rs)

end Foyer.Conc
