/-
  FoyerModel.XxHash — XxHash64 (seed 0 by default), as `twox_hash::XxHash64::oneshot` computes it.
  Used by the independent image reader of the driver (entry checksums, blob-index checksums).
-/
namespace Foyer.XxHash

def P1 : UInt64 := 11400714785074694791
def P2 : UInt64 := 14029467366897019727
def P3 : UInt64 := 1609587929392839161
def P4 : UInt64 := 9650029242287828579
def P5 : UInt64 := 2870177450012600261

def rotl (x : UInt64) (r : UInt64) : UInt64 := (x <<< r) ||| (x >>> (64 - r))

def round (acc input : UInt64) : UInt64 := rotl (acc + input * P2) 31 * P1

def mergeRound (acc val : UInt64) : UInt64 := (acc ^^^ round 0 val) * P1 + P4

def read64 (bs : List UInt8) : UInt64 :=
  (bs.take 8).reverse.foldl (fun acc b => (acc <<< 8) ||| b.toUInt64) 0

def read32 (bs : List UInt8) : UInt64 :=
  (bs.take 4).reverse.foldl (fun acc b => (acc <<< 8) ||| b.toUInt64) 0

/-- 32-byte stripes -/
def stripes : Nat → List UInt8 → UInt64 × UInt64 × UInt64 × UInt64 → (UInt64 × UInt64 × UInt64 × UInt64) × List UInt8
  | 0, bs, v => (v, bs)
  | fuel + 1, bs, (v1, v2, v3, v4) =>
    if bs.length ≥ 32 then
      stripes fuel (bs.drop 32)
        (round v1 (read64 bs), round v2 (read64 (bs.drop 8)), round v3 (read64 (bs.drop 16)), round v4 (read64 (bs.drop 24)))
    else ((v1, v2, v3, v4), bs)

def tail8 : Nat → List UInt8 → UInt64 → UInt64 × List UInt8
  | 0, bs, h => (h, bs)
  | fuel + 1, bs, h =>
    if bs.length ≥ 8 then tail8 fuel (bs.drop 8) (rotl (h ^^^ round 0 (read64 bs)) 27 * P1 + P4)
    else (h, bs)

def avalanche (h : UInt64) : UInt64 :=
  let h := h ^^^ (h >>> 33)
  let h := h * P2
  let h := h ^^^ (h >>> 29)
  let h := h * P3
  h ^^^ (h >>> 32)

def xxh64 (seed : UInt64) (bs : List UInt8) : UInt64 :=
  let len := bs.length
  let (h0, rest) :=
    if len ≥ 32 then
      let ((v1, v2, v3, v4), rest) := stripes (len / 32 + 1) bs (seed + P1 + P2, seed + P2, seed, seed - P1)
      let h := rotl v1 1 + rotl v2 7 + rotl v3 12 + rotl v4 18
      (mergeRound (mergeRound (mergeRound (mergeRound h v1) v2) v3) v4, rest)
    else (seed + P5, bs)
  let h := h0 + UInt64.ofNat len
  let (h, rest) := tail8 4 rest h
  let (h, rest) :=
    if rest.length ≥ 4 then (rotl (h ^^^ (read32 rest * P1)) 23 * P2 + P3, rest.drop 4) else (h, rest)
  let h := rest.foldl (fun h b => rotl (h ^^^ (b.toUInt64 * P5)) 11 * P1) h
  avalanche h

/-- checksum of a byte string given as naturals -/
def checksum64 (bs : List Nat) : Nat := (xxh64 0 (bs.map fun b => UInt8.ofNat b)).toNat

end Foyer.XxHash
