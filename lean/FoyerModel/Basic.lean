/-
  FoyerModel.Basic — shared vocabulary of the models (import-free: core Lean only).

  A `Rec` is the model of `foyer_memory::record::Record`: immutable data (key, hash, weight,
  properties) plus an `id` that stands for the identity of the `Arc<Record>` allocation.  Values
  are represented by a version number `ver` (the harness stores `(key, ver)` in the real value so
  stale / foreign values are observable).
-/
namespace Foyer

inductive Hint where
  | normal | low
deriving DecidableEq, Repr, Inhabited

/-- `foyer_common::event::Event` (reason an entry leaves the in-memory cache). -/
inductive Reason where
  | evict | replace | remove | clear
deriving DecidableEq, Repr, Inhabited

def Reason.toString : Reason → String
  | .evict => "evict" | .replace => "replace" | .remove => "remove" | .clear => "clear"

/-- `foyer_common::properties::Location` (placement advice). -/
inductive Loc where
  | default | inMem | onDisk
deriving DecidableEq, Repr, Inhabited

/-- `foyer_common::properties::Age` of an entry w.r.t. the disk tier. -/
inductive Age where
  | fresh | young | old
deriving DecidableEq, Repr, Inhabited

structure Rec where
  id : Nat
  key : Nat
  hash : Nat
  ver : Nat
  weight : Nat
  hint : Hint := .normal
  phantom : Bool := false
  loc : Loc := .default
  age : Age := .fresh
deriving DecidableEq, Repr, Inhabited

/-- Sum of weights. -/
def wsum : List Rec → Nat
  | [] => 0
  | r :: rs => r.weight + wsum rs

/-- Look a record up by key (the in-memory indexer is keyed by the full key; the hash only selects
the hash-table bucket and the shard). -/
def findKey (k : Nat) : List Rec → Option Rec
  | [] => none
  | r :: rs => if r.key = k then some r else findKey k rs

/-- Remove every record with key `k`. -/
def eraseKey (k : Nat) : List Rec → List Rec
  | [] => []
  | r :: rs => if r.key = k then eraseKey k rs else r :: eraseKey k rs

/-- Remove every record with id `i`. -/
def eraseId (i : Nat) : List Rec → List Rec
  | [] => []
  | r :: rs => if r.id = i then eraseId i rs else r :: eraseId i rs

def findId (i : Nat) : List Rec → Option Rec
  | [] => none
  | r :: rs => if r.id = i then some r else findId i rs

def hasId (i : Nat) (l : List Rec) : Bool := (findId i l).isSome

end Foyer
