import FoyerModel.Policy
/-
  FIFO (`foyer-memory/src/eviction/fifo.rs`): push back, pop front, acquire/release are no-ops.
-/
namespace Foyer

structure Fifo where
  q : List Rec
deriving Repr

def fifoPolicy : Policy Fifo where
  init _ := { q := [] }
  push s r := { q := s.q ++ [r] }
  pop s := match s.q with
    | [] => none
    | r :: rs => some (r, { q := rs })
  remove s r := { q := eraseId r.id s.q }
  acquire s _ := s
  release s _ := s
  update s _ := s
  clear _ := { q := [] }
  members s := s.q

end Foyer
