import FoyerModel.Policy
/-
  SIEVE (`foyer-memory/src/eviction/sieve.rs`): one queue (push back = newest), a hand, one visited
  bit per record.  `pop` starts at the hand (or the front), clears visited bits on its way, wraps
  from the back to the front, evicts the first unvisited record and leaves the hand on its
  successor (none at the back).  Removing the record under the hand resets the hand.
-/
namespace Foyer

structure SieveEnt where
  r : Rec
  visited : Bool
deriving Repr, DecidableEq

structure Sieve where
  q : List SieveEnt
  hand : Option Nat
deriving Repr

def sieveIdx (i : Nat) : List SieveEnt → Nat → Option Nat
  | [], _ => none
  | e :: es, n => if e.r.id = i then some n else sieveIdx i es (n + 1)

def setVisited (q : List SieveEnt) (i : Nat) (b : Bool) : List SieveEnt :=
  q.map fun e => if e.r.id = i then { e with visited := b } else e

/-- The scan: at position `i`; `fuel` bounds the two passes. -/
def sieveScan : Nat → List SieveEnt → Nat → Option (Nat × List SieveEnt)
  | 0, _, _ => none
  | fuel + 1, q, i =>
    match q[i]? with
    | none => none
    | some e =>
      if !e.visited then some (i, q)
      else
        let q' := setVisited q e.r.id false
        let i' := if i + 1 < q.length then i + 1 else 0
        sieveScan fuel q' i'

def sievePolicy : Policy Sieve where
  init _ := { q := [], hand := none }
  push s r := { s with q := s.q ++ [{ r := r, visited := false }] }
  pop s :=
    let start := match s.hand with
      | none => 0
      | some h => (sieveIdx h s.q 0).getD 0
    match sieveScan (2 * s.q.length + 1) s.q start with
    | none => none
    | some (i, q') =>
      match q'[i]? with
      | none => none
      | some e =>
        some (e.r, { q := q'.eraseIdx i, hand := (q'[i + 1]?).map (·.r.id) })
  remove s r :=
    { q := s.q.filter (fun e => e.r.id ≠ r.id), hand := if s.hand = some r.id then none else s.hand }
  acquire s r := { s with q := setVisited s.q r.id true }
  release s _ := s
  update s _ := s
  clear _ := { q := [], hand := none }
  members s := s.q.map (·.r)

end Foyer
