import FoyerModel.Policy
/-
  LRU with a high-priority pool and a pin list (`foyer-memory/src/eviction/lru.rs`).

  * `high`, `low`: unpinned records, least recently released first;
  * `pin`: records that were looked up and are still held (`acquire` moves a record here, `release`
    — called when the last handle is dropped — moves it back to the tail of its pool);
  * `hw`: weight of the *unpinned* members of `high`; `hpCap = ⌊capacity · ratio⌋` is computed by the
    caller-supplied function `capFn` (an `f64` product in the implementation).
-/
namespace Foyer

structure LruEnt where
  r : Rec
  inHigh : Bool
deriving Repr, DecidableEq

structure Lru where
  high : List LruEnt
  low : List LruEnt
  pin : List LruEnt
  hw : Nat
  hpCap : Nat
deriving Repr

/-- `may_overflow_high_priority_pool`: while `hw > hpCap` move the front of `high` to the back of
`low`.  (If `high` were empty while `hw > hpCap` the implementation would `unwrap()` a `None`; the
representation invariant `hw = Σ weights of high` rules that out.) -/
def lruOverflow (hpCap : Nat) : List LruEnt → List LruEnt → Nat → List LruEnt × List LruEnt × Nat
  | [], low, hw => ([], low, hw)
  | e :: hs, low, hw =>
    if hw > hpCap then lruOverflow hpCap hs (low ++ [{ e with inHigh := false }]) (hw - e.r.weight)
    else (e :: hs, low, hw)

def eraseEnt (i : Nat) (l : List LruEnt) : List LruEnt := l.filter fun e => e.r.id ≠ i

def findEnt (i : Nat) (l : List LruEnt) : Option LruEnt := l.find? fun e => e.r.id = i

def Lru.withOverflow (s : Lru) : Lru :=
  let (h, l, w) := lruOverflow s.hpCap s.high s.low s.hw
  { s with high := h, low := l, hw := w }

def lruPolicy (capFn : Nat → Nat) : Policy Lru where
  init cap := { high := [], low := [], pin := [], hw := 0, hpCap := capFn cap }
  push s r :=
    match r.hint with
    | .normal => Lru.withOverflow { s with high := s.high ++ [{ r := r, inHigh := true }], hw := s.hw + r.weight }
    | .low => { s with low := s.low ++ [{ r := r, inHigh := false }] }
  pop s :=
    match s.low with
    | e :: rest => some (e.r, { s with low := rest })
    | [] =>
      match s.high with
      | e :: rest => some (e.r, { s with high := rest, hw := s.hw - e.r.weight })
      | [] => none
  remove s r :=
    match findEnt r.id s.pin with
    | some _ => { s with pin := eraseEnt r.id s.pin }
    | none =>
      match findEnt r.id s.high with
      | some e => { s with high := eraseEnt r.id s.high, hw := s.hw - e.r.weight }
      | none => { s with low := eraseEnt r.id s.low }
  acquire s r :=
    -- not in eviction, or already pinned: nothing to do
    match findEnt r.id s.high with
    | some e => { s with high := eraseEnt r.id s.high, hw := s.hw - e.r.weight, pin := s.pin ++ [e] }
    | none =>
      match findEnt r.id s.low with
      | some e => { s with low := eraseEnt r.id s.low, pin := s.pin ++ [e] }
      | none => s
  release s r :=
    match findEnt r.id s.pin with
    | none => s
    | some e =>
      if e.inHigh then
        Lru.withOverflow { s with pin := eraseEnt r.id s.pin, high := s.high ++ [e], hw := s.hw + e.r.weight }
      else { s with pin := eraseEnt r.id s.pin, low := s.low ++ [e] }
  update s cap := Lru.withOverflow { s with hpCap := capFn cap }
  clear s := { s with high := [], low := [], pin := [], hw := 0 }
  members s := (s.low ++ s.high ++ s.pin).map (·.r)

end Foyer
