import FoyerModel.Policy
/-
  w-TinyLFU (`foyer-memory/src/eviction/lfu.rs`): window / probation / prot queues and a
  count-min sketch of access frequencies (datasketches 0.3.0 `CountMinSketch<u16>`).

  The sketch is kept sparse (`counts` lists the non-zero counters by absolute index
  `row * num_buckets + bucket`); the hash-to-bucket function `bucket row hash` is a parameter —
  the driver instantiates it with the exact MurmurHash3-x64-128 port of `FoyerModel.Murmur`.
-/
namespace Foyer

structure Lfu where
  window : List Rec
  probation : List Rec
  prot : List Rec
  ww : Nat
  pw : Nat
  tw : Nat
  wCap : Nat
  tCap : Nat
  counts : List (Nat × Nat)
  step : Nat
deriving Repr

structure SketchCfg where
  rows : Nat
  decay : Nat
  /-- absolute counter index of `hash` in `row` -/
  bucket : Nat → Nat → Nat

def cmGet (counts : List (Nat × Nat)) (i : Nat) : Nat :=
  match counts with
  | [] => 0
  | (j, c) :: rest => if j = i then c else cmGet rest i

def cmInc (counts : List (Nat × Nat)) (i : Nat) : List (Nat × Nat) :=
  match counts with
  | [] => [(i, 1)]
  | (j, c) :: rest => if j = i then (j, c + 1) :: rest else (j, c) :: cmInc rest i

def cmUpdate (k : SketchCfg) (counts : List (Nat × Nat)) (hash : Nat) : List (Nat × Nat) :=
  (List.range k.rows).foldl (fun cs row => cmInc cs (k.bucket row hash)) counts

/-- `estimate`: the minimum over the rows (start value `u16::MAX`). -/
def cmEstimate (k : SketchCfg) (counts : List (Nat × Nat)) (hash : Nat) : Nat :=
  (List.range k.rows).foldl (fun m row => min m (cmGet counts (k.bucket row hash))) 65535

def cmHalve (counts : List (Nat × Nat)) : List (Nat × Nat) :=
  (counts.map fun (i, c) => (i, c / 2)).filter fun (_, c) => c ≠ 0

/-- `update_frequencies` -/
def Lfu.touchFreq (k : SketchCfg) (s : Lfu) (hash : Nat) : Lfu :=
  let counts := cmUpdate k s.counts hash
  let step := s.step + 1
  if step ≥ k.decay then { s with counts := cmHalve counts, step := step / 2 }
  else { s with counts, step }

/-- window → probation overflow -/
def lfuWindowOverflow (wCap : Nat) : List Rec → List Rec → Nat → Nat → List Rec × List Rec × Nat × Nat
  | [], prob, ww, pw => ([], prob, ww, pw)
  | r :: rs, prob, ww, pw =>
    if ww > wCap then lfuWindowOverflow wCap rs (prob ++ [r]) (ww - r.weight) (pw + r.weight)
    else (r :: rs, prob, ww, pw)

/-- prot → probation overflow -/
def lfuProtectedOverflow (tCap : Nat) : List Rec → List Rec → Nat → Nat → List Rec × List Rec × Nat × Nat
  | [], prob, tw, pw => ([], prob, tw, pw)
  | r :: rs, prob, tw, pw =>
    if tw > tCap then lfuProtectedOverflow tCap rs (prob ++ [r]) (tw - r.weight) (pw + r.weight)
    else (r :: rs, prob, tw, pw)

def lfuPolicy (windowFn protFn : Nat → Nat) (k : SketchCfg) : Policy Lfu where
  init cap := { window := [], probation := [], prot := [], ww := 0, pw := 0, tw := 0,
                wCap := windowFn cap, tCap := protFn cap, counts := [], step := 0 }
  push s r :=
    let s1 := Lfu.touchFreq k { s with ww := s.ww + r.weight } r.hash
    let (w, p, ww, pw) := lfuWindowOverflow s1.wCap (s1.window ++ [r]) s1.probation s1.ww s1.pw
    { s1 with window := w, probation := p, ww, pw }
  pop s :=
    match s.window, s.probation with
    | [], [] =>
      match s.prot with
      | [] => none
      | r :: rest => some (r, { s with prot := rest, tw := s.tw - r.weight })
    | [], p :: ps => some (p, { s with probation := ps, pw := s.pw - p.weight })
    | w :: ws, [] => some (w, { s with window := ws, ww := s.ww - w.weight })
    | w :: ws, p :: ps =>
      if cmEstimate k s.counts w.hash < cmEstimate k s.counts p.hash then
        some (w, { s with window := ws, ww := s.ww - w.weight })
      else some (p, { s with probation := ps, pw := s.pw - p.weight })
  remove s r :=
    if hasId r.id s.window then { s with window := eraseId r.id s.window, ww := s.ww - r.weight }
    else if hasId r.id s.probation then { s with probation := eraseId r.id s.probation, pw := s.pw - r.weight }
    else { s with prot := eraseId r.id s.prot, tw := s.tw - r.weight }
  acquire s r :=
    let s1 := Lfu.touchFreq k s r.hash
    match findId r.id s1.window with
    | some x => { s1 with window := eraseId r.id s1.window ++ [x] }
    | none =>
      match findId r.id s1.probation with
      | some x =>
        let (t, p, tw, pw) := lfuProtectedOverflow s1.tCap (s1.prot ++ [x]) (eraseId r.id s1.probation)
          (s1.tw + x.weight) (s1.pw - x.weight)
        { s1 with prot := t, probation := p, tw, pw }
      | none =>
        match findId r.id s1.prot with
        | some x => { s1 with prot := eraseId r.id s1.prot ++ [x] }
        | none => s1
  release s _ := s
  update s cap := { s with wCap := windowFn cap, tCap := protFn cap }
  clear s := { s with window := [], probation := [], prot := [], ww := 0, pw := 0, tw := 0 }
  members s := s.window ++ s.probation ++ s.prot

end Foyer
