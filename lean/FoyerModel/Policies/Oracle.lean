import FoyerModel.Policy
/-
  The *oracle* policy: a policy whose victim choice is scripted from outside.  It is used by the
  correspondence check in "generic" mode: the victims the implementation actually chose are fed to
  the model as the script, so that properties which do not constrain *which* entry is evicted
  (C05, C13, C18, C02, C17) are checked without depending on the concrete algorithm.  Scripted ids
  that are not members of this shard are skipped (they belong to other shards).
-/
namespace Foyer

structure Oracle where
  mem : List Rec
  script : List Nat
deriving Repr

/-- The first scripted id that is a current member (ids of other shards are skipped and kept). -/
def pickScript (mem : List Rec) : List Nat → Option (Rec × List Nat)
  | [] => none
  | i :: rest =>
    match findId i mem with
    | some r => some (r, rest)
    | none =>
      match pickScript mem rest with
      | some (r, rest') => some (r, i :: rest')
      | none => none

def oraclePolicy : Policy Oracle where
  init _ := { mem := [], script := [] }
  push s r := { s with mem := s.mem ++ [r] }
  pop s := match pickScript s.mem s.script with
    | none => none
    | some (r, rest) => some (r, { mem := eraseId r.id s.mem, script := rest })
  remove s r := { s with mem := eraseId r.id s.mem }
  acquire s _ := s
  release s _ := s
  update s _ := s
  clear s := { s with mem := [] }
  members s := s.mem

end Foyer
