import FoyerModel.Policy
/-
  S3-FIFO (`foyer-memory/src/eviction/s3fifo.rs`): small / main FIFO queues, a ghost queue of
  hashes, per-record frequency 0..3.
-/
namespace Foyer

structure S3Ent where
  r : Rec
  freq : Nat
deriving Repr, DecidableEq

structure Ghost where
  q : List (Nat × Nat)      -- (hash, weight), oldest first
  set : List Nat            -- the `HashSet` of hashes
  cap : Nat
  weight : Nat
deriving Repr

def Ghost.pop (g : Ghost) : Ghost :=
  match g.q with
  | [] => g
  | (h, w) :: rest => { g with q := rest, weight := g.weight - w, set := g.set.filter (· ≠ h) }

/-- `while self.weight + weight > self.capacity && self.weight > 0 { pop }` -/
def Ghost.shrink : Nat → Ghost → Nat → Ghost
  | 0, g, _ => g
  | fuel + 1, g, extra =>
    if g.weight + extra > g.cap ∧ g.weight > 0 then Ghost.shrink fuel g.pop extra else g

def Ghost.push (g : Ghost) (hash weight : Nat) : Ghost :=
  if g.cap = 0 then g
  else
    let g1 := Ghost.shrink (g.q.length + 1) g weight
    { g1 with q := g1.q ++ [(hash, weight)], set := if g1.set.contains hash then g1.set else hash :: g1.set,
              weight := g1.weight + weight }

def Ghost.update (g : Ghost) (cap : Nat) : Ghost :=
  let g0 := { g with cap := cap }
  if cap = 0 then g0 else Ghost.shrink (g.q.length + 1) g0 0

structure S3 where
  small : List S3Ent
  main : List S3Ent
  ghost : Ghost
  smallCap : Nat
  smallW : Nat
  mainW : Nat
  threshold : Nat
deriving Repr

/-- `evict_small`: pop the front of `small`; promote to `main` while `freq ≥ threshold`. -/
def s3EvictSmall (threshold : Nat) : List S3Ent → List S3Ent → Nat → Nat →
    Option S3Ent × List S3Ent × List S3Ent × Nat × Nat
  | [], main, sw, mw => (none, [], main, sw, mw)
  | e :: rest, main, sw, mw =>
    if e.freq ≥ threshold then
      s3EvictSmall threshold rest (main ++ [e]) (sw - e.r.weight) (mw + e.r.weight)
    else (some e, rest, main, sw - e.r.weight, mw)

/-- `evict_main`: pop the front of `main`; re-insert at the back while the old `freq > 0`
(decrementing it). -/
def s3EvictMain : Nat → List S3Ent → Nat → Option S3Ent × List S3Ent × Nat
  | 0, main, mw => (none, main, mw)
  | _ + 1, [], mw => (none, [], mw)
  | fuel + 1, e :: rest, mw =>
    if e.freq > 0 then s3EvictMain fuel (rest ++ [{ e with freq := e.freq - 1 }]) mw
    else (some e, rest, mw - e.r.weight)

def freqSum : List S3Ent → Nat
  | [] => 0
  | e :: es => e.freq + freqSum es

def S3.evict (s : S3) : Option (Rec × S3) :=
  let trySmall : Option (Rec × S3) × S3 :=
    if s.smallW > s.smallCap then
      match s3EvictSmall s.threshold s.small s.main s.smallW s.mainW with
      | (some e, small, main, sw, mw) =>
        (some (e.r, { s with small, main, smallW := sw, mainW := mw, ghost := s.ghost.push e.r.hash e.r.weight }), s)
      | (none, small, main, sw, mw) => (none, { s with small, main, smallW := sw, mainW := mw })
    else (none, s)
  match trySmall with
  | (some r, _) => some r
  | (none, s1) =>
    match s3EvictMain (freqSum s1.main + s1.main.length + 1) s1.main s1.mainW with
    | (some e, main, mw) => some (e.r, { s1 with main, mainW := mw })
    | (none, main, mw) =>
      -- `evict_small_force`
      match s1.small with
      | e :: rest => some (e.r, { s1 with main, mainW := mw, small := rest, smallW := s1.smallW - e.r.weight })
      | [] => none

/-- `Eviction::clear` is the default `while self.pop().is_some() {}`: every popped record may also
enter the ghost queue, which later pushes consult — so the loop is reproduced, not short-cut. -/
def S3.clearGo : Nat → S3 → S3
  | 0, s => s
  | fuel + 1, s =>
    match s.evict with
    | none => s
    | some (_, s') => S3.clearGo fuel s'

def s3Policy (smallFn ghostFn : Nat → Nat) (threshold : Nat) : Policy S3 where
  init cap := { small := [], main := [], ghost := { q := [], set := [], cap := ghostFn cap, weight := 0 },
                smallCap := smallFn cap, smallW := 0, mainW := 0, threshold := min threshold 3 }
  push s r :=
    if s.ghost.set.contains r.hash then
      { s with main := s.main ++ [{ r := r, freq := 0 }], mainW := s.mainW + r.weight }
    else { s with small := s.small ++ [{ r := r, freq := 0 }], smallW := s.smallW + r.weight }
  pop s := s.evict
  remove s r :=
    if s.main.any (·.r.id = r.id) then
      { s with main := s.main.filter (fun e => e.r.id ≠ r.id), mainW := s.mainW - r.weight }
    else { s with small := s.small.filter (fun e => e.r.id ≠ r.id), smallW := s.smallW - r.weight }
  acquire s r :=
    let bump (l : List S3Ent) := l.map fun e => if e.r.id = r.id then { e with freq := min 3 (e.freq + 1) } else e
    { s with small := bump s.small, main := bump s.main }
  release s _ := s
  update s cap := { s with ghost := s.ghost.update (ghostFn cap), smallCap := smallFn cap }
  clear s := S3.clearGo (s.small.length + s.main.length + 1) s
  members s := (s.small ++ s.main).map (·.r)

end Foyer
