/-
  FoyerModel.Reclaim — the block manager at event level (`foyer-storage/src/engine/block/manager.rs`,
  `reclaimer.rs`, FIFO picker of `eviction.rs`), import-free.

  Blocks move   clean → writing → evictable → reclaiming → clean (or straight to a waiting writer).
  The events are the points where the real code takes the manager's state lock:

    * `take`          — `get_clean_block`: pop the clean queue (or become a waiter);
    * `wrote b ks`    — a flusher's window into block `b` completed: `ks` are indexed at `b`;
    * `finish b`      — `on_writing_finish b`: the window was not the batch's last one;
    * `reclaimed b`   — the reclaimer finished block `b`: its index entries are removed
                        (`remove_batch`), the block is cleaned and released (`on_reclaim_finish`);
    * `delete k`      — an index entry is dropped (delete / overwrite elsewhere / failed load).

  `reclaimIfNeeded` runs inside `take`, `finish` and `reclaimed`, as in the code.  Which of the enabled
  events happens next is the scheduler's choice: theorems quantify over all event sequences.
-/
namespace Foyer.Rcl

structure St where
  clean : List Nat := []
  /-- blocks handed to writers; `true` = the window will be finished (not the writer's current block) -/
  writing : List Nat := []
  evictable : List Nat := []
  reclaiming : List Nat := []
  waiters : Nat := 0
  /-- key ↦ block of the indexed copy -/
  index : List (Nat × Nat) := []
  /-- history: blocks in the order they became evictable / were picked for reclaim -/
  finished : List Nat := []
  picked : List Nat := []
deriving Repr

structure RCfg where
  thr : Nat      -- clean_block_threshold
  conc : Nat     -- reclaim concurrency
deriving Repr

def init (n : Nat) : St := { clean := List.range n }

/-- `reclaim_if_needed` + FIFO picker. -/
def reclaimIfNeeded (c : RCfg) (s : St) : St :=
  if s.clean.length < c.thr && s.reclaiming.length < c.conc then
    match s.evictable with
    | [] => s
    | b :: rest => { s with evictable := rest, reclaiming := s.reclaiming ++ [b], picked := s.picked ++ [b] }
  else s

inductive Ev where
  | take
  | wrote (b : Nat) (keys : List Nat)
  | finish (b : Nat)
  | reclaimed (b : Nat)
  | delete (k : Nat)
deriving Repr

def enabled (s : St) : Ev → Bool
  | .take => true
  | .wrote b _ => s.writing.contains b
  | .finish b => s.writing.contains b
  | .reclaimed b => s.reclaiming.contains b
  | .delete _ => true

def step (c : RCfg) (s : St) : Ev → St
  | .take =>
    match s.clean with
    | b :: rest => reclaimIfNeeded c { s with clean := rest, writing := s.writing ++ [b] }
    | [] => { s with waiters := s.waiters + 1 }
  | .wrote b keys =>
    if s.writing.contains b then
      { s with index := keys.map (fun k => (k, b)) ++ s.index.filter (fun p => !keys.contains p.1) }
    else s
  | .finish b =>
    if s.writing.contains b then
      reclaimIfNeeded c { s with writing := s.writing.erase b, evictable := s.evictable ++ [b],
                                 finished := s.finished ++ [b] }
    else s
  | .reclaimed b =>
    if s.reclaiming.contains b then
      let s1 := { s with reclaiming := s.reclaiming.erase b, index := s.index.filter (fun p => p.2 ≠ b) }
      let s2 := if s1.waiters > 0 then { s1 with waiters := s1.waiters - 1, writing := s1.writing ++ [b] }
                else { s1 with clean := s1.clean ++ [b] }
      reclaimIfNeeded c s2
    else s
  | .delete k => { s with index := s.index.filter (fun p => p.1 ≠ k) }

def run (c : RCfg) (s : St) : List Ev → St
  | [] => s
  | e :: es => run c (step c s e) es

/-- all blocks, wherever they are -/
def St.all (s : St) : List Nat := s.clean ++ s.writing ++ s.evictable ++ s.reclaiming

end Foyer.Rcl
