/-
  FoyerModel.Block — the byte-position layer of the block engine (import-free):

    * `split`   — `Splitter::split` (foyer-storage/src/engine/block/buffer.rs): how a batch of
                  serialized entries is cut into blobs / blob parts / blocks, with the split context
                  (`SplitCtx`) carried from batch to batch;
    * `scan`    — `BlockScanner::next` + the sequence guard of `BlockRecoverRunner::run`
                  (scanner.rs, recover.rs): what recovery / reclaim read back from a block;
    * `Mgr`     — `BlockManager` + FIFO picker + reclaimer for one flusher and one reclaimer with
                  device writes completing in issue order (manager.rs, eviction.rs, reclaimer.rs).

  Offsets and lengths are byte counts (`Nat`); a block is `B` bytes, a blob index `I` bytes, entries are
  aligned to `P` (the page size).
-/
namespace Foyer.Blk

structure LCfg where
  B : Nat
  I : Nat
  P : Nat := 4096
deriving Repr

/-- `BlobIndex::capacity`: 12 bytes of header, 24 bytes per entry. -/
def LCfg.cap (c : LCfg) : Nat := (c.I - 12) / 24

def alignUp (p n : Nat) : Nat := (n + p - 1) / p * p

/-- `BlobEntryIndex` (offset relative to the blob) / `BufferEntryInfo` (hash, sequence, length). -/
structure BEI where
  hash : Nat
  seq : Nat
  off : Nat
  len : Nat
deriving DecidableEq, Repr

structure Info where
  hash : Nat
  seq : Nat
  len : Nat
deriving DecidableEq, Repr

/-- `SplitCtx`. -/
structure Ctx where
  partOff : Nat          -- current_part_blob_offset
  idx : List BEI         -- current_blob_index (entries written since the last reset)
  blobOff : Nat          -- current_blob_block_offset
deriving DecidableEq, Repr

def Ctx.new (c : LCfg) : Ctx := { partOff := c.I, idx := [], blobOff := 0 }

/-- `BlobPart`: where the part's data goes (`blobOff + partOff`, `dataLen` bytes), where the sealed
blob index goes (`blobOff`) and what it lists (`index`: every entry of the blob so far). -/
structure Part where
  blobOff : Nat
  index : List BEI
  partOff : Nat
  dataLen : Nat
  indices : List BEI
deriving DecidableEq, Repr

structure SplitSt where
  ctx : Ctx
  indices : List BEI := []
  partSize : Nat := 0
  /-- blocks of the batch, each a list of parts, in order -/
  blocks : List (List Part) := [[]]
deriving Repr

/-- append a part to the last block of the batch -/
def pushPart : List (List Part) → Part → List (List Part)
  | [], p => [[p]]
  | [b], p => [b ++ [p]]
  | b :: b' :: bs, p => b :: pushPart (b' :: bs) p

/-- `Splitter::split_blob`. -/
def splitBlob (c : LCfg) (s : SplitSt) : SplitSt :=
  if s.indices.isEmpty then
    { s with ctx := { partOff := c.I, idx := [], blobOff := s.ctx.blobOff + s.ctx.partOff } }
  else
    let part : Part := { blobOff := s.ctx.blobOff, index := s.ctx.idx, partOff := s.ctx.partOff,
                         dataLen := s.partSize, indices := s.indices }
    { ctx := { partOff := c.I, idx := [], blobOff := s.ctx.blobOff + s.ctx.partOff + s.partSize },
      indices := [], partSize := 0, blocks := pushPart s.blocks part }

/-- `Splitter::split_block`. -/
def splitBlock (s : SplitSt) : SplitSt :=
  { s with ctx := { s.ctx with blobOff := 0 }, blocks := s.blocks ++ [[]] }

/-- The `'handle` loop for one entry. -/
def handle (c : LCfg) : Nat → SplitSt → Info → SplitSt
  | 0, s, _ => s
  | fuel + 1, s, info =>
    if s.ctx.idx.length ≥ c.cap then handle c fuel (splitBlob c s) info
    else if s.ctx.blobOff + s.ctx.partOff + s.partSize + alignUp c.P info.len > c.B then
      handle c fuel (splitBlock (splitBlob c s)) info
    else
      let e : BEI := { hash := info.hash, seq := info.seq, off := s.ctx.partOff + s.partSize, len := info.len }
      { s with ctx := { s.ctx with idx := s.ctx.idx ++ [e] }, indices := s.indices ++ [e],
               partSize := s.partSize + alignUp c.P info.len }

/-- `Splitter::seal_blob`. -/
def sealBlob (c : LCfg) (s : SplitSt) : SplitSt :=
  if s.indices.isEmpty then s
  else
    let part : Part := { blobOff := s.ctx.blobOff, index := s.ctx.idx, partOff := s.ctx.partOff,
                         dataLen := s.partSize, indices := s.indices }
    let ctx' : Ctx :=
      if s.ctx.idx.length ≥ c.cap then
        { partOff := c.I, idx := [], blobOff := s.ctx.blobOff + s.ctx.partOff + s.partSize }
      else { s.ctx with partOff := s.ctx.partOff + s.partSize }
    { ctx := ctx', indices := [], partSize := 0, blocks := pushPart s.blocks part }

/-- `Splitter::split`: the new context and the batch (blocks of parts). -/
def split (c : LCfg) (ctx : Ctx) (infos : List Info) : Ctx × List (List Part) :=
  let s := infos.foldl (fun s i => handle c 4 s i) { ctx := ctx }
  let s := sealBlob c s
  (s.ctx, s.blocks)

/-! ### the scanner -/

/-- What a block holds, as far as the scanner is concerned: the valid blob index pages by offset. -/
abbrev IdxMap := List (Nat × List BEI)

def idxAt (m : IdxMap) (off : Nat) : Option (List BEI) := (m.find? (·.1 = off)).map (·.2)

/-- An entry with its absolute position in the block. -/
structure Placed where
  hash : Nat
  seq : Nat
  off : Nat
  len : Nat
deriving DecidableEq, Repr

def place (blobOff : Nat) (e : BEI) : Placed := { hash := e.hash, seq := e.seq, off := blobOff + e.off, len := e.len }

/-- `BlockScanner`: read the blob index at `off`; continue right behind the blob's last entry. -/
def scan (c : LCfg) (m : IdxMap) : Nat → Nat → List (List Placed)
  | 0, _ => []
  | fuel + 1, off =>
    if off + c.I > c.B then []
    else match idxAt m off with
      | none => []
      | some es =>
        let step := match es.getLast? with
          | some e => e.off + alignUp c.P e.len
          | none => c.B
        (es.map (place off)) :: scan c m fuel (off + step)

/-- `BlockRecoverRunner::run`: stop at the first entry whose sequence regresses. -/
def guardSeq : List Placed → Nat → List Placed
  | [], _ => []
  | p :: ps, last => if p.seq < last then [] else p :: guardSeq ps p.seq

def recoverBlock (c : LCfg) (m : IdxMap) : List Placed :=
  guardSeq ((scan c m (c.B / c.P + 1) 0).flatten) 0

/-- Do the byte ranges `[a, a + n)` and `[b, b + m)` intersect? -/
def overlaps (a n b m : Nat) : Bool := a < b + m && b < a + n

/-- Apply the device writes of one block's parts to its index map: the part's data overwrites whatever
stale index page lay in its range, then the sealed index page of the blob is written. -/
def applyParts (c : LCfg) (m : IdxMap) (parts : List Part) : IdxMap :=
  parts.foldl (fun m p =>
    let m1 := m.filter fun (o, _) => !(overlaps o c.I (p.blobOff + p.partOff) p.dataLen) && !(overlaps o c.I p.blobOff c.I)
    (p.blobOff, p.index) :: m1) m

end Foyer.Blk
