/-
  FoyerModel.Inflight — the fetch-coalescing state machine of `foyer-memory`
  (`inflight.rs` + the leader task `RawFetch` in `raw.rs`), at quiescence granularity:
  one model step = one external event followed by running every woken task until nothing more can
  progress (what a current-thread runtime does between two events of the harness).

  External events: a caller arrives (with / without a disk lookup, with / without an origin fetch
  closure), a disk lookup resolves, an origin fetch resolves, an explicit insert / remove, a caller
  drops its future, the runtime that hosts the fetch tasks is shut down (every task cancelled).

  Futures are named by the caller that supplied them: `d c` is the disk lookup and `f c` the origin
  fetch handed in by caller `c`.
-/
namespace Foyer.Infl

inductive Res where
  | hit (v : Nat)          -- found in memory at call time
  | val (v : Nat)          -- `Ok(Some(entry))` delivered by a notifier
  | none                   -- `Ok(None)`: no fetch available and the lookup missed
  | errFetch               -- the origin fetch failed (`ErrorKind::External`)
  | errDisk                -- the optional (disk) fetch failed and nobody could fetch
  | errCancelled           -- `ErrorKind::TaskCancelled`
deriving DecidableEq, Repr

inductive CSt where
  | pending | done (r : Res) | dropped
deriving DecidableEq, Repr

structure Caller where
  id : Nat
  key : Nat
  st : CSt
deriving DecidableEq, Repr

inductive FSt where
  | optional (d : Nat) (fr : Option Nat)   -- the leader awaits disk lookup `d`; own fetch closure `fr`
  | required (f : Nat)                     -- the leader awaits origin fetch `f`
deriving DecidableEq, Repr

/-- The in-flight entry of a key *together with* its (unique, not yet closed) leader task.  In the
implementation these are two objects tied by the entry id and the shared `close` flag; a leader
whose entry was taken observes `close` at its next poll and stops, i.e. it has no further effect —
such closed leaders are simply absent from the model. -/
structure Flight where
  waiters : List Nat
  donated : Option Nat
  st : FSt
deriving DecidableEq, Repr

structure St where
  cache : Nat → Option Nat := fun _ => none     -- key ↦ version
  flight : Nat → Option Flight := fun _ => none
  callers : List Caller := []
  started : List Nat := []            -- origin fetches that started executing, in order
  dstarted : List Nat := []           -- disk lookups that started

inductive DRes where
  | hit (v : Nat) | miss | err
deriving DecidableEq, Repr

inductive ORes where
  | ok (v : Nat) | err
deriving DecidableEq, Repr

inductive Ev where
  | call (c k : Nat) (disk fetch : Bool)
  | disk (c : Nat) (r : DRes)
  | origin (c : Nat) (r : ORes)
  | insert (k v : Nat)
  /-- an explicit insert whose record is disk-only (rejected by the memory filter / on-disk advice) -/
  | pinsert (k v : Nat)
  | remove (k : Nat)
  | dropCaller (c : Nat)
  | abort
deriving DecidableEq, Repr

def upd {α : Type} (f : Nat → α) (k : Nat) (a : α) : Nat → α := fun x => if x = k then a else f x

/-- Deliver `r` to the waiters that are still listening. -/
def notify (callers : List Caller) (ws : List Nat) (r : Res) : List Caller :=
  callers.map fun c => if ws.contains c.id ∧ c.st = .pending then { c with st := .done r } else c

def keyOfCaller (s : St) (c : Nat) : Option Nat := (s.callers.find? (·.id = c)).map (·.key)

/-- Take the in-flight entry of `k` (closing its leader) and answer its waiters with `r`. -/
def takeNotify (s : St) (k : Nat) (r : Res) : St :=
  match s.flight k with
  | none => s
  | some fl => { s with flight := upd s.flight k none, callers := notify s.callers fl.waiters r }

/-- An ordinary insert (explicit, or `handle_target` of a fetch task): `emplace` takes the entry. -/
def insertKV (s : St) (k v : Nat) : St :=
  let s1 := takeNotify s k (.val v)
  { s1 with cache := upd s1.cache k (some v) }

/-- A disk-only insert: `emplace` takes the in-flight entry all the same (its waiters get the value, its
leader is closed), the record is not indexed and the previous one leaves the index. -/
def pinsertKV (s : St) (k v : Nat) : St :=
  let s1 := takeNotify s k (.val v)
  { s1 with cache := upd s1.cache k none }

/-- `try_set_required`: own closure, else a donated one, else give up and answer `noFetch`. -/
def trySetRequired (s : St) (k : Nat) (fl : Flight) (fr : Option Nat) (noFetch : Res) : St :=
  match fr with
  | some f => { s with flight := upd s.flight k (some { fl with st := .required f }), started := s.started ++ [f] }
  | none =>
    match fl.donated with
    | some f =>
      { s with flight := upd s.flight k (some { fl with st := .required f, donated := none }),
               started := s.started ++ [f] }
    | none => takeNotify s k noFetch

def step (s : St) : Ev → St
  | .call c k disk fetch =>
    match s.cache k with
    | some v => { s with callers := s.callers ++ [{ id := c, key := k, st := .done (.hit v) }] }
    | none =>
      let s0 : St := { s with callers := s.callers ++ [{ id := c, key := k, st := .pending }] }
      match s0.flight k with
      | some fl =>
        { s0 with flight := upd s0.flight k (some { fl with
            waiters := fl.waiters ++ [c],
            donated := if fl.donated.isNone && fetch then some c else fl.donated }) }
      | none =>
        -- the caller leads; its task runs `Init`
        if disk then
          { s0 with flight := upd s0.flight k (some ({ waiters := [c], donated := none,
                                                        st := .optional c (if fetch then some c else none) } : Flight)),
                    dstarted := s0.dstarted ++ [c] }
        else if fetch then
          { s0 with flight := upd s0.flight k (some ({ waiters := [c], donated := none, st := .required c } : Flight)),
                    started := s0.started ++ [c] }
        else
          -- neither a lookup nor a fetch: the entry is taken at once and the caller gets `Ok(None)`
          { s0 with callers := notify s0.callers [c] .none }
  | .disk c r =>
    match keyOfCaller s c with
    | none => s
    | some k =>
      match s.flight k with
      | none => s
      | some fl =>
        match fl.st with
        | .optional d fr =>
          if d = c then
            match r with
            | .hit v => insertKV s k v
            | .miss => trySetRequired s k fl fr .none
            | .err => trySetRequired s k fl fr .errDisk
          else s
        | _ => s
  | .origin f r =>
    match keyOfCaller s f with
    | none => s
    | some k =>
      match s.flight k with
      | none => s
      | some fl =>
        if fl.st = .required f then
          match r with
          | .ok v => insertKV s k v
          | .err => takeNotify s k .errFetch
        else s
  | .insert k v => insertKV s k v
  | .pinsert k v => pinsertKV s k v
  | .remove k => { s with cache := upd s.cache k none }
  | .dropCaller c =>
    { s with callers := s.callers.map fun x => if x.id = c ∧ x.st = .pending then { x with st := .dropped } else x }
  | .abort =>
    -- every leader task is dropped: `take(Some(id))` + `TaskCancelled` to the waiters
    (s.callers.map (·.key)).foldl (fun acc k => takeNotify acc k .errCancelled) s

def run (s : St) (evs : List Ev) : St := evs.foldl step s

end Foyer.Infl
