import FoyerModel.Policy
/-
  FoyerModel.Mem — model of `foyer_memory::raw::RawCache` (generic in the eviction policy).

  One model step = one synchronous API call (see DESIGN.md §3.4): the shard's `RwLock` makes
  everything that touches index / eviction container / usage atomic.  What happens after the lock is
  released (listener callbacks, pipe hand-off) is reported in `Out.leaves` / `Out.piped`, in the
  order the real code performs it.

  The model follows the *intended* behaviour described by the property list: `clear` resets
  `usage`, `touch` gives its temporary reference back.
-/
namespace Foyer

structure Shard (σ : Type) where
  cap : Nat
  usage : Nat
  entries : Nat
  index : List Rec
  ev : σ

structure Cfg where
  nshards : Nat
  /-- The user's `BuildHasher`, as a function of the key.  Nothing is assumed about it. -/
  H : Nat → Nat

structure Cache (σ : Type) where
  shards : List (Shard σ)
  nextId : Nat
  /-- Records with at least one live handle, with the value of `Record::refs`. -/
  held : List (Rec × Nat)

inductive Ret where
  | unit
  | handle (r : Rec)
  | miss
  | bool (b : Bool)
  /-- The operation is not applicable (e.g. dropping a handle that is not held): the harness never
  issues these; the model leaves the state unchanged. -/
  | bad
  /-- The real code would hit an `unwrap()` / `assert!`; proved unreachable. -/
  | panic
deriving DecidableEq, Repr

structure Out where
  ret : Ret := .unit
  /-- `EventListener::on_leave` calls, in order. -/
  leaves : List (Reason × Rec) := []
  /-- `Pipe::send` / `Pipe::flush` hand-offs, in order. -/
  piped : List Rec := []
deriving Repr

inductive Op where
  | ins (key ver weight : Nat) (hint : Hint) (phantom : Bool) (loc : Loc := .default) (age : Age := .fresh)
  | get (key : Nat)
  | touch (key : Nat)
  | contains (key : Nat)
  | remove (key : Nat)
  | clone (rid : Nat)
  | drop (rid : Nat)
  | clear
  | resize (cap : Nat)
  | evictAll
  | flush
deriving DecidableEq, Repr

/-- `RawCache::shard_capacity_for`. -/
def shardCapacityFor (total shards index : Nat) : Nat :=
  total / shards + (if index < total % shards then 1 else 0)

def Cfg.shardOf (cfg : Cfg) (hash : Nat) : Nat := hash % cfg.nshards

section
variable {σ : Type} (P : Policy σ)

def Shard.new (cap : Nat) : Shard σ :=
  { cap := cap, usage := 0, entries := 0, index := [], ev := P.init cap }

/-- `RawCache::new`. -/
def Cache.new (cfg : Cfg) (capacity : Nat) : Cache σ :=
  { shards := (List.range cfg.nshards).map fun i => Shard.new P (shardCapacityFor capacity cfg.nshards i)
    nextId := 0, held := [] }

/-- `RawCacheShard::evict`: `while usage > target { pop() or break; index.remove; … }`.
Returns the shard, the victims in order, and whether an `unwrap`/`assert_eq!` would have fired. -/
def evictLoop (target : Nat) : Nat → Shard σ → List Rec → Shard σ × List Rec × Bool
  | 0, s, acc => (s, acc, false)
  | fuel + 1, s, acc =>
    if s.usage > target then
      match P.pop s.ev with
      | none => (s, acc, false)
      | some (r, ev') =>
        match findKey r.key s.index with
        | none => ({ s with ev := ev' }, acc, true)
        | some r' =>
          if r' = r then
            evictLoop target fuel
              { s with ev := ev', index := eraseKey r.key s.index,
                       usage := s.usage - r.weight, entries := s.entries - 1 }
              (acc ++ [r])
          else ({ s with ev := ev' }, acc, true)
    else (s, acc, false)

def Shard.evict (s : Shard σ) (target : Nat) : Shard σ × List Rec × Bool :=
  evictLoop P target (s.index.length + 1) s []

/-- Removal of an indexed record from the shard (`indexer.remove` + `eviction.remove` + counters). -/
def Shard.unlink (s : Shard σ) (old : Rec) : Shard σ :=
  { s with index := eraseKey old.key s.index
           ev := if hasId old.id (P.members s.ev) then P.remove s.ev old else s.ev
           usage := s.usage - old.weight
           entries := s.entries - 1 }

/-- `RawCacheShard::emplace` (without the in-flight part, which lives in `FoyerModel.Inflight`). -/
def Shard.emplace (s : Shard σ) (r : Rec) : Shard σ × List (Reason × Rec) × Bool :=
  if r.phantom then
    match findKey r.key s.index with
    | some old => (Shard.unlink P s old, [(.replace, old), (.remove, r)], false)
    | none => (s, [(.remove, r)], false)
  else
    let (s1, victims, panicked) := Shard.evict P s (s.cap - r.weight)
    let evs := victims.map fun v => (Reason.evict, v)
    match findKey r.key s1.index with
    | some old =>
      let ev1 := if hasId old.id (P.members s1.ev) then P.remove s1.ev old else s1.ev
      ({ s1 with index := r :: eraseKey r.key s1.index, ev := P.push ev1 r,
                 usage := s1.usage - old.weight + r.weight },
       evs ++ [(.replace, old)], panicked)
    | none =>
      ({ s1 with index := r :: s1.index, ev := P.push s1.ev r,
                 usage := s1.usage + r.weight, entries := s1.entries + 1 },
       evs, panicked)

end

/-- Replace the `i`-th element. -/
def setAt {α : Type} : List α → Nat → α → List α
  | [], _, _ => []
  | _ :: xs, 0, a => a :: xs
  | x :: xs, i + 1, a => x :: setAt xs i a

/-- `Record::refs()` of a record (0 if no handle is outstanding). -/
def heldCnt (held : List (Rec × Nat)) (r : Rec) : Nat :=
  match held with
  | [] => 0
  | (x, n) :: hs => if x = r then n else heldCnt hs r

/-- The held record with a given id (handles are named by record id in the operation language). -/
def heldFind (held : List (Rec × Nat)) (rid : Nat) : Option Rec :=
  match held with
  | [] => none
  | (r, _) :: hs => if r.id = rid then some r else heldFind hs rid

/-- `Record::inc_refs(1)`. -/
def heldInc (held : List (Rec × Nat)) (r : Rec) : List (Rec × Nat) :=
  match held with
  | [] => [(r, 1)]
  | (x, n) :: hs => if x = r then (x, n + 1) :: hs else (x, n) :: heldInc hs r

/-- `Record::dec_refs(1)`; an entry reaching 0 disappears. -/
def heldDec (held : List (Rec × Nat)) (r : Rec) : List (Rec × Nat) :=
  match held with
  | [] => []
  | (x, n) :: hs => if x = r then (if n ≤ 1 then hs else (x, n - 1) :: hs) else (x, n) :: heldDec hs r

section
variable {σ : Type} (P : Policy σ) (cfg : Cfg)

/-- Apply `f` to every shard in order, concatenating the produced events. -/
def mapShards (f : Nat → Shard σ → Shard σ × List (Reason × Rec) × Bool) :
    Nat → List (Shard σ) → List (Shard σ) × List (Reason × Rec) × Bool
  | _, [] => ([], [], false)
  | i, s :: ss =>
    let (s', e, p) := f i s
    let (ss', es, ps) := mapShards f (i + 1) ss
    (s' :: ss', e ++ es, p || ps)

def evictedOf (l : List (Reason × Rec)) : List Rec :=
  (l.filter fun x => x.1 = Reason.evict).map (·.2)

def Cache.step (c : Cache σ) : Op → Cache σ × Out
  | .ins key ver weight hint phantom loc age =>
    let r : Rec := { id := c.nextId, key, hash := cfg.H key, ver, weight, hint, phantom, loc, age }
    let i := cfg.shardOf r.hash
    match c.shards[i]? with
    | none => (c, { ret := .bad })
    | some s =>
      let (s', leaves, panicked) := Shard.emplace P s r
      ({ shards := setAt c.shards i s', nextId := c.nextId + 1, held := heldInc c.held r },
       { ret := if panicked then .panic else .handle r, leaves, piped := evictedOf leaves })
  | .get key =>
    let i := cfg.shardOf (cfg.H key)
    match c.shards[i]? with
    | none => (c, { ret := .bad })
    | some s =>
      match findKey key s.index with
      | none => (c, { ret := .miss })
      | some r =>
        ({ c with shards := setAt c.shards i { s with ev := P.acquire s.ev r }, held := heldInc c.held r },
         { ret := .handle r })
  | .touch key =>
    let i := cfg.shardOf (cfg.H key)
    match c.shards[i]? with
    | none => (c, { ret := .bad })
    | some s =>
      match findKey key s.index with
      | none => (c, { ret := .bool false })
      | some r =>
        -- lookup + acquire, then the temporary handle is dropped again (refs back; release if last)
        let s1 := { s with ev := P.acquire s.ev r }
        let s2 := if heldCnt c.held r = 0 then { s1 with ev := P.release s1.ev r } else s1
        ({ c with shards := setAt c.shards i s2 }, { ret := .bool true })
  | .contains key =>
    let i := cfg.shardOf (cfg.H key)
    match c.shards[i]? with
    | none => (c, { ret := .bad })
    | some s => (c, { ret := .bool (findKey key s.index).isSome })
  | .remove key =>
    let i := cfg.shardOf (cfg.H key)
    match c.shards[i]? with
    | none => (c, { ret := .bad })
    | some s =>
      match findKey key s.index with
      | none => (c, { ret := .miss })
      | some r =>
        ({ c with shards := setAt c.shards i (Shard.unlink P s r), held := heldInc c.held r },
         { ret := .handle r, leaves := [(.remove, r)] })
  | .clone rid =>
    match heldFind c.held rid with
    | none => (c, { ret := .bad })
    | some r => ({ c with held := heldInc c.held r }, { ret := .unit })
  | .drop rid =>
    match heldFind c.held rid with
    | none => (c, { ret := .bad })
    | some r =>
      if heldCnt c.held r ≤ 1 then
        let held' := heldDec c.held r
        if r.phantom then
          ({ c with held := held' }, { ret := .unit, leaves := [(.evict, r)], piped := [r] })
        else
          let i := cfg.shardOf r.hash
          match c.shards[i]? with
          | none => ({ c with held := held' }, { ret := .unit })
          | some s =>
            ({ c with shards := setAt c.shards i { s with ev := P.release s.ev r }, held := held' },
             { ret := .unit })
      else ({ c with held := heldDec c.held r }, { ret := .unit })
  | .clear =>
    let (ss, leaves, _) := mapShards (fun _ s =>
      ({ s with index := [], ev := P.clear s.ev, usage := 0, entries := 0 },
       s.index.map fun r => (Reason.clear, r), false)) 0 c.shards
    ({ c with shards := ss }, { ret := .unit, leaves })
  | .resize cap =>
    let n := c.shards.length
    let (ss, leaves, panicked) := mapShards (fun i s =>
      let sc := shardCapacityFor cap n i
      let (s', victims, p) := Shard.evict P { s with ev := P.update s.ev sc, cap := sc } sc
      (s', victims.map fun v => (Reason.evict, v), p)) 0 c.shards
    ({ c with shards := ss }, { ret := if panicked then .panic else .unit, leaves, piped := evictedOf leaves })
  | .evictAll =>
    let (ss, leaves, panicked) := mapShards (fun _ s =>
      let (s', victims, p) := Shard.evict P s 0
      (s', victims.map fun v => (Reason.evict, v), p)) 0 c.shards
    ({ c with shards := ss }, { ret := if panicked then .panic else .unit, leaves, piped := evictedOf leaves })
  | .flush =>
    let (ss, leaves, panicked) := mapShards (fun _ s =>
      let (s', victims, p) := Shard.evict P s 0
      (s', victims.map fun v => (Reason.evict, v), p)) 0 c.shards
    ({ c with shards := ss }, { ret := if panicked then .panic else .unit, leaves, piped := evictedOf leaves })

/-- Run a list of operations, collecting the outputs. -/
def Cache.run (c : Cache σ) : List Op → Cache σ × List Out
  | [] => (c, [])
  | op :: ops =>
    let (c1, o) := Cache.step P cfg c op
    let (c2, os) := Cache.run c1 ops
    (c2, o :: os)

def Cache.usage (c : Cache σ) : Nat := (c.shards.map (·.usage)).sum
def Cache.entries (c : Cache σ) : Nat := (c.shards.map (·.entries)).sum
def Cache.capacity (c : Cache σ) : Nat := (c.shards.map (·.cap)).sum
/-- What a lookup of `key` would find. -/
def Cache.lookup (c : Cache σ) (key : Nat) : Option Rec :=
  match c.shards[cfg.shardOf (cfg.H key)]? with
  | none => none
  | some s => findKey key s.index

end

end Foyer

namespace Foyer
/-- All records a lookup can find (every shard's index). -/
def Cache.findable {σ : Type} (c : Cache σ) : List Rec := c.shards.flatMap (·.index)
end Foyer

namespace Foyer
/-- The ordinary (non disk-only) records among a list of leave notifications. -/
def leftRecs (l : List (Reason × Rec)) : List Rec := (l.map (·.2)).filter (fun r => !r.phantom)

/-- The ordinary record an operation admitted to the in-memory cache, if any. -/
def admittedOf (op : Op) (out : Out) : List Rec :=
  match op, out.ret with
  | .ins .., .handle r => if r.phantom then [] else [r]
  | _, _ => []

/-- Run, collecting per-step (op, out) pairs. -/
def Cache.admittedAll : List Op → List Out → List Rec
  | op :: ops, o :: os => admittedOf op o ++ Cache.admittedAll ops os
  | _, _ => []

def Cache.leftAll (outs : List Out) : List Rec := outs.flatMap fun o => leftRecs o.leaves
end Foyer

namespace Foyer
/-- The per-key *register* specification (C02): the record of the last completed insert of `k`
that no completed remove of `k`, clear, or disk-only insert of `k` has followed. -/
def regStep (k : Nat) (cur : Option Rec) (op : Op) (out : Out) : Option Rec :=
  match op with
  | .ins key _ _ _ phantom _ _ =>
    if key = k then
      (if phantom then none else match out.ret with
        | .handle r => some r
        | _ => cur)
    else cur
  | .remove key => if key = k then none else cur
  | .clear => none
  | _ => cur

def regRun (k : Nat) : List Op → List Out → Option Rec → Option Rec
  | op :: ops, o :: os, cur => regRun k ops os (regStep k cur op o)
  | _, _, cur => cur
end Foyer

namespace Foyer
section
variable {σ : Type} (P : Policy σ) (cfg : Cfg)

/-- Re-entrant semantics (C16): run `op` — the critical section — and then, *after the lock is
released*, deliver every leave notification in order; a listener may itself issue operations on the
same cache (`cb reason record`), which run as ordinary steps, depth-first, before the next
notification is delivered.  `fuel` bounds the nesting depth. -/
def Cache.stepCb (cb : Reason → Rec → List Op) : Nat → Cache σ → Op → Cache σ × List Out
  | 0, c, op =>
    let r := Cache.step P cfg c op
    (r.1, [r.2])
  | fuel + 1, c, op =>
    let r := Cache.step P cfg c op
    let nested := r.2.leaves.foldl (fun (acc : Cache σ × List Out) (ev : Reason × Rec) =>
      (cb ev.1 ev.2).foldl (fun (acc2 : Cache σ × List Out) op' =>
        let r' := Cache.stepCb cb fuel acc2.1 op'
        (r'.1, acc2.2 ++ r'.2)) acc) (r.1, [])
    (nested.1, r.2 :: nested.2)
end
end Foyer
