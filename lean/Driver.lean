import Driver.Proto
import Driver.Mem
