import FoyerProofs.C05
/-
  C16 — User callbacks run outside cache locks, so re-entrant use cannot deadlock.

  In the model one `Cache.step` is the critical section of an operation; its notifications
  (`Out.leaves`) are data returned by the step.  `Cache.stepCb` is the re-entrant semantics: the
  notifications are delivered after the step (after the lock is released) and whatever the listener
  does with the same cache runs as ordinary, enabled steps.  The theorems say that this is
  well-defined for *every* callback behaviour and nesting depth: the nested operations start from the
  post-state of the outer operation, keep every invariant, and never reach a panic.  That the real
  code delivers its callbacks at that point (and not under a lock) is what the correspondence shows:
  a callback moved under the lock deadlocks (watchdog), a callback moved before the state change
  observes a different state.
-/
namespace Foyer.C16

variable {σ : Type} {P : Policy σ} {Ok : σ → Prop}

/-- **callbacks_after_unlock**: the first thing a listener can observe is the state *after* the
outer operation's critical section. -/
theorem callbacks_after_unlock (cfg : Cfg) (cb : Reason → Rec → List Op) (fuel : Nat) (c : Cache σ) (op : Op) :
    ∃ rest, (Cache.stepCb P cfg cb fuel c op).2 = (Cache.step P cfg c op).2 :: rest := by
  cases fuel with
  | zero => exact ⟨[], rfl⟩
  | succ f => exact ⟨_, rfl⟩

/-- A callback that does nothing leaves exactly the outer step. -/
theorem no_callback (cfg : Cfg) (fuel : Nat) (c : Cache σ) (op : Op) :
    Cache.stepCb P cfg (fun _ _ => []) fuel c op = ((Cache.step P cfg c op).1, [(Cache.step P cfg c op).2]) := by
  cases fuel with
  | zero => rfl
  | succ f =>
    simp only [Cache.stepCb]
    have : ∀ (l : List (Reason × Rec)) (acc : Cache σ × List Out),
        l.foldl (fun (acc : Cache σ × List Out) (ev : Reason × Rec) =>
          ([] : List Op).foldl (fun (acc2 : Cache σ × List Out) op' =>
            ((Cache.stepCb P cfg (fun _ _ => []) f acc2.1 op').1, acc2.2 ++ (Cache.stepCb P cfg (fun _ _ => []) f acc2.1 op').2)) acc) acc = acc := by
      intro l
      induction l with
      | nil => intro acc; rfl
      | cons x xs ih => intro acc; simp only [List.foldl_cons, List.foldl_nil]; exact ih acc
    rw [this]

/-- **reentrant_ops_complete**: whatever the listeners do and however deep they nest, every nested
operation is an ordinary step from an invariant-satisfying state: the invariant holds afterwards and
no operation (outer or nested) reaches an `unwrap()` / `assert!`. -/
theorem reentrant_inv (L : Lawful P Ok) {cfg : Cfg} (hn : 0 < cfg.nshards) (cb : Reason → Rec → List Op) :
    ∀ (fuel : Nat) (c : Cache σ) (op : Op), CacheInv P Ok cfg c →
      CacheInv P Ok cfg (Cache.stepCb P cfg cb fuel c op).1 ∧
      ∀ o ∈ (Cache.stepCb P cfg cb fuel c op).2, o.ret ≠ Ret.panic := by
  intro fuel
  induction fuel with
  | zero =>
    intro c op hc
    simp only [Cache.stepCb]
    refine ⟨step_inv L hn hc op, ?_⟩
    intro o ho
    simp only [List.mem_singleton] at ho
    subst ho
    exact C05.no_panic L hn hc op
  | succ f ih =>
    intro c op hc
    simp only [Cache.stepCb]
    have h1 := step_inv L hn hc op
    -- the inner fold over one callback's operations
    have inner : ∀ (ops : List Op) (acc : Cache σ × List Out),
        CacheInv P Ok cfg acc.1 → (∀ o ∈ acc.2, o.ret ≠ Ret.panic) →
        CacheInv P Ok cfg (ops.foldl (fun (acc2 : Cache σ × List Out) op' =>
            ((Cache.stepCb P cfg cb f acc2.1 op').1, acc2.2 ++ (Cache.stepCb P cfg cb f acc2.1 op').2)) acc).1 ∧
        ∀ o ∈ (ops.foldl (fun (acc2 : Cache σ × List Out) op' =>
            ((Cache.stepCb P cfg cb f acc2.1 op').1, acc2.2 ++ (Cache.stepCb P cfg cb f acc2.1 op').2)) acc).2, o.ret ≠ Ret.panic := by
      intro ops
      induction ops with
      | nil => intro acc h1 h2; exact ⟨h1, h2⟩
      | cons op' ops ihops =>
        intro acc ha hb
        simp only [List.foldl_cons]
        have := ih acc.1 op' ha
        apply ihops
        · exact this.1
        · intro o ho
          rcases List.mem_append.mp ho with h | h
          · exact hb o h
          · exact this.2 o h
    have outer : ∀ (evs : List (Reason × Rec)) (acc : Cache σ × List Out),
        CacheInv P Ok cfg acc.1 → (∀ o ∈ acc.2, o.ret ≠ Ret.panic) →
        CacheInv P Ok cfg (evs.foldl (fun (acc : Cache σ × List Out) (ev : Reason × Rec) =>
          (cb ev.1 ev.2).foldl (fun (acc2 : Cache σ × List Out) op' =>
            ((Cache.stepCb P cfg cb f acc2.1 op').1, acc2.2 ++ (Cache.stepCb P cfg cb f acc2.1 op').2)) acc) acc).1 ∧
        ∀ o ∈ (evs.foldl (fun (acc : Cache σ × List Out) (ev : Reason × Rec) =>
          (cb ev.1 ev.2).foldl (fun (acc2 : Cache σ × List Out) op' =>
            ((Cache.stepCb P cfg cb f acc2.1 op').1, acc2.2 ++ (Cache.stepCb P cfg cb f acc2.1 op').2)) acc) acc).2, o.ret ≠ Ret.panic := by
      intro evs
      induction evs with
      | nil => intro acc h1 h2; exact ⟨h1, h2⟩
      | cons ev evs ihevs =>
        intro acc ha hb
        simp only [List.foldl_cons]
        have := inner (cb ev.1 ev.2) acc ha hb
        exact ihevs _ this.1 this.2
    have := outer (Cache.step P cfg c op).2.leaves ((Cache.step P cfg c op).1, []) h1 (by intro o ho; cases ho)
    refine ⟨this.1, ?_⟩
    intro o ho
    rcases List.mem_cons.mp ho with rfl | h
    · exact C05.no_panic L hn hc op
    · exact this.2 o h

/-! ### lock nesting of the in-memory cache (a table about the code, checked completely) -/

/-- The locks of the in-memory cache and the only nesting the code performs: the in-flight mutex is
taken while the shard lock is held (`emplace`, `get_or_fetch_inner`); shard locks are never nested
(`clear`, `usage`, `evict_all`, `flush` take them one at a time, `resize` one per thread); listener,
pipe, weighter, filter and destructors are invoked with no lock held. -/
inductive Lock where
  | shard | inflight
deriving DecidableEq, Repr

def nesting : List (Lock × Lock) := [(.shard, .inflight)]

/-- **lock_order_acyclic**: no lock is (transitively) taken while a lock that is taken under it is
held. -/
theorem lock_order_acyclic : ∀ a b, (a, b) ∈ nesting → (b, a) ∉ nesting ∧ a ≠ b := by
  intro a b h
  cases a <;> cases b <;> simp [nesting] at h ⊢

/-! ### Non-vacuity: a listener that re-enters the cache on every eviction -/
namespace Demo
def cfg : Cfg := { nshards := 1, H := fun k => k }
def cb : Reason → Rec → List Op := fun e r => if e = .evict then [.contains r.key, .ins (1000 + r.key) 99 1 .normal false] else []
def run3 := Cache.stepCb fifoPolicy cfg cb 1
  (Cache.run fifoPolicy cfg (Cache.new fifoPolicy cfg 2) [.ins 0 1 1 .normal false, .ins 1 2 1 .normal false]).1
  (.ins 2 3 1 .normal false)
/-- the third insert evicts key 0; the listener sees key 0 gone (`contains` = false) and inserts
key 1000, which in turn evicts key 1 -/
example : run3.2.map (·.ret) = [.handle { id := 2, key := 2, hash := 2, ver := 3, weight := 1 }, .bool false, .handle { id := 3, key := 1000, hash := 1000, ver := 99, weight := 1 }] := by decide
example : run3.2.map (fun o => o.leaves.map (·.2.key)) = [[0], [], [1]] := by decide
end Demo

end Foyer.C16
