import FoyerProofs.Lemmas.CacheInv
import FoyerProofs.Lemmas.LawfulBasic
/-
  C05 — Memory usage accounting is exact and capacity-bounded without over-eviction.

  Only the property theorems live here (helper lemmas: `FoyerProofs/Lemmas/*`).  Everything is
  proved for an arbitrary *lawful* eviction policy `P` (FIFO, LRU, LFU, S3-FIFO and SIEVE are each
  proved lawful in `FoyerProofs/C14.lean`), an arbitrary hasher `cfg.H`, any number of shards
  `cfg.nshards > 0`, any capacity, arbitrary weights and every operation sequence.
-/
namespace Foyer.C05

variable {σ : Type} {P : Policy σ} {Ok : σ → Prop}

/-- Shard capacities add up to the configured capacity (`RawCache::shard_capacity_for`). -/
theorem caps_sum (total n : Nat) (hn : 0 < n) :
    ((List.range n).map (shardCapacityFor total n)).sum = total := by
  have key : ∀ m, m ≤ n →
      ((List.range m).map (shardCapacityFor total n)).sum = m * (total / n) + min m (total % n) := by
    intro m
    induction m with
    | zero => intro _; simp
    | succ m ih =>
      intro hm
      rw [List.range_succ, List.map_append, List.sum_append, ih (by omega)]
      simp only [List.map_cons, List.map_nil, List.sum_cons, List.sum_nil, shardCapacityFor]
      have hmod : total % n < n := Nat.mod_lt _ hn
      split
      · rw [Nat.succ_mul]; omega
      · rw [Nat.succ_mul]; omega
  rw [key n (Nat.le_refl _)]
  have hmod : total % n < n := Nat.mod_lt _ hn
  have := Nat.div_add_mod total n
  rw [Nat.min_eq_right (Nat.le_of_lt hmod)]
  exact this

/-- A freshly built cache has exactly the configured capacity. -/
theorem new_capacity (cfg : Cfg) (hn : 0 < cfg.nshards) (cap : Nat) :
    Cache.capacity (Cache.new P cfg cap) = cap := by
  simp only [Cache.capacity, Cache.new, List.map_map]
  have : ((fun (s : Shard σ) => s.cap) ∘ fun i => Shard.new P (shardCapacityFor cap cfg.nshards i))
      = shardCapacityFor cap cfg.nshards := by
    funext i; simp [Shard.new]
  rw [this]
  exact caps_sum cap cfg.nshards hn

private theorem usage_sum (l : List (Shard σ)) (h : ∀ s ∈ l, s.usage = wsum s.index ∧ s.entries = s.index.length) :
    (l.map (·.usage)).sum = wsum (l.flatMap (·.index)) ∧
    (l.map (·.entries)).sum = (l.flatMap (·.index)).length := by
  induction l with
  | nil => simp [wsum]
  | cons s ss ih =>
    have hs := h s List.mem_cons_self
    have := ih (fun t ht => h t (List.mem_cons_of_mem _ ht))
    simp only [List.map_cons, List.sum_cons, List.flatMap_cons, wsum_append, List.length_append]
    omega

/-- **usage_exact**: in every reachable state `usage()` is the summed weight of the entries a
lookup can still find, and `entries()` is their number. -/
theorem usage_exact_inv {cfg : Cfg} {c : Cache σ} (hc : CacheInv P Ok cfg c) :
    Cache.usage c = wsum c.findable ∧ Cache.entries c = c.findable.length := by
  apply usage_sum
  intro s hs
  obtain ⟨i, hi, rfl⟩ := List.getElem_of_mem hs
  have h := hc.shard i c.shards[i] (List.getElem?_eq_getElem hi)
  exact ⟨h.usage_eq, h.entries_eq⟩

/-- `findable` really is "what a lookup can still find". -/
theorem findable_iff_lookup {cfg : Cfg} {c : Cache σ} (hc : CacheInv P Ok cfg c) (r : Rec) :
    r ∈ c.findable ↔ Cache.lookup cfg c r.key = some r := by
  constructor
  · intro hr
    simp only [Cache.findable, List.mem_flatMap] at hr
    obtain ⟨s, hs, hrs⟩ := hr
    obtain ⟨i, hi, rfl⟩ := List.getElem_of_mem hs
    have hget : c.shards[i]? = some c.shards[i] := List.getElem?_eq_getElem hi
    have hp := hc.placed i _ hget r hrs
    have hk := (hc.shard i _ hget).keys
    simp only [Cache.lookup]
    rw [← hp.1, hp.2, hget]
    exact findKey_of_mem hk hrs
  · intro hl
    simp only [Cache.lookup] at hl
    split at hl
    · cases hl
    · rename_i s hs
      have := (findKey_some hl).1
      simp only [Cache.findable, List.mem_flatMap]
      exact ⟨s, List.mem_of_getElem? hs, this⟩

/-- **usage_exact**, for every operation sequence from a fresh cache. -/
theorem usage_exact (L : Lawful P Ok) (cfg : Cfg) (hn : 0 < cfg.nshards) (cap : Nat) (ops : List Op) :
    let c := (Cache.run P cfg (Cache.new P cfg cap) ops).1
    Cache.usage c = wsum c.findable ∧ Cache.entries c = c.findable.length ∧
    ∀ r, r ∈ c.findable ↔ Cache.lookup cfg c r.key = some r := by
  have hc := run_inv L hn ops _ (new_inv L cfg cap)
  exact ⟨(usage_exact_inv hc).1, (usage_exact_inv hc).2, findable_iff_lookup hc⟩

/-- **evict_minimal / insert_bound**: an insert evicts only while `usage + weight > capacity`
(the copy being replaced still counts), never hits an `unwrap`, and afterwards the shard is within
capacity unless the policy has nothing left to pop or the new entry alone exceeds the shard. -/
theorem insert_evicts_minimally (L : Lawful P Ok) {cfg : Cfg} {c : Cache σ}
    (hc : CacheInv P Ok cfg c) (key ver weight : Nat) (hint : Hint) (loc : Loc) (age : Age) (s : Shard σ)
    (hs : c.shards[cfg.shardOf (cfg.H key)]? = some s) :
    let res := Cache.step P cfg c (.ins key ver weight hint false loc age)
    res.2.ret ≠ Ret.panic ∧
    ∃ (vs : List Rec) (repl : List (Reason × Rec)) (s1 s' : Shard σ),
      res.2.leaves = vs.map (fun v => (Reason.evict, v)) ++ repl ∧
      (repl = [] ∨ ∃ old, repl = [(Reason.replace, old)] ∧ old.key = key ∧ old ∈ s.index) ∧
      (∀ v ∈ vs, v ∈ s.index) ∧
      -- every eviction was necessary
      (∀ pre v post, vs = pre ++ v :: post → s.usage - wsum pre + weight > s.cap) ∧
      -- the loop stopped only when it could
      (s1.usage + wsum vs = s.usage) ∧ (s1.usage + weight ≤ s.cap ∨ s.cap < weight ∨ P.pop s1.ev = none) ∧
      res.1.shards[cfg.shardOf (cfg.H key)]? = some s' ∧ s'.cap = s.cap ∧
      (s'.usage ≤ s.cap ∨ s.cap < weight ∨ P.pop s1.ev = none) := by
  have hsi := hc.shard _ s hs
  have hfr := hc.fresh _ s hs
  have sp := emplace_spec (r := { id := c.nextId, key, hash := cfg.H key, ver, weight, hint, phantom := false, loc, age }) L hsi rfl
    (fun x hx => Nat.ne_of_lt (hfr x hx))
  simp only [Cache.step, hs]
  generalize Shard.emplace P s _ = res at sp
  obtain ⟨s', lv, pk⟩ := res
  have hpk : pk = false := sp.no_panic
  subst hpk
  obtain ⟨s1, vs, repl, hevq, es, hlv, hcase⟩ := sp.shape
  obtain ⟨vs', hvs, hu, he, hneed, hidx, hsub, hnd⟩ := es.victims
  simp only [List.nil_append] at hvs
  subst hvs
  have hlen : cfg.shardOf (cfg.H key) < c.shards.length := by
    have := List.getElem?_eq_some_iff.mp hs
    exact this.1
  refine ⟨by simp, vs, repl, s1, s', hlv, ?_, hsub, ?_, hu, ?_, ?_, sp.cap_eq, ?_⟩
  · rcases hcase with ⟨h1, _⟩ | ⟨old, h1, h2, _⟩
    · exact Or.inl h1
    · have := findKey_some h2
      exact Or.inr ⟨old, h1, this.2, ((hidx old).mp this.1).1⟩
  · intro pre v post hh
    have : s.usage - wsum pre > s.cap - weight := hneed pre v post hh
    omega
  · rcases es.done with h | h
    · by_cases hw : weight ≤ s.cap
      · left; show s1.usage + weight ≤ s.cap; have : s1.usage ≤ s.cap - weight := h; omega
      · right; left; omega
    · exact Or.inr (Or.inr h)
  · simp [getElem?_setAt, hlen]
  · rcases es.done with h | h
    · by_cases hw : weight ≤ s.cap
      · left
        have h' : s1.usage ≤ s.cap - weight := h
        rcases hcase with ⟨_, _, h3, _⟩ | ⟨old, _, _, h3, _⟩
        · show s'.usage ≤ s.cap
          have h3' : s'.usage = s1.usage + weight := h3
          omega
        · show s'.usage ≤ s.cap
          have h3' : s'.usage + old.weight = s1.usage + weight := h3
          omega
      · right; left; omega
    · exact Or.inr (Or.inr h)

/-- **phantom_neutral**: a disk-only (phantom) insert evicts nothing and does not increase usage. -/
theorem phantom_neutral (L : Lawful P Ok) {cfg : Cfg} {c : Cache σ}
    (hc : CacheInv P Ok cfg c) (key ver weight : Nat) (hint : Hint) (loc : Loc) (age : Age) (s : Shard σ)
    (hs : c.shards[cfg.shardOf (cfg.H key)]? = some s) :
    let res := Cache.step P cfg c (.ins key ver weight hint true loc age)
    res.2.piped = [] ∧ (∀ e x, (e, x) ∈ res.2.leaves → e ≠ Reason.evict) ∧
    ∃ s', res.1.shards[cfg.shardOf (cfg.H key)]? = some s' ∧ s'.usage ≤ s.usage ∧ s'.cap = s.cap := by
  have hsi := hc.shard _ s hs
  have sp := emplace_phantom_spec (r := { id := c.nextId, key, hash := cfg.H key, ver, weight, hint, phantom := true, loc, age }) L hsi rfl
  simp only [Cache.step, hs]
  generalize Shard.emplace P s _ = res at sp
  obtain ⟨s', lv, pk⟩ := res
  obtain ⟨_, _, hcap, _, _, hu, hne⟩ := sp
  have hlen : cfg.shardOf (cfg.H key) < c.shards.length := (List.getElem?_eq_some_iff.mp hs).1
  refine ⟨?_, hne, s', by simp [getElem?_setAt, hlen], hu, hcap⟩
  simp only [evictedOf, List.map_eq_nil_iff, List.filter_eq_nil_iff]
  intro x hx
  have := hne x.1 x.2 hx
  simpa using this

/-- **clear_zero**: `clear()` leaves usage 0 and no entries, in every shard. -/
theorem clear_zero (cfg : Cfg) (c : Cache σ) :
    let c' := (Cache.step P cfg c .clear).1
    Cache.usage c' = 0 ∧ Cache.entries c' = 0 ∧ c'.findable = [] := by
  simp only [Cache.step, Cache.usage, Cache.entries, Cache.findable]
  have h : ∀ (l : List (Shard σ)) (i0 : Nat),
      let ss := (mapShards (fun _ (s : Shard σ) =>
        (({ s with index := [], ev := P.clear s.ev, usage := 0, entries := 0 } : Shard σ),
          s.index.map fun r => (Reason.clear, r), false)) i0 l).1
      (ss.map (·.usage)).sum = 0 ∧ (ss.map (·.entries)).sum = 0 ∧ ss.flatMap (·.index) = [] := by
    intro l
    induction l with
    | nil => intro i0; simp [mapShards]
    | cons s ss ih =>
      intro i0
      have := ih (i0 + 1)
      simp only [mapShards, List.map_cons, List.sum_cons, List.flatMap_cons]
      simp only [] at this
      refine ⟨by omega, by omega, by simp [this.2.2]⟩
  exact h c.shards 0

/-- **resize_bound**: after `resize(n)` the shard capacities add up to `n` and every shard is within
its new capacity unless its policy has nothing left to pop; no eviction happened that was not
needed. -/
theorem resize_bound (L : Lawful P Ok) {cfg : Cfg} (hn : 0 < cfg.nshards) {c : Cache σ}
    (hc : CacheInv P Ok cfg c) (n : Nat) :
    let c' := (Cache.step P cfg c (.resize n)).1
    Cache.capacity c' = n ∧
    ∀ (i : Nat) (s' : Shard σ), c'.shards[i]? = some s' →
      s'.cap = shardCapacityFor n cfg.nshards i ∧ (s'.usage ≤ s'.cap ∨ P.pop s'.ev = none) := by
  simp only [Cache.step]
  have hshard : ∀ (i : Nat) (s' : Shard σ),
      (mapShards (fun i (s : Shard σ) =>
        let sc := shardCapacityFor n c.shards.length i
        let r := Shard.evict P { s with ev := P.update s.ev sc, cap := sc } sc
        (r.1, r.2.1.map fun v => (Reason.evict, v), r.2.2)) 0 c.shards).1[i]? = some s' →
      s'.cap = shardCapacityFor n cfg.nshards i ∧ (s'.usage ≤ s'.cap ∨ P.pop s'.ev = none) := by
    intro i s' h
    rw [mapShards_getElem?] at h
    cases hs : c.shards[i]? with
    | none => simp [hs] at h
    | some s =>
      simp only [hs, Option.map_some, Option.some.injEq, Nat.zero_add] at h
      subst h
      have hsi := hc.shard i s hs
      have h1 : ShardInv P Ok { s with ev := P.update s.ev (shardCapacityFor n c.shards.length i),
                                       cap := shardCapacityFor n c.shards.length i } :=
        ⟨L.update_ok _ _ hsi.ok, fun x => by rw [L.update_mem _ _ hsi.ok x]; exact hsi.mem_iff x,
          hsi.keys, hsi.usage_eq, hsi.entries_eq⟩
      have es := evict_spec L (shardCapacityFor n c.shards.length i) _ h1
      rw [hc.len] at es ⊢
      refine ⟨es.cap_eq, ?_⟩
      rcases es.done with h | h
      · left; rw [es.cap_eq]; exact h
      · right; exact h
  refine ⟨?_, hshard⟩
  -- capacities sum
  simp only [Cache.capacity]
  have hcaps : ((mapShards (fun i (s : Shard σ) =>
        let sc := shardCapacityFor n c.shards.length i
        let r := Shard.evict P { s with ev := P.update s.ev sc, cap := sc } sc
        (r.1, r.2.1.map fun v => (Reason.evict, v), r.2.2)) 0 c.shards).1.map (·.cap)) =
      (List.range cfg.nshards).map (shardCapacityFor n cfg.nshards) := by
    apply List.ext_getElem?
    intro i
    rw [List.getElem?_map, List.getElem?_map, mapShards_getElem?]
    cases hs : c.shards[i]? with
    | none =>
      have : cfg.nshards ≤ i := by
        have := List.getElem?_eq_none_iff.mp hs
        rw [hc.len] at this; exact this
      simp [List.getElem?_eq_none_iff.mpr (by simpa using this : (List.range cfg.nshards).length ≤ i)]
    | some s =>
      have hi : i < cfg.nshards := by
        have := (List.getElem?_eq_some_iff.mp hs).1
        rw [hc.len] at this; exact this
      simp only [Option.map_some, Nat.zero_add, evict_cap, hc.len]
      rw [List.getElem?_range hi]
      rfl
  rw [hcaps]
  exact caps_sum n cfg.nshards hn

/-- No operation of any sequence ever reaches an `unwrap()` / `assert!` of the eviction loop. -/
theorem no_panic (L : Lawful P Ok) {cfg : Cfg} (hn : 0 < cfg.nshards) {c : Cache σ}
    (hc : CacheInv P Ok cfg c) (op : Op) : (Cache.step P cfg c op).2.ret ≠ Ret.panic := by
  have hmap : ∀ (f : Nat → Shard σ → Shard σ × List (Reason × Rec) × Bool),
      (∀ i s, ShardInv P Ok s → (f i s).2.2 = false) →
      ∀ (l : List (Shard σ)) (i0 : Nat), (∀ s ∈ l, ShardInv P Ok s) → (mapShards f i0 l).2.2 = false := by
    intro f hf l
    induction l with
    | nil => intro i0 _; simp [mapShards]
    | cons s ss ih =>
      intro i0 hl
      simp only [mapShards, Bool.or_eq_false_iff]
      exact ⟨hf _ _ (hl s List.mem_cons_self), ih (i0 + 1) (fun t ht => hl t (List.mem_cons_of_mem _ ht))⟩
  have hall : ∀ s ∈ c.shards, ShardInv P Ok s := by
    intro s hs
    obtain ⟨i, hi, rfl⟩ := List.getElem_of_mem hs
    exact hc.shard i _ (List.getElem?_eq_getElem hi)
  cases op with
  | ins key ver weight hint phantom loc age =>
    simp only [Cache.step]
    split
    · simp
    · rename_i s hs
      have hsi := hc.shard _ s hs
      cases phantom with
      | true =>
        have sp := emplace_phantom_spec (r := { id := c.nextId, key, hash := cfg.H key, ver, weight, hint, phantom := true, loc, age }) L hsi rfl
        generalize Shard.emplace P s _ = res at sp
        obtain ⟨s', lv, pk⟩ := res
        have : pk = false := sp.1
        subst this; simp
      | false =>
        have sp := emplace_spec (r := { id := c.nextId, key, hash := cfg.H key, ver, weight, hint, phantom := false, loc, age }) L hsi rfl
          (fun x hx => Nat.ne_of_lt (hc.fresh _ s hs x hx))
        generalize Shard.emplace P s _ = res at sp
        obtain ⟨s', lv, pk⟩ := res
        have : pk = false := sp.no_panic
        subst this; simp
  | get key =>
    simp only [Cache.step]
    split
    · simp
    · split <;> simp
  | touch key =>
    simp only [Cache.step]
    split
    · simp
    · split <;> simp
  | contains key => simp only [Cache.step]; split <;> simp
  | remove key =>
    simp only [Cache.step]
    split
    · simp
    · split <;> simp
  | clone rid => simp only [Cache.step]; split <;> simp
  | drop rid =>
    simp only [Cache.step]
    split
    · simp
    · split
      · split
        · simp
        · split <;> simp
      · simp
  | clear => simp [Cache.step]
  | resize cap =>
    simp only [Cache.step]
    have := hmap (fun i (s : Shard σ) =>
        let sc := shardCapacityFor cap c.shards.length i
        let r := Shard.evict P { s with ev := P.update s.ev sc, cap := sc } sc
        (r.1, r.2.1.map fun v => (Reason.evict, v), r.2.2)) (by
      intro i s hsi
      have h1 : ShardInv P Ok { s with ev := P.update s.ev (shardCapacityFor cap c.shards.length i),
                                       cap := shardCapacityFor cap c.shards.length i } :=
        ⟨L.update_ok _ _ hsi.ok, fun x => by rw [L.update_mem _ _ hsi.ok x]; exact hsi.mem_iff x,
          hsi.keys, hsi.usage_eq, hsi.entries_eq⟩
      exact (evict_spec L _ _ h1).no_panic) c.shards 0 hall
    simp only [] at this
    simp [this]
  | evictAll =>
    simp only [Cache.step]
    have := hmap (fun _ (s : Shard σ) =>
        let r := Shard.evict P s 0
        (r.1, r.2.1.map fun v => (Reason.evict, v), r.2.2)) (by
      intro i s hsi
      exact (evict_spec L _ _ hsi).no_panic) c.shards 0 hall
    simp only [] at this
    simp [this]
  | flush =>
    simp only [Cache.step]
    have := hmap (fun _ (s : Shard σ) =>
        let r := Shard.evict P s 0
        (r.1, r.2.1.map fun v => (Reason.evict, v), r.2.2)) (by
      intro i s hsi
      exact (evict_spec L _ _ hsi).no_panic) c.shards 0 hall
    simp only [] at this
    simp [this]

end Foyer.C05

/-! ### Non-vacuity: the hypotheses are met by concrete, non-trivial reachable states -/
namespace Foyer.C05.Demo

def cfg : Cfg := { nshards := 2, H := fun k => k }
/-- three inserts into shard 0 (capacity 3 of 6): the third one must evict the first -/
def ops : List Op := [.ins 0 1 2 .normal false, .ins 2 2 1 .normal false, .ins 4 3 2 .normal false]

example : ((Cache.run fifoPolicy cfg (Cache.new fifoPolicy cfg 6) ops).2.map fun o => o.leaves.map (·.2.key)) = [[], [], [0]] := by
  decide
example : Cache.usage (Cache.run fifoPolicy cfg (Cache.new fifoPolicy cfg 6) ops).1 = 3 := by decide

/-- `usage_exact` instantiated: the statement is about a state with evictions behind it. -/
example :
    let c := (Cache.run fifoPolicy cfg (Cache.new fifoPolicy cfg 6) ops).1
    Cache.usage c = wsum c.findable ∧ Cache.entries c = c.findable.length :=
  let h := usage_exact fifo_lawful cfg (by decide) 6 ops
  ⟨h.1, h.2.1⟩

/-- `insert_evicts_minimally`'s premise (a reachable state satisfying the invariant, a shard at the
hashed index) is satisfiable. -/
example : ∃ s, (Cache.run fifoPolicy cfg (Cache.new fifoPolicy cfg 6) (ops.take 2)).1.shards[cfg.shardOf (cfg.H 4)]? = some s ∧
    CacheInv fifoPolicy (fun s => idsNodup s.q) cfg (Cache.run fifoPolicy cfg (Cache.new fifoPolicy cfg 6) (ops.take 2)).1 :=
  ⟨_, rfl, run_inv fifo_lawful (by decide) _ _ (new_inv fifo_lawful cfg 6)⟩

end Foyer.C05.Demo
