import FoyerProofs.Lemmas.Hybrid
import FoyerProofs.Lemmas.Conservation
import FoyerProofs.C02
/-
  Facts about the memory tier (`FoyerModel.Mem`) in the form the hybrid refinement needs:
  what a lookup returns carries the requested key; every findable record is the lookup of its key;
  what a step pipes (evicts) was findable before the step, or is the record the step admitted.
-/
namespace Foyer
open Foyer

variable {σ : Type} {P : Policy σ} {Ok : σ → Prop}

theorem lookup_key (cfg : Cfg) (c : Cache σ) (k : Nat) (r : Rec) (h : Cache.lookup cfg c k = some r) : r.key = k := by
  unfold Cache.lookup at h
  split at h
  · cases h
  · exact (findKey_some h).2

/-- Every findable record is what a lookup of its key returns. -/
theorem lookup_of_findable {cfg : Cfg} {c : Cache σ} (hc : CacheInv P Ok cfg c) {r : Rec} (hr : r ∈ c.findable) :
    Cache.lookup cfg c r.key = some r := by
  unfold Cache.findable at hr
  rw [List.mem_flatMap] at hr
  obtain ⟨s, hs, hrs⟩ := hr
  obtain ⟨i, hi⟩ := List.getElem?_of_mem hs
  have hpl := hc.placed i s hi r hrs
  unfold Cache.lookup
  rw [← hpl.1, hpl.2, hi]
  exact findKey_of_mem (hc.shard i s hi).keys hrs

theorem findable_of_lookup {cfg : Cfg} {c : Cache σ} {k : Nat} {r : Rec} (h : Cache.lookup cfg c k = some r) :
    r ∈ c.findable := by
  unfold Cache.lookup at h
  split at h
  · cases h
  · rename_i s hs
    unfold Cache.findable
    rw [List.mem_flatMap]
    exact ⟨s, List.mem_of_getElem? hs, (findKey_some h).1⟩

theorem mem_evictedOf {l : List (Reason × Rec)} {r : Rec} (h : r ∈ evictedOf l) : (Reason.evict, r) ∈ l := by
  unfold evictedOf at h
  simp only [List.mem_map, List.mem_filter, decide_eq_true_eq] at h
  obtain ⟨x, ⟨hx, he⟩, hr⟩ := h
  have : x = (Reason.evict, r) := by cases x; simp_all
  rw [← this]; exact hx

/-- What a step hands to the pipe: an ordinary record that was findable before the step or that the step
itself admitted — or a disk-only (phantom) record. -/
theorem piped_origin (L : Lawful P Ok) {cfg : Cfg} {c : Cache σ} (hc : CacheInv P Ok cfg c) (op : Op) (r : Rec)
    (hr : r ∈ (Cache.step P cfg c op).2.piped) :
    r.phantom = true ∨ r ∈ c.findable ∨ r ∈ admittedOf op (Cache.step P cfg c op).2 := by
  by_cases hp : r.phantom = true
  · left; exact hp
  · right
    rw [C13.pipe_iff_evict] at hr
    have hl := mem_evictedOf hr
    have hleft : r ∈ leftRecs (Cache.step P cfg c op).2.leaves := by
      unfold leftRecs
      simp only [List.mem_filter, List.mem_map]
      refine ⟨⟨(Reason.evict, r), hl, rfl⟩, ?_⟩
      simpa using hp
    have hperm := step_conservation L hc op
    have : r ∈ admittedOf op (Cache.step P cfg c op).2 ++ c.findable :=
      hperm.symm.subset (List.mem_append.mpr (Or.inr hleft))
    rcases List.mem_append.mp this with h1 | h1
    · right; exact h1
    · left; exact h1

end Foyer
