import FoyerModel.Basic
/-
  Helper lemmas about the association-list helpers of `FoyerModel.Basic`.
-/
namespace Foyer

theorem findKey_some {k : Nat} {l : List Rec} {r : Rec} (h : findKey k l = some r) :
    r ∈ l ∧ r.key = k := by
  induction l with
  | nil => simp [findKey] at h
  | cons x xs ih =>
    simp only [findKey] at h
    split at h
    · cases h; simp_all
    · have := ih h; simp_all

theorem findKey_none {k : Nat} {l : List Rec} : findKey k l = none ↔ ∀ r ∈ l, r.key ≠ k := by
  induction l with
  | nil => simp [findKey]
  | cons x xs ih =>
    simp only [findKey]
    split
    · simp_all
    · simp_all

theorem mem_eraseKey {k : Nat} {l : List Rec} {x : Rec} : x ∈ eraseKey k l ↔ x ∈ l ∧ x.key ≠ k := by
  induction l with
  | nil => simp [eraseKey]
  | cons y ys ih =>
    simp only [eraseKey]
    split
    · rename_i hy
      rw [ih]; constructor
      · rintro ⟨h1, h2⟩; exact ⟨List.mem_cons_of_mem _ h1, h2⟩
      · rintro ⟨h1, h2⟩
        rcases List.mem_cons.mp h1 with rfl | h
        · exact absurd hy h2
        · exact ⟨h, h2⟩
    · rename_i hy
      simp only [List.mem_cons, ih]; constructor
      · rintro (rfl | ⟨h1, h2⟩)
        · exact ⟨Or.inl rfl, hy⟩
        · exact ⟨Or.inr h1, h2⟩
      · rintro ⟨rfl | h1, h2⟩
        · exact Or.inl rfl
        · exact Or.inr ⟨h1, h2⟩

theorem eraseKey_of_not_mem {k : Nat} {l : List Rec} (h : ∀ r ∈ l, r.key ≠ k) : eraseKey k l = l := by
  induction l with
  | nil => rfl
  | cons y ys ih =>
    simp only [eraseKey]
    have hy : y.key ≠ k := h y (List.mem_cons_self)
    simp only [hy, if_false]
    rw [ih (fun r hr => h r (List.mem_cons_of_mem _ hr))]

def keysNodup (l : List Rec) : Prop := (l.map (·.key)).Nodup

theorem keysNodup_cons {x : Rec} {l : List Rec} :
    keysNodup (x :: l) ↔ (∀ r ∈ l, r.key ≠ x.key) ∧ keysNodup l := by
  unfold keysNodup
  simp only [List.map_cons, List.nodup_cons, List.mem_map, not_exists, not_and]

theorem keysNodup_eraseKey {k : Nat} {l : List Rec} (h : keysNodup l) : keysNodup (eraseKey k l) := by
  induction l with
  | nil => simpa [eraseKey] using h
  | cons y ys ih =>
    rw [keysNodup_cons] at h
    simp only [eraseKey]
    split
    · exact ih h.2
    · rw [keysNodup_cons]
      exact ⟨fun r hr => h.1 r (mem_eraseKey.mp hr).1, ih h.2⟩

theorem findKey_of_mem {l : List Rec} {r : Rec} (hn : keysNodup l) (hr : r ∈ l) :
    findKey r.key l = some r := by
  induction l with
  | nil => cases hr
  | cons y ys ih =>
    rw [keysNodup_cons] at hn
    simp only [findKey]
    rcases List.mem_cons.mp hr with rfl | h
    · simp
    · have : y.key ≠ r.key := fun e => hn.1 r h e.symm
      simp only [this, if_false]
      exact ih hn.2 h

theorem wsum_eraseKey {k : Nat} {l : List Rec} {r : Rec} (hn : keysNodup l) (h : findKey k l = some r) :
    wsum (eraseKey k l) + r.weight = wsum l := by
  induction l with
  | nil => simp [findKey] at h
  | cons y ys ih =>
    rw [keysNodup_cons] at hn
    simp only [findKey] at h
    simp only [eraseKey]
    split at h
    · rename_i hy
      cases h
      simp only [hy, if_true]
      rw [eraseKey_of_not_mem (fun r hr => by rw [← hy]; exact hn.1 r hr)]
      simp [wsum]; omega
    · rename_i hy
      simp only [hy, if_false, wsum]
      have := ih hn.2 h
      omega

theorem length_eraseKey {k : Nat} {l : List Rec} {r : Rec} (hn : keysNodup l) (h : findKey k l = some r) :
    (eraseKey k l).length + 1 = l.length := by
  induction l with
  | nil => simp [findKey] at h
  | cons y ys ih =>
    rw [keysNodup_cons] at hn
    simp only [findKey] at h
    simp only [eraseKey]
    split at h
    · rename_i hy
      cases h
      simp only [hy, if_true]
      rw [eraseKey_of_not_mem (fun r hr => by rw [← hy]; exact hn.1 r hr)]
      simp
    · rename_i hy
      simp only [hy, if_false, List.length_cons]
      have := ih hn.2 h
      omega

theorem wsum_append (a b : List Rec) : wsum (a ++ b) = wsum a + wsum b := by
  induction a with
  | nil => simp [wsum]
  | cons x xs ih => simp [wsum, ih]; omega

theorem weight_le_wsum {l : List Rec} {r : Rec} (h : r ∈ l) : r.weight ≤ wsum l := by
  induction l with
  | nil => cases h
  | cons y ys ih =>
    simp only [wsum]
    rcases List.mem_cons.mp h with rfl | h'
    · omega
    · have := ih h'; omega

end Foyer
