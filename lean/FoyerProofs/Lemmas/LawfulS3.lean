import FoyerModel.Policies.S3Fifo
import FoyerProofs.Lemmas.LawfulOfPerm
/-
  S3-FIFO is a lawful policy; its eviction loops terminate within their fuel (so `clear`, which is
  `while pop().is_some() {}`, really empties both queues).
-/
namespace Foyer

def s3R (l : List S3Ent) : List Rec := l.map (·.r)

theorem s3EvictSmall_spec (thr : Nat) : ∀ (small main : List S3Ent) (sw mw : Nat),
    let res := s3EvictSmall thr small main sw mw
    (s3R small ++ s3R main).Perm (s3R res.1.toList ++ (s3R res.2.1 ++ s3R res.2.2.1)) ∧
    (res.1 = none → res.2.1 = []) := by
  intro small
  induction small with
  | nil => intro main sw mw; simp [s3EvictSmall, s3R]
  | cons e rest ih =>
    intro main sw mw
    simp only [s3EvictSmall]
    split
    · have := ih (main ++ [e]) (sw - e.r.weight) (mw + e.r.weight)
      simp only [] at this ⊢
      refine ⟨?_, this.2⟩
      refine List.Perm.trans ?_ this.1
      simp only [s3R, List.map_cons, List.map_append, List.map_nil]
      grind
    · simp [s3R]

theorem freqSum_append (a b : List S3Ent) : freqSum (a ++ b) = freqSum a + freqSum b := by
  induction a with
  | nil => simp [freqSum]
  | cons x xs ih => simp [freqSum, ih]; omega

theorem s3EvictMain_spec : ∀ (fuel : Nat) (main : List S3Ent) (mw : Nat),
    let res := s3EvictMain fuel main mw
    (s3R main).Perm (s3R res.1.toList ++ s3R res.2.1) ∧
    (freqSum main + main.length < fuel → res.1 = none → main = []) := by
  intro fuel
  induction fuel with
  | zero => intro main mw; simp [s3EvictMain, s3R]
  | succ f ih =>
    intro main mw
    cases main with
    | nil => simp [s3EvictMain, s3R]
    | cons e rest =>
      simp only [s3EvictMain]
      split
      · rename_i hpos
        have := ih (rest ++ [{ e with freq := e.freq - 1 }]) mw
        simp only [] at this ⊢
        constructor
        · refine List.Perm.trans ?_ this.1
          simp only [s3R, List.map_cons, List.map_append, List.map_nil]
          grind
        · intro hf hn
          have h2 := this.2 (by
            simp only [freqSum_append, freqSum, List.length_append, List.length_cons, List.length_nil] at hf ⊢
            omega) hn
          simp at h2
      · simp [s3R]

theorem s3_members (sf gf : Nat → Nat) (t : Nat) (s : S3) :
    (s3Policy sf gf t).members s = s3R s.small ++ s3R s.main := by
  simp [s3Policy, s3R]

/-- One eviction removes exactly one member; it fails only on an empty policy. -/
theorem s3_evict_spec (s : S3) :
    (∀ r s', s.evict = some (r, s') → (s3R s.small ++ s3R s.main).Perm (r :: (s3R s'.small ++ s3R s'.main))) ∧
    (s.evict = none → s.small = [] ∧ s.main = []) := by
  unfold S3.evict
  -- first stage: `evict_small` when the small queue is over its capacity
  have hs := s3EvictSmall_spec s.threshold s.small s.main s.smallW s.mainW
  generalize s3EvictSmall s.threshold s.small s.main s.smallW s.mainW = res1 at hs
  obtain ⟨v1, sm1, mn1, sw1, mw1⟩ := res1
  simp only [] at hs
  by_cases hover : s.smallW > s.smallCap
  · simp only [hover, if_true]
    cases v1 with
    | some e =>
      simp only []
      refine ⟨?_, by intro h; cases h⟩
      intro r s' h
      cases h
      simpa [s3R] using hs.1
    | none =>
      simp only []
      have hsm : sm1 = [] := hs.2 rfl
      subst hsm
      have hm := s3EvictMain_spec (freqSum mn1 + mn1.length + 1) mn1 mw1
      generalize s3EvictMain (freqSum mn1 + mn1.length + 1) mn1 mw1 = res2 at hm
      obtain ⟨v2, mn2, mw2⟩ := res2
      simp only [] at hm
      cases v2 with
      | some e =>
        simp only []
        refine ⟨?_, by intro h; cases h⟩
        intro r s' h
        cases h
        refine hs.1.trans ?_
        simpa [s3R] using hm.1
      | none =>
        simp only []
        have : mn1 = [] := hm.2 (by omega) rfl
        subst this
        refine ⟨(by intro r s' h; cases h), ?_⟩
        intro _
        have := hs.1
        simp [s3R] at this
        exact this
  · simp only [hover, if_false]
    have hm := s3EvictMain_spec (freqSum s.main + s.main.length + 1) s.main s.mainW
    generalize s3EvictMain (freqSum s.main + s.main.length + 1) s.main s.mainW = res2 at hm
    obtain ⟨v2, mn2, mw2⟩ := res2
    simp only [] at hm
    cases v2 with
    | some e =>
      simp only []
      refine ⟨?_, by intro h; cases h⟩
      intro r s' h
      cases h
      have := hm.1.append_left (s3R s.small)
      refine this.trans ?_
      simp only [s3R, Option.toList, List.map_cons, List.map_nil]
      grind
    | none =>
      simp only []
      have hmn : s.main = [] := hm.2 (by omega) rfl
      have hmn2 : mn2 = [] := by
        have := hm.1
        rw [hmn] at this
        simpa [s3R] using this
      subst hmn2
      cases hsmall : s.small with
      | nil => simp [hmn]
      | cons e rest =>
        simp only []
        refine ⟨?_, by intro h; cases h⟩
        intro r s' h
        cases h
        simp [s3R, hmn]

theorem s3_clear_go (fuel : Nat) : ∀ (s : S3), (s3R s.small ++ s3R s.main).length < fuel →
    let s' := S3.clearGo fuel s
    s'.small = [] ∧ s'.main = [] := by
  induction fuel with
  | zero => intro s h; omega
  | succ f ih =>
    intro s h
    simp only [S3.clearGo]
    cases he : s.evict with
    | none => exact (s3_evict_spec s).2 he
    | some p =>
      obtain ⟨r, s'⟩ := p
      simp only []
      have hp := (s3_evict_spec s).1 r s' he
      have hl := hp.length_eq
      simp only [List.length_cons] at hl
      exact ih s' (by omega)

end Foyer

namespace Foyer

theorem s3_bump_map (l : List S3Ent) (i : Nat) :
    s3R (l.map fun e => if e.r.id = i then { e with freq := min 3 (e.freq + 1) } else e) = s3R l := by
  unfold s3R
  rw [List.map_map]
  apply List.map_congr_left
  intro e _
  simp only [Function.comp]
  split <;> rfl

theorem s3_nodup_parts {a b : List S3Ent} (h : idsNodup (s3R a ++ s3R b)) :
    (a.map fun e => e.r.id).Nodup ∧ (b.map fun e => e.r.id).Nodup := by
  rw [idsNodup_append] at h
  unfold idsNodup s3R at h
  simp only [List.map_map] at h
  exact ⟨h.1, h.2.1⟩

theorem s3_permLaws (sf gf : Nat → Nat) (t : Nat) : PermLaws (s3Policy sf gf t) (fun _ => True) where
  init_I _ := trivial
  init_members _ := rfl
  push s r _ _ _ := by
    refine ⟨trivial, ?_⟩
    rw [s3_members, s3_members]
    simp only [s3Policy]
    split
    · show (s3R s.small ++ s3R (s.main ++ [({ r := r, freq := 0 } : S3Ent)])).Perm (r :: (s3R s.small ++ s3R s.main))
      simp only [s3R, List.map_append, List.map_cons, List.map_nil]
      grind
    · show (s3R (s.small ++ [({ r := r, freq := 0 } : S3Ent)]) ++ s3R s.main).Perm (r :: (s3R s.small ++ s3R s.main))
      simp only [s3R, List.map_append, List.map_cons, List.map_nil]
      grind
  pop s r s' _ _ hp := by
    refine ⟨trivial, ?_⟩
    rw [s3_members, s3_members]
    exact (s3_evict_spec s).1 r s' hp
  remove s r _ hn hr := by
    refine ⟨trivial, ?_⟩
    rw [s3_members] at hn hr
    rw [s3_members, s3_members]
    obtain ⟨hns, hnm⟩ := s3_nodup_parts hn
    simp only [s3Policy]
    split
    · rename_i hany
      obtain ⟨e, he, hid⟩ := List.any_eq_true.mp hany
      have hid' : e.r.id = r.id := by simpa using hid
      have her : e.r = r := eq_of_id_eq hn (by simp [s3R]; exact Or.inr ⟨e, he, rfl⟩) hr hid'
      show (s3R s.small ++ s3R s.main).Perm (r :: (s3R s.small ++ s3R (s.main.filter fun e => e.r.id ≠ r.id)))
      have := perm_cons_filter (fun (e : S3Ent) => e.r.id) s.main e hnm he
      rw [hid'] at this
      have := (this.map (·.r)).append_left (s3R s.small)
      refine this.trans ?_
      simp only [s3R, List.map_cons, her]
      grind
    · rename_i hany
      have hnot : ∀ e ∈ s.main, e.r.id ≠ r.id := by
        intro e he hid
        exact hany (List.any_eq_true.mpr ⟨e, he, by simpa using hid⟩)
      have : r ∈ s3R s.small := by
        rcases List.mem_append.mp hr with h | h
        · exact h
        · obtain ⟨e, he, rfl⟩ := List.mem_map.mp h
          exact absurd rfl (hnot e he)
      obtain ⟨e, he, her⟩ := List.mem_map.mp this
      show (s3R s.small ++ s3R s.main).Perm (r :: (s3R (s.small.filter fun e => e.r.id ≠ r.id) ++ s3R s.main))
      have := perm_cons_filter (fun (e : S3Ent) => e.r.id) s.small e hns he
      have hid' : e.r.id = r.id := by rw [her]
      rw [hid'] at this
      have := (this.map (·.r)).append_right (s3R s.main)
      refine this.trans ?_
      simp only [s3R, List.map_cons, her, List.cons_append]
      exact List.Perm.refl _
  acquire s r _ _ := by
    refine ⟨trivial, ?_⟩
    rw [s3_members, s3_members]
    simp only [s3Policy]
    rw [s3_bump_map, s3_bump_map]
  release _ _ _ _ := ⟨trivial, List.Perm.refl _⟩
  update _ _ _ _ := ⟨trivial, List.Perm.refl _⟩
  clear s _ _ := by
    refine ⟨trivial, ?_⟩
    rw [s3_members]
    simp only [s3Policy]
    have := s3_clear_go (s.small.length + s.main.length + 1) s (by simp [s3R])
    simp only [] at this
    rw [this.1, this.2]; rfl

theorem s3_lawful (sf gf : Nat → Nat) (t : Nat) :
    Lawful (s3Policy sf gf t) (fun s => True ∧ idsNodup ((s3Policy sf gf t).members s)) :=
  Lawful.ofPerm (s3_permLaws sf gf t)

end Foyer
