import FoyerProofs.Lemmas.Mem
/-
  Preservation of the shard / cache invariants by every model step.
-/
namespace Foyer

theorem getElem?_setAt {α : Type} (l : List α) (i j : Nat) (a : α) :
    (setAt l i a)[j]? = if j = i ∧ i < l.length then some a else l[j]? := by
  induction l generalizing i j with
  | nil => simp [setAt]
  | cons x xs ih =>
    cases i with
    | zero =>
      cases j with
      | zero => simp [setAt]
      | succ j => simp [setAt]
    | succ i =>
      cases j with
      | zero => simp [setAt]
      | succ j =>
        simp only [setAt, List.getElem?_cons_succ, ih, List.length_cons, Nat.add_lt_add_iff_right,
          Nat.add_right_cancel_iff]

theorem length_setAt {α : Type} (l : List α) (i : Nat) (a : α) : (setAt l i a).length = l.length := by
  induction l generalizing i with
  | nil => simp [setAt]
  | cons x xs ih => cases i <;> simp [setAt, ih]

variable {σ : Type} {P : Policy σ} {Ok : σ → Prop}

/-- Removing an indexed record keeps the shard invariant. -/
theorem unlink_inv (L : Lawful P Ok) {s : Shard σ} (h : ShardInv P Ok s) {old : Rec} (ho : old ∈ s.index) :
    ShardInv P Ok (Shard.unlink P s old) ∧
    (∀ x, x ∈ (Shard.unlink P s old).index ↔ (x ∈ s.index ∧ x ≠ old)) ∧
    (Shard.unlink P s old).usage + old.weight = s.usage ∧
    (Shard.unlink P s old).entries + 1 = s.entries ∧
    (Shard.unlink P s old).cap = s.cap := by
  have hm : old ∈ P.members s.ev := (h.mem_iff old).mpr ho
  have hid := hasId_members_iff L h ho
  have hfk : findKey old.key s.index = some old := findKey_of_mem h.keys ho
  have hw := wsum_eraseKey h.keys hfk
  have hl := length_eraseKey h.keys hfk
  have hmem1 : ∀ x, x ∈ eraseKey old.key s.index ↔ (x ∈ s.index ∧ x ≠ old) := by
    intro x
    rw [mem_eraseKey]
    constructor
    · rintro ⟨hx, hk⟩; exact ⟨hx, fun e => hk (by rw [e])⟩
    · rintro ⟨hx, hne⟩; exact ⟨hx, fun e => hne (eq_of_key_eq h.keys hx ho e)⟩
  have e : Shard.unlink P s old = ⟨s.cap, s.usage - old.weight, s.entries - 1, eraseKey old.key s.index,
      P.remove s.ev old⟩ := by
    unfold Shard.unlink; simp only [hid, if_true]
  rw [e]
  refine ⟨⟨L.remove_ok _ _ h.ok hm, ?_, keysNodup_eraseKey h.keys, ?_, ?_⟩, hmem1, ?_, ?_, rfl⟩
  · intro x
    show x ∈ P.members (P.remove s.ev old) ↔ x ∈ eraseKey old.key s.index
    rw [L.remove_mem _ _ h.ok hm x, hmem1 x, h.mem_iff x]
  · show s.usage - old.weight = wsum (eraseKey old.key s.index)
    have := h.usage_eq; omega
  · show s.entries - 1 = (eraseKey old.key s.index).length
    have := h.entries_eq; omega
  · show s.usage - old.weight + old.weight = s.usage
    have := h.usage_eq; have := weight_le_wsum ho; omega
  · show s.entries - 1 + 1 = s.entries
    have := h.entries_eq; have : 0 < s.index.length := List.length_pos_of_mem ho; omega

/-- Specification of `emplace` for an ordinary (non-phantom) record. -/
structure EmplaceSpec (P : Policy σ) (Ok : σ → Prop) (s : Shard σ) (r : Rec)
    (res : Shard σ × List (Reason × Rec) × Bool) : Prop where
  no_panic : res.2.2 = false
  inv : ShardInv P Ok res.1
  cap_eq : res.1.cap = s.cap
  /-- the record is findable afterwards, everything else that is findable was findable before -/
  index_new : r ∈ res.1.index
  index_old : ∀ x, x ∈ res.1.index → x = r ∨ x ∈ s.index
  /-- conservation: the new record plus what was indexed = what is indexed now plus what left -/
  perm : (r :: s.index).Perm (res.1.index ++ res.2.1.map (·.2))
  shape : ∃ (s1 : Shard σ) (vs : List Rec) (repl : List (Reason × Rec)),
    Shard.evict P s (s.cap - r.weight) = (s1, vs, false) ∧
    EvictSpec P Ok (s.cap - r.weight) s [] (s1, vs, false) ∧
    res.2.1 = vs.map (fun v => (Reason.evict, v)) ++ repl ∧
    ((repl = [] ∧ findKey r.key s1.index = none ∧ res.1.usage = s1.usage + r.weight ∧
        res.1.entries = s1.entries + 1) ∨
     (∃ old, repl = [(Reason.replace, old)] ∧ findKey r.key s1.index = some old ∧
        res.1.usage + old.weight = s1.usage + r.weight ∧ res.1.entries = s1.entries))

theorem emplace_spec (L : Lawful P Ok) {s : Shard σ} (h : ShardInv P Ok s) {r : Rec}
    (hph : r.phantom = false) (hfresh : ∀ x ∈ s.index, x.id ≠ r.id) :
    EmplaceSpec P Ok s r (Shard.emplace P s r) := by
  unfold Shard.emplace
  simp only [hph, Bool.false_eq_true, if_false]
  have es := evict_spec L (s.cap - r.weight) s h
  generalize hevq : Shard.evict P s (s.cap - r.weight) = ev at es
  obtain ⟨s1, vs, pk⟩ := ev
  have hpk : pk = false := es.no_panic
  subst hpk
  have h1 : ShardInv P Ok s1 := es.inv
  obtain ⟨vs', hvs, hu, he, hneed, hidx, hsub, hnd⟩ := es.victims
  simp only [List.nil_append] at hvs
  have hvs' : vs = vs' := hvs
  subst hvs'
  have hfresh1 : ∀ x ∈ s1.index, x.id ≠ r.id := fun x hx => hfresh x ((hidx x).mp hx).1
  simp only []
  split
  · -- replace
    rename_i old hold
    have hoi := (findKey_some hold)
    have hid := hasId_members_iff L h1 hoi.1
    simp only [hid, if_true]
    have hm : old ∈ P.members s1.ev := (h1.mem_iff old).mpr hoi.1
    have hw := wsum_eraseKey h1.keys hold
    have hl := length_eraseKey h1.keys hold
    have hmem1 : ∀ x, x ∈ eraseKey r.key s1.index ↔ (x ∈ s1.index ∧ x ≠ old) := by
      intro x
      rw [mem_eraseKey]
      constructor
      · rintro ⟨hx, hk⟩; exact ⟨hx, fun e => hk (by rw [e, hoi.2])⟩
      · rintro ⟨hx, hne⟩; exact ⟨hx, fun e => hne (eq_of_key_eq h1.keys hx hoi.1 (by rw [e, hoi.2]))⟩
    have hokr := L.remove_ok _ _ h1.ok hm
    have hnotin : r.id ∉ (P.members (P.remove s1.ev old)).map (·.id) := by
      intro hc
      obtain ⟨x, hx, hxe⟩ := List.mem_map.mp hc
      have := (L.remove_mem _ _ h1.ok hm x).mp hx
      exact hfresh1 x ((h1.mem_iff x).mp this.1) hxe
    have hwo := weight_le_wsum hoi.1
    have hperm1 : s.index.Perm (s1.index ++ vs) := EvictSpec.perm h es
    have hperm2 : s1.index.Perm (old :: eraseKey r.key s1.index) := by
      apply (List.perm_ext_iff_of_nodup (nodup_of_keysNodup h1.keys) ?_).mpr
      · intro x
        rw [List.mem_cons, hmem1 x]
        constructor
        · intro hx
          by_cases he : x = old
          · exact Or.inl he
          · exact Or.inr ⟨hx, he⟩
        · rintro (rfl | ⟨hx, _⟩)
          · exact hoi.1
          · exact hx
      · rw [List.nodup_cons]
        exact ⟨fun hin => ((hmem1 old).mp hin).2 rfl, nodup_of_keysNodup (keysNodup_eraseKey h1.keys)⟩
    refine ⟨rfl, ⟨L.push_ok _ _ hokr hnotin, ?_, ?_, ?_, ?_⟩, es.cap_eq, List.mem_cons_self, ?_, ?_, ?_⟩
    · intro x
      show x ∈ P.members (P.push (P.remove s1.ev old) r) ↔ x ∈ r :: eraseKey r.key s1.index
      rw [L.push_mem _ _ hokr hnotin x, L.remove_mem _ _ h1.ok hm x, List.mem_cons, hmem1 x, h1.mem_iff x]
    · show keysNodup (r :: eraseKey r.key s1.index)
      rw [keysNodup_cons]
      exact ⟨fun x hx => (mem_eraseKey.mp hx).2, keysNodup_eraseKey h1.keys⟩
    · show s1.usage - old.weight + r.weight = wsum (r :: eraseKey r.key s1.index)
      simp only [wsum]
      have := h1.usage_eq; omega
    · show s1.entries = (r :: eraseKey r.key s1.index).length
      simp only [List.length_cons]
      have := h1.entries_eq; omega
    · intro x hx
      rcases List.mem_cons.mp hx with rfl | hx'
      · exact Or.inl rfl
      · exact Or.inr ((hidx x).mp ((hmem1 x).mp hx').1).1
    · show (r :: s.index).Perm ((r :: eraseKey r.key s1.index) ++ (vs.map (fun v => (Reason.evict, v)) ++ [(Reason.replace, old)]).map (·.2))
      simp only [List.map_append, List.map_map, List.map_cons, List.map_nil]
      have e : (List.map ((fun x : Reason × Rec => x.2) ∘ fun v => (Reason.evict, v)) vs) = vs := by
        have : ((fun x : Reason × Rec => x.2) ∘ fun v => (Reason.evict, v)) = id := rfl
        rw [this, List.map_id]
      rw [e]
      have := (hperm1.trans (hperm2.append_right vs)).cons r
      refine this.trans ?_
      grind
    · refine ⟨s1, vs, [(Reason.replace, old)], hevq, ⟨rfl, h1, es.cap_eq, ⟨vs, by simp, hu, he, hneed, hidx, hsub, hnd⟩, es.done⟩, rfl, Or.inr ⟨old, rfl, hold, ?_, rfl⟩⟩
      show s1.usage - old.weight + r.weight + old.weight = s1.usage + r.weight
      have := h1.usage_eq; omega
  · -- plain insert
    rename_i hnone
    have hno : ∀ x ∈ s1.index, x.key ≠ r.key := findKey_none.mp hnone
    have hnotin : r.id ∉ (P.members s1.ev).map (·.id) := by
      intro hc
      obtain ⟨x, hx, hxe⟩ := List.mem_map.mp hc
      exact hfresh1 x ((h1.mem_iff x).mp hx) hxe
    have hperm1 : s.index.Perm (s1.index ++ vs) := EvictSpec.perm h es
    refine ⟨rfl, ⟨L.push_ok _ _ h1.ok hnotin, ?_, ?_, ?_, ?_⟩, es.cap_eq, List.mem_cons_self, ?_, ?_, ?_⟩
    · intro x
      show x ∈ P.members (P.push s1.ev r) ↔ x ∈ r :: s1.index
      rw [L.push_mem _ _ h1.ok hnotin x, List.mem_cons, h1.mem_iff x]
    · show keysNodup (r :: s1.index)
      rw [keysNodup_cons]
      exact ⟨hno, h1.keys⟩
    · show s1.usage + r.weight = wsum (r :: s1.index)
      simp only [wsum]
      have := h1.usage_eq; omega
    · show s1.entries + 1 = (r :: s1.index).length
      simp only [List.length_cons]
      have := h1.entries_eq; omega
    · intro x hx
      rcases List.mem_cons.mp hx with rfl | hx'
      · exact Or.inl rfl
      · exact Or.inr ((hidx x).mp hx').1
    · show (r :: s.index).Perm ((r :: s1.index) ++ (vs.map (fun v => (Reason.evict, v))).map (·.2))
      simp only [List.map_map]
      have e : (List.map ((fun x : Reason × Rec => x.2) ∘ fun v => (Reason.evict, v)) vs) = vs := by
        have : ((fun x : Reason × Rec => x.2) ∘ fun v => (Reason.evict, v)) = id := rfl
        rw [this, List.map_id]
      rw [e]
      exact hperm1.cons r
    · exact ⟨s1, vs, [], hevq, ⟨rfl, h1, es.cap_eq, ⟨vs, by simp, hu, he, hneed, hidx, hsub, hnd⟩, es.done⟩, by simp, Or.inl ⟨rfl, hnone, rfl, rfl⟩⟩

/-- `emplace` of a phantom (disk-only) record: nothing is evicted, the record is not indexed. -/
theorem emplace_phantom_spec (L : Lawful P Ok) {s : Shard σ} (h : ShardInv P Ok s) {r : Rec}
    (hph : r.phantom = true) :
    let res := Shard.emplace P s r
    res.2.2 = false ∧ ShardInv P Ok res.1 ∧ res.1.cap = s.cap ∧
    (∀ x, x ∈ res.1.index → x ∈ s.index) ∧ (∀ x ∈ res.1.index, x.key ≠ r.key) ∧
    res.1.usage ≤ s.usage ∧
    (∀ e x, (e, x) ∈ res.2.1 → e ≠ Reason.evict) := by
  unfold Shard.emplace
  simp only [hph, if_true]
  split
  · rename_i old hold
    have hoi := findKey_some hold
    obtain ⟨hinv, hmem, hu, he, hc⟩ := unlink_inv L h hoi.1
    refine ⟨rfl, hinv, hc, fun x hx => ((hmem x).mp hx).1, ?_, by show (Shard.unlink P s old).usage ≤ s.usage; omega, ?_⟩
    · intro x hx hk
      have := (hmem x).mp hx
      exact this.2 (eq_of_key_eq h.keys this.1 hoi.1 (by rw [hk, hoi.2]))
    · intro e x hex
      simp only [List.mem_cons, Prod.mk.injEq, List.mem_nil_iff, or_false] at hex
      rcases hex with ⟨rfl, _⟩ | ⟨rfl, _⟩ <;> simp
  · rename_i hnone
    refine ⟨rfl, h, rfl, fun x hx => hx, findKey_none.mp hnone, Nat.le_refl _, ?_⟩
    intro e x hex
    simp only [List.mem_cons, Prod.mk.injEq, List.mem_nil_iff, or_false] at hex
    rcases hex with ⟨rfl, _⟩
    simp

end Foyer
