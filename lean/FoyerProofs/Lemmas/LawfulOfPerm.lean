import FoyerModel.Policy
import FoyerProofs.Lemmas.LawfulBasic
/-
  A constructor for `Lawful` from permutation facts: it is enough to show how every operation
  permutes the member list.
-/
namespace Foyer

theorem idsNodup_perm {a b : List Rec} (h : a.Perm b) : idsNodup a ↔ idsNodup b := by
  unfold idsNodup
  exact (h.map (fun r : Rec => r.id)).nodup_iff

/-- Removing the (unique) element with the key of `a` from a list with distinct keys. -/
theorem perm_cons_filter {α : Type} (f : α → Nat) (l : List α) (a : α) (hn : (l.map f).Nodup) (ha : a ∈ l) :
    l.Perm (a :: l.filter (fun x => f x ≠ f a)) := by
  induction l with
  | nil => cases ha
  | cons y ys ih =>
    simp only [List.map_cons, List.nodup_cons, List.mem_map, not_exists, not_and] at hn
    rcases List.mem_cons.mp ha with rfl | h
    · have : ys.filter (fun x => f x ≠ f a) = ys := by
        apply List.filter_eq_self.mpr
        intro x hx
        simpa using hn.1 x hx
      simp only [List.filter_cons, ne_eq, not_true_eq_false, decide_false, Bool.false_eq_true, if_false]
      rw [this]
    · have hne : f y ≠ f a := fun e => hn.1 a h e.symm
      have := ih hn.2 h
      simp only [List.filter_cons, hne, ne_eq, not_false_eq_true, decide_true, if_true]
      exact (List.Perm.cons y this).trans (List.Perm.swap a y _)

structure PermLaws {σ : Type} (P : Policy σ) (I : σ → Prop) : Prop where
  init_I : ∀ cap, I (P.init cap)
  init_members : ∀ cap, P.members (P.init cap) = []
  push : ∀ s r, I s → idsNodup (P.members s) → r.id ∉ (P.members s).map (·.id) →
    I (P.push s r) ∧ (P.members (P.push s r)).Perm (r :: P.members s)
  pop : ∀ s r s', I s → idsNodup (P.members s) → P.pop s = some (r, s') →
    I s' ∧ (P.members s).Perm (r :: P.members s')
  remove : ∀ s r, I s → idsNodup (P.members s) → r ∈ P.members s →
    I (P.remove s r) ∧ (P.members s).Perm (r :: P.members (P.remove s r))
  acquire : ∀ s r, I s → idsNodup (P.members s) →
    I (P.acquire s r) ∧ (P.members (P.acquire s r)).Perm (P.members s)
  release : ∀ s r, I s → idsNodup (P.members s) →
    I (P.release s r) ∧ (P.members (P.release s r)).Perm (P.members s)
  update : ∀ s c, I s → idsNodup (P.members s) →
    I (P.update s c) ∧ (P.members (P.update s c)).Perm (P.members s)
  clear : ∀ s, I s → idsNodup (P.members s) → I (P.clear s) ∧ P.members (P.clear s) = []

theorem mem_of_perm_cons {l l' : List Rec} {r : Rec} (hn : idsNodup l) (hp : l.Perm (r :: l')) :
    idsNodup l' ∧ r ∈ l ∧ ∀ x, x ∈ l' ↔ (x ∈ l ∧ x ≠ r) := by
  have hn' : idsNodup (r :: l') := (idsNodup_perm hp).mp hn
  rw [idsNodup_cons] at hn'
  refine ⟨hn'.2, hp.mem_iff.mpr List.mem_cons_self, fun x => ?_⟩
  constructor
  · intro hx
    exact ⟨hp.mem_iff.mpr (List.mem_cons_of_mem _ hx), fun e => hn'.1 x hx (by rw [e])⟩
  · rintro ⟨hx, hne⟩
    rcases List.mem_cons.mp (hp.mem_iff.mp hx) with rfl | h
    · exact absurd rfl hne
    · exact h

theorem Lawful.ofPerm {σ : Type} {P : Policy σ} {I : σ → Prop} (L : PermLaws P I) :
    Lawful P (fun s => I s ∧ idsNodup (P.members s)) where
  init_ok cap := ⟨L.init_I cap, by rw [L.init_members]; simp [idsNodup]⟩
  init_members := L.init_members
  nodup _ h := h.2
  push_ok s r h hr := by
    obtain ⟨hi, hp⟩ := L.push s r h.1 h.2 hr
    refine ⟨hi, (idsNodup_perm hp).mpr ?_⟩
    rw [idsNodup_cons]
    exact ⟨not_mem_ids.mp hr, h.2⟩
  push_mem s r h hr x := by
    obtain ⟨_, hp⟩ := L.push s r h.1 h.2 hr
    rw [hp.mem_iff, List.mem_cons]
  pop_ok s r s' h hp := by
    obtain ⟨hi, hq⟩ := L.pop s r s' h.1 h.2 hp
    exact ⟨hi, (mem_of_perm_cons h.2 hq).1⟩
  pop_mem s r s' h hp := by
    obtain ⟨_, hq⟩ := L.pop s r s' h.1 h.2 hp
    exact (mem_of_perm_cons h.2 hq).2
  remove_ok s r h hr := by
    obtain ⟨hi, hq⟩ := L.remove s r h.1 h.2 hr
    exact ⟨hi, (mem_of_perm_cons h.2 hq).1⟩
  remove_mem s r h hr := by
    obtain ⟨_, hq⟩ := L.remove s r h.1 h.2 hr
    exact (mem_of_perm_cons h.2 hq).2.2
  acquire_ok s r h := by
    obtain ⟨hi, hq⟩ := L.acquire s r h.1 h.2
    exact ⟨hi, (idsNodup_perm hq).mpr h.2⟩
  acquire_mem s r h x := (L.acquire s r h.1 h.2).2.mem_iff
  release_ok s r h := by
    obtain ⟨hi, hq⟩ := L.release s r h.1 h.2
    exact ⟨hi, (idsNodup_perm hq).mpr h.2⟩
  release_mem s r h x := (L.release s r h.1 h.2).2.mem_iff
  update_ok s c h := by
    obtain ⟨hi, hq⟩ := L.update s c h.1 h.2
    exact ⟨hi, (idsNodup_perm hq).mpr h.2⟩
  update_mem s c h x := (L.update s c h.1 h.2).2.mem_iff
  clear_ok s h := by
    obtain ⟨hi, hq⟩ := L.clear s h.1 h.2
    exact ⟨hi, by rw [hq]; simp [idsNodup]⟩
  clear_mem s h := (L.clear s h.1 h.2).2

end Foyer
