import FoyerProofs.Lemmas.CacheInv
/-
  Conservation of records: per step, `admitted ++ findable before ~ findable after ++ left`.
-/
namespace Foyer

variable {σ : Type} {P : Policy σ} {Ok : σ → Prop}

theorem findable_setAt_perm : ∀ (l : List (Shard σ)) (i : Nat) (s s' : Shard σ) (X Y : List Rec),
    l[i]? = some s → (X ++ s.index).Perm (s'.index ++ Y) →
    (X ++ l.flatMap (·.index)).Perm ((setAt l i s').flatMap (·.index) ++ Y) := by
  intro l
  induction l with
  | nil => intro i s s' X Y h; simp at h
  | cons t ts ih =>
    intro i s s' X Y h hp
    cases i with
    | zero =>
      simp only [List.getElem?_cons_zero, Option.some.injEq] at h
      subst h
      simp only [setAt, List.flatMap_cons]
      have := hp.append_right (ts.flatMap (·.index))
      refine List.Perm.trans ?_ (this.trans ?_)
      · simp
      · grind
    | succ i =>
      simp only [List.getElem?_cons_succ] at h
      have := ih i s s' X Y h hp
      simp only [setAt, List.flatMap_cons]
      have h2 := this.append_left t.index
      refine List.Perm.trans ?_ (h2.trans ?_)
      · grind
      · simp

theorem leftRecs_append (a b : List (Reason × Rec)) : leftRecs (a ++ b) = leftRecs a ++ leftRecs b := by
  simp [leftRecs]

theorem findable_mapShards_perm (f : Nat → Shard σ → Shard σ × List (Reason × Rec) × Bool) :
    ∀ (l : List (Shard σ)) (i0 : Nat),
      (∀ (j : Nat) (s : Shard σ), l[j]? = some s → s.index.Perm ((f (i0 + j) s).1.index ++ leftRecs (f (i0 + j) s).2.1)) →
      (l.flatMap (·.index)).Perm ((mapShards f i0 l).1.flatMap (·.index) ++ leftRecs (mapShards f i0 l).2.1) := by
  intro l
  induction l with
  | nil => intro i0 _; simp [mapShards, leftRecs]
  | cons t ts ih =>
    intro i0 h
    have h0 := h 0 t (by simp)
    have hrest := ih (i0 + 1) (fun j s hj => by
      have := h (j + 1) s (by simpa using hj)
      have e : i0 + (j + 1) = i0 + 1 + j := by omega
      rw [e] at this; exact this)
    simp only [mapShards, List.flatMap_cons, leftRecs_append]
    simp only [Nat.add_zero] at h0
    have := List.Perm.append h0 hrest
    refine this.trans ?_
    grind

theorem leftRecs_evict_map (vs : List Rec) (hre : ∀ v ∈ vs, v.phantom = false) :
    leftRecs (vs.map fun v => (Reason.evict, v)) = vs := by
  unfold leftRecs
  rw [List.map_map]
  have : ((fun x : Reason × Rec => x.2) ∘ fun v => (Reason.evict, v)) = id := rfl
  rw [this, List.map_id]
  apply List.filter_eq_self.mpr
  intro v hv
  simp [hre v hv]

/-- Per-shard conservation for the eviction loop. -/
theorem evict_perm (L : Lawful P Ok) (target : Nat) {s : Shard σ} (h : ShardInv P Ok s)
    (hre : ∀ r ∈ s.index, r.phantom = false) :
    s.index.Perm ((Shard.evict P s target).1.index ++
      leftRecs ((Shard.evict P s target).2.1.map fun v => (Reason.evict, v))) := by
  have es := evict_spec L target s h
  have hp := EvictSpec.perm h es
  obtain ⟨vs, hvs, _, _, _, _, hsub, _⟩ := es.victims
  simp only [List.nil_append] at hvs
  rw [leftRecs_evict_map _ (fun v hv => hre v (hsub v (by rw [hvs] at hv; exact hv)))]
  exact hp

/-- After `clear` nothing is findable. -/
theorem C05_clear_findable (P : Policy σ) (cfg : Cfg) (c : Cache σ) :
    (Cache.step P cfg c .clear).1.findable = [] := by
  simp only [Cache.step, Cache.findable]
  have h : ∀ (l : List (Shard σ)) (i0 : Nat),
      ((mapShards (fun _ (s : Shard σ) =>
        (({ s with index := [], ev := P.clear s.ev, usage := 0, entries := 0 } : Shard σ),
          s.index.map fun r => (Reason.clear, r), false)) i0 l).1).flatMap (·.index) = [] := by
    intro l
    induction l with
    | nil => intro i0; simp [mapShards]
    | cons s ss ih => intro i0; simp only [mapShards, List.flatMap_cons, ih (i0 + 1)]; rfl
  exact h c.shards 0

/-- **Conservation, one step**: what was admitted plus what was findable = what is findable now
plus what left (ordinary records; every notification counted with its multiplicity). -/
theorem step_conservation (L : Lawful P Ok) {cfg : Cfg} {c : Cache σ} (hc : CacheInv P Ok cfg c) (op : Op) :
    (admittedOf op (Cache.step P cfg c op).2 ++ c.findable).Perm
      ((Cache.step P cfg c op).1.findable ++ leftRecs (Cache.step P cfg c op).2.leaves) := by
  have hevict : ∀ (f : Nat → Shard σ → Shard σ × List (Reason × Rec) × Bool),
      (∀ (j : Nat) (s : Shard σ), c.shards[j]? = some s → s.index.Perm ((f j s).1.index ++ leftRecs (f j s).2.1)) →
      (c.shards.flatMap (·.index)).Perm
        ((mapShards f 0 c.shards).1.flatMap (·.index) ++ leftRecs (mapShards f 0 c.shards).2.1) := by
    intro f hf
    exact findable_mapShards_perm f c.shards 0 (fun j s hj => by simpa using hf j s hj)
  cases op with
  | ins key ver weight hint phantom loc age =>
    simp only [Cache.step]
    split
    · simp [admittedOf, leftRecs, Cache.findable]
    · rename_i s hs
      have hsi := hc.shard _ s hs
      have hre := hc.real _ s hs
      cases phantom with
      | true =>
        -- disk-only insert: an indexed copy of the key (if any) leaves as `replace`
        have hadm : ∀ (pk : Bool) (r : Rec), r.phantom = true →
            admittedOf (Op.ins key ver weight hint true) { ret := if pk then Ret.panic else Ret.handle r } = [] := by
          intro pk r hr; cases pk <;> simp [admittedOf, hr]
        simp only [Shard.emplace]
        simp only [if_true]
        split
        · rename_i old hold
          have hoi := findKey_some hold
          obtain ⟨_, hmem, _, _, _⟩ := unlink_inv L hsi hoi.1
          simp only [Bool.false_eq_true, if_false, admittedOf, if_true, List.nil_append]
          show (c.shards.flatMap (·.index)).Perm _
          have hp : (([] : List Rec) ++ s.index).Perm ((Shard.unlink P s old).index ++ [old]) := by
            simp only [List.nil_append]
            apply (List.perm_ext_iff_of_nodup (nodup_of_keysNodup hsi.keys) ?_).mpr
            · intro x
              rw [List.mem_append, hmem x, List.mem_singleton]
              constructor
              · intro hx
                by_cases he : x = old
                · exact Or.inr he
                · exact Or.inl ⟨hx, he⟩
              · rintro (⟨hx, _⟩ | rfl)
                · exact hx
                · exact hoi.1
            · rw [List.nodup_append]
              have hk : keysNodup (Shard.unlink P s old).index := (unlink_inv L hsi hoi.1).1.keys
              refine ⟨nodup_of_keysNodup hk, by simp, ?_⟩
              intro a ha b hb hab
              simp only [List.mem_singleton] at hb
              subst hb; subst hab
              exact ((hmem a).mp ha).2 rfl
          have := findable_setAt_perm c.shards _ s (Shard.unlink P s old) [] [old] hs hp
          simp only [List.nil_append] at this
          refine this.trans ?_
          simp [Cache.findable, leftRecs, hre old hoi.1]
        · simp only [Bool.false_eq_true, if_false, admittedOf, if_true, List.nil_append]
          have hp : (([] : List Rec) ++ s.index).Perm (s.index ++ []) := by simp
          have := findable_setAt_perm c.shards _ s s [] [] hs hp
          simp only [List.nil_append, List.append_nil] at this
          refine this.trans ?_
          simp [Cache.findable, leftRecs]
      | false =>
        have sp := emplace_spec (r := { id := c.nextId, key, hash := cfg.H key, ver, weight, hint, phantom := false, loc, age }) L hsi rfl
          (fun x hx => Nat.ne_of_lt (hc.fresh _ s hs x hx))
        generalize Shard.emplace P s _ = res at sp
        obtain ⟨s', lv, pk⟩ := res
        have hpk : pk = false := sp.no_panic
        subst hpk
        simp only [Bool.false_eq_true, if_false, admittedOf]
        have hallreal : ∀ x ∈ lv.map (·.2), x.phantom = false := by
          intro x hx
          have : x ∈ s'.index ++ lv.map (·.2) := List.mem_append.mpr (Or.inr hx)
          have := sp.perm.mem_iff.mpr this
          rcases List.mem_cons.mp this with rfl | h
          · rfl
          · exact hre x h
        have hleft : leftRecs lv = lv.map (·.2) := by
          unfold leftRecs
          apply List.filter_eq_self.mpr
          intro x hx
          simp [hallreal x hx]
        rw [hleft]
        have := findable_setAt_perm c.shards _ s s' [_] (lv.map (·.2)) hs (by simpa using sp.perm)
        simpa [Cache.findable] using this
  | get key =>
    simp only [Cache.step]
    split
    · simp [admittedOf, leftRecs]
    · rename_i s hs
      split
      · simp [admittedOf, leftRecs]
      · rename_i r hr
        simp only [admittedOf, List.nil_append, leftRecs, List.map_nil, List.filter_nil, List.append_nil]
        have := findable_setAt_perm c.shards _ s { s with ev := P.acquire s.ev r } [] [] hs (by simp)
        simpa [Cache.findable] using this
  | touch key =>
    simp only [Cache.step]
    split
    · simp [admittedOf, leftRecs]
    · rename_i s hs
      split
      · simp [admittedOf, leftRecs]
      · rename_i r hr
        simp only [admittedOf, List.nil_append, leftRecs, List.map_nil, List.filter_nil, List.append_nil]
        split
        · have := findable_setAt_perm c.shards _ s { s with ev := P.release (P.acquire s.ev r) r } [] [] hs (by simp)
          simpa [Cache.findable] using this
        · have := findable_setAt_perm c.shards _ s { s with ev := P.acquire s.ev r } [] [] hs (by simp)
          simpa [Cache.findable] using this
  | contains key =>
    simp only [Cache.step]
    split <;> simp [admittedOf, leftRecs]
  | remove key =>
    simp only [Cache.step]
    split
    · simp [admittedOf, leftRecs]
    · rename_i s hs
      have hsi := hc.shard _ s hs
      split
      · simp [admittedOf, leftRecs]
      · rename_i r hr
        have hoi := findKey_some hr
        obtain ⟨hinv, hmem, _, _, _⟩ := unlink_inv L hsi hoi.1
        have hp : (([] : List Rec) ++ s.index).Perm ((Shard.unlink P s r).index ++ [r]) := by
          simp only [List.nil_append]
          apply (List.perm_ext_iff_of_nodup (nodup_of_keysNodup hsi.keys) ?_).mpr
          · intro x
            rw [List.mem_append, hmem x, List.mem_singleton]
            constructor
            · intro hx
              by_cases he : x = r
              · exact Or.inr he
              · exact Or.inl ⟨hx, he⟩
            · rintro (⟨hx, _⟩ | rfl)
              · exact hx
              · exact hoi.1
          · rw [List.nodup_append]
            refine ⟨nodup_of_keysNodup hinv.keys, by simp, ?_⟩
            intro a ha b hb hab
            simp only [List.mem_singleton] at hb
            subst hb; subst hab
            exact ((hmem a).mp ha).2 rfl
        have := findable_setAt_perm c.shards _ s (Shard.unlink P s r) [] [r] hs hp
        simp only [List.nil_append] at this
        simp only [admittedOf, List.nil_append]
        refine this.trans ?_
        simp [Cache.findable, leftRecs, hc.real _ s hs r hoi.1]
  | clone rid =>
    simp only [Cache.step]
    split <;> simp [admittedOf, leftRecs, Cache.findable]
  | drop rid =>
    simp only [Cache.step]
    split
    · simp [admittedOf, leftRecs]
    · rename_i r hr
      split
      · split
        · rename_i hph
          simp [admittedOf, leftRecs, Cache.findable, hph]
        · split
          · simp [admittedOf, leftRecs, Cache.findable]
          · rename_i s hs
            simp only [admittedOf, List.nil_append, leftRecs, List.map_nil, List.filter_nil, List.append_nil]
            have := findable_setAt_perm c.shards _ s { s with ev := P.release s.ev r } [] [] hs (by simp)
            simpa [Cache.findable] using this
      · simp [admittedOf, leftRecs, Cache.findable]
  | clear =>
    simp only [Cache.step, admittedOf, List.nil_append, Cache.findable]
    apply hevict
    intro j s hs
    simp only [List.nil_append]
    unfold leftRecs
    rw [List.map_map]
    have : ((fun x : Reason × Rec => x.2) ∘ fun r => (Reason.clear, r)) = id := rfl
    rw [this, List.map_id]
    rw [List.filter_eq_self.mpr (by intro x hx; simp [hc.real j s hs x hx])]
  | resize cap =>
    simp only [Cache.step, admittedOf, List.nil_append, Cache.findable]
    apply hevict
    intro j s hs
    have hsi := hc.shard j s hs
    have h1 : ShardInv P Ok { s with ev := P.update s.ev (shardCapacityFor cap c.shards.length j),
                                     cap := shardCapacityFor cap c.shards.length j } :=
      ⟨L.update_ok _ _ hsi.ok, fun x => by rw [L.update_mem _ _ hsi.ok x]; exact hsi.mem_iff x,
        hsi.keys, hsi.usage_eq, hsi.entries_eq⟩
    exact evict_perm L _ h1 (hc.real j s hs)
  | evictAll =>
    simp only [Cache.step, admittedOf, List.nil_append, Cache.findable]
    apply hevict
    intro j s hs
    exact evict_perm L 0 (hc.shard j s hs) (hc.real j s hs)
  | flush =>
    simp only [Cache.step, admittedOf, List.nil_append, Cache.findable]
    apply hevict
    intro j s hs
    exact evict_perm L 0 (hc.shard j s hs) (hc.real j s hs)

end Foyer
