import FoyerProofs.C01Refine
import FoyerProofs.C01
/-
  The disk side of the hybrid model as a state machine of its own (submit / delete / flusher batch /
  disk-capacity eviction / clear / graceful restart), one hash at a time.

  `RInv h s`: the index entry the hash `h` will have once the flusher has written what it holds (`pview`) is
  exactly what *recovery* would reconstruct from the device log and the tombstone log as they will be then
  (`vdisk`, `vtombs`): if the index shows an entry, that entry is on the device, strictly newer than every
  other copy of the hash and than every logged tombstone of the hash (`R1`); if it shows none, every copy of
  the hash on the device is older than some logged tombstone (`R2`).  With the tombstone log enabled this is
  preserved by every disk-side step, and it makes a graceful restart invisible (`rinv_reopen_*`).
-/
namespace Foyer.Hyb
open Foyer

section
variable {σ : Type} (hc : HCfg) (h : Nat)

/-- the device log / tombstone log once the flusher has written what it holds -/
def vdisk (s : HState σ) : List DiskEnt := s.disk ++ entsOf s.queue
def vtombs (s : HState σ) : List (Nat × Nat) := s.tombs ++ tbsOf s.queue

structure RInv (s : HState σ) : Prop where
  seqok : batchLt (assocGet s.index h) s.queue h s.seq
  B1 : ∀ d ∈ vdisk s, d.hash = h → d.seq < s.seq
  B2 : ∀ q, (h, q) ∈ vtombs s → q < s.seq
  R1 : ∀ e, pview hc s h = some (.addr e) →
        e ∈ vdisk s ∧ e.hash = h ∧ (∀ d ∈ vdisk s, d.hash = h → d = e ∨ d.seq < e.seq) ∧
        (∀ q, (h, q) ∈ vtombs s → q < e.seq)
  R2 : (∀ e, pview hc s h ≠ some (.addr e)) → ∀ d ∈ vdisk s, d.hash = h → ∃ q, (h, q) ∈ vtombs s ∧ d.seq < q

/-- index entries sit under their own hash -/
def IHx (s : HState σ) : Prop := ∀ h' e, assocGet s.index h' = some (.addr e) → e.hash = h'

/-- what `flush` needs to run to quiescence -/
structure QF (s : HState σ) : Prop where
  hh : s.held = false
  hg : s.gated = false
  hi : s.inflight = []
  kq : KQ s

/-- only index, queue, device log, tombstone log and the sequence counter matter -/
theorem rinv_congr {s s' : HState σ} (hi : s'.index = s.index) (hq : s'.queue = s.queue) (hd : s'.disk = s.disk)
    (ht : s'.tombs = s.tombs) (hs : s'.seq = s.seq) (r : RInv hc h s) : RInv hc h s' := by
  have hpv : pview hc s' h = pview hc s h := by unfold pview; simp only; rw [hi, hq]
  have hvd : vdisk s' = vdisk s := by unfold vdisk; rw [hd, hq]
  have hvt : vtombs s' = vtombs s := by unfold vtombs; rw [ht, hq]
  refine ⟨by rw [hi, hq, hs]; exact r.seqok, ?_, ?_, ?_, ?_⟩
  · rw [hvd, hs]; exact r.B1
  · rw [hvt, hs]; exact r.B2
  · rw [hpv, hvd, hvt]; exact r.R1
  · rw [hpv, hvd, hvt]; exact r.R2

/-- a new entry (sequence = the counter) joins the queue -/
theorem rinv_append_entry {s s' : HState σ} (r : RInv hc h s) (e : DiskEnt) (hes : e.seq = s.seq)
    (hseq : s'.seq = s.seq + 1) (hvd : vdisk s' = vdisk s ++ [e]) (hvt : vtombs s' = vtombs s)
    (hpv : pview hc s' h = if h = e.hash then some (.addr e) else pview hc s h)
    (hsq : batchLt (assocGet s'.index h) s'.queue h s'.seq) : RInv hc h s' := by
  refine ⟨hsq, ?_, ?_, ?_, ?_⟩
  · intro d hd hdh
    rw [hvd, List.mem_append] at hd
    rw [hseq]
    rcases hd with hd | hd
    · have := r.B1 d hd hdh; omega
    · simp only [List.mem_singleton] at hd; subst hd; omega
  · intro q hq; rw [hvt] at hq; rw [hseq]; have := r.B2 q hq; omega
  · intro e' he'
    rw [hpv] at he'
    by_cases hh : h = e.hash
    · rw [if_pos hh] at he'
      simp only [Option.some.injEq, Idx.addr.injEq] at he'
      subst he'
      refine ⟨by rw [hvd]; exact List.mem_append_right _ List.mem_cons_self, hh.symm, ?_, ?_⟩
      · intro d hd hdh
        rw [hvd, List.mem_append] at hd
        rcases hd with hd | hd
        · right; have := r.B1 d hd hdh; omega
        · left; simp only [List.mem_singleton] at hd; exact hd
      · intro q hq; rw [hvt] at hq; have := r.B2 q hq; omega
    · rw [if_neg hh] at he'
      obtain ⟨a1, a2, a3, a4⟩ := r.R1 e' he'
      refine ⟨by rw [hvd]; exact List.mem_append_left _ a1, a2, ?_, by rw [hvt]; exact a4⟩
      intro d hd hdh
      rw [hvd, List.mem_append] at hd
      rcases hd with hd | hd
      · exact a3 d hd hdh
      · simp only [List.mem_singleton] at hd; subst hd; exact absurd hdh.symm hh
  · intro hno d hd hdh
    by_cases hh : h = e.hash
    · exact absurd (by rw [hpv, if_pos hh]) (hno e)
    · rw [hvd, List.mem_append] at hd
      rcases hd with hd | hd
      · have hno' : ∀ e', pview hc s h ≠ some (.addr e') := by
          intro e' he'; exact hno e' (by rw [hpv, if_neg hh]; exact he')
        obtain ⟨q, hq1, hq2⟩ := r.R2 hno' d hd hdh
        exact ⟨q, by rw [hvt]; exact hq1, hq2⟩
      · simp only [List.mem_singleton] at hd; subst hd; exact absurd hdh.symm hh

/-- a new tombstone (a delete, or an entry the flusher drops) joins the queue -/
theorem rinv_append_tomb {s s' : HState σ} (r : RInv hc h s) (th : Nat)
    (hseq : s'.seq = s.seq + 1) (hvd : vdisk s' = vdisk s) (hvt : vtombs s' = vtombs s ++ [(th, s.seq)])
    (hpv : pview hc s' h = if h = th then none else pview hc s h)
    (hsq : batchLt (assocGet s'.index h) s'.queue h s'.seq) : RInv hc h s' := by
  refine ⟨hsq, ?_, ?_, ?_, ?_⟩
  · intro d hd hdh; rw [hvd] at hd; rw [hseq]; have := r.B1 d hd hdh; omega
  · intro q hq
    rw [hvt, List.mem_append] at hq
    rw [hseq]
    rcases hq with hq | hq
    · have := r.B2 q hq; omega
    · simp only [List.mem_singleton, Prod.mk.injEq] at hq; omega
  · intro e' he'
    rw [hpv] at he'
    by_cases hh : h = th
    · rw [if_pos hh] at he'; cases he'
    · rw [if_neg hh] at he'
      obtain ⟨a1, a2, a3, a4⟩ := r.R1 e' he'
      refine ⟨by rw [hvd]; exact a1, a2, by rw [hvd]; exact a3, ?_⟩
      intro q hq
      rw [hvt, List.mem_append] at hq
      rcases hq with hq | hq
      · exact a4 q hq
      · simp only [List.mem_singleton, Prod.mk.injEq] at hq; exact absurd hq.1 hh
  · intro hno d hd hdh
    rw [hvd] at hd
    by_cases hh : h = th
    · refine ⟨s.seq, ?_, r.B1 d hd hdh⟩
      rw [hvt, hh]; exact List.mem_append_right _ List.mem_cons_self
    · have hno' : ∀ e', pview hc s h ≠ some (.addr e') := by
        intro e' he'; exact hno e' (by rw [hpv, if_neg hh]; exact he')
      obtain ⟨q, hq1, hq2⟩ := r.R2 hno' d hd hdh
      exact ⟨q, by rw [hvt]; exact List.mem_append_left _ hq1, hq2⟩

theorem rinv_submit {s : HState σ} (r : RInv hc h s) (x : Rec) : RInv hc h (submit s x) := by
  have hps := pview_submit hc s x h r.seqok
  by_cases hy : x.age = .young
  · rw [hps.1 hy]; exact r
  · obtain ⟨hpv, hsq, hseq⟩ := hps.2 hy
    by_cases hbig : s.big.contains x.ver = true
    · rw [if_pos hbig] at hpv
      apply rinv_append_tomb hc h r x.hash hseq _ _ hpv hsq
      · rw [submit_dropped s x hy hbig]; unfold vdisk submitDropped; simp only; rw [entsOf_append]; simp [entsOf]
      · rw [submit_dropped s x hy hbig]; unfold vtombs submitDropped; simp only; rw [tbsOf_append, ← List.append_assoc]; rfl
    · rw [if_neg hbig] at hpv
      apply rinv_append_entry hc h r (entOf s x) rfl hseq _ _ hpv hsq
      · rw [submit_fits s x hy hbig]; unfold vdisk submitFits; simp only; rw [entsOf_append, ← List.append_assoc]; rfl
      · rw [submit_fits s x hy hbig]; unfold vtombs submitFits; simp only; rw [tbsOf_append]; simp [tbsOf]

theorem rinv_delete {s : HState σ} (r : RInv hc h s) (key : Nat) : RInv hc h (delete hc s key) := by
  obtain ⟨hpv, hsq⟩ := pview_delete hc s key h r.seqok
  apply rinv_append_tomb hc h r (hc.mcfg.H key) rfl _ _ hpv hsq
  · unfold vdisk delete; simp only; rw [entsOf_append]; simp [entsOf]
  · unfold vtombs delete; simp only; rw [tbsOf_append, ← List.append_assoc]; rfl


/-! ### the flusher batch -/

theorem applyBatch_disk_tombs (s : HState σ) (b : List Sub) (ht : hc.tombLog = true) :
    (applyBatch hc s b).disk = s.disk ++ entsOf b ∧ (applyBatch hc s b).tombs = s.tombs ++ tbsOf b := by
  unfold applyBatch entsOf tbsOf
  simp only [ht, if_true]
  exact ⟨rfl, rfl⟩

theorem flush_disk_tombs (s : HState σ) (q : QF s) (ht : hc.tombLog = true) :
    (flush hc s).disk = s.disk ++ entsOf s.queue ∧ (flush hc s).tombs = s.tombs ++ tbsOf s.queue := by
  have hfl : flush hc s = { applyBatch hc (applyBatch hc s []) s.queue with inflight := [], queue := [] } := by
    unfold flush
    simp only [q.hh, q.hg, Bool.false_eq_true, if_false, q.hi]
  rw [hfl]
  have h0 := applyBatch_disk_tombs hc s [] ht
  have h1 := applyBatch_disk_tombs hc (applyBatch hc s []) s.queue ht
  have hq0 : (applyBatch hc s []).queue = s.queue := rfl
  constructor
  · show (applyBatch hc (applyBatch hc s []) s.queue).disk = _
    rw [h1.1, h0.1]; simp [entsOf]
  · show (applyBatch hc (applyBatch hc s []) s.queue).tombs = _
    rw [h1.2, h0.2]; simp [tbsOf]

theorem qf_flush {s : HState σ} (q : QF s) : QF (flush hc s) ∧ (flush hc s).queue = [] := by
  obtain ⟨hq, hi, hkp, _, _, hh, hg, _, _⟩ := flush_quiet hc s q.hh q.hg q.hi q.kq
  exact ⟨⟨hh, hg, hi, fun p hp => by rw [hkp] at hp; cases hp⟩, hq⟩

/-- **The flusher writing its batch makes `vdisk`/`vtombs` real and changes nothing else.** -/
theorem rinv_flush {s : HState σ} (r : RInv hc h s) (q : QF s) (ht : hc.tombLog = true) : RInv hc h (flush hc s) := by
  obtain ⟨hq, _, _, _, hsq, _, _, _, hix⟩ := flush_quiet hc s q.hh q.hg q.hi q.kq
  obtain ⟨hd, htb⟩ := flush_disk_tombs hc s q ht
  have hpv : pview hc (flush hc s) h = pview hc s h := by
    unfold pview
    simp only
    rw [hq, hix]
    rfl
  have hvd : vdisk (flush hc s) = vdisk s := by unfold vdisk; rw [hd, hq]; simp [entsOf]
  have hvt : vtombs (flush hc s) = vtombs s := by unfold vtombs; rw [htb, hq]; simp [tbsOf]
  refine ⟨?_, ?_, ?_, ?_, ?_⟩
  · rw [hq, hix, hsq]
    refine ⟨lookupAfter_seqLt r.seqok, ?_, ?_⟩
    · intro e he _; cases he
    · intro p hp _; cases hp
  · rw [hvd, hsq]; exact r.B1
  · rw [hvt, hsq]; exact r.B2
  · rw [hpv, hvd, hvt]; exact r.R1
  · rw [hpv, hvd, hvt]; exact r.R2

/-! ### disk-capacity eviction, clear -/

theorem pview_idle (s : HState σ) (hq : s.queue = []) : pview hc s h = assocGet s.index h := by
  unfold pview; simp only; rw [hq]; rfl

/-- the state after `lose h'` when `e` is the indexed entry of `h'` -/
def lost (s : HState σ) (h' : Nat) (e : DiskEnt) : HState σ :=
  { s with index := assocDel s.index h', disk := s.disk.filter fun d => !(d.hash = e.hash && d.seq ≤ e.seq) }

/-- `lose h'` at an idle point: the indexed entry of `h'` and the older copies of its hash leave the device -/
theorem rinv_lose {s : HState σ} (r : RInv hc h s) (ih : IHx s) (hq : s.queue = []) (h' : Nat) (e : DiskEnt)
    (he : indexAddr s.index h' = some e) : RInv hc h (lost s h' e) := by
  have heh : e.hash = h' := ih h' e (indexAddr_some he)
  have hvd0 : vdisk s = s.disk := by unfold vdisk; rw [hq]; simp [entsOf]
  have hvt0 : vtombs s = s.tombs := by unfold vtombs; rw [hq]; simp [tbsOf]
  generalize hs' : lost s h' e = s'
  unfold lost at hs'
  have hq' : s'.queue = [] := by rw [← hs']; exact hq
  have hpv' : pview hc s' h = if h = h' then none else pview hc s h := by
    rw [pview_idle hc h s' hq', pview_idle hc h s hq, ← hs']
    exact assocGet_del s.index h' h
  have hvd' : vdisk s' = s.disk.filter fun d => !(d.hash = e.hash && d.seq ≤ e.seq) := by
    unfold vdisk; rw [hq']; rw [← hs']; simp [entsOf]
  have hvt' : vtombs s' = s.tombs := by unfold vtombs; rw [hq']; rw [← hs']; simp [tbsOf]
  have hseq' : s'.seq = s.seq := by rw [← hs']
  have hsub : ∀ d ∈ vdisk s', d ∈ vdisk s := by
    intro d hd; rw [hvd'] at hd; rw [hvd0]; exact (List.mem_filter.mp hd).1
  refine ⟨?_, ?_, ?_, ?_, ?_⟩
  · rw [hq', hseq']
    have : assocGet s'.index h = if h = h' then none else assocGet s.index h := by
      rw [← hs']; exact assocGet_del s.index h' h
    rw [this]
    have hb := r.seqok
    rw [hq] at hb
    split
    · exact batchLt_cur hb (by intro i hi; cases hi)
    · exact hb
  · intro d hd hdh; rw [hseq']; exact r.B1 d (hsub d hd) hdh
  · intro q hq1; rw [hvt'] at hq1; rw [hseq']; exact r.B2 q (by rw [hvt0]; exact hq1)
  · intro e' he'
    rw [hpv'] at he'
    by_cases hh : h = h'
    · rw [if_pos hh] at he'; cases he'
    · rw [if_neg hh] at he'
      obtain ⟨a1, a2, a3, a4⟩ := r.R1 e' he'
      refine ⟨?_, a2, fun d hd hdh => a3 d (hsub d hd) hdh, ?_⟩
      · rw [hvd', List.mem_filter]
        refine ⟨by rw [← hvd0]; exact a1, ?_⟩
        have : ¬ e'.hash = e.hash := by rw [a2, heh]; exact hh
        simp [this]
      · intro q hq1; rw [hvt'] at hq1; exact a4 q (by rw [hvt0]; exact hq1)
  · intro hno d hd hdh
    by_cases hh : h = h'
    · -- every copy of the hash was at most as new as the indexed entry: none is left
      exfalso
      have hpv : pview hc s h = some (.addr e) := by
        rw [pview_idle hc h s hq, hh]; exact indexAddr_some he
      obtain ⟨_, _, a3, _⟩ := r.R1 e hpv
      have hdf := hd
      rw [hvd', List.mem_filter] at hdf
      have hkeep := hdf.2
      have hdhe : d.hash = e.hash := by rw [hdh, heh, hh]
      rcases a3 d (hsub d hd) hdh with h1 | h1
      · subst h1; simp at hkeep
      · simp [hdhe] at hkeep; omega
    · have hno' : ∀ e', pview hc s h ≠ some (.addr e') := by
        intro e' he'; exact hno e' (by rw [hpv', if_neg hh]; exact he')
      obtain ⟨q, hq1, hq2⟩ := r.R2 hno' d (hsub d hd) hdh
      exact ⟨q, by rw [hvt', ← hvt0]; exact hq1, hq2⟩

/-- the tail of `clear`: index and device log are wiped (the tombstone log stays) -/
theorem rinv_wipe {s : HState σ} (hB2 : ∀ q, (h, q) ∈ s.tombs → q < s.seq) (hq : s.queue = []) :
    RInv hc h ({ s with index := [], disk := [] } : HState σ) := by
  refine ⟨?_, ?_, ?_, ?_, ?_⟩
  · show batchLt (assocGet ([] : List (Nat × Idx)) h) s.queue h s.seq
    rw [hq]
    refine ⟨(by intro i hi; cases hi), ?_, ?_⟩
    · intro e he _; cases he
    · intro p hp _; cases hp
  · intro d hd _
    have : d ∈ ([] : List DiskEnt) ++ entsOf s.queue := hd
    rw [hq] at this; simp [entsOf] at this
  · intro q hq1
    have : (h, q) ∈ s.tombs ++ tbsOf s.queue := hq1
    rw [hq] at this
    simp only [tbsOf, List.filterMap_nil, List.append_nil] at this
    exact hB2 q this
  · intro e he
    have : pview hc ({ s with index := [], disk := [] } : HState σ) h = none := by
      unfold pview; simp only; rw [hq]; rfl
    rw [this] at he; cases he
  · intro _ d hd _
    have : d ∈ ([] : List DiskEnt) ++ entsOf s.queue := hd
    rw [hq] at this; simp [entsOf] at this

end

/-! ### graceful restart -/
section
variable {σ : Type} (hc : HCfg) (h : Nat)

theorem maxSeq_ge (disk : List DiskEnt) (tombs : List (Nat × Nat)) :
    (∀ d ∈ disk, d.seq ≤ maxSeq disk tombs) ∧ (∀ t ∈ tombs, t.2 ≤ maxSeq disk tombs) := by
  have key : ∀ (l : List Nat) (a : Nat), a ≤ l.foldl Nat.max a ∧ ∀ x ∈ l, x ≤ l.foldl Nat.max a := by
    intro l
    induction l with
    | nil => intro a; exact ⟨Nat.le_refl _, fun x hx => by cases hx⟩
    | cons y ys ih =>
      intro a
      simp only [List.foldl_cons]
      obtain ⟨i1, i2⟩ := ih (Nat.max a y)
      refine ⟨Nat.le_trans (Nat.le_max_left a y) i1, ?_⟩
      intro x hx
      rcases List.mem_cons.mp hx with rfl | hx
      · exact Nat.le_trans (Nat.le_max_right a x) i1
      · exact i2 x hx
  unfold maxSeq
  obtain ⟨_, k2⟩ := key (disk.map (·.seq) ++ tombs.map (·.2)) 0
  constructor
  · intro d hd
    exact k2 d.seq (List.mem_append.mpr (Or.inl (List.mem_map.mpr ⟨d, hd, rfl⟩)))
  · intro t ht
    exact k2 t.2 (List.mem_append.mpr (Or.inr (List.mem_map.mpr ⟨t, ht, rfl⟩)))

/-- what recovery shows is an entry (tombstones are filtered out) -/
theorem recover_addr (disk : List DiskEnt) (tombs : List (Nat × Nat)) (i : Idx)
    (hi : assocGet (recover disk tombs) h = some i) : ∃ e, i = .addr e ∧ indexAddr (recover disk tombs) h = some e := by
  have hm := assocGet_mem hi
  unfold recover at hm
  simp only [List.mem_filter] at hm
  cases i with
  | addr e => exact ⟨e, rfl, by unfold indexAddr; rw [hi]⟩
  | tomb q => simp at hm

/-- **Recovery is complete**: an entry strictly newer than every other copy of its hash and than every logged
tombstone of its hash is what recovery shows for the hash. -/
theorem recovery_complete (disk : List DiskEnt) (tombs : List (Nat × Nat)) (e : DiskEnt) (he : e ∈ disk)
    (heh : e.hash = h) (hmax : ∀ d ∈ disk, d.hash = h → d = e ∨ d.seq < e.seq)
    (htb : ∀ q, (h, q) ∈ tombs → q < e.seq) : indexAddr (recover disk tombs) h = some e := by
  have hnd : KeysNodup (insAll [] (disk.map toAddr ++ tombs.map toTomb)) := insAll_nodup _ _ List.nodup_nil
  have hin : (h, Idx.addr e) ∈ disk.map toAddr ++ tombs.map toTomb := by
    apply List.mem_append.mpr; left
    simp only [List.mem_map, toAddr, Prod.mk.injEq, Idx.addr.injEq]
    exact ⟨e, he, heh, rfl⟩
  have hpres := insAll_present (disk.map toAddr ++ tombs.map toTomb) [] h (Or.inl ⟨_, hin⟩)
  cases hg : assocGet (insAll [] (disk.map toAddr ++ tombs.map toTomb)) h with
  | none => rw [hg] at hpres; cases hpres
  | some i =>
    obtain ⟨hsrc, hmx, _⟩ := insAll_max _ _ _ _ hg
    have hge : e.seq ≤ i.seq := hmx (.addr e) hin
    have hi : i = .addr e := by
      rcases hsrc with h1 | h1
      · rcases List.mem_append.mp h1 with h2 | h2
        · simp only [List.mem_map, toAddr, Prod.mk.injEq] at h2
          obtain ⟨d, hd, hdh, hdi⟩ := h2
          subst hdi
          rcases hmax d hd hdh with h3 | h3
          · rw [h3]
          · exact absurd hge (by show ¬ e.seq ≤ d.seq; omega)
        · simp only [List.mem_map, toTomb, Prod.mk.injEq] at h2
          obtain ⟨t, ht, hth, hti⟩ := h2
          subst hti
          have : (h, t.2) ∈ tombs := by rw [← hth]; exact ht
          have := htb t.2 this
          exact absurd hge (by show ¬ e.seq ≤ t.2; omega)
      · simp [assocGet] at h1
    subst hi
    unfold indexAddr
    rw [recover_eq, assocGet_filter _ _ _ hnd, hg]
    simp

/-- the state after a graceful restart, as far as the disk side goes -/
def restarted (s : HState σ) (m : Cache σ) : HState σ :=
  { s with mem := m, keeper := [], queue := [], inflight := [],
           index := recover s.disk s.tombs, seq := maxSeq s.disk s.tombs + 1 }

/-- **A graceful restart shows, for the hash, exactly what the index showed** (tombstone log on). -/
theorem reopen_view {s : HState σ} (r : RInv hc h s) (hq : s.queue = []) :
    indexAddr (recover s.disk s.tombs) h = indexAddr s.index h := by
  have hvd0 : vdisk s = s.disk := by unfold vdisk; rw [hq]; simp [entsOf]
  have hvt0 : vtombs s = s.tombs := by unfold vtombs; rw [hq]; simp [tbsOf]
  have hpv := pview_idle hc h s hq
  cases hcur : indexAddr s.index h with
  | some e0 =>
    have hp : pview hc s h = some (.addr e0) := by rw [hpv]; exact indexAddr_some hcur
    obtain ⟨a1, a2, a3, a4⟩ := r.R1 e0 hp
    rw [hvd0] at a1 a3
    rw [hvt0] at a4
    exact recovery_complete h s.disk s.tombs e0 a1 a2 a3 a4
  | none =>
    cases hrv : indexAddr (recover s.disk s.tombs) h with
    | none => rfl
    | some e =>
      exfalso
      obtain ⟨b1, b2, _, b4⟩ := recovery_picks_latest s.disk s.tombs h e hrv
      have hno : ∀ e', pview hc s h ≠ some (.addr e') := by
        intro e' he'
        rw [hpv] at he'
        unfold indexAddr at hcur
        rw [he'] at hcur
        cases hcur
      obtain ⟨q, hq1, hq2⟩ := r.R2 hno e (by rw [hvd0]; exact b1) b2
      rw [hvt0] at hq1
      have := b4 q hq1
      omega

theorem rinv_restarted {s : HState σ} (r : RInv hc h s) (hq : s.queue = []) (m : Cache σ) :
    RInv hc h (restarted s m) := by
  have hvd0 : vdisk s = s.disk := by unfold vdisk; rw [hq]; simp [entsOf]
  have hvt0 : vtombs s = s.tombs := by unfold vtombs; rw [hq]; simp [tbsOf]
  have hvd' : vdisk (restarted s m) = s.disk := by unfold vdisk restarted; simp [entsOf]
  have hvt' : vtombs (restarted s m) = s.tombs := by unfold vtombs restarted; simp [tbsOf]
  have hview := reopen_view hc h r hq
  have hpv' : pview hc (restarted s m) h = assocGet (recover s.disk s.tombs) h := by
    unfold pview restarted; rfl
  have hpv := pview_idle hc h s hq
  obtain ⟨m1, m2⟩ := maxSeq_ge s.disk s.tombs
  have hold : ∀ e, pview hc (restarted s m) h = some (.addr e) → pview hc s h = some (.addr e) := by
    intro e he
    rw [hpv'] at he
    obtain ⟨e', he1, he2⟩ := recover_addr h s.disk s.tombs _ he
    cases he1
    rw [hview] at he2
    rw [hpv]; exact indexAddr_some he2
  refine ⟨?_, ?_, ?_, ?_, ?_⟩
  · show batchLt (assocGet (recover s.disk s.tombs) h) [] h (maxSeq s.disk s.tombs + 1)
    refine ⟨?_, ?_, ?_⟩
    · intro i hi
      obtain ⟨e, he1, he2⟩ := recover_addr h s.disk s.tombs i hi
      subst he1
      have := m1 e (recovery_picks_latest s.disk s.tombs h e he2).1
      show e.seq < _
      omega
    · intro e he _; cases he
    · intro p hp _; cases hp
  · intro d hd _
    rw [hvd'] at hd
    show d.seq < maxSeq s.disk s.tombs + 1
    have := m1 d hd; omega
  · intro q hq1
    rw [hvt'] at hq1
    show q < maxSeq s.disk s.tombs + 1
    have := m2 (h, q) hq1; simp only at this; omega
  · intro e he
    have := r.R1 e (hold e he)
    rw [hvd0, hvt0] at this
    rw [hvd', hvt']; exact this
  · intro hno d hd hdh
    rw [hvd'] at hd
    rw [hvt']
    have hno' : ∀ e', pview hc s h ≠ some (.addr e') := by
      intro e' he'
      apply hno e'
      rw [hpv']
      rw [hpv] at he'
      have h1 : indexAddr s.index h = some e' := by unfold indexAddr; rw [he']
      rw [← hview] at h1
      unfold indexAddr at h1
      cases hg : assocGet (recover s.disk s.tombs) h with
      | none => rw [hg] at h1; cases h1
      | some i =>
        obtain ⟨e2, he21, he22⟩ := recover_addr h s.disk s.tombs i hg
        subst he21
        rw [hg] at h1
        simp only [Option.some.injEq] at h1
        rw [h1]
    have := r.R2 hno' d (by rw [hvd0]; exact hd) hdh
    rw [hvt0] at this
    exact this

end
end Foyer.Hyb
