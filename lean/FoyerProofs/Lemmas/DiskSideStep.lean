import FoyerProofs.Lemmas.DiskSide
/-
  `RB` = the disk-side invariant bundle (`RInv` for one hash, index entries under their own hash, the
  flusher able to run to quiescence); it is preserved by every primitive of the hybrid model and hence by
  every API call (`rb_stepCore`), including a graceful restart.  Nothing here looks at the memory tier:
  memory operations matter only through what they hand to the pipe.
-/
namespace Foyer.Hyb
open Foyer

/-! ### small facts about the one-hash folds -/

theorem insOne_addr {c : Option Idx} {i : Idx} {e : DiskEnt} (hr : insOne c i = some (.addr e)) :
    i = .addr e ∨ c = some (.addr e) := by
  unfold insOne at hr
  cases c with
  | none => left; simpa using hr
  | some o =>
    simp only at hr
    split at hr
    · left; simpa using hr
    · right; exact hr

theorem foldl_insOne_addr : ∀ (l : List Idx) (c : Option Idx) (e : DiskEnt),
    l.foldl insOne c = some (.addr e) → Idx.addr e ∈ l ∨ c = some (.addr e) := by
  intro l
  induction l with
  | nil => intro c e hr; right; exact hr
  | cons a l ih =>
    intro c e hr
    simp only [List.foldl_cons] at hr
    rcases ih _ e hr with h1 | h1
    · left; exact List.mem_cons_of_mem _ h1
    · rcases insOne_addr h1 with h2 | h2
      · left; rw [h2]; exact List.mem_cons_self
      · right; exact h2

theorem remOne_sub {c : Option Idx} {q : Nat} {i : Idx} (hr : remOne c q = some i) : c = some i := by
  unfold remOne at hr
  cases c with
  | none => cases hr
  | some o =>
    simp only at hr
    split at hr
    · cases hr
    · exact hr

theorem foldl_remOne_sub : ∀ (l : List Nat) (c : Option Idx) (i : Idx), l.foldl remOne c = some i → c = some i := by
  intro l
  induction l with
  | nil => intro c i hr; exact hr
  | cons a l ih =>
    intro c i hr
    simp only [List.foldl_cons] at hr
    exact remOne_sub (ih _ i hr)

/-- an entry the flusher's batch leaves in the index was there before or is an entry of the batch with that hash -/
theorem lookupAfter_addr {cur : Option Idx} {b : List Sub} {h : Nat} {e : DiskEnt}
    (hr : lookupAfter cur b h = some (.addr e)) : cur = some (.addr e) ∨ (e ∈ entsOf b ∧ e.hash = h) := by
  unfold lookupAfter at hr
  have h1 := foldl_remOne_sub _ _ _ hr
  rcases foldl_insOne_addr _ _ _ h1 with h2 | h2
  · right
    simp only [List.mem_map, List.mem_filter, decide_eq_true_eq, Idx.addr.injEq] at h2
    obtain ⟨a, ⟨ha, hah⟩, hae⟩ := h2
    subst hae
    exact ⟨ha, hah⟩
  · left; exact h2

section
variable {σ : Type} (P : Policy σ) (hc : HCfg) (h : Nat)

structure RB (s : HState σ) : Prop where
  r : RInv hc h s
  ih : IHx s
  q : QF s

/-! ### `IHx` -/

theorem ihx_indexInsert_tomb {ix : List (Nat × Idx)} (ih : ∀ h' e, assocGet ix h' = some (.addr e) → e.hash = h')
    (a q : Nat) : ∀ h' e, assocGet (indexInsert ix a (.tomb q)) h' = some (.addr e) → e.hash = h' := by
  intro h' e he
  rw [lookup_indexInsert] at he
  split at he
  · rename_i hh
    rcases insOne_addr he with h1 | h1
    · cases h1
    · rw [hh]; exact ih a e h1
  · exact ih h' e he

theorem ihx_submit {s : HState σ} (ih : IHx s) (x : Rec) : IHx (submit s x) := by
  unfold submit
  split
  · exact ih
  · split
    · exact ihx_indexInsert_tomb ih _ _
    · exact ih

theorem ihx_delete {s : HState σ} (ih : IHx s) (key : Nat) : IHx (delete hc s key) :=
  ihx_indexInsert_tomb ih _ _

theorem ihx_flush {s : HState σ} (ih : IHx s) (q : QF s) : IHx (flush hc s) := by
  obtain ⟨_, _, _, _, _, _, _, _, hix⟩ := flush_quiet hc s q.hh q.hg q.hi q.kq
  intro h' e he
  rw [hix] at he
  unfold pview at he
  rcases lookupAfter_addr he with h1 | h1
  · exact ih h' e h1
  · exact h1.2

theorem ihx_lost {s : HState σ} (ih : IHx s) (h' : Nat) (e : DiskEnt) : IHx (lost s h' e) := by
  intro h2 e2 he
  have : assocGet (assocDel s.index h') h2 = some (.addr e2) := he
  rw [assocGet_del] at this
  split at this
  · cases this
  · exact ih h2 e2 this

theorem ihx_restarted (s : HState σ) (m : Cache σ) : IHx (restarted s m) := by
  intro h' e he
  have : assocGet (recover s.disk s.tombs) h' = some (.addr e) := he
  obtain ⟨e', he1, he2⟩ := recover_addr h' s.disk s.tombs _ this
  cases he1
  exact (recovery_picks_latest s.disk s.tombs h' e he2).2.1

/-! ### `QF` -/

theorem qf_submit {s : HState σ} (q : QF s) (x : Rec) : QF (submit s x) := by
  have hf := submit_flags s x
  exact ⟨by rw [hf.1]; exact q.hh, by rw [hf.2.1]; exact q.hg, by rw [hf.2.2.1]; exact q.hi, submit_kq s x q.kq⟩

theorem qf_delete {s : HState σ} (q : QF s) (key : Nat) : QF (delete hc s key) :=
  ⟨q.hh, q.hg, q.hi, delete_kq hc s key q.kq⟩

/-! ### `RB` through the primitives -/

theorem rb_submit {s : HState σ} (b : RB hc h s) (x : Rec) : RB hc h (submit s x) :=
  ⟨rinv_submit hc h b.r x, ihx_submit b.ih x, qf_submit b.q x⟩

theorem rb_delete {s : HState σ} (b : RB hc h s) (key : Nat) : RB hc h (delete hc s key) :=
  ⟨rinv_delete hc h b.r key, ihx_delete hc b.ih key, qf_delete hc b.q key⟩

theorem rb_pipeSend {s : HState σ} (b : RB hc h s) (x : Rec) : RB hc h (pipeSend hc s x) := by
  unfold pipeSend
  split
  · exact b
  · split
    · exact b
    · exact rb_submit hc h b x

/-- a change of memory, of the oversize marks or of the submission log is invisible to the disk side -/
theorem rb_congr {s s' : HState σ} (b : RB hc h s) (hi : s'.index = s.index) (hq : s'.queue = s.queue)
    (hd : s'.disk = s.disk) (ht : s'.tombs = s.tombs) (hs : s'.seq = s.seq) (hk : s'.keeper = s.keeper)
    (hh : s'.held = s.held) (hg : s'.gated = s.gated) (hf : s'.inflight = s.inflight) : RB hc h s' :=
  ⟨rinv_congr hc h hi hq hd ht hs b.r, fun h' e he => b.ih h' e (by rw [← hi]; exact he),
   ⟨by rw [hh]; exact b.q.hh, by rw [hg]; exact b.q.hg, by rw [hf]; exact b.q.hi,
    fun p hp => by rw [hk] at hp; rw [hq]; exact b.q.kq p hp⟩⟩

theorem rb_memOp {s : HState σ} (b : RB hc h s) (op : Op) : RB hc h (memOp P hc s op).1 := by
  have hfold : ∀ (l : List Rec) (s : HState σ), RB hc h s → RB hc h (l.foldl (pipeSend hc) s) := by
    intro l
    induction l with
    | nil => intro s b; exact b
    | cons x xs ih => intro s b; exact ih _ (rb_pipeSend hc h b x)
  unfold memOp
  exact hfold _ _ (rb_congr hc h b rfl rfl rfl rfl rfl rfl rfl rfl rfl)

theorem rb_memInsert {s : HState σ} (b : RB hc h s) (key ver : Nat) (ph : Bool) (loc : Loc) (age : Age) :
    RB hc h (memInsert P hc s key ver ph loc age).1 := by
  unfold memInsert
  have b1 := rb_memOp P hc h b (.ins key ver 1 .normal ph loc age)
  generalize memOp P hc s (.ins key ver 1 .normal ph loc age) = p at b1
  obtain ⟨s1, out⟩ := p
  simp only at b1 ⊢
  split
  · rename_i r _
    exact rb_memOp P hc h b1 (.drop r.id)
  · exact b1

theorem rb_load {s : HState σ} (b : RB hc h s) (key : Nat) : RB hc h (loadAndPopulate P hc s key).1 := by
  unfold loadAndPopulate
  split
  · rename_i r _
    have := rb_memInsert P hc h b key r.ver r.phantom r.loc r.age
    generalize memInsert P hc s key r.ver r.phantom r.loc r.age = p at this
    obtain ⟨s1, o⟩ := p
    exact this
  · split
    · exact b
    · rename_i e _
      split
      · have := rb_memInsert P hc h b key e.ver false .default .young
        generalize memInsert P hc s key e.ver false .default .young = p at this
        obtain ⟨s1, o⟩ := p
        exact this
      · exact b

theorem rb_flush {s : HState σ} (b : RB hc h s) (ht : hc.tombLog = true) :
    RB hc h (flush hc s) ∧ (flush hc s).queue = [] :=
  ⟨⟨rinv_flush hc h b.r b.q ht, ihx_flush hc b.ih b.q, (qf_flush hc b.q).1⟩, (qf_flush hc b.q).2⟩

theorem rb_lost {s : HState σ} (b : RB hc h s) (hq : s.queue = []) (h' : Nat) (e : DiskEnt)
    (he : indexAddr s.index h' = some e) : RB hc h (lost s h' e) :=
  ⟨rinv_lose hc h b.r b.ih hq h' e he, ihx_lost b.ih h' e, ⟨b.q.hh, b.q.hg, b.q.hi, b.q.kq⟩⟩

theorem rb_restarted {s : HState σ} (b : RB hc h s) (hq : s.queue = []) (m : Cache σ) : RB hc h (restarted s m) :=
  ⟨rinv_restarted hc h b.r hq m, ihx_restarted s m, ⟨b.q.hh, b.q.hg, rfl, fun p hp => by cases hp⟩⟩


/-- API calls and environment steps during which no flush is held back -/
def quietOp : HOp → Prop
  | .hold => False
  | .unhold => False
  | .gate => False
  | .releaseAll => False
  | .releaseBatch => False
  | _ => True

theorem rb_ite {s : HState σ} (b : RB hc h s) (c : Prop) [Decidable c] (x : Rec) :
    RB hc h (if c then submit s x else s) := by
  split
  · exact rb_submit hc h b x
  · exact b

/-- **Every API call keeps the disk-side invariant** (tombstone log on; the call starts with an idle flusher). -/
theorem rb_stepCore {s : HState σ} (b : RB hc h s) (ht : hc.tombLog = true) (hq : s.queue = []) (op : HOp)
    (hop : quietOp op) : RB hc h (stepCore P hc s op).1 := by
  cases op with
  | ins key ver loc big =>
    simp only [stepCore]
    have b0 : RB hc h (if big = true then ({ s with big := ver :: s.big } : HState σ) else s) := by
      split
      · exact rb_congr hc h b rfl rfl rfl rfl rfl rfl rfl rfl rfl
      · exact b
    generalize (if big = true then ({ s with big := ver :: s.big } : HState σ) else s) = s0 at b0
    have b1 := rb_memOp P hc h b0 (.ins key ver 1 .normal (decide (loc = .onDisk)) loc .fresh)
    generalize memOp P hc s0 (.ins key ver 1 .normal (decide (loc = .onDisk)) loc .fresh) = p at b1
    obtain ⟨s1, out⟩ := p
    simp only at b1 ⊢
    split
    · rename_i r _
      exact rb_memOp P hc h (rb_ite hc h b1 _ r) (.drop r.id)
    · exact b1
  | wins key ver force =>
    simp only [stepCore]
    have b1 := rb_memOp P hc h b (.ins key ver 1 .normal true .default .fresh)
    generalize memOp P hc s (.ins key ver 1 .normal true .default .fresh) = p at b1
    obtain ⟨s1, out⟩ := p
    simp only at b1 ⊢
    split
    · rename_i r _
      exact rb_memOp P hc h (rb_ite hc h b1 _ r) (.drop r.id)
    · exact b1
  | rm key =>
    simp only [stepCore]
    have b1 := rb_memOp P hc h b (.remove key)
    generalize memOp P hc s (.remove key) = p at b1
    obtain ⟨s1, out⟩ := p
    simp only at b1 ⊢
    apply rb_delete
    split
    · rename_i r _
      exact rb_memOp P hc h b1 (.drop r.id)
    · exact b1
  | clear =>
    simp only [stepCore]
    have b1 := rb_memOp P hc h b .clear
    generalize memOp P hc s .clear = p at b1
    obtain ⟨s1, out⟩ := p
    simp only at b1 ⊢
    generalize hs1' : ({ s1 with seq := s1.seq + 1, queue := s1.queue ++ [Sub.tomb 0 s1.seq],
                                 subs := s1.subs ++ [Sub.tomb 0 s1.seq] } : HState σ) = s1'
    have q1' : QF s1' := by
      rw [← hs1']
      refine ⟨b1.q.hh, b1.q.hg, b1.q.hi, ?_⟩
      intro p hp
      obtain ⟨e, f, hef, he⟩ := b1.q.kq p hp
      exact ⟨e, f, List.mem_append_left _ hef, he⟩
    obtain ⟨qf2, hq2⟩ := qf_flush hc q1'
    obtain ⟨_, htb⟩ := flush_disk_tombs hc s1' q1' ht
    have hseq2 : (flush hc s1').seq = s1.seq + 1 := by
      rw [(flush_quiet hc s1' q1'.hh q1'.hg q1'.hi q1'.kq).2.2.2.2.1, ← hs1']
    have hB2 : ∀ q, (h, q) ∈ (flush hc s1').tombs → q < (flush hc s1').seq := by
      intro q hq1
      rw [htb, ← hs1'] at hq1
      simp only at hq1
      rw [tbsOf_append, ← List.append_assoc, List.mem_append] at hq1
      rw [hseq2]
      rcases hq1 with hq1 | hq1
      · have := b1.r.B2 q hq1; omega
      · have : tbsOf [Sub.tomb 0 s1.seq] = [(0, s1.seq)] := rfl
        rw [this] at hq1
        simp only [List.mem_singleton, Prod.mk.injEq] at hq1
        omega
    refine ⟨rinv_wipe hc h hB2 hq2, ?_, ⟨qf2.hh, qf2.hg, qf2.hi, qf2.kq⟩⟩
    intro h' e he
    cases he
  | get key =>
    simp only [stepCore]
    have b1 := rb_memOp P hc h b (.get key)
    generalize memOp P hc s (.get key) = p at b1
    obtain ⟨s1, out⟩ := p
    simp only at b1 ⊢
    split
    · rename_i r _
      exact rb_memOp P hc h b1 (.drop r.id)
    · have b2 := rb_load P hc h b1 key
      generalize loadAndPopulate P hc s1 key = p2 at b2
      obtain ⟨s2, o⟩ := p2
      cases o with
      | none => exact b2
      | some vs => obtain ⟨v, src⟩ := vs; exact b2
  | fetch key ov =>
    simp only [stepCore]
    have b1 := rb_memOp P hc h b (.get key)
    generalize memOp P hc s (.get key) = p at b1
    obtain ⟨s1, out⟩ := p
    simp only at b1 ⊢
    split
    · rename_i r _
      exact rb_memOp P hc h b1 (.drop r.id)
    · have b2 := rb_load P hc h b1 key
      generalize loadAndPopulate P hc s1 key = p2 at b2
      obtain ⟨s2, o⟩ := p2
      cases o with
      | some vs => obtain ⟨v, src⟩ := vs; exact b2
      | none =>
        simp only at b2 ⊢
        have b3 := rb_memOp P hc h b2 (.ins key ov 1 .normal false .default .fresh)
        generalize memOp P hc s2 (.ins key ov 1 .normal false .default .fresh) = p3 at b3
        obtain ⟨s3, out3⟩ := p3
        simp only at b3 ⊢
        split
        · rename_i r _
          exact rb_memOp P hc h (rb_ite hc h b3 _ r) (.drop r.id)
        · exact b3
  | evict => simp only [stepCore]; exact rb_memOp P hc h b .evictAll
  | contains key => simp only [stepCore]; exact b
  | wait => simp only [stepCore]; exact b
  | lose h' =>
    simp only [stepCore]
    split
    · exact b
    · rename_i e he
      exact rb_lost hc h b hq h' e he
  | reopen =>
    simp only [stepCore, ht, if_true]
    have b1 : RB hc h (if hc.foc = true then (memOp P hc s .flush).1 else s) := by
      split
      · exact rb_memOp P hc h b .flush
      · exact b
    generalize (if hc.foc = true then (memOp P hc s .flush).1 else s) = s1 at b1
    have b1' : RB hc h ({ s1 with held := false, gated := false } : HState σ) :=
      ⟨rinv_congr hc h (s := s1) rfl rfl rfl rfl rfl b1.r, b1.ih, ⟨rfl, rfl, b1.q.hi, b1.q.kq⟩⟩
    obtain ⟨b2, hq2⟩ := rb_flush hc h b1' ht
    exact rb_restarted hc h b2 hq2 _
  | hold => exact absurd hop id
  | unhold => exact absurd hop id
  | gate => exact absurd hop id
  | releaseAll => exact absurd hop id
  | releaseBatch => exact absurd hop id

theorem rb_step {s : HState σ} (b : RB hc h s) (ht : hc.tombLog = true) (hq : s.queue = []) (op : HOp)
    (hop : quietOp op) : RB hc h (step P hc s op).1 ∧ (step P hc s op).1.queue = [] := by
  unfold step
  exact rb_flush hc h (rb_stepCore P hc h b ht hq op hop) ht

theorem rb_init (memcap : Nat) : RB hc h (init P hc memcap) := by
  refine ⟨⟨?_, ?_, ?_, ?_, ?_⟩, ?_, ⟨rfl, rfl, rfl, fun p hp => by cases hp⟩⟩
  · refine ⟨(by intro i hi; cases hi), ?_, ?_⟩
    · intro e he _; cases he
    · intro p hp _; cases hp
  · intro d hd _; cases hd
  · intro q hq1; cases hq1
  · intro e he; cases he
  · intro _ d hd _; cases hd
  · intro h' e he; cases he

end
end Foyer.Hyb
