import FoyerModel.Mem
import FoyerProofs.Lemmas.ListRec
/-
  Helper lemmas about the shard model: the shard invariant and the specification of the
  eviction loop, for an arbitrary lawful policy.
-/
namespace Foyer

theorem eq_of_key_eq {l : List Rec} {x y : Rec} (hn : keysNodup l) (hx : x ∈ l) (hy : y ∈ l)
    (hk : x.key = y.key) : x = y := by
  have h1 := findKey_of_mem hn hx
  have h2 := findKey_of_mem hn hy
  rw [hk] at h1
  rw [h1] at h2
  exact Option.some.inj h2

variable {σ : Type}

/-- Representation invariant of one shard. -/
structure ShardInv (P : Policy σ) (Ok : σ → Prop) (s : Shard σ) : Prop where
  ok : Ok s.ev
  mem_iff : ∀ r, r ∈ P.members s.ev ↔ r ∈ s.index
  keys : keysNodup s.index
  usage_eq : s.usage = wsum s.index
  entries_eq : s.entries = s.index.length

/-- What `RawCacheShard::evict(target)` guarantees. -/
structure EvictSpec (P : Policy σ) (Ok : σ → Prop) (target : Nat) (s : Shard σ) (acc : List Rec)
    (res : Shard σ × List Rec × Bool) : Prop where
  no_panic : res.2.2 = false
  inv : ShardInv P Ok res.1
  cap_eq : res.1.cap = s.cap
  victims : ∃ vs, res.2.1 = acc ++ vs ∧
    res.1.usage + wsum vs = s.usage ∧
    res.1.entries + vs.length = s.entries ∧
    (∀ pre v post, vs = pre ++ v :: post → s.usage - wsum pre > target) ∧
    (∀ x, x ∈ res.1.index ↔ (x ∈ s.index ∧ x ∉ vs)) ∧
    (∀ v ∈ vs, v ∈ s.index) ∧ vs.Nodup
  done : res.1.usage ≤ target ∨ P.pop res.1.ev = none

theorem nodup_of_keysNodup {l : List Rec} (h : keysNodup l) : l.Nodup := by
  unfold keysNodup at h
  exact List.Pairwise.of_map (fun r : Rec => r.key) (fun a b hab e => hab (by rw [e])) h

/-- The evicted records are exactly what left the index. -/
theorem EvictSpec.perm {P : Policy σ} {Ok : σ → Prop} {target : Nat} {s : Shard σ}
    {res : Shard σ × List Rec × Bool} (h : ShardInv P Ok s) (es : EvictSpec P Ok target s [] res) :
    s.index.Perm (res.1.index ++ res.2.1) := by
  obtain ⟨vs, hvs, _, _, _, hidx, hsub, hnd⟩ := es.victims
  simp only [List.nil_append] at hvs
  rw [hvs]
  apply (List.perm_ext_iff_of_nodup (nodup_of_keysNodup h.keys) ?_).mpr
  · intro x
    rw [List.mem_append, hidx x]
    constructor
    · intro hx
      by_cases hv : x ∈ vs
      · exact Or.inr hv
      · exact Or.inl ⟨hx, hv⟩
    · rintro (⟨hx, _⟩ | hv)
      · exact hx
      · exact hsub x hv
  · rw [List.nodup_append]
    refine ⟨nodup_of_keysNodup es.inv.keys, hnd, ?_⟩
    intro a ha b hb hab
    subst hab
    exact ((hidx a).mp ha).2 hb

theorem hasId_members_iff {P : Policy σ} {Ok : σ → Prop} (L : Lawful P Ok) {s : Shard σ}
    (h : ShardInv P Ok s) {r : Rec} (hr : r ∈ s.index) : hasId r.id (P.members s.ev) = true := by
  have hm : r ∈ P.members s.ev := (h.mem_iff r).mpr hr
  have : ∀ (l : List Rec), r ∈ l → (findId r.id l).isSome = true := by
    intro l hl
    induction l with
    | nil => cases hl
    | cons y ys ih =>
      simp only [findId]
      split
      · rfl
      · rename_i hne
        rcases List.mem_cons.mp hl with rfl | h'
        · exact absurd rfl hne
        · exact ih h'
  exact this _ hm

theorem evictLoop_spec {P : Policy σ} {Ok : σ → Prop} (L : Lawful P Ok) (target : Nat) :
    ∀ (fuel : Nat) (s : Shard σ) (acc : List Rec), ShardInv P Ok s → s.index.length < fuel →
      EvictSpec P Ok target s acc (evictLoop P target fuel s acc) := by
  intro fuel
  induction fuel with
  | zero => intro s acc _ hf; omega
  | succ fuel ih =>
    intro s acc h hf
    unfold evictLoop
    split
    · rename_i hgt
      split
      · rename_i hpop
        exact ⟨rfl, h, rfl, ⟨[], by simp, by simp [wsum], by simp, by
          intro pre v post hh; simp at hh, by simp, by simp, by simp⟩, Or.inr hpop⟩
      · rename_i r ev' hpop
        have hpm := L.pop_mem s.ev r ev' h.ok hpop
        have hri : r ∈ s.index := (h.mem_iff r).mp hpm.1
        have hfk : findKey r.key s.index = some r := findKey_of_mem h.keys hri
        simp only [hfk, if_true]
        have hw := wsum_eraseKey h.keys hfk
        have hl := length_eraseKey h.keys hfk
        have hwle := weight_le_wsum hri
        -- the shard after popping `r`
        let s1 : Shard σ := { s with ev := ev', index := eraseKey r.key s.index,
                                     usage := s.usage - r.weight, entries := s.entries - 1 }
        have hmem1 : ∀ x, x ∈ s1.index ↔ (x ∈ s.index ∧ x ≠ r) := by
          intro x
          show x ∈ eraseKey r.key s.index ↔ _
          rw [mem_eraseKey]
          constructor
          · rintro ⟨hx, hk⟩; exact ⟨hx, fun e => hk (by rw [e])⟩
          · rintro ⟨hx, hne⟩; exact ⟨hx, fun e => hne (eq_of_key_eq h.keys hx hri e)⟩
        have h1 : ShardInv P Ok s1 := by
          refine ⟨L.pop_ok s.ev r ev' h.ok hpop, ?_, keysNodup_eraseKey h.keys, ?_, ?_⟩
          · intro x
            rw [hpm.2 x, hmem1 x, h.mem_iff x]
          · show s.usage - r.weight = wsum (eraseKey r.key s.index)
            have := h.usage_eq; omega
          · show s.entries - 1 = (eraseKey r.key s.index).length
            have := h.entries_eq; omega
        have hf1 : s1.index.length < fuel := by
          show (eraseKey r.key s.index).length < fuel
          omega
        have rec1 := ih s1 (acc ++ [r]) h1 hf1
        show EvictSpec P Ok target s acc (evictLoop P target fuel s1 (acc ++ [r]))
        generalize evictLoop P target fuel s1 (acc ++ [r]) = res at rec1 ⊢
        obtain ⟨np, inv, capeq, ⟨vs, hv1, hv2, hv3, hv4, hv5, hv6, hv7⟩, dn⟩ := rec1
        refine ⟨np, inv, capeq, ⟨r :: vs, ?_, ?_, ?_, ?_, ?_, ?_, ?_⟩, dn⟩
        · rw [hv1]; simp
        · simp only [wsum]
          have : s1.usage = s.usage - r.weight := rfl
          have := h.usage_eq
          omega
        · simp only [List.length_cons]
          have : s1.entries = s.entries - 1 := rfl
          have := h.entries_eq
          have : 0 < s.index.length := List.length_pos_of_mem hri
          omega
        · intro pre v post hh
          cases pre with
          | nil => simp [wsum]; omega
          | cons p ps =>
            simp only [List.cons_append, List.cons.injEq] at hh
            obtain ⟨rfl, hh⟩ := hh
            have := hv4 ps v post hh
            have e : s1.usage = s.usage - r.weight := rfl
            simp only [wsum]
            rw [e] at this
            omega
        · intro x
          rw [hv5 x, hmem1 x]
          simp only [List.mem_cons, not_or]
          constructor
          · rintro ⟨⟨a, b⟩, c⟩; exact ⟨a, b, c⟩
          · rintro ⟨a, b, c⟩; exact ⟨⟨a, b⟩, c⟩
        · intro v hv
          rcases List.mem_cons.mp hv with rfl | hv'
          · exact hri
          · exact ((hmem1 v).mp (hv6 v hv')).1
        · rw [List.nodup_cons]
          exact ⟨fun hin => ((hmem1 r).mp (hv6 r hin)).2 rfl, hv7⟩
    · rename_i hle
      exact ⟨rfl, h, rfl, ⟨[], by simp, by simp [wsum], by simp, by
        intro pre v post hh; simp at hh, by simp, by simp, by simp⟩, Or.inl (by show s.usage ≤ target; omega)⟩

/-- The eviction loop never changes the shard's capacity. -/
theorem evict_cap {P : Policy σ} (t : Shard σ) (tg : Nat) : (Shard.evict P t tg).1.cap = t.cap := by
  unfold Shard.evict
  generalize (t.index.length + 1) = fuel
  generalize ([] : List Rec) = acc
  induction fuel generalizing t acc with
  | zero => simp [evictLoop]
  | succ f ihf =>
    unfold evictLoop
    split
    · split
      · rfl
      · split
        · rfl
        · split
          · rw [ihf]
          · rfl
    · rfl

theorem evict_spec {P : Policy σ} {Ok : σ → Prop} (L : Lawful P Ok) (target : Nat) (s : Shard σ)
    (h : ShardInv P Ok s) : EvictSpec P Ok target s [] (Shard.evict P s target) :=
  evictLoop_spec L target _ s [] h (Nat.lt_succ_self _)

end Foyer
