import FoyerProofs.Lemmas.HybridMem
import FoyerProofs.Lemmas.Protect
import FoyerProofs.C13
/-
  More facts about the memory tier, used by the write-on-eviction refinement:
    * an ordinary insert makes its record the lookup of its key (`ins_lookup_exact`);
    * what an insert / evict-all evicts was findable before the step (`evict_leaves_findable`);
    * a findable record of key `k` that is no longer findable after a step which does not write `k`
      was handed to the pipe (`evicted_is_piped`);
    * the handle table of a cache used by the hybrid model (every handle is dropped within the API call
      that obtained it): `held = []` between calls, `[(r, 1)]` while the call holds `r`.
-/
namespace Foyer
open Foyer

variable {σ : Type} {P : Policy σ} {Ok : σ → Prop}

/-- An ordinary (non disk-only) insert makes the new record the lookup of its key. -/
theorem ins_lookup_exact (L : Lawful P Ok) {cfg : Cfg} (hn : 0 < cfg.nshards) {c : Cache σ}
    (hc : CacheInv P Ok cfg c) (key ver w : Nat) (hint : Hint) (loc : Loc) (age : Age) (r : Rec)
    (hr : (Cache.step P cfg c (.ins key ver w hint false loc age)).2.ret = .handle r) :
    Cache.lookup cfg (Cache.step P cfg c (.ins key ver w hint false loc age)).1 key = some r := by
  have hlt : cfg.shardOf (cfg.H key) < c.shards.length := by rw [hc.len]; exact Nat.mod_lt _ hn
  simp only [Cache.step] at hr ⊢
  split
  · rename_i hnone
    rw [List.getElem?_eq_none_iff] at hnone; omega
  · rename_i s hs
    simp only [hs] at hr
    have hsi := hc.shard _ s hs
    have sp := emplace_spec (r := { id := c.nextId, key, hash := cfg.H key, ver, weight := w, hint, phantom := false, loc, age }) L hsi rfl
      (fun x hx => Nat.ne_of_lt (hc.fresh _ s hs x hx))
    generalize Shard.emplace P s _ = res at sp hr
    obtain ⟨s', lv, pk⟩ := res
    have hpk : pk = false := sp.no_panic
    subst hpk
    simp only [Bool.false_eq_true, if_false, Ret.handle.injEq] at hr
    simp only
    rw [C02.lookup_setAt cfg c _ s' hlt, if_pos rfl, ← hr]
    exact findKey_of_mem sp.inv.keys sp.index_new

theorem mem_findable_of_shard {c : Cache σ} {i : Nat} {s : Shard σ} (hs : c.shards[i]? = some s) {x : Rec}
    (hx : x ∈ s.index) : x ∈ c.findable := by
  unfold Cache.findable
  rw [List.mem_flatMap]
  exact ⟨s, List.mem_of_getElem? hs, hx⟩

/-- What an insert or an evict-all evicts was findable before the step. -/
theorem evict_leaves_findable (L : Lawful P Ok) {cfg : Cfg} {c : Cache σ} (hc : CacheInv P Ok cfg c) (op : Op)
    (hop : match op with | .ins .. => True | .evictAll => True | .flush => True | _ => False)
    (x : Rec) (hx : (Reason.evict, x) ∈ (Cache.step P cfg c op).2.leaves) : x ∈ c.findable := by
  cases op with
  | ins key ver w hint phantom loc age =>
    simp only [Cache.step] at hx
    split at hx
    · simp at hx
    · rename_i s hs
      have hsi := hc.shard _ s hs
      cases phantom with
      | true =>
        have sp := emplace_phantom_spec (r := { id := c.nextId, key, hash := cfg.H key, ver, weight := w, hint, phantom := true, loc, age }) L hsi rfl
        generalize Shard.emplace P s _ = res at sp hx
        obtain ⟨s', lv, pk⟩ := res
        simp only at hx
        exact absurd rfl (sp.2.2.2.2.2.2 _ _ hx)
      | false =>
        have sp := emplace_spec (r := { id := c.nextId, key, hash := cfg.H key, ver, weight := w, hint, phantom := false, loc, age }) L hsi rfl
          (fun x hx => Nat.ne_of_lt (hc.fresh _ s hs x hx))
        generalize Shard.emplace P s _ = res at sp hx
        obtain ⟨s', lv, pk⟩ := res
        simp only at hx
        obtain ⟨s1, vs, repl, _, es, hlv, hrepl⟩ := sp.shape
        simp only at hlv
        rw [hlv, List.mem_append] at hx
        rcases hx with hx | hx
        · simp only [List.mem_map, Prod.mk.injEq] at hx
          obtain ⟨v, hv, _, hvx⟩ := hx
          obtain ⟨vs', hvs, _, _, _, _, hsub, _⟩ := es.victims
          simp only [List.nil_append] at hvs
          subst hvx
          exact mem_findable_of_shard hs (hsub v (by rw [← hvs]; exact hv))
        · rcases hrepl with ⟨h1, _⟩ | ⟨old, h1, _⟩
          · rw [h1] at hx; cases hx
          · rw [h1] at hx
            simp only [List.mem_singleton, Prod.mk.injEq] at hx
            exact absurd hx.1 (by decide)
  | evictAll =>
    simp only [Cache.step] at hx
    obtain ⟨j, s, hs, hxs⟩ := mem_leaves_mapShards _ c.shards 0 _ hx
    simp only at hxs
    have es := evict_spec L 0 s (hc.shard j s hs)
    generalize Shard.evict P s 0 = ev at es hxs
    obtain ⟨s1, vs, pk⟩ := ev
    simp only [List.mem_map, Prod.mk.injEq] at hxs
    obtain ⟨v, hv, _, hvx⟩ := hxs
    obtain ⟨vs', hvs, _, _, _, _, hsub, _⟩ := es.victims
    simp only [List.nil_append] at hvs
    subst hvx
    exact mem_findable_of_shard hs (hsub v (by rw [← hvs]; exact hv))
  | flush =>
    simp only [Cache.step] at hx
    obtain ⟨j, s, hs, hxs⟩ := mem_leaves_mapShards _ c.shards 0 _ hx
    simp only at hxs
    have es := evict_spec L 0 s (hc.shard j s hs)
    generalize Shard.evict P s 0 = ev at es hxs
    obtain ⟨s1, vs, pk⟩ := ev
    simp only [List.mem_map, Prod.mk.injEq] at hxs
    obtain ⟨v, hv, _, hvx⟩ := hxs
    obtain ⟨vs', hvs, _, _, _, _, hsub, _⟩ := es.victims
    simp only [List.nil_append] at hvs
    subst hvx
    exact mem_findable_of_shard hs (hsub v (by rw [← hvs]; exact hv))
  | get _ => exact absurd hop id
  | touch _ => exact absurd hop id
  | contains _ => exact absurd hop id
  | remove _ => exact absurd hop id
  | clone _ => exact absurd hop id
  | drop _ => exact absurd hop id
  | clear => exact absurd hop id
  | resize _ => exact absurd hop id


/-- memory operations that neither write key `k` nor are outside what the hybrid layer issues -/
def quietFor (k : Nat) : Op → Prop
  | .ins key _ _ _ _ _ _ => key ≠ k
  | .remove key => key ≠ k
  | .clear => False
  | .resize _ => False
  | _ => True

theorem regStep_quietFor {k : Nat} {op : Op} (h : quietFor k op) (cur : Option Rec) (out : Out) :
    regStep k cur op out = cur := by
  cases op <;> simp only [regStep] <;> simp only [quietFor] at h
  · rw [if_neg h]
  · rw [if_neg h]

theorem mem_leftRecs {l : List (Reason × Rec)} {r : Rec} (h : r ∈ leftRecs l) : r.phantom = false ∧ ∃ e, (e, r) ∈ l := by
  unfold leftRecs at h
  simp only [List.mem_filter, List.mem_map, Bool.not_eq_eq_eq_not, Bool.not_true] at h
  obtain ⟨⟨x, hx, hxr⟩, hp⟩ := h
  refine ⟨hp, x.1, ?_⟩
  rw [← hxr]; exact hx

theorem mem_evictedOf_iff {l : List (Reason × Rec)} {r : Rec} : r ∈ evictedOf l ↔ (Reason.evict, r) ∈ l := by
  constructor
  · exact mem_evictedOf
  · intro h
    unfold evictedOf
    simp only [List.mem_map, List.mem_filter, decide_eq_true_eq]
    exact ⟨(Reason.evict, r), ⟨h, rfl⟩, rfl⟩

/-- **An evicted record reaches the pipe**: if a step that does not write `k` makes the record of `k`
unfindable, that record is among what the step hands to the disk tier. -/
theorem evicted_is_piped (L : Lawful P Ok) {cfg : Cfg} (hn : 0 < cfg.nshards) {c : Cache σ}
    (hc : CacheInv P Ok cfg c) (k : Nat) (op : Op) (hq : quietFor k op) (r : Rec)
    (hl : Cache.lookup cfg c k = some r) (hl' : Cache.lookup cfg (Cache.step P cfg c op).1 k = none) :
    r ∈ (Cache.step P cfg c op).2.piped := by
  have hrk : r.key = k := lookup_key cfg c k r hl
  have hperm := step_conservation L hc op
  have hmem : r ∈ admittedOf op (Cache.step P cfg c op).2 ++ c.findable :=
    List.mem_append.mpr (Or.inr (findable_of_lookup hl))
  rcases List.mem_append.mp (hperm.subset hmem) with h1 | h1
  · have := lookup_of_findable (step_inv L hn hc op) h1
    rw [hrk, hl'] at this; cases this
  · obtain ⟨hph, e, he⟩ := mem_leftRecs h1
    rw [C13.pipe_iff_evict, mem_evictedOf_iff]
    have hrc := C13.reason_correct (P := P) cfg c op e r he
    cases op with
    | ins key ver w hint phantom loc age =>
      simp only at hrc
      simp only [quietFor] at hq
      rcases hrc with h | ⟨_, h⟩ | ⟨_, _, h⟩
      · rw [← h]; exact he
      · exact absurd (h.symm.trans hrk) hq
      · rw [hph] at h; cases h
    | remove key =>
      simp only at hrc
      simp only [quietFor] at hq
      exact absurd (hrc.2.symm.trans hrk) hq
    | drop rid =>
      simp only at hrc
      rw [hph] at hrc; exact absurd hrc.2.1 (by decide)
    | evictAll => simp only at hrc; rw [← hrc]; exact he
    | flush => simp only at hrc; rw [← hrc]; exact he
    | get _ => exact absurd hrc id
    | touch _ => exact absurd hrc id
    | contains _ => exact absurd hrc id
    | clone _ => exact absurd hrc id
    | clear => exact absurd hq id
    | resize _ => exact absurd hq id

/-- **What reaches the pipe was the lookup of its key** (for everything but handle drops). -/
theorem piped_is_lookup (L : Lawful P Ok) {cfg : Cfg} {c : Cache σ} (hc : CacheInv P Ok cfg c) (k : Nat) (op : Op)
    (hq : quietFor k op) (hnd : ∀ rid, op ≠ .drop rid) (x : Rec) (hx : x ∈ (Cache.step P cfg c op).2.piped) :
    Cache.lookup cfg c x.key = some x := by
  rw [C13.pipe_iff_evict, mem_evictedOf_iff] at hx
  have hrc := C13.reason_correct (P := P) cfg c op _ x hx
  cases op with
  | ins key ver w hint phantom loc age => exact lookup_of_findable hc (evict_leaves_findable L hc _ trivial x hx)
  | evictAll => exact lookup_of_findable hc (evict_leaves_findable L hc _ trivial x hx)
  | flush => exact lookup_of_findable hc (evict_leaves_findable L hc _ trivial x hx)
  | remove key => simp only at hrc; exact absurd hrc.1 (by decide)
  | drop rid => exact absurd rfl (hnd rid)
  | get _ => exact absurd hrc id
  | touch _ => exact absurd hrc id
  | contains _ => exact absurd hrc id
  | clone _ => exact absurd hrc id
  | clear => exact absurd hq id
  | resize _ => exact absurd hq id

/-! ### the handle table -/

theorem held_ins (cfg : Cfg) (c : Cache σ) (hh : c.held = []) (key ver w : Nat) (hint : Hint) (ph : Bool) (loc : Loc)
    (age : Age) (r : Rec) (hr : (Cache.step P cfg c (.ins key ver w hint ph loc age)).2.ret = .handle r) :
    (Cache.step P cfg c (.ins key ver w hint ph loc age)).1.held = [(r, 1)] := by
  simp only [Cache.step] at hr ⊢
  split
  · rename_i hnone; simp only [hnone] at hr; cases hr
  · rename_i s hs
    simp only [hs] at hr
    generalize Shard.emplace P s _ = res at hr
    obtain ⟨s', lv, pk⟩ := res
    simp only at hr ⊢
    split at hr
    · cases hr
    · cases hr
      rw [hh]; rfl

theorem held_get (cfg : Cfg) (c : Cache σ) (hh : c.held = []) (key : Nat) :
    (∀ r, (Cache.step P cfg c (.get key)).2.ret = .handle r → (Cache.step P cfg c (.get key)).1.held = [(r, 1)]) ∧
    ((∀ r, (Cache.step P cfg c (.get key)).2.ret ≠ .handle r) → (Cache.step P cfg c (.get key)).1 = c) := by
  simp only [Cache.step]
  split
  · exact ⟨fun r hr => (by cases hr), fun _ => rfl⟩
  · split
    · exact ⟨fun r hr => (by cases hr), fun _ => rfl⟩
    · rename_i r0 _
      refine ⟨fun r hr => ?_, fun h => absurd rfl (h r0)⟩
      cases hr
      simp only
      rw [hh]; rfl

theorem held_remove (cfg : Cfg) (c : Cache σ) (hh : c.held = []) (key : Nat) :
    (∀ r, (Cache.step P cfg c (.remove key)).2.ret = .handle r → (Cache.step P cfg c (.remove key)).1.held = [(r, 1)]) ∧
    ((∀ r, (Cache.step P cfg c (.remove key)).2.ret ≠ .handle r) → (Cache.step P cfg c (.remove key)).1.held = []) := by
  simp only [Cache.step]
  split
  · exact ⟨fun r hr => (by cases hr), fun _ => hh⟩
  · split
    · exact ⟨fun r hr => (by cases hr), fun _ => hh⟩
    · rename_i r0 _
      refine ⟨fun r hr => ?_, fun h => absurd rfl (h r0)⟩
      cases hr
      simp only
      rw [hh]; rfl

/-- dropping the only handle: the table is empty again; a disk-only record is handed to the pipe now -/
theorem held_drop (cfg : Cfg) (c : Cache σ) (r : Rec) (hh : c.held = [(r, 1)]) :
    (Cache.step P cfg c (.drop r.id)).1.held = [] ∧
    (Cache.step P cfg c (.drop r.id)).2.piped = if r.phantom then [r] else [] := by
  simp only [Cache.step, hh, heldFind, if_true, heldCnt, Nat.le_refl, heldDec]
  cases hp : r.phantom with
  | true => simp
  | false =>
    simp only [Bool.false_eq_true, if_false]
    split <;> simp

theorem held_evictAll (cfg : Cfg) (c : Cache σ) : (Cache.step P cfg c .evictAll).1.held = c.held := by
  simp only [Cache.step]

theorem held_clear (cfg : Cfg) (c : Cache σ) : (Cache.step P cfg c .clear).1.held = c.held := by
  simp only [Cache.step]

theorem held_flush (cfg : Cfg) (c : Cache σ) : (Cache.step P cfg c .flush).1.held = c.held := by
  simp only [Cache.step]


/-! ### small facts -/

theorem lookup_hash {cfg : Cfg} {c : Cache σ} (hc : CacheInv P Ok cfg c) {k : Nat} {r : Rec}
    (h : Cache.lookup cfg c k = some r) : r.hash = cfg.H k ∧ r.phantom = false := by
  have hk := lookup_key cfg c k r h
  unfold Cache.lookup at h
  split at h
  · cases h
  · rename_i s hs
    have hm := (findKey_some h).1
    exact ⟨by rw [(hc.placed _ s hs r hm).1, hk], hc.real _ s hs r hm⟩

/-- whatever an insert hands to the pipe was the lookup of its key before -/
theorem piped_is_lookup_ins (L : Lawful P Ok) {cfg : Cfg} {c : Cache σ} (hc : CacheInv P Ok cfg c)
    (key ver w : Nat) (hint : Hint) (ph : Bool) (loc : Loc) (age : Age) (x : Rec)
    (hx : x ∈ (Cache.step P cfg c (.ins key ver w hint ph loc age)).2.piped) : Cache.lookup cfg c x.key = some x := by
  rw [C13.pipe_iff_evict, mem_evictedOf_iff] at hx
  exact lookup_of_findable hc (evict_leaves_findable L hc _ trivial x hx)

/-- a disk-only insert evicts nothing -/
theorem ins_phantom_piped_nil (L : Lawful P Ok) {cfg : Cfg} {c : Cache σ} (hc : CacheInv P Ok cfg c)
    (key ver w : Nat) (hint : Hint) (loc : Loc) (age : Age) :
    (Cache.step P cfg c (.ins key ver w hint true loc age)).2.piped = [] := by
  rw [List.eq_nil_iff_forall_not_mem]
  intro x hx
  rw [C13.pipe_iff_evict, mem_evictedOf_iff] at hx
  simp only [Cache.step] at hx
  split at hx
  · simp at hx
  · rename_i s hs
    have sp := emplace_phantom_spec (r := { id := c.nextId, key, hash := cfg.H key, ver, weight := w, hint, phantom := true, loc, age }) L (hc.shard _ s hs) rfl
    generalize Shard.emplace P s _ = res at sp hx
    obtain ⟨s', lv, pk⟩ := res
    simp only at hx
    exact absurd rfl (sp.2.2.2.2.2.2 _ _ hx)

theorem no_leaves_piped_nil (cfg : Cfg) (c : Cache σ) (op : Op)
    (hop : match op with | .get _ => True | .remove _ => True | .clear => True | .contains _ => True | _ => False) :
    (Cache.step P cfg c op).2.piped = [] := by
  rw [List.eq_nil_iff_forall_not_mem]
  intro x hx
  rw [C13.pipe_iff_evict, mem_evictedOf_iff] at hx
  have hrc := C13.reason_correct (P := P) cfg c op _ x hx
  cases op with
  | get _ => exact hrc
  | contains _ => exact hrc
  | remove _ => simp only at hrc; exact absurd hrc.1 (by decide)
  | clear => simp only at hrc; exact absurd hrc (by decide)
  | ins _ _ _ _ _ _ _ => exact absurd hop id
  | touch _ => exact absurd hop id
  | clone _ => exact absurd hop id
  | drop _ => exact absurd hop id
  | resize _ => exact absurd hop id
  | evictAll => exact absurd hop id
  | flush => exact absurd hop id

end Foyer
