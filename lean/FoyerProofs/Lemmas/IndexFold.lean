import FoyerProofs.Lemmas.Hybrid
/-
  The sequence-guarded index, one hash at a time: what `insert_batch` / `remove_batch` (the folds of
  `applyBatch`) do to the entry of a given hash is a fold of two small functions over the batch's
  items of that hash.
-/
namespace Foyer.Hyb

/-- `insert_inner` seen from one hash. -/
def insOne (c : Option Idx) (i : Idx) : Option Idx :=
  match c with
  | none => some i
  | some o => if i.seq ≥ o.seq then some i else some o

/-- `remove_batch` for one `(hash, sequence)` seen from that hash. -/
def remOne (c : Option Idx) (q : Nat) : Option Idx :=
  match c with
  | none => none
  | some o => if q ≥ o.seq then none else some o

theorem lookup_indexInsert (ix : List (Nat × Idx)) (h h' : Nat) (i : Idx) :
    assocGet (indexInsert ix h i) h' = if h' = h then insOne (assocGet ix h) i else assocGet ix h' := by
  rw [assocGet_indexInsert]
  by_cases hh : h' = h
  · simp only [hh, if_true, insOne]
    cases assocGet ix h <;> rfl
  · simp only [hh, if_false]

theorem lookup_indexRemoveSeq (ix : List (Nat × Idx)) (h h' q : Nat) :
    assocGet (indexRemoveSeq ix h q) h' = if h' = h then remOne (assocGet ix h) q else assocGet ix h' := by
  unfold indexRemoveSeq
  cases hc : assocGet ix h with
  | none =>
    simp only [remOne]
    by_cases hh : h' = h
    · simp [hh, hc]
    · simp [hh]
  | some cur =>
    simp only [remOne]
    by_cases hq : q ≥ cur.seq
    · simp only [hq, if_true]
      rw [assocGet_del]
    · simp only [hq, if_false]
      by_cases hh : h' = h
      · simp [hh, hc]
      · simp [hh]

/-- a fold of inserts, seen from hash `h` -/
theorem lookup_fold_insert {α : Type} (key : α → Nat) (item : α → Idx) : ∀ (l : List α) (ix : List (Nat × Idx)) (h : Nat),
    assocGet (l.foldl (fun ix a => indexInsert ix (key a) (item a)) ix) h =
      ((l.filter fun a => key a = h).map item).foldl insOne (assocGet ix h) := by
  intro l
  induction l with
  | nil => intro ix h; rfl
  | cons a l ih =>
    intro ix h
    simp only [List.foldl_cons]
    rw [ih, lookup_indexInsert]
    by_cases hk : key a = h
    · subst hk
      simp [List.filter_cons]
    · have hk' : ¬ h = key a := fun e => hk e.symm
      simp [List.filter_cons, hk, hk']

/-- a fold of sequence-guarded removals, seen from hash `h` -/
theorem lookup_fold_remove : ∀ (l : List (Nat × Nat)) (ix : List (Nat × Idx)) (h : Nat),
    assocGet (l.foldl (fun ix (p : Nat × Nat) => indexRemoveSeq ix p.1 p.2) ix) h =
      ((l.filter fun p => p.1 = h).map (·.2)).foldl remOne (assocGet ix h) := by
  intro l
  induction l with
  | nil => intro ix h; rfl
  | cons a l ih =>
    intro ix h
    simp only [List.foldl_cons]
    rw [ih, lookup_indexRemoveSeq]
    by_cases hk : a.1 = h
    · subst hk
      simp [List.filter_cons]
    · have hk' : ¬ h = a.1 := fun e => hk e.symm
      simp [List.filter_cons, hk, hk']

/-! ### sequence bounds -/

def seqLt (c : Option Idx) (n : Nat) : Prop := ∀ i, c = some i → i.seq < n

theorem insOne_seqLt {c : Option Idx} {i : Idx} {n : Nat} (hc : seqLt c n) (hi : i.seq < n) : seqLt (insOne c i) n := by
  intro j hj
  unfold insOne at hj
  cases c with
  | none => simp only [Option.some.injEq] at hj; rw [← hj]; exact hi
  | some o =>
    simp only at hj
    split at hj
    · simp only [Option.some.injEq] at hj; rw [← hj]; exact hi
    · simp only [Option.some.injEq] at hj; rw [← hj]; exact hc o rfl

theorem foldl_insOne_seqLt : ∀ (l : List Idx) (c : Option Idx) (n : Nat), seqLt c n → (∀ i ∈ l, i.seq < n) →
    seqLt (l.foldl insOne c) n := by
  intro l
  induction l with
  | nil => intro c n hc _; exact hc
  | cons a l ih =>
    intro c n hc hl
    simp only [List.foldl_cons]
    exact ih _ n (insOne_seqLt hc (hl a List.mem_cons_self)) (fun i hi => hl i (List.mem_cons_of_mem _ hi))

theorem remOne_seqLt {c : Option Idx} {q n : Nat} (hc : seqLt c n) : seqLt (remOne c q) n := by
  intro j hj
  unfold remOne at hj
  cases c with
  | none => cases hj
  | some o =>
    simp only at hj
    split at hj
    · cases hj
    · simp only [Option.some.injEq] at hj; rw [← hj]; exact hc o rfl

theorem foldl_remOne_seqLt : ∀ (l : List Nat) (c : Option Idx) (n : Nat), seqLt c n → seqLt (l.foldl remOne c) n := by
  intro l
  induction l with
  | nil => intro c n hc; exact hc
  | cons a l ih => intro c n hc; simp only [List.foldl_cons]; exact ih _ n (remOne_seqLt hc)

/-- a newest item wins the insert … -/
theorem insOne_top {c : Option Idx} {i : Idx} (hc : seqLt c i.seq) : insOne c i = some i := by
  unfold insOne
  cases c with
  | none => rfl
  | some o =>
    have := hc o rfl
    simp only
    rw [if_pos (by omega)]

/-- … and survives every older tombstone -/
theorem foldl_remOne_keep : ∀ (l : List Nat) (i : Idx), (∀ q ∈ l, q < i.seq) → l.foldl remOne (some i) = some i := by
  intro l
  induction l with
  | nil => intro i _; rfl
  | cons a l ih =>
    intro i hl
    simp only [List.foldl_cons]
    have : remOne (some i) a = some i := by
      unfold remOne
      simp only
      have := hl a List.mem_cons_self
      rw [if_neg (by omega)]
    rw [this]
    exact ih i (fun q hq => hl q (List.mem_cons_of_mem _ hq))

theorem foldl_remOne_none : ∀ (l : List Nat), l.foldl remOne none = none := by
  intro l
  induction l with
  | nil => rfl
  | cons a l ih => simp only [List.foldl_cons, remOne]; exact ih

/-- a newest tombstone removes whatever is there -/
theorem remOne_top {c : Option Idx} {q : Nat} (hc : seqLt c (q + 1)) : remOne c q = none := by
  unfold remOne
  cases c with
  | none => rfl
  | some o =>
    have := hc o rfl
    simp only
    rw [if_pos (by omega)]

end Foyer.Hyb
