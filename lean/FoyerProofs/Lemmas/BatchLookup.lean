import FoyerProofs.Lemmas.IndexFold
/-
  What a flusher batch does to the index entry of one hash (`applyBatch_lookup`), and what appending one
  more submission to a batch changes, when sequences are handed out in increasing order.
-/
namespace Foyer.Hyb

def entsOf (b : List Sub) : List DiskEnt := b.filterMap fun q => match q with
  | .entry e true => some e
  | _ => none

def tbsOf (b : List Sub) : List (Nat × Nat) := b.filterMap fun q => match q with
  | .tomb h sq => some (h, sq)
  | .entry e false => some (e.hash, e.seq)
  | _ => none

/-- the index entry of hash `h` after a batch, from the entry before it -/
def lookupAfter (cur : Option Idx) (b : List Sub) (h : Nat) : Option Idx :=
  (((tbsOf b).filter fun p => p.1 = h).map (·.2)).foldl remOne
    ((((entsOf b).filter fun e => e.hash = h).map Idx.addr).foldl insOne cur)

theorem applyBatch_lookup {σ : Type} (hc : HCfg) (s : HState σ) (b : List Sub) (h : Nat) :
    assocGet (applyBatch hc s b).index h = lookupAfter (assocGet s.index h) b h := by
  unfold applyBatch lookupAfter
  simp only
  have hfun : (fun (ix : List (Nat × Idx)) (x : Nat × Nat) => match x with | (h, sq) => indexRemoveSeq ix h sq) =
      (fun ix (p : Nat × Nat) => indexRemoveSeq ix p.1 p.2) := by
    funext ix x; cases x; rfl
  rw [hfun, lookup_fold_remove, lookup_fold_insert (fun e => e.hash) (fun e => Idx.addr e)]
  rfl

theorem entsOf_append (b c : List Sub) : entsOf (b ++ c) = entsOf b ++ entsOf c := by
  unfold entsOf; rw [List.filterMap_append]

theorem tbsOf_append (b c : List Sub) : tbsOf (b ++ c) = tbsOf b ++ tbsOf c := by
  unfold tbsOf; rw [List.filterMap_append]

/-- every sequence number occurring in the batch for hash `h` (and in `cur`) is below `n` -/
def batchLt (cur : Option Idx) (b : List Sub) (h n : Nat) : Prop :=
  seqLt cur n ∧ (∀ e ∈ entsOf b, e.hash = h → e.seq < n) ∧ (∀ p ∈ tbsOf b, p.1 = h → p.2 < n)

theorem insPhase_seqLt {cur : Option Idx} {b : List Sub} {h n : Nat} (hb : batchLt cur b h n) :
    seqLt ((((entsOf b).filter fun e => e.hash = h).map Idx.addr).foldl insOne cur) n := by
  apply foldl_insOne_seqLt _ _ _ hb.1
  intro i hi
  simp only [List.mem_map, List.mem_filter, decide_eq_true_eq] at hi
  obtain ⟨e, ⟨he, hh⟩, hie⟩ := hi
  rw [← hie]
  exact hb.2.1 e he hh

theorem lookupAfter_seqLt {cur : Option Idx} {b : List Sub} {h n : Nat} (hb : batchLt cur b h n) :
    seqLt (lookupAfter cur b h) n := by
  unfold lookupAfter
  exact foldl_remOne_seqLt _ _ _ (insPhase_seqLt hb)

/-- **A newest entry that fits becomes the index entry of its hash**; other hashes are untouched. -/
theorem lookupAfter_append_entry (cur : Option Idx) (b : List Sub) (e : DiskEnt) (h : Nat)
    (hb : batchLt cur b e.hash e.seq) :
    lookupAfter cur (b ++ [.entry e true]) h = if h = e.hash then some (.addr e) else lookupAfter cur b h := by
  unfold lookupAfter
  rw [entsOf_append, tbsOf_append]
  have he : entsOf [Sub.entry e true] = [e] := rfl
  have ht : tbsOf [Sub.entry e true] = [] := rfl
  rw [he, ht, List.append_nil]
  by_cases hh : h = e.hash
  · subst hh
    simp only [if_true, List.filter_append, List.filter_cons, decide_true, List.filter_nil, List.map_append,
      List.map_cons, List.map_nil, List.foldl_append, List.foldl_cons, List.foldl_nil]
    rw [insOne_top (insPhase_seqLt hb)]
    apply foldl_remOne_keep
    intro q hq
    simp only [List.mem_map, List.mem_filter, decide_eq_true_eq] at hq
    obtain ⟨p, ⟨hp, hph⟩, hpq⟩ := hq
    rw [← hpq]
    exact hb.2.2 p hp hph
  · have hh' : ¬ e.hash = h := fun x => hh x.symm
    simp only [hh, if_false, List.filter_append, List.filter_cons, hh', decide_false, List.filter_nil, List.append_nil,
      Bool.false_eq_true]

/-- **A newest tombstone (a delete, or an entry the flusher dropped) empties the index entry of its hash.** -/
theorem lookupAfter_append_tomb (cur : Option Idx) (b : List Sub) (x : Sub) (th tq : Nat) (h : Nat)
    (hx : (x = .tomb th tq) ∨ (∃ e, x = .entry e false ∧ e.hash = th ∧ e.seq = tq))
    (hb : batchLt cur b th (tq + 1)) :
    lookupAfter cur (b ++ [x]) h = if h = th then none else lookupAfter cur b h := by
  unfold lookupAfter
  rw [entsOf_append, tbsOf_append]
  have he : entsOf [x] = [] := by
    rcases hx with hx | ⟨e, hx, _, _⟩ <;> subst hx <;> rfl
  have ht : tbsOf [x] = [(th, tq)] := by
    rcases hx with hx | ⟨e, hx, h1, h2⟩
    · subst hx; rfl
    · subst hx; simp [tbsOf, h1, h2]
  rw [he, ht, List.append_nil]
  by_cases hh : h = th
  · subst hh
    simp only [if_true, List.filter_append, List.filter_cons, decide_true, List.filter_nil, List.map_append,
      List.map_cons, List.map_nil, List.foldl_append, List.foldl_cons, List.foldl_nil]
    apply remOne_top
    exact foldl_remOne_seqLt _ _ _ (insPhase_seqLt hb)
  · have hh' : ¬ th = h := fun x => hh x.symm
    simp only [hh, if_false, List.filter_append, List.filter_cons, hh', decide_false, List.filter_nil, List.append_nil,
      Bool.false_eq_true]

theorem lookupAfter_nil (cur : Option Idx) (h : Nat) : lookupAfter cur [] h = cur := rfl

end Foyer.Hyb

namespace Foyer.Hyb

/-- the hash a submission concerns -/
def Sub.hashOf : Sub → Nat
  | .entry e _ => e.hash
  | .tomb h _ => h

def Sub.seqOf : Sub → Nat
  | .entry e _ => e.seq
  | .tomb _ q => q

/-- a submission for another hash changes nothing for `h` -/
theorem lookupAfter_append_other (cur : Option Idx) (b : List Sub) (x : Sub) (h : Nat) (hx : x.hashOf ≠ h) :
    lookupAfter cur (b ++ [x]) h = lookupAfter cur b h := by
  unfold lookupAfter
  rw [entsOf_append, tbsOf_append]
  cases x with
  | entry e f =>
    simp only [Sub.hashOf] at hx
    cases f with
    | true =>
      have he : entsOf [Sub.entry e true] = [e] := rfl
      have ht : tbsOf [Sub.entry e true] = [] := rfl
      rw [he, ht]
      simp [List.filter_append, List.filter_cons, hx]
    | false =>
      have he : entsOf [Sub.entry e false] = [] := rfl
      have ht : tbsOf [Sub.entry e false] = [(e.hash, e.seq)] := rfl
      rw [he, ht]
      simp [List.filter_append, List.filter_cons, hx]
  | tomb th tq =>
    simp only [Sub.hashOf] at hx
    have he : entsOf [Sub.tomb th tq] = [] := rfl
    have ht : tbsOf [Sub.tomb th tq] = [(th, tq)] := rfl
    rw [he, ht]
    simp [List.filter_append, List.filter_cons, hx]

theorem batchLt_mono {cur : Option Idx} {b : List Sub} {h n m : Nat} (hb : batchLt cur b h n) (hnm : n ≤ m) :
    batchLt cur b h m :=
  ⟨fun i hi => Nat.lt_of_lt_of_le (hb.1 i hi) hnm,
   fun e he hh => Nat.lt_of_lt_of_le (hb.2.1 e he hh) hnm,
   fun p hp hh => Nat.lt_of_lt_of_le (hb.2.2 p hp hh) hnm⟩

theorem batchLt_append {cur : Option Idx} {b : List Sub} {h n : Nat} (hb : batchLt cur b h n) (x : Sub)
    (hx : x.seqOf < n) : batchLt cur (b ++ [x]) h n := by
  refine ⟨hb.1, ?_, ?_⟩
  · intro e he hh
    rw [entsOf_append] at he
    rcases List.mem_append.mp he with h1 | h1
    · exact hb.2.1 e h1 hh
    · cases x with
      | entry e' f =>
        cases f with
        | true =>
          have : entsOf [Sub.entry e' true] = [e'] := rfl
          rw [this, List.mem_singleton] at h1
          subst h1; exact hx
        | false =>
          have : entsOf [Sub.entry e' false] = [] := rfl
          rw [this] at h1; cases h1
      | tomb th tq =>
        have : entsOf [Sub.tomb th tq] = [] := rfl
        rw [this] at h1; cases h1
  · intro p hp hh
    rw [tbsOf_append] at hp
    rcases List.mem_append.mp hp with h1 | h1
    · exact hb.2.2 p h1 hh
    · cases x with
      | entry e' f =>
        cases f with
        | true =>
          have : tbsOf [Sub.entry e' true] = [] := rfl
          rw [this] at h1; cases h1
        | false =>
          have : tbsOf [Sub.entry e' false] = [(e'.hash, e'.seq)] := rfl
          rw [this, List.mem_singleton] at h1
          subst h1; exact hx
      | tomb th tq =>
        have : tbsOf [Sub.tomb th tq] = [(th, tq)] := rfl
        rw [this, List.mem_singleton] at h1
        subst h1; exact hx

theorem batchLt_cur {cur cur' : Option Idx} {b : List Sub} {h n : Nat} (hb : batchLt cur b h n) (hc : seqLt cur' n) :
    batchLt cur' b h n := ⟨hc, hb.2.1, hb.2.2⟩

end Foyer.Hyb
