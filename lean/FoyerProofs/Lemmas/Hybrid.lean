import FoyerModel.Hybrid
import FoyerProofs.Lemmas.CacheInv
import FoyerProofs.C13
/-
  Basic facts about the hybrid model: what reaches `subs` (everything ever submitted to the disk
  tier), and that handles taken inside a hybrid operation are given back inside it.
-/
namespace Foyer.Hyb
open Foyer

section
variable {σ : Type} (P : Policy σ) (hc : HCfg)

theorem flush_subs (s : HState σ) : (flush hc s).subs = s.subs := by
  unfold flush
  split
  · rfl
  · split
    · split
      · split <;> rfl
      · rfl
    · rfl

theorem flush_mem (s : HState σ) : (flush hc s).mem = s.mem := by
  unfold flush
  split
  · rfl
  · split
    · split
      · split <;> rfl
      · rfl
    · rfl

theorem flush_big (s : HState σ) : (flush hc s).big = s.big := by
  unfold flush
  split
  · rfl
  · split
    · split
      · split <;> rfl
      · rfl
    · rfl

/-- What one `submit` appends to `subs`: nothing (a young entry) or exactly one entry built from the record. -/
theorem submit_subs (s : HState σ) (r : Rec) :
    (submit s r).subs = s.subs ∨
    (r.age ≠ .young ∧ ∃ fits, (submit s r).subs = s.subs ++
      [.entry { key := r.key, hash := r.hash, ver := r.ver, seq := s.seq, loc := r.loc } fits]) := by
  unfold submit
  split
  · left; rfl
  · rename_i hy
    right
    refine ⟨hy, ?_⟩
    split
    · exact ⟨false, rfl⟩
    · exact ⟨true, rfl⟩

theorem submit_mem (s : HState σ) (r : Rec) : (submit s r).mem = s.mem := by
  unfold submit
  split
  · rfl
  · split <;> rfl

theorem delete_mem (s : HState σ) (k : Nat) : (delete hc s k).mem = s.mem := rfl

theorem delete_subs (s : HState σ) (k : Nat) :
    (delete hc s k).subs = s.subs ++ [.tomb (hc.mcfg.H k) s.seq] := rfl

theorem pipeSend_mem (s : HState σ) (r : Rec) : (pipeSend hc s r).mem = s.mem := by
  unfold pipeSend
  split
  · rfl
  · split
    · rfl
    · exact submit_mem s r

theorem foldl_pipeSend_mem (l : List Rec) : ∀ s : HState σ, (l.foldl (pipeSend hc) s).mem = s.mem := by
  induction l with
  | nil => intro s; rfl
  | cons r rs ih => intro s; simp only [List.foldl_cons]; rw [ih, pipeSend_mem]

theorem memOp_mem (s : HState σ) (op : Op) :
    (memOp P hc s op).1.mem = (Cache.step P hc.mcfg s.mem op).1 := by
  unfold memOp
  simp only
  rw [foldl_pipeSend_mem]

theorem memOp_out (s : HState σ) (op : Op) :
    (memOp P hc s op).2 = (Cache.step P hc.mcfg s.mem op).2 := by
  unfold memOp; rfl

/-- A predicate on submissions that holds for tombstones. -/
def SubsAll (Q : DiskEnt → Bool → Prop) (s : HState σ) : Prop :=
  ∀ x ∈ s.subs, match x with
    | .entry e f => Q e f
    | .tomb _ _ => True

theorem subsAll_of_eq {Q : DiskEnt → Bool → Prop} {s s' : HState σ} (h : s'.subs = s.subs) (hs : SubsAll Q s) :
    SubsAll Q s' := by
  unfold SubsAll; rw [h]; exact hs

theorem subsAll_append_tomb {Q : DiskEnt → Bool → Prop} {s s' : HState σ} {h q : Nat}
    (he : s'.subs = s.subs ++ [.tomb h q]) (hs : SubsAll Q s) : SubsAll Q s' := by
  unfold SubsAll; rw [he]
  intro x hx
  rcases List.mem_append.mp hx with hx | hx
  · exact hs x hx
  · simp only [List.mem_singleton] at hx; subst hx; trivial

theorem submit_subsAll {Q : DiskEnt → Bool → Prop} (s : HState σ) (r : Rec) (hs : SubsAll Q s)
    (hr : r.age ≠ .young → ∀ f, Q { key := r.key, hash := r.hash, ver := r.ver, seq := s.seq, loc := r.loc } f) :
    SubsAll Q (submit s r) := by
  rcases submit_subs s r with h | ⟨hy, f, h⟩
  · exact subsAll_of_eq h hs
  · unfold SubsAll; rw [h]
    intro x hx
    rcases List.mem_append.mp hx with hx | hx
    · exact hs x hx
    · simp only [List.mem_singleton] at hx; subst hx; exact hr hy f

end
end Foyer.Hyb

/-! ### association lists and the sequence-guarded index -/
namespace Foyer.Hyb

theorem assocGet_nil {β : Type} (k : Nat) : assocGet ([] : List (Nat × β)) k = none := rfl

theorem assocGet_cons {β : Type} (a : Nat × β) (l : List (Nat × β)) (k : Nat) :
    assocGet (a :: l) k = if a.1 = k then some a.2 else assocGet l k := by
  unfold assocGet
  simp only [List.find?_cons]
  by_cases h : a.1 = k
  · simp [h]
  · simp [h]

theorem assocGet_del {β : Type} (l : List (Nat × β)) (k k' : Nat) :
    assocGet (assocDel l k) k' = if k' = k then none else assocGet l k' := by
  induction l with
  | nil => simp [assocDel, assocGet]
  | cons a l ih =>
    unfold assocDel at ih ⊢
    simp only [List.filter_cons]
    by_cases ha : a.1 = k
    · simp only [ha, ne_eq, not_true_eq_false, decide_false, Bool.false_eq_true, if_false]
      rw [ih, assocGet_cons]
      by_cases hk : k' = k
      · simp [hk]
      · have : ¬ a.1 = k' := by rw [ha]; exact fun h => hk h.symm
        simp [hk, this]
    · simp only [ne_eq, ha, not_false_eq_true, decide_true, if_true]
      rw [assocGet_cons, assocGet_cons, ih]
      by_cases hk : k' = k
      · have h2 : ¬ a.1 = k' := by rw [hk]; exact ha
        rw [if_neg h2, if_pos hk, if_pos hk]
      · simp [hk]

theorem assocGet_set {β : Type} (l : List (Nat × β)) (k k' : Nat) (v : β) :
    assocGet (assocSet l k v) k' = if k' = k then some v else assocGet l k' := by
  unfold assocSet
  rw [assocGet_cons, assocGet_del]
  by_cases hk : k' = k
  · simp [hk]
  · have : ¬ k = k' := fun h => hk h.symm
    simp [hk, this]

theorem assocGet_mem {β : Type} {l : List (Nat × β)} {k : Nat} {v : β} (h : assocGet l k = some v) : (k, v) ∈ l := by
  unfold assocGet at h
  cases hf : l.find? (·.1 = k) with
  | none => rw [hf] at h; cases h
  | some a =>
    rw [hf] at h
    simp only [Option.map_some, Option.some.injEq] at h
    have hm := List.mem_of_find?_eq_some hf
    have hp := List.find?_some hf
    simp only [decide_eq_true_eq] at hp
    have : a = (k, v) := by cases a; simp_all
    rw [← this]; exact hm

/-- Lookup after a sequence-guarded insert. -/
theorem assocGet_indexInsert (ix : List (Nat × Idx)) (h h' : Nat) (new : Idx) :
    assocGet (indexInsert ix h new) h' =
      if h' = h then
        (match assocGet ix h with
         | none => some new
         | some old => if new.seq ≥ old.seq then some new else some old)
      else assocGet ix h' := by
  unfold indexInsert
  cases ho : assocGet ix h with
  | none =>
    simp only
    rw [assocGet_set]
  | some old =>
    simp only
    by_cases hs : new.seq ≥ old.seq
    · simp only [hs, if_true]
      rw [assocGet_set]
    · simp only [hs, if_false]
      by_cases hk : h' = h
      · simp [hk, ho]
      · simp [hk]

/-- Insert a list of `(hash, item)` pairs. -/
def insAll (ix : List (Nat × Idx)) (L : List (Nat × Idx)) : List (Nat × Idx) :=
  L.foldl (fun ix p => indexInsert ix p.1 p.2) ix

/-- **The index keeps, per hash, an item of maximal sequence** among what it held and everything
inserted (and that item is one of those). -/
theorem insAll_max : ∀ (L : List (Nat × Idx)) (ix : List (Nat × Idx)) (h : Nat) (i : Idx),
    assocGet (insAll ix L) h = some i →
    ((h, i) ∈ L ∨ assocGet ix h = some i) ∧ (∀ j, (h, j) ∈ L → j.seq ≤ i.seq) ∧
    (∀ j, assocGet ix h = some j → j.seq ≤ i.seq) := by
  intro L
  induction L with
  | nil =>
    intro ix h i hi
    simp only [insAll, List.foldl_nil] at hi
    refine ⟨Or.inr hi, ?_, ?_⟩
    · intro j hj; cases hj
    · intro j hj; rw [hi] at hj; cases hj; exact Nat.le_refl _
  | cons p L ih =>
    intro ix h i hi
    simp only [insAll, List.foldl_cons] at hi
    have := ih (indexInsert ix p.1 p.2) h i hi
    obtain ⟨hsrc, hL, hix⟩ := this
    rw [assocGet_indexInsert] at hsrc hix
    by_cases hp : h = p.1
    · simp only [hp, if_true] at hsrc hix
      cases ho : assocGet ix p.1 with
      | none =>
        rw [ho] at hsrc hix
        simp only at hsrc hix
        refine ⟨?_, ?_, ?_⟩
        · rcases hsrc with h1 | h1
          · left; exact List.mem_cons_of_mem _ (hp ▸ h1)
          · left; simp only [Option.some.injEq] at h1; rw [hp, ← h1]; exact List.mem_cons_self
        · intro j hj
          rcases List.mem_cons.mp hj with h1 | h1
          · have : j = p.2 := by rw [← h1]
            rw [this]; exact hix p.2 rfl
          · exact hL j h1
        · intro j hj; rw [hp, ho] at hj; cases hj
      | some old =>
        rw [ho] at hsrc hix
        simp only at hsrc hix
        by_cases hs : p.2.seq ≥ old.seq
        · simp only [hs, if_true] at hsrc hix
          refine ⟨?_, ?_, ?_⟩
          · rcases hsrc with h1 | h1
            · left; exact List.mem_cons_of_mem _ (hp ▸ h1)
            · left; simp only [Option.some.injEq] at h1; rw [hp, ← h1]; exact List.mem_cons_self
          · intro j hj
            rcases List.mem_cons.mp hj with h1 | h1
            · have : j = p.2 := by rw [← h1]
              rw [this]; exact hix p.2 rfl
            · exact hL j h1
          · intro j hj
            rw [hp, ho] at hj
            simp only [Option.some.injEq] at hj
            rw [← hj]
            exact Nat.le_trans hs (hix p.2 rfl)
        · simp only [hs, if_false] at hsrc hix
          refine ⟨?_, ?_, ?_⟩
          · rcases hsrc with h1 | h1
            · left; exact List.mem_cons_of_mem _ (hp ▸ h1)
            · right; rw [hp, ho]; exact h1
          · intro j hj
            rcases List.mem_cons.mp hj with h1 | h1
            · have : j = p.2 := by rw [← h1]
              rw [this]
              have := hix old rfl
              omega
            · exact hL j h1
          · intro j hj
            rw [hp, ho] at hj
            simp only [Option.some.injEq] at hj
            rw [← hj]; exact hix old rfl
    · simp only [hp, if_false] at hsrc hix
      refine ⟨?_, ?_, hix⟩
      · rcases hsrc with h1 | h1
        · left; exact List.mem_cons_of_mem _ h1
        · right; exact h1
      · intro j hj
        rcases List.mem_cons.mp hj with h1 | h1
        · exact absurd (congrArg Prod.fst h1) hp
        · exact hL j h1

/-- Anything inserted for a hash leaves the hash present. -/
theorem insAll_present : ∀ (L : List (Nat × Idx)) (ix : List (Nat × Idx)) (h : Nat),
    ((∃ j, (h, j) ∈ L) ∨ (assocGet ix h).isSome) → (assocGet (insAll ix L) h).isSome := by
  intro L
  induction L with
  | nil =>
    intro ix h hh
    rcases hh with ⟨j, hj⟩ | hh
    · cases hj
    · exact hh
  | cons p L ih =>
    intro ix h hh
    simp only [insAll, List.foldl_cons]
    apply ih
    rcases hh with ⟨j, hj⟩ | hh
    · rcases List.mem_cons.mp hj with h1 | h1
      · right
        rw [assocGet_indexInsert]
        have : h = p.1 := congrArg Prod.fst h1
        simp only [this, if_true]
        cases assocGet ix p.1 with
        | none => rfl
        | some old => simp only; split <;> rfl
      · left; exact ⟨j, h1⟩
    · right
      rw [assocGet_indexInsert]
      by_cases hp : h = p.1
      · simp only [hp, if_true]
        cases assocGet ix p.1 with
        | none => rfl
        | some old => simp only; split <;> rfl
      · simp only [hp, if_false]; exact hh

end Foyer.Hyb
