import FoyerProofs.Lemmas.MemStep
/-
  The cache-level invariant and its preservation by every operation (`step_inv`), hence by every
  operation sequence (`run_inv`).
-/
namespace Foyer

variable {σ : Type} {P : Policy σ} {Ok : σ → Prop}

structure CacheInv (P : Policy σ) (Ok : σ → Prop) (cfg : Cfg) (c : Cache σ) : Prop where
  len : c.shards.length = cfg.nshards
  shard : ∀ (i : Nat) (s : Shard σ), c.shards[i]? = some s → ShardInv P Ok s
  placed : ∀ (i : Nat) (s : Shard σ), c.shards[i]? = some s →
    ∀ r ∈ s.index, r.hash = cfg.H r.key ∧ cfg.shardOf r.hash = i
  fresh : ∀ (i : Nat) (s : Shard σ), c.shards[i]? = some s → ∀ r ∈ s.index, r.id < c.nextId
  /-- disk-only (phantom) records are never indexed -/
  real : ∀ (i : Nat) (s : Shard σ), c.shards[i]? = some s → ∀ r ∈ s.index, r.phantom = false

theorem shardInv_ev {s : Shard σ} (h : ShardInv P Ok s) {ev' : σ} (hok : Ok ev')
    (hm : ∀ x, x ∈ P.members ev' ↔ x ∈ P.members s.ev) : ShardInv P Ok { s with ev := ev' } :=
  ⟨hok, fun x => by rw [hm x]; exact h.mem_iff x, h.keys, h.usage_eq, h.entries_eq⟩

theorem mapShards_getElem? (f : Nat → Shard σ → Shard σ × List (Reason × Rec) × Bool) :
    ∀ (l : List (Shard σ)) (i0 j : Nat),
      (mapShards f i0 l).1[j]? = (l[j]?).map (fun s => (f (i0 + j) s).1) := by
  intro l
  induction l with
  | nil => intro i0 j; simp [mapShards]
  | cons s ss ih =>
    intro i0 j
    cases j with
    | zero => simp [mapShards]
    | succ j =>
      simp only [mapShards, List.getElem?_cons_succ]
      rw [ih (i0 + 1) j]
      congr 1
      funext s
      congr 2
      omega

theorem mapShards_length (f : Nat → Shard σ → Shard σ × List (Reason × Rec) × Bool) :
    ∀ (l : List (Shard σ)) (i0 : Nat), (mapShards f i0 l).1.length = l.length := by
  intro l
  induction l with
  | nil => intro i0; simp [mapShards]
  | cons s ss ih => intro i0; simp [mapShards, ih]

/-- Replace one shard by a shard that satisfies the per-shard obligations. -/
theorem inv_setAt {cfg : Cfg} {c : Cache σ} (hc : CacheInv P Ok cfg c) {i : Nat} {s s' : Shard σ}
    (_hi : c.shards[i]? = some s) (hs' : ShardInv P Ok s')
    (hpl : ∀ r ∈ s'.index, r.hash = cfg.H r.key ∧ cfg.shardOf r.hash = i)
    {n' : Nat} (hn : c.nextId ≤ n') (hfr : ∀ r ∈ s'.index, r.id < n')
    (hre : ∀ r ∈ s'.index, r.phantom = false) (held' : List (Rec × Nat)) :
    CacheInv P Ok cfg { shards := setAt c.shards i s', nextId := n', held := held' } := by
  refine ⟨by simp [length_setAt, hc.len], ?_, ?_, ?_, ?_⟩
  · intro j t ht
    simp only [getElem?_setAt] at ht
    split at ht
    · cases ht; exact hs'
    · exact hc.shard j t ht
  · intro j t ht
    simp only [getElem?_setAt] at ht
    split at ht
    · rename_i hj; cases ht; rw [hj.1]; exact hpl
    · exact hc.placed j t ht
  · intro j t ht r hr
    simp only [getElem?_setAt] at ht
    split at ht
    · cases ht; exact hfr r hr
    · exact Nat.lt_of_lt_of_le (hc.fresh j t ht r hr) hn
  · intro j t ht r hr
    simp only [getElem?_setAt] at ht
    split at ht
    · cases ht; exact hre r hr
    · exact hc.real j t ht r hr

/-- Apply a per-shard transformation that preserves the per-shard obligations to every shard. -/
theorem inv_mapShards {cfg : Cfg} {c : Cache σ} (hc : CacheInv P Ok cfg c)
    (f : Nat → Shard σ → Shard σ × List (Reason × Rec) × Bool)
    (hf : ∀ i s, ShardInv P Ok s → ShardInv P Ok (f i s).1 ∧ ∀ x ∈ (f i s).1.index, x ∈ s.index) :
    CacheInv P Ok cfg { c with shards := (mapShards f 0 c.shards).1 } := by
  refine ⟨by simp [mapShards_length, hc.len], ?_, ?_, ?_, ?_⟩
  · intro j t ht
    simp only [mapShards_getElem?, Nat.zero_add] at ht
    cases hs : c.shards[j]? with
    | none => simp [hs] at ht
    | some s =>
      simp only [hs, Option.map_some, Option.some.injEq] at ht
      subst ht
      exact (hf j s (hc.shard j s hs)).1
  · intro j t ht r hr
    simp only [mapShards_getElem?, Nat.zero_add] at ht
    cases hs : c.shards[j]? with
    | none => simp [hs] at ht
    | some s =>
      simp only [hs, Option.map_some, Option.some.injEq] at ht
      subst ht
      exact hc.placed j s hs r ((hf j s (hc.shard j s hs)).2 r hr)
  · intro j t ht r hr
    simp only [mapShards_getElem?, Nat.zero_add] at ht
    cases hs : c.shards[j]? with
    | none => simp [hs] at ht
    | some s =>
      simp only [hs, Option.map_some, Option.some.injEq] at ht
      subst ht
      exact hc.fresh j s hs r ((hf j s (hc.shard j s hs)).2 r hr)
  · intro j t ht r hr
    simp only [mapShards_getElem?, Nat.zero_add] at ht
    cases hs : c.shards[j]? with
    | none => simp [hs] at ht
    | some s =>
      simp only [hs, Option.map_some, Option.some.injEq] at ht
      subst ht
      exact hc.real j s hs r ((hf j s (hc.shard j s hs)).2 r hr)

theorem evict_shard_ok (L : Lawful P Ok) (target : Nat) {s : Shard σ} (h : ShardInv P Ok s) :
    ShardInv P Ok (Shard.evict P s target).1 ∧ ∀ x ∈ (Shard.evict P s target).1.index, x ∈ s.index := by
  have es := evict_spec L target s h
  obtain ⟨vs, _, _, _, _, hidx, _, _⟩ := es.victims
  exact ⟨es.inv, fun x hx => ((hidx x).mp hx).1⟩

theorem step_inv (L : Lawful P Ok) {cfg : Cfg} (hn : 0 < cfg.nshards) {c : Cache σ}
    (hc : CacheInv P Ok cfg c) (op : Op) : CacheInv P Ok cfg (Cache.step P cfg c op).1 := by
  cases op with
  | ins key ver weight hint phantom loc age =>
    simp only [Cache.step]
    split
    · exact hc
    · rename_i s hs
      have hsi := hc.shard _ s hs
      have hplaced : ∀ x ∈ s.index, x.hash = cfg.H x.key ∧ cfg.shardOf x.hash = cfg.shardOf (cfg.H key) :=
        hc.placed _ s hs
      have hfr := hc.fresh _ s hs
      cases hp : phantom with
      | true =>
        have sp := emplace_phantom_spec (r := { id := c.nextId, key, hash := cfg.H key, ver, weight, hint, phantom := true, loc, age }) L hsi rfl
        obtain ⟨_, hinv, _, hsub, _, _, _⟩ := sp
        generalize Shard.emplace P s _ = res at hinv hsub
        obtain ⟨s', lv, pk⟩ := res
        exact inv_setAt hc hs hinv (fun r hr => hplaced r (hsub r hr)) (Nat.le_succ _)
          (fun r hr => Nat.lt_succ_of_lt (hfr r (hsub r hr))) (fun r hr => hc.real _ s hs r (hsub r hr)) _
      | false =>
        have sp := emplace_spec (r := { id := c.nextId, key, hash := cfg.H key, ver, weight, hint, phantom := false, loc, age }) L hsi rfl
          (fun x hx => Nat.ne_of_lt (hfr x hx))
        generalize Shard.emplace P s _ = res at sp
        obtain ⟨s', lv, pk⟩ := res
        refine inv_setAt hc hs sp.inv ?_ (Nat.le_succ _) ?_ ?_ _
        · intro r hr
          rcases sp.index_old r hr with rfl | h
          · exact ⟨rfl, rfl⟩
          · exact hplaced r h
        · intro r hr
          rcases sp.index_old r hr with rfl | h
          · exact Nat.lt_succ_self _
          · exact Nat.lt_succ_of_lt (hfr r h)
        · intro r hr
          rcases sp.index_old r hr with rfl | h
          · rfl
          · exact hc.real _ s hs r h
  | get key =>
    simp only [Cache.step]
    split
    · exact hc
    · rename_i s hs
      have hsi := hc.shard _ s hs
      split
      · exact hc
      · rename_i r hr
        exact inv_setAt hc hs (shardInv_ev hsi (L.acquire_ok _ r hsi.ok) (L.acquire_mem _ r hsi.ok))
          (hc.placed _ s hs) (Nat.le_refl _) (hc.fresh _ s hs) (hc.real _ s hs) _
  | touch key =>
    simp only [Cache.step]
    split
    · exact hc
    · rename_i s hs
      have hsi := hc.shard _ s hs
      split
      · exact hc
      · rename_i r hr
        have h1 : ShardInv P Ok { s with ev := P.acquire s.ev r } :=
          shardInv_ev hsi (L.acquire_ok _ r hsi.ok) (L.acquire_mem _ r hsi.ok)
        split
        · have h2 : ShardInv P Ok { s with ev := P.release (P.acquire s.ev r) r } :=
            shardInv_ev hsi (L.release_ok _ r h1.ok)
              (fun x => by rw [L.release_mem _ r h1.ok x]; exact L.acquire_mem _ r hsi.ok x)
          exact inv_setAt hc hs h2 (hc.placed _ s hs) (Nat.le_refl _) (hc.fresh _ s hs) (hc.real _ s hs) _
        · exact inv_setAt hc hs h1 (hc.placed _ s hs) (Nat.le_refl _) (hc.fresh _ s hs) (hc.real _ s hs) _
  | contains key =>
    simp only [Cache.step]
    split <;> exact hc
  | remove key =>
    simp only [Cache.step]
    split
    · exact hc
    · rename_i s hs
      have hsi := hc.shard _ s hs
      split
      · exact hc
      · rename_i r hr
        have hri := (findKey_some hr).1
        obtain ⟨hinv, hmem, _, _, _⟩ := unlink_inv L hsi hri
        exact inv_setAt hc hs hinv (fun x hx => hc.placed _ s hs x ((hmem x).mp hx).1) (Nat.le_refl _)
          (fun x hx => hc.fresh _ s hs x ((hmem x).mp hx).1) (fun x hx => hc.real _ s hs x ((hmem x).mp hx).1) _
  | clone rid =>
    simp only [Cache.step]
    split
    · exact hc
    · exact ⟨hc.len, hc.shard, hc.placed, hc.fresh, hc.real⟩
  | drop rid =>
    simp only [Cache.step]
    split
    · exact hc
    · rename_i r hr
      split
      · split
        · exact ⟨hc.len, hc.shard, hc.placed, hc.fresh, hc.real⟩
        · split
          · exact ⟨hc.len, hc.shard, hc.placed, hc.fresh, hc.real⟩
          · rename_i s hs
            have hsi := hc.shard _ s hs
            exact inv_setAt hc hs (shardInv_ev hsi (L.release_ok _ r hsi.ok) (L.release_mem _ r hsi.ok))
              (hc.placed _ s hs) (Nat.le_refl _) (hc.fresh _ s hs) (hc.real _ s hs) _
      · exact ⟨hc.len, hc.shard, hc.placed, hc.fresh, hc.real⟩
  | clear =>
    simp only [Cache.step]
    exact inv_mapShards hc _ (fun i s hs =>
      ⟨⟨L.clear_ok _ hs.ok, by intro x; simp [L.clear_mem _ hs.ok], by simp [keysNodup], by simp [wsum], by simp⟩,
       by intro x hx; simp at hx⟩)
  | resize cap =>
    simp only [Cache.step]
    refine inv_mapShards hc _ (fun i s hs => ?_)
    have h1 : ShardInv P Ok { s with ev := P.update s.ev (shardCapacityFor cap c.shards.length i),
                                     cap := shardCapacityFor cap c.shards.length i } :=
      ⟨L.update_ok _ _ hs.ok, fun x => by rw [L.update_mem _ _ hs.ok x]; exact hs.mem_iff x, hs.keys, hs.usage_eq, hs.entries_eq⟩
    exact evict_shard_ok L _ h1
  | evictAll =>
    simp only [Cache.step]
    exact inv_mapShards hc _ (fun i s hs => evict_shard_ok L 0 hs)
  | flush =>
    simp only [Cache.step]
    exact inv_mapShards hc _ (fun i s hs => evict_shard_ok L 0 hs)

theorem new_inv (L : Lawful P Ok) (cfg : Cfg) (cap : Nat) : CacheInv P Ok cfg (Cache.new P cfg cap) := by
  have hsh : ∀ i s, (Cache.new P cfg cap).shards[i]? = some s →
      s = Shard.new P (shardCapacityFor cap cfg.nshards i) := by
    intro i s h
    simp only [Cache.new, List.getElem?_map] at h
    cases hr : (List.range cfg.nshards)[i]? with
    | none => simp [hr] at h
    | some j =>
      simp only [hr, Option.map_some, Option.some.injEq] at h
      have : j = i := by
        have := List.getElem?_eq_some_iff.mp hr
        obtain ⟨_, e⟩ := this
        simpa using e.symm
      subst this; exact h.symm
  refine ⟨by simp [Cache.new], ?_, ?_, ?_, ?_⟩
  · intro i s h
    rw [hsh i s h]
    exact ⟨L.init_ok _, by intro x; simp [Shard.new, L.init_members], by simp [Shard.new, keysNodup], by simp [Shard.new, wsum], by simp [Shard.new]⟩
  · intro i s h r hr; rw [hsh i s h] at hr; simp [Shard.new] at hr
  · intro i s h r hr; rw [hsh i s h] at hr; simp [Shard.new] at hr
  · intro i s h r hr; rw [hsh i s h] at hr; simp [Shard.new] at hr

theorem run_inv (L : Lawful P Ok) {cfg : Cfg} (hn : 0 < cfg.nshards) :
    ∀ (ops : List Op) (c : Cache σ), CacheInv P Ok cfg c → CacheInv P Ok cfg (Cache.run P cfg c ops).1 := by
  intro ops
  induction ops with
  | nil => intro c hc; exact hc
  | cons op ops ih =>
    intro c hc
    simp only [Cache.run]
    exact ih _ (step_inv L hn hc op)

end Foyer
