import FoyerModel.Policies.Lru
import FoyerProofs.Lemmas.LawfulOfPerm
/-
  LRU is a lawful policy; its extra representation invariant (`LruI`) also carries what the
  algorithm-specific theorems of C14 need: `hw` is the weight of `high`, flags agree with lists.
-/
namespace Foyer

def entW : List LruEnt → Nat
  | [] => 0
  | e :: es => e.r.weight + entW es

theorem entW_append (a b : List LruEnt) : entW (a ++ b) = entW a + entW b := by
  induction a with
  | nil => simp [entW]
  | cons x xs ih => simp [entW, ih]; omega

/-- Extra invariant of the LRU state. -/
structure LruI (s : Lru) : Prop where
  hw_eq : s.hw = entW s.high
  high_flag : ∀ e ∈ s.high, e.inHigh = true
  low_flag : ∀ e ∈ s.low, e.inHigh = false

def lruEnts (s : Lru) : List LruEnt := s.low ++ s.high ++ s.pin

theorem lru_members (capFn : Nat → Nat) (s : Lru) : (lruPolicy capFn).members s = (lruEnts s).map (·.r) := rfl

/-- The overflow loop moves a prefix of `high` to the back of `low`: the concatenation `low ++ high`
is unchanged (up to the `inHigh` flag). -/
theorem lruOverflow_spec (cap : Nat) : ∀ (high low : List LruEnt) (hw : Nat),
    hw = entW high → (∀ e ∈ high, e.inHigh = true) → (∀ e ∈ low, e.inHigh = false) →
    let res := lruOverflow cap high low hw
    (res.2.1 ++ res.1).map (·.r) = (low ++ high).map (·.r) ∧
    res.2.2 = entW res.1 ∧ (∀ e ∈ res.1, e.inHigh = true) ∧ (∀ e ∈ res.2.1, e.inHigh = false) ∧
    (res.2.2 ≤ cap ∨ res.1 = []) := by
  intro high
  induction high with
  | nil => intro low hw h1 _ h3; simp only [lruOverflow, entW, h1]; exact ⟨trivial, trivial, by simp, h3, Or.inr trivial⟩
  | cons e hs ih =>
    intro low hw h1 h2 h3
    simp only [lruOverflow]
    split
    · have := ih (low ++ [{ e with inHigh := false }]) (hw - e.r.weight)
        (by simp [entW] at h1; omega) (fun x hx => h2 x (List.mem_cons_of_mem _ hx))
        (by intro x hx; rcases List.mem_append.mp hx with h | h
            · exact h3 x h
            · simp at h; subst h; rfl)
      simp only [] at this ⊢
      refine ⟨?_, this.2⟩
      rw [this.1]; simp
    · rename_i hle
      exact ⟨rfl, h1, h2, h3, Or.inl (Nat.le_of_not_lt hle)⟩

theorem withOverflow_spec (s : Lru) (hi : LruI s) :
    LruI (Lru.withOverflow s) ∧ (lruEnts (Lru.withOverflow s)).map (·.r) = (lruEnts s).map (·.r) ∧
    ((Lru.withOverflow s).hw ≤ s.hpCap ∨ (Lru.withOverflow s).high = []) ∧
    (Lru.withOverflow s).pin = s.pin ∧ (Lru.withOverflow s).hpCap = s.hpCap := by
  have := lruOverflow_spec s.hpCap s.high s.low s.hw hi.hw_eq hi.high_flag hi.low_flag
  unfold Lru.withOverflow
  generalize lruOverflow s.hpCap s.high s.low s.hw = res at this
  obtain ⟨h, l, w⟩ := res
  simp only [] at this ⊢
  refine ⟨⟨this.2.1, this.2.2.1, this.2.2.2.1⟩, ?_, this.2.2.2.2, trivial, trivial⟩
  simp only [lruEnts, List.map_append] at this ⊢
  rw [this.1]

end Foyer

namespace Foyer

theorem findEnt_some {i : Nat} {l : List LruEnt} {e : LruEnt} (h : findEnt i l = some e) :
    e ∈ l ∧ e.r.id = i := by
  unfold findEnt at h
  exact ⟨List.mem_of_find?_eq_some h, by simpa using List.find?_some h⟩

theorem findEnt_none {i : Nat} {l : List LruEnt} (h : findEnt i l = none) : ∀ e ∈ l, e.r.id ≠ i := by
  unfold findEnt at h
  intro e he
  simpa using List.find?_eq_none.mp h e he

theorem eraseEnt_of_none {i : Nat} {l : List LruEnt} (h : ∀ e ∈ l, e.r.id ≠ i) : eraseEnt i l = l := by
  unfold eraseEnt
  apply List.filter_eq_self.mpr
  intro e he
  simpa using h e he

def entNodup (l : List LruEnt) : Prop := (l.map fun e => e.r.id).Nodup

theorem entNodup_iff (l : List LruEnt) : entNodup l ↔ idsNodup (l.map (·.r)) := by
  unfold entNodup idsNodup
  rw [List.map_map]; rfl

theorem perm_eraseEnt {l : List LruEnt} {e : LruEnt} (hn : entNodup l) (he : e ∈ l) :
    l.Perm (e :: eraseEnt e.r.id l) := by
  unfold entNodup at hn
  exact perm_cons_filter (fun (e : LruEnt) => e.r.id) l e hn he

theorem entW_perm {a b : List LruEnt} (h : a.Perm b) : entW a = entW b := by
  induction h with
  | nil => rfl
  | cons x _ ih => simp [entW, ih]
  | swap x y l => simp [entW]; omega
  | trans _ _ ih1 ih2 => rw [ih1, ih2]

theorem entNodup_parts {a b c : List LruEnt} (h : entNodup (a ++ b ++ c)) :
    entNodup a ∧ entNodup b ∧ entNodup c := by
  unfold entNodup at *
  simp only [List.map_append] at h
  have h1 := List.nodup_append.mp h
  have h2 := List.nodup_append.mp h1.1
  exact ⟨h2.1, h2.2.1, h1.2.1⟩

theorem mem_eraseEnt {i : Nat} {l : List LruEnt} {x : LruEnt} : x ∈ eraseEnt i l ↔ x ∈ l ∧ x.r.id ≠ i := by
  unfold eraseEnt; simp

theorem lru_permLaws (capFn : Nat → Nat) : PermLaws (lruPolicy capFn) LruI where
  init_I cap := ⟨rfl, by simp [lruPolicy], by simp [lruPolicy]⟩
  init_members cap := rfl
  push s r hi hn hr := by
    simp only [lruPolicy]
    split
    · -- normal hint: into the high-priority pool, then overflow
      have hi1 : LruI { s with high := s.high ++ [{ r := r, inHigh := true }], hw := s.hw + r.weight } :=
        ⟨by simp [entW_append, entW, hi.hw_eq], by
          intro e he; rcases List.mem_append.mp he with h | h
          · exact hi.high_flag e h
          · simp at h; subst h; rfl, hi.low_flag⟩
      obtain ⟨h1, h2, _⟩ := withOverflow_spec _ hi1
      refine ⟨h1, ?_⟩
      show ((lruEnts _).map (·.r)).Perm _
      rw [h2]
      show ((s.low ++ (s.high ++ [({ r := r, inHigh := true } : LruEnt)]) ++ s.pin).map (·.r)).Perm (r :: (s.low ++ s.high ++ s.pin).map (·.r))
      simp only [List.map_append, List.map_cons, List.map_nil]
      grind
    · refine ⟨⟨hi.hw_eq, hi.high_flag, by
          intro e he; rcases List.mem_append.mp he with h | h
          · exact hi.low_flag e h
          · simp at h; subst h; rfl⟩, ?_⟩
      show ((s.low ++ [({ r := r, inHigh := false } : LruEnt)] ++ s.high ++ s.pin).map (·.r)).Perm (r :: (s.low ++ s.high ++ s.pin).map (·.r))
      simp only [List.map_append, List.map_cons, List.map_nil]
      grind
  pop s r s' hi hn hp := by
    simp only [lruPolicy] at hp
    split at hp
    · rename_i e rest hl
      cases hp
      refine ⟨⟨hi.hw_eq, hi.high_flag, fun x hx => hi.low_flag x (by rw [hl]; exact List.mem_cons_of_mem _ hx)⟩, ?_⟩
      show ((s.low ++ s.high ++ s.pin).map (·.r)).Perm (e.r :: (rest ++ s.high ++ s.pin).map (·.r))
      rw [hl]; simp
    · rename_i hl
      split at hp
      · rename_i e rest hh
        cases hp
        refine ⟨⟨by have := hi.hw_eq; rw [hh] at this; simp [entW] at this; show s.hw - e.r.weight = entW rest; omega,
          fun x hx => hi.high_flag x (by rw [hh]; exact List.mem_cons_of_mem _ hx), hi.low_flag⟩, ?_⟩
        show ((s.low ++ s.high ++ s.pin).map (·.r)).Perm (e.r :: (s.low ++ rest ++ s.pin).map (·.r))
        rw [hl, hh]; simp
      · cases hp
  remove s r hi hn hr := by
    have hn' : entNodup (s.low ++ s.high ++ s.pin) := (entNodup_iff _).mpr hn
    obtain ⟨hnl, hnh, hnp⟩ := entNodup_parts hn'
    have hr' : ∃ e ∈ s.low ++ s.high ++ s.pin, e.r = r := by
      have : r ∈ (s.low ++ s.high ++ s.pin).map (·.r) := hr
      obtain ⟨e, he, rfl⟩ := List.mem_map.mp this
      exact ⟨e, he, rfl⟩
    have same : ∀ e ∈ s.low ++ s.high ++ s.pin, e.r.id = r.id → e.r = r := by
      intro e he hid
      exact eq_of_id_eq hn (List.mem_map.mpr ⟨e, he, rfl⟩) hr hid
    simp only [lruPolicy]
    split
    · rename_i e hf
      obtain ⟨he, hid⟩ := findEnt_some hf
      have her : e.r = r := same e (by simp [he]) hid
      have hp := perm_eraseEnt hnp he
      rw [hid] at hp
      refine ⟨⟨hi.hw_eq, hi.high_flag, hi.low_flag⟩, ?_⟩
      show ((s.low ++ s.high ++ s.pin).map (·.r)).Perm (r :: (s.low ++ s.high ++ eraseEnt r.id s.pin).map (·.r))
      have := (List.Perm.append_left (s.low ++ s.high) hp).map (·.r)
      refine this.trans ?_
      simp only [List.map_append, List.map_cons, her]
      grind
    · rename_i hfp
      split
      · rename_i e hf
        obtain ⟨he, hid⟩ := findEnt_some hf
        have her : e.r = r := same e (by simp [he]) hid
        have hp := perm_eraseEnt hnh he
        rw [hid] at hp
        refine ⟨⟨?_, fun x hx => hi.high_flag x (mem_eraseEnt.mp hx).1, hi.low_flag⟩, ?_⟩
        · show s.hw - e.r.weight = entW (eraseEnt r.id s.high)
          have := entW_perm hp
          simp only [entW] at this
          have := hi.hw_eq
          omega
        · show ((s.low ++ s.high ++ s.pin).map (·.r)).Perm (r :: (s.low ++ eraseEnt r.id s.high ++ s.pin).map (·.r))
          have := ((List.Perm.append_left s.low hp).append_right s.pin).map (·.r)
          refine this.trans ?_
          simp only [List.map_append, List.map_cons, her]
          grind
      · rename_i hfh
        obtain ⟨e, he, her⟩ := hr'
        have hel : e ∈ s.low := by
          rcases List.mem_append.mp he with h | h
          · rcases List.mem_append.mp h with h | h
            · exact h
            · exact absurd (by rw [her]) (findEnt_none hfh e h)
          · exact absurd (by rw [her]) (findEnt_none hfp e h)
        have hp := perm_eraseEnt hnl hel
        rw [her] at hp
        refine ⟨⟨hi.hw_eq, hi.high_flag, fun x hx => hi.low_flag x (mem_eraseEnt.mp hx).1⟩, ?_⟩
        show ((s.low ++ s.high ++ s.pin).map (·.r)).Perm (r :: (eraseEnt r.id s.low ++ s.high ++ s.pin).map (·.r))
        have := ((hp.append_right s.high).append_right s.pin).map (·.r)
        refine this.trans ?_
        simp only [List.map_append, List.map_cons, her, List.cons_append]
        exact List.Perm.refl _
  acquire s r hi hn := by
    have hn' : entNodup (s.low ++ s.high ++ s.pin) := (entNodup_iff _).mpr hn
    obtain ⟨hnl, hnh, hnp⟩ := entNodup_parts hn'
    simp only [lruPolicy]
    split
    · rename_i e hf
      obtain ⟨he, hid⟩ := findEnt_some hf
      have hp := perm_eraseEnt hnh he
      rw [hid] at hp
      refine ⟨⟨?_, fun x hx => hi.high_flag x (mem_eraseEnt.mp hx).1, hi.low_flag⟩, ?_⟩
      · show s.hw - e.r.weight = entW (eraseEnt r.id s.high)
        have := entW_perm hp
        simp only [entW] at this
        have := hi.hw_eq
        omega
      · show ((s.low ++ eraseEnt r.id s.high ++ (s.pin ++ [e])).map (·.r)).Perm ((s.low ++ s.high ++ s.pin).map (·.r))
        have := ((List.Perm.append_left s.low hp).append_right s.pin).map (·.r)
        refine List.Perm.trans ?_ this.symm
        simp only [List.map_append, List.map_cons, List.map_nil]
        grind
    · split
      · rename_i e hf
        obtain ⟨he, hid⟩ := findEnt_some hf
        have hp := perm_eraseEnt hnl he
        rw [hid] at hp
        refine ⟨⟨hi.hw_eq, hi.high_flag, fun x hx => hi.low_flag x (mem_eraseEnt.mp hx).1⟩, ?_⟩
        show ((eraseEnt r.id s.low ++ s.high ++ (s.pin ++ [e])).map (·.r)).Perm ((s.low ++ s.high ++ s.pin).map (·.r))
        have := ((hp.append_right s.high).append_right s.pin).map (·.r)
        refine List.Perm.trans ?_ this.symm
        simp only [List.map_append, List.map_cons, List.map_nil]
        grind
      · exact ⟨hi, List.Perm.refl _⟩
  release s r hi hn := by
    have hn' : entNodup (s.low ++ s.high ++ s.pin) := (entNodup_iff _).mpr hn
    obtain ⟨hnl, hnh, hnp⟩ := entNodup_parts hn'
    simp only [lruPolicy]
    split
    · exact ⟨hi, List.Perm.refl _⟩
    · rename_i e hf
      obtain ⟨he, hid⟩ := findEnt_some hf
      have hp := perm_eraseEnt hnp he
      rw [hid] at hp
      split
      · rename_i hflag
        have hi1 : LruI { s with pin := eraseEnt r.id s.pin, high := s.high ++ [e], hw := s.hw + e.r.weight } :=
          ⟨by simp [entW_append, entW, hi.hw_eq], by
            intro x hx; rcases List.mem_append.mp hx with h | h
            · exact hi.high_flag x h
            · simp at h; subst h; exact hflag, hi.low_flag⟩
        obtain ⟨h1, h2, _⟩ := withOverflow_spec _ hi1
        refine ⟨h1, ?_⟩
        show ((lruEnts _).map (·.r)).Perm _
        rw [h2]
        show ((s.low ++ (s.high ++ [e]) ++ eraseEnt r.id s.pin).map (·.r)).Perm ((s.low ++ s.high ++ s.pin).map (·.r))
        have := (List.Perm.append_left (s.low ++ s.high) hp).map (·.r)
        refine List.Perm.trans ?_ this.symm
        simp only [List.map_append, List.map_cons, List.map_nil]
        grind
      · rename_i hflag
        refine ⟨⟨hi.hw_eq, hi.high_flag, by
          intro x hx; rcases List.mem_append.mp hx with h | h
          · exact hi.low_flag x h
          · simp at h; subst h; simpa using hflag⟩, ?_⟩
        show ((s.low ++ [e] ++ s.high ++ eraseEnt r.id s.pin).map (·.r)).Perm ((s.low ++ s.high ++ s.pin).map (·.r))
        have := (List.Perm.append_left (s.low ++ s.high) hp).map (·.r)
        refine List.Perm.trans ?_ this.symm
        simp only [List.map_append, List.map_cons, List.map_nil]
        grind
  update s c hi hn := by
    have hi1 : LruI { s with hpCap := capFn c } := ⟨hi.hw_eq, hi.high_flag, hi.low_flag⟩
    obtain ⟨h1, h2, _⟩ := withOverflow_spec _ hi1
    refine ⟨h1, ?_⟩
    show ((lruEnts (Lru.withOverflow { s with hpCap := capFn c })).map (·.r)).Perm ((lruEnts s).map (·.r))
    rw [h2]
    exact List.Perm.refl _
  clear s hi hn := ⟨⟨rfl, by simp [lruPolicy], by simp [lruPolicy]⟩, rfl⟩

theorem lru_lawful (capFn : Nat → Nat) :
    Lawful (lruPolicy capFn) (fun s => LruI s ∧ idsNodup ((lruPolicy capFn).members s)) :=
  Lawful.ofPerm (lru_permLaws capFn)

end Foyer
