import FoyerModel.Policies.Fifo
import FoyerModel.Policies.Oracle
import FoyerProofs.Lemmas.ListRec
/-
  Lawfulness of the FIFO policy and of the scripted (oracle) policy, plus the list lemmas about
  `eraseId` / `findId` shared by the lawfulness proofs of the other policies.
-/
namespace Foyer

def idsNodup (l : List Rec) : Prop := (l.map (·.id)).Nodup

theorem mem_eraseId {i : Nat} {l : List Rec} {x : Rec} : x ∈ eraseId i l ↔ x ∈ l ∧ x.id ≠ i := by
  induction l with
  | nil => simp [eraseId]
  | cons y ys ih =>
    simp only [eraseId]
    split
    · rename_i hy
      rw [ih]; constructor
      · rintro ⟨h1, h2⟩; exact ⟨List.mem_cons_of_mem _ h1, h2⟩
      · rintro ⟨h1, h2⟩
        rcases List.mem_cons.mp h1 with rfl | h
        · exact absurd hy h2
        · exact ⟨h, h2⟩
    · rename_i hy
      simp only [List.mem_cons, ih]; constructor
      · rintro (rfl | ⟨h1, h2⟩)
        · exact ⟨Or.inl rfl, hy⟩
        · exact ⟨Or.inr h1, h2⟩
      · rintro ⟨rfl | h1, h2⟩
        · exact Or.inl rfl
        · exact Or.inr ⟨h1, h2⟩

theorem idsNodup_cons {x : Rec} {l : List Rec} :
    idsNodup (x :: l) ↔ (∀ r ∈ l, r.id ≠ x.id) ∧ idsNodup l := by
  unfold idsNodup
  simp only [List.map_cons, List.nodup_cons, List.mem_map, not_exists, not_and]

theorem idsNodup_eraseId {i : Nat} {l : List Rec} (h : idsNodup l) : idsNodup (eraseId i l) := by
  induction l with
  | nil => simpa [eraseId] using h
  | cons y ys ih =>
    rw [idsNodup_cons] at h
    simp only [eraseId]
    split
    · exact ih h.2
    · rw [idsNodup_cons]
      exact ⟨fun r hr => h.1 r (mem_eraseId.mp hr).1, ih h.2⟩

theorem idsNodup_append {a b : List Rec} :
    idsNodup (a ++ b) ↔ idsNodup a ∧ idsNodup b ∧ ∀ x ∈ a, ∀ y ∈ b, x.id ≠ y.id := by
  induction a with
  | nil => simp [idsNodup]
  | cons x xs ih =>
    simp only [List.cons_append, idsNodup_cons, ih, List.mem_append, List.mem_cons]
    constructor
    · rintro ⟨h1, h2, h3, h4⟩
      refine ⟨⟨fun r hr => h1 r (Or.inl hr), h2⟩, h3, ?_⟩
      rintro a (rfl | ha) y hy
      · exact fun e => h1 y (Or.inr hy) e.symm
      · exact h4 a ha y hy
    · rintro ⟨⟨h1, h2⟩, h3, h4⟩
      refine ⟨?_, h2, h3, fun a ha y hy => h4 a (Or.inr ha) y hy⟩
      rintro r (hr | hr)
      · exact h1 r hr
      · exact fun e => h4 x (Or.inl rfl) r hr e.symm

theorem eq_of_id_eq {l : List Rec} {x y : Rec} (hn : idsNodup l) (hx : x ∈ l) (hy : y ∈ l)
    (h : x.id = y.id) : x = y := by
  induction l with
  | nil => cases hx
  | cons z zs ih =>
    rw [idsNodup_cons] at hn
    rcases List.mem_cons.mp hx with rfl | hx' <;> rcases List.mem_cons.mp hy with rfl | hy'
    · rfl
    · exact absurd h.symm (hn.1 y hy')
    · exact absurd h (hn.1 x hx')
    · exact ih hn.2 hx' hy'

/-- With distinct ids, erasing by id removes exactly that record. -/
theorem mem_eraseId_of_nodup {l : List Rec} {r x : Rec} (hn : idsNodup l) (hr : r ∈ l) :
    x ∈ eraseId r.id l ↔ x ∈ l ∧ x ≠ r := by
  rw [mem_eraseId]
  constructor
  · rintro ⟨h1, h2⟩; exact ⟨h1, fun e => h2 (by rw [e])⟩
  · rintro ⟨h1, h2⟩; exact ⟨h1, fun e => h2 (eq_of_id_eq hn h1 hr e)⟩

theorem findId_some {i : Nat} {l : List Rec} {r : Rec} (h : findId i l = some r) : r ∈ l ∧ r.id = i := by
  induction l with
  | nil => simp [findId] at h
  | cons x xs ih =>
    simp only [findId] at h
    split at h
    · cases h; simp_all
    · have := ih h; simp_all

theorem not_mem_ids {l : List Rec} {r : Rec} : r.id ∉ l.map (·.id) ↔ ∀ x ∈ l, x.id ≠ r.id := by
  simp only [List.mem_map, not_exists, not_and]

/-! ### FIFO -/

theorem fifo_lawful : Lawful fifoPolicy (fun s => idsNodup s.q) where
  init_ok _ := by simp [fifoPolicy, idsNodup]
  init_members _ := rfl
  nodup _ h := h
  push_ok s r h hr := by
    show idsNodup (s.q ++ [r])
    rw [idsNodup_append]
    refine ⟨h, by simp [idsNodup], ?_⟩
    intro x hx y hy
    simp only [List.mem_singleton] at hy
    subst hy
    exact (not_mem_ids.mp hr) x hx
  push_mem s r _ _ x := by
    show x ∈ s.q ++ [r] ↔ _
    simp only [List.mem_append, List.mem_singleton]
    exact Or.comm
  pop_ok s r s' h hp := by
    simp only [fifoPolicy] at hp
    split at hp
    · cases hp
    · rename_i a as hq
      have h' : idsNodup (a :: as) := by rw [← hq]; exact h
      cases hp
      exact (idsNodup_cons.mp h').2
  pop_mem s r s' h hp := by
    simp only [fifoPolicy] at hp
    split at hp
    · cases hp
    · rename_i a as hq
      have h' : idsNodup (a :: as) := by rw [← hq]; exact h
      cases hp
      show r ∈ s.q ∧ ∀ x, x ∈ as ↔ (x ∈ s.q ∧ x ≠ r)
      rw [hq]
      refine ⟨List.mem_cons_self, fun x => ?_⟩
      constructor
      · intro hx
        exact ⟨List.mem_cons_of_mem _ hx, fun e => (idsNodup_cons.mp h').1 x hx (by rw [e])⟩
      · rintro ⟨hx, hne⟩
        rcases List.mem_cons.mp hx with rfl | hx'
        · exact absurd rfl hne
        · exact hx'
  remove_ok s r h _ := idsNodup_eraseId h
  remove_mem s r h hr x := mem_eraseId_of_nodup h hr
  acquire_ok _ _ h := h
  acquire_mem _ _ _ _ := Iff.rfl
  release_ok _ _ h := h
  release_mem _ _ _ _ := Iff.rfl
  update_ok _ _ h := h
  update_mem _ _ _ _ := Iff.rfl
  clear_ok _ _ := by simp [fifoPolicy, idsNodup]
  clear_mem _ _ := rfl

/-! ### Oracle (scripted victims) -/

theorem pickScript_some {mem : List Rec} {script rest : List Nat} {r : Rec}
    (h : pickScript mem script = some (r, rest)) : r ∈ mem := by
  induction script generalizing rest with
  | nil => simp [pickScript] at h
  | cons i is ih =>
    simp only [pickScript] at h
    split at h
    · rename_i r' hf
      cases h
      exact (findId_some hf).1
    · split at h
      · rename_i r' rest' hp
        cases h
        exact ih hp
      · cases h

theorem oracle_lawful : Lawful oraclePolicy (fun s => idsNodup s.mem) where
  init_ok _ := by simp [oraclePolicy, idsNodup]
  init_members _ := rfl
  nodup _ h := h
  push_ok s r h hr := by
    show idsNodup (s.mem ++ [r])
    rw [idsNodup_append]
    refine ⟨h, by simp [idsNodup], ?_⟩
    intro x hx y hy
    simp only [List.mem_singleton] at hy
    subst hy
    exact (not_mem_ids.mp hr) x hx
  push_mem s r _ _ x := by
    show x ∈ s.mem ++ [r] ↔ _
    simp only [List.mem_append, List.mem_singleton]
    exact Or.comm
  pop_ok s r s' h hp := by
    simp only [oraclePolicy] at hp
    split at hp
    · cases hp
    · cases hp
      exact idsNodup_eraseId h
  pop_mem s r s' h hp := by
    simp only [oraclePolicy] at hp
    split at hp
    · cases hp
    · rename_i r' rest hpick
      cases hp
      have hr := pickScript_some hpick
      exact ⟨hr, fun x => mem_eraseId_of_nodup h hr⟩
  remove_ok s r h _ := idsNodup_eraseId h
  remove_mem s r h hr x := mem_eraseId_of_nodup h hr
  acquire_ok _ _ h := h
  acquire_mem _ _ _ _ := Iff.rfl
  release_ok _ _ h := h
  release_mem _ _ _ _ := Iff.rfl
  update_ok _ _ h := h
  update_mem _ _ _ _ := Iff.rfl
  clear_ok _ _ := by simp [oraclePolicy, idsNodup]
  clear_mem _ _ := rfl

end Foyer
