import FoyerModel.BlockSpec
/-
  Lemmas about the layout specification (`FoyerModel.BlockSpec`): arithmetic of `alignUp`, chains of
  blobs, contiguity ⇒ disjointness, and the scanner on a chain.
-/
namespace Foyer.Blk

structure WF (c : LCfg) : Prop where
  hP : 0 < c.P
  hI : c.P ∣ c.I
  hB : c.P ∣ c.B
  hI0 : 0 < c.I
  hIB : c.I < c.B
  hcap : 1 ≤ c.cap

theorem alignUp_dvd (p n : Nat) : p ∣ alignUp p n := Nat.dvd_mul_left _ _

theorem le_alignUp {p : Nat} (hp : 0 < p) (n : Nat) : n ≤ alignUp p n := by
  unfold alignUp
  have h := Nat.lt_mul_div_succ (n + p - 1) hp
  rw [Nat.mul_add, Nat.mul_one, Nat.mul_comm] at h
  generalize (n + p - 1) / p * p = t at h ⊢
  omega

theorem alignUp_pos {p : Nat} (hp : 0 < p) {n : Nat} (hn : 0 < n) : 0 < alignUp p n :=
  Nat.lt_of_lt_of_le hn (le_alignUp hp n)

theorem esize_dvd (c : LCfg) (es : List BEI) : c.P ∣ esize c es := by
  induction es with
  | nil => exact Nat.dvd_zero _
  | cons e es ih => exact Nat.dvd_add (alignUp_dvd _ _) ih

theorem esize_append (c : LCfg) (es fs : List BEI) : esize c (es ++ fs) = esize c es + esize c fs := by
  induction es with
  | nil => simp [esize]
  | cons e es ih => simp only [List.cons_append, esize, ih]; omega

theorem bsize_dvd {c : LCfg} (w : WF c) (b : Blob) : c.P ∣ bsize c b :=
  Nat.dvd_add w.hI (esize_dvd c b.ents)

/-- The entries of a blob follow each other, the first one at `start`. -/
def entsFrom (c : LCfg) : Nat → List BEI → Prop
  | _, [] => True
  | start, e :: es => e.off = start ∧ entsFrom c (start + alignUp c.P e.len) es

theorem entsFrom_append (c : LCfg) : ∀ (es : List BEI) (start : Nat) (e : BEI),
    entsFrom c start es → e.off = start + esize c es → entsFrom c start (es ++ [e]) := by
  intro es
  induction es with
  | nil => intro start e _ he; simp [entsFrom, esize] at he ⊢; exact he
  | cons x xs ih =>
    intro start e h he
    simp only [List.cons_append, entsFrom] at h ⊢
    refine ⟨h.1, ih _ e h.2 ?_⟩
    simp only [esize] at he
    omega

/-- the last entry of a well-formed blob ends where the blob ends -/
theorem entsFrom_last (c : LCfg) : ∀ (es : List BEI) (start : Nat) (e : BEI),
    entsFrom c start es → es.getLast? = some e → e.off + alignUp c.P e.len = start + esize c es := by
  intro es
  induction es with
  | nil => intro start e _ h; simp at h
  | cons x xs ih =>
    intro start e h hl
    simp only [entsFrom] at h
    cases xs with
    | nil =>
      simp only [List.getLast?_singleton, Option.some.injEq] at hl
      subst hl
      simp only [esize]; omega
    | cons y ys =>
      have hl' : (y :: ys).getLast? = some e := by
        rw [List.getLast?_cons_cons] at hl; exact hl
      have := ih _ e h.2 hl'
      simp only [esize] at this ⊢
      omega

/-- A chain of blobs: each starts where the previous one ends; none is empty. -/
def chained (c : LCfg) : Nat → List Blob → Prop
  | _, [] => True
  | start, b :: bs => b.off = start ∧ b.ents ≠ [] ∧ entsFrom c c.I b.ents ∧ chained c (start + bsize c b) bs

def chainEnd (c : LCfg) : Nat → List Blob → Nat
  | start, [] => start
  | start, b :: bs => chainEnd c (start + bsize c b) bs

theorem chained_append (c : LCfg) : ∀ (bs : List Blob) (start : Nat) (b : Blob),
    chained c start bs → b.off = chainEnd c start bs → b.ents ≠ [] → entsFrom c c.I b.ents →
    chained c start (bs ++ [b]) := by
  intro bs
  induction bs with
  | nil => intro start b _ ho hne hw; simp only [chainEnd] at ho; exact ⟨ho, hne, hw, trivial⟩
  | cons x xs ih =>
    intro start b h ho hne hw
    simp only [List.cons_append, chained, chainEnd] at h ho ⊢
    exact ⟨h.1, h.2.1, h.2.2.1, ih _ b h.2.2.2 ho hne hw⟩

theorem chainEnd_append (c : LCfg) : ∀ (bs : List Blob) (start : Nat) (b : Blob),
    chainEnd c start (bs ++ [b]) = chainEnd c start bs + bsize c b := by
  intro bs
  induction bs with
  | nil => intro start b; simp [chainEnd]
  | cons x xs ih => intro start b; simp only [List.cons_append, chainEnd]; exact ih _ b

theorem chainEnd_ge (c : LCfg) : ∀ (bs : List Blob) (start : Nat), start ≤ chainEnd c start bs := by
  intro bs
  induction bs with
  | nil => intro start; exact Nat.le_refl _
  | cons x xs ih => intro start; simp only [chainEnd]; exact Nat.le_trans (Nat.le_add_right _ _) (ih _)

theorem chained_off_ge (c : LCfg) : ∀ (bs : List Blob) (start : Nat), chained c start bs →
    ∀ b ∈ bs, start ≤ b.off ∧ b.off + bsize c b ≤ chainEnd c start bs := by
  intro bs
  induction bs with
  | nil => intro start _ b hb; cases hb
  | cons x xs ih =>
    intro start h b hb
    simp only [chained] at h
    simp only [chainEnd]
    rcases List.mem_cons.mp hb with h1 | h1
    · subst h1
      rw [h.1]
      exact ⟨Nat.le_refl _, chainEnd_ge c xs _⟩
    · have := ih _ h.2.2.2 b h1
      exact ⟨by omega, this.2⟩

/-! ### contiguous regions are disjoint -/

/-- `rs` tiles `[start, end)` without gaps, in order. -/
def contig : Nat → List (Nat × Nat) → Nat → Prop
  | start, [], e => start = e
  | start, r :: rs, e => r.1 = start ∧ contig (start + r.2) rs e

def disjoint (r s : Nat × Nat) : Prop := r.1 + r.2 ≤ s.1 ∨ s.1 + s.2 ≤ r.1

theorem contig_ge : ∀ (rs : List (Nat × Nat)) (start e : Nat), contig start rs e →
    start ≤ e ∧ ∀ r ∈ rs, start ≤ r.1 ∧ r.1 + r.2 ≤ e := by
  intro rs
  induction rs with
  | nil => intro start e h; simp only [contig] at h; subst h; exact ⟨Nat.le_refl _, fun r hr => by cases hr⟩
  | cons x xs ih =>
    intro start e h
    simp only [contig] at h
    have := ih _ _ h.2
    refine ⟨by omega, fun r hr => ?_⟩
    rcases List.mem_cons.mp hr with h1 | h1
    · subst h1; omega
    · have := this.2 r h1; omega

theorem contig_pairwise : ∀ (rs : List (Nat × Nat)) (start e : Nat), contig start rs e →
    rs.Pairwise disjoint := by
  intro rs
  induction rs with
  | nil => intro _ _ _; exact List.Pairwise.nil
  | cons x xs ih =>
    intro start e h
    simp only [contig] at h
    refine List.Pairwise.cons (fun r hr => ?_) (ih _ _ h.2)
    have := (contig_ge xs _ _ h.2).2 r hr
    left; omega

theorem contig_append : ∀ (rs ss : List (Nat × Nat)) (a b d : Nat), contig a rs b → contig b ss d →
    contig a (rs ++ ss) d := by
  intro rs
  induction rs with
  | nil => intro ss a b d h1 h2; simp only [contig] at h1; subst h1; exact h2
  | cons x xs ih =>
    intro ss a b d h1 h2
    simp only [List.cons_append, contig] at h1 ⊢
    exact ⟨h1.1, ih ss _ b d h1.2 h2⟩

/-- The byte regions of a blob: its index page, then its entries. -/
def entRegions (c : LCfg) (off : Nat) (es : List BEI) : List (Nat × Nat) :=
  es.map fun e => (off + e.off, alignUp c.P e.len)

def blobRegions (c : LCfg) (b : Blob) : List (Nat × Nat) := (b.off, c.I) :: entRegions c b.off b.ents

def regions (c : LCfg) (bs : List Blob) : List (Nat × Nat) := bs.flatMap (blobRegions c)

theorem entRegions_contig (c : LCfg) (off : Nat) : ∀ (es : List BEI) (start : Nat), entsFrom c start es →
    contig (off + start) (entRegions c off es) (off + start + esize c es) := by
  intro es
  induction es with
  | nil => intro start _; simp [entRegions, contig, esize]
  | cons e es ih =>
    intro start h
    simp only [entsFrom] at h
    simp only [entRegions, List.map_cons, contig, esize]
    refine ⟨by rw [h.1], ?_⟩
    have := ih _ h.2
    simp only [entRegions] at this
    have e1 : off + start + alignUp c.P e.len = off + (start + alignUp c.P e.len) := by omega
    have e2 : off + start + (alignUp c.P e.len + esize c es) = off + (start + alignUp c.P e.len) + esize c es := by omega
    rw [e1, e2]; exact this

theorem regions_contig (c : LCfg) : ∀ (bs : List Blob) (start : Nat), chained c start bs →
    contig start (regions c bs) (chainEnd c start bs) := by
  intro bs
  induction bs with
  | nil => intro start _; simp [regions, contig, chainEnd]
  | cons b bs ih =>
    intro start h
    simp only [chained] at h
    simp only [regions, List.flatMap_cons, chainEnd]
    apply contig_append _ _ _ (start + bsize c b)
    · simp only [blobRegions, contig]
      refine ⟨h.1, ?_⟩
      have := entRegions_contig c b.off b.ents c.I h.2.2.1
      rw [h.1] at this
      simp only [bsize]
      have e : start + (c.I + esize c b.ents) = start + c.I + esize c b.ents := by omega
      rw [e, h.1]; exact this
    · exact ih _ h.2.2.2

/-! ### the scanner on a chain -/

theorem idxAt_cons (m : IdxMap) (a : Nat × List BEI) (off : Nat) :
    idxAt (a :: m) off = if a.1 = off then some a.2 else idxAt m off := by
  unfold idxAt
  simp only [List.find?_cons]
  by_cases h : a.1 = off
  · simp [h]
  · simp [h]

theorem idxAt_none_of_lt (c : LCfg) : ∀ (bs : List Blob) (start : Nat), chained c start bs → ∀ off, off < start →
    idxAt (idxMapOf bs) off = none := by
  intro bs
  induction bs with
  | nil => intro _ _ off _; rfl
  | cons b bs ih =>
    intro start h off ho
    simp only [chained] at h
    simp only [idxMapOf, List.map_cons]
    rw [idxAt_cons]
    have : ¬ b.off = off := by omega
    simp only [this, if_false]
    exact ih _ h.2.2.2 off (by omega)

/-- **The scanner on a chain of blobs** reads the blobs back one by one and stops behind the last. -/
theorem scan_chain {c : LCfg} (w : WF c) : ∀ (bs : List Blob) (start fuel : Nat) (m : IdxMap),
    chained c start bs → (∀ b ∈ bs, idxAt m b.off = some b.ents) →
    chainEnd c start bs ≤ c.B →
    (chainEnd c start bs + c.I > c.B ∨ idxAt m (chainEnd c start bs) = none) →
    bs.length < fuel →
    scan c m fuel start = bs.map fun b => b.ents.map (place b.off) := by
  intro bs
  induction bs with
  | nil =>
    intro start fuel m _ _ _ hend hf
    cases fuel with
    | zero => omega
    | succ fuel =>
      simp only [scan, chainEnd, List.map_nil] at hend ⊢
      rcases hend with h | h
      · rw [if_pos h]
      · split
        · rfl
        · rw [h]
  | cons b bs ih =>
    intro start fuel m h hm hB hend hf
    cases fuel with
    | zero => simp at hf
    | succ fuel =>
      simp only [chained] at h
      simp only [chainEnd] at hB hend
      have hbe := chainEnd_ge c bs (start + bsize c b)
      have hnot : ¬ (start + c.I > c.B) := by
        have : c.I ≤ bsize c b := by simp [bsize]
        omega
      simp only [scan, hnot, if_false]
      have hb := hm b List.mem_cons_self
      rw [h.1] at hb
      rw [hb]
      simp only [List.map_cons]
      have hlast : ∃ e, b.ents.getLast? = some e := by
        cases hl : b.ents.getLast? with
        | none => exact absurd (List.getLast?_eq_none_iff.mp hl) h.2.1
        | some e => exact ⟨e, rfl⟩
      obtain ⟨e, he⟩ := hlast
      have hstep := entsFrom_last c b.ents c.I e h.2.2.1 he
      rw [he]
      simp only
      have : start + (e.off + alignUp c.P e.len) = start + bsize c b := by simp only [bsize]; omega
      rw [this, h.1]
      congr 1
      apply ih _ fuel m h.2.2.2 (fun b' hb' => hm b' (List.mem_cons_of_mem _ hb')) hB hend
      simp only [List.length_cons] at hf; omega

theorem idxAt_idxMapOf (c : LCfg) (w : WF c) : ∀ (bs : List Blob) (start : Nat), chained c start bs →
    ∀ b ∈ bs, idxAt (idxMapOf bs) b.off = some b.ents := by
  intro bs
  induction bs with
  | nil => intro _ _ b hb; cases hb
  | cons x xs ih =>
    intro start h b hb
    simp only [chained] at h
    simp only [idxMapOf, List.map_cons]
    rw [idxAt_cons]
    rcases List.mem_cons.mp hb with h1 | h1
    · subst h1; simp
    · have hge := (chained_off_ge c xs _ h.2.2.2 b h1).1
      have hpos : 0 < bsize c x := by simp only [bsize]; have := w.hI0; omega
      have : ¬ x.off = b.off := by omega
      simp only [this, if_false]
      exact ih _ h.2.2.2 b h1

theorem guardSeq_sorted : ∀ (l : List Placed) (last : Nat), (∀ p ∈ l, last ≤ p.seq) →
    l.Pairwise (fun a b => a.seq ≤ b.seq) → guardSeq l last = l := by
  intro l
  induction l with
  | nil => intro _ _ _; rfl
  | cons p ps ih =>
    intro last hl hp
    simp only [guardSeq]
    have := hl p List.mem_cons_self
    rw [if_neg (by omega)]
    congr 1
    cases hp with
    | cons h1 h2 => exact ih p.seq h1 h2

end Foyer.Blk
