import FoyerModel.Policies.Sieve
import FoyerProofs.Lemmas.LawfulOfPerm
/-
  SIEVE is a lawful policy; `sieveScan` terminates within its fuel and only flips visited bits.
-/
namespace Foyer

theorem setVisited_map (q : List SieveEnt) (i : Nat) (b : Bool) : (setVisited q i b).map (·.r) = q.map (·.r) := by
  unfold setVisited
  rw [List.map_map]
  apply List.map_congr_left
  intro e _
  simp only [Function.comp]
  split <;> rfl

theorem setVisited_length (q : List SieveEnt) (i : Nat) (b : Bool) : (setVisited q i b).length = q.length := by
  unfold setVisited; simp

theorem sieveScan_map : ∀ (fuel : Nat) (q : List SieveEnt) (i j : Nat) (q' : List SieveEnt),
    sieveScan fuel q i = some (j, q') → q'.map (·.r) = q.map (·.r) := by
  intro fuel
  induction fuel with
  | zero => intro q i j q' h; simp [sieveScan] at h
  | succ f ih =>
    intro q i j q' h
    simp only [sieveScan] at h
    split at h
    · cases h
    · split at h
      · cases h; rfl
      · have := ih _ _ _ _ h
        rw [this, setVisited_map]

theorem perm_cons_eraseIdx {α : Type} : ∀ (l : List α) (i : Nat) (a : α), l[i]? = some a →
    l.Perm (a :: l.eraseIdx i) := by
  intro l
  induction l with
  | nil => intro i a h; simp at h
  | cons x xs ih =>
    intro i a h
    cases i with
    | zero => simp at h; subst h; simp
    | succ i =>
      simp only [List.getElem?_cons_succ] at h
      have := ih i a h
      simp only [List.eraseIdx_cons_succ]
      exact (List.Perm.cons x this).trans (List.Perm.swap a x _)

theorem sieve_permLaws : PermLaws sievePolicy (fun _ => True) where
  init_I _ := trivial
  init_members _ := rfl
  push s r _ _ _ := by
    refine ⟨trivial, ?_⟩
    show ((s.q ++ [({ r := r, visited := false } : SieveEnt)]).map (·.r)).Perm (r :: s.q.map (·.r))
    simp only [List.map_append, List.map_cons, List.map_nil]
    grind
  pop s r s' _ _ hp := by
    refine ⟨trivial, ?_⟩
    simp only [sievePolicy] at hp
    split at hp
    · cases hp
    · rename_i i q' hscan
      split at hp
      · cases hp
      · rename_i e he
        cases hp
        have hm := sieveScan_map _ _ _ _ _ hscan
        show (s.q.map (·.r)).Perm (e.r :: (q'.eraseIdx i).map (·.r))
        rw [← hm]
        exact (perm_cons_eraseIdx q' i e he).map (·.r)
  remove s r _ hn hr := by
    refine ⟨trivial, ?_⟩
    have hr' : r ∈ s.q.map (·.r) := hr
    obtain ⟨e, he, rfl⟩ := List.mem_map.mp hr'
    have hn' : (s.q.map fun (e : SieveEnt) => e.r.id).Nodup := by
      have : idsNodup (s.q.map (·.r)) := hn
      unfold idsNodup at this
      rwa [List.map_map] at this
    have := perm_cons_filter (fun (e : SieveEnt) => e.r.id) s.q e hn' he
    exact this.map (·.r)
  acquire s r _ _ := by
    refine ⟨trivial, ?_⟩
    show ((setVisited s.q r.id true).map (·.r)).Perm (s.q.map (·.r))
    rw [setVisited_map]
  release _ _ _ _ := ⟨trivial, List.Perm.refl _⟩
  update _ _ _ _ := ⟨trivial, List.Perm.refl _⟩
  clear _ _ _ := ⟨trivial, rfl⟩

theorem sieve_lawful : Lawful sievePolicy (fun s => True ∧ idsNodup (sievePolicy.members s)) :=
  Lawful.ofPerm sieve_permLaws

end Foyer
