import FoyerProofs.Lemmas.Protect
/-
  "Nothing leaks": every protected (pinned) record has an outstanding handle.  Generic in the
  policy, from the converse protection laws (`Unprotects`).
-/
namespace Foyer

variable {σ : Type}

structure Unprotects (P : Policy σ) (Ok : σ → Prop) (prot : σ → List Rec) : Prop where
  init : ∀ cap, prot (P.init cap) = []
  acquire_only : ∀ s x, Ok s → ∀ r ∈ prot (P.acquire s x), r ∈ prot s ∨ r.id = x.id
  release_removes : ∀ s x, Ok s → ∀ r ∈ prot (P.release s x), r ∈ prot s ∧ r.id ≠ x.id
  remove_sub : ∀ s x, Ok s → x ∈ P.members s → ∀ r ∈ prot (P.remove s x), r ∈ prot s ∧ r.id ≠ x.id
  clear : ∀ s, Ok s → prot (P.clear s) = []

theorem heldCnt_inc_ge (held : List (Rec × Nat)) (x r : Rec) :
    heldCnt held r ≤ heldCnt (heldInc held x) r := by
  induction held with
  | nil => simp [heldCnt]
  | cons p ps ih =>
    obtain ⟨y, n⟩ := p
    simp only [heldInc]
    split
    · simp only [heldCnt]; split <;> omega
    · simp only [heldCnt]; split
      · omega
      · exact ih

theorem heldCnt_inc_self (held : List (Rec × Nat)) (x : Rec) : 0 < heldCnt (heldInc held x) x := by
  induction held with
  | nil => simp [heldInc, heldCnt]
  | cons p ps ih =>
    obtain ⟨y, n⟩ := p
    simp only [heldInc]
    split
    · rename_i h; simp only [heldCnt, h, if_true]; omega
    · rename_i h; simp only [heldCnt, h, if_false]; exact ih

theorem heldCnt_dec_ne (held : List (Rec × Nat)) (d r : Rec) (h : r ≠ d) :
    heldCnt (heldDec held d) r = heldCnt held r := by
  induction held with
  | nil => simp [heldDec, heldCnt]
  | cons p ps ih =>
    obtain ⟨y, n⟩ := p
    simp only [heldDec]
    split
    · rename_i hy
      have : ¬ y = r := fun e => h (by rw [← e, hy])
      split
      · simp [heldCnt, this]
      · simp [heldCnt, this]
    · simp only [heldCnt]; split
      · rfl
      · exact ih

theorem heldCnt_dec_gt (held : List (Rec × Nat)) (d : Rec) (h : 1 < heldCnt held d) :
    0 < heldCnt (heldDec held d) d := by
  induction held with
  | nil => simp [heldCnt] at h
  | cons p ps ih =>
    obtain ⟨y, n⟩ := p
    simp only [heldCnt] at h
    simp only [heldDec]
    split
    · rename_i hy
      simp only [hy, if_true] at h
      have : ¬ n ≤ 1 := by omega
      simp only [this, if_false, heldCnt, hy, if_true]; omega
    · rename_i hy
      simp only [hy, if_false] at h
      simp only [heldCnt, hy, if_false]
      exact ih h

theorem heldFind_id {held : List (Rec × Nat)} {rid : Nat} {x : Rec} (h : heldFind held rid = some x) : x.id = rid := by
  induction held with
  | nil => simp [heldFind] at h
  | cons y ys ih =>
    simp only [heldFind] at h
    split at h
    · rename_i hy; cases h; exact hy
    · exact ih h

variable {P : Policy σ} {Ok : σ → Prop} {prot : σ → List Rec}

/-- Every protected record has an outstanding handle. -/
def HeldInv (prot : σ → List Rec) (c : Cache σ) : Prop :=
  ∀ (i : Nat) (s : Shard σ), c.shards[i]? = some s → ∀ r ∈ prot s.ev, 0 < heldCnt c.held r

theorem heldInv_setAt {c : Cache σ} (hh : HeldInv prot c) {i : Nat} {s' : Shard σ} {held' : List (Rec × Nat)} {n : Nat}
    (hmono : ∀ j t, c.shards[j]? = some t → j ≠ i → ∀ r ∈ prot t.ev, 0 < heldCnt held' r)
    (hnew : ∀ r ∈ prot s'.ev, 0 < heldCnt held' r) :
    HeldInv prot { shards := setAt c.shards i s', nextId := n, held := held' } := by
  intro j t ht r hr
  simp only [getElem?_setAt] at ht
  split at ht
  · cases ht; exact hnew r hr
  · rename_i hne
    by_cases hji : j = i
    · subst hji
      have hlen : ¬ j < c.shards.length := fun h => hne ⟨rfl, h⟩
      have := List.getElem?_eq_none_iff.mpr (Nat.le_of_not_lt hlen)
      rw [this] at ht; cases ht
    · exact hmono j t ht hji r hr

theorem heldInv_step (L : Lawful P Ok) (H : Protects P Ok prot) (U : Unprotects P Ok prot) {cfg : Cfg}
    {c : Cache σ} (hc : CacheInv P Ok cfg c) (hh : HeldInv prot c) (op : Op) :
    HeldInv prot (Cache.step P cfg c op).1 := by
  have mono_inc : ∀ (x : Rec) (j : Nat) (t : Shard σ), c.shards[j]? = some t → ∀ r ∈ prot t.ev, 0 < heldCnt (heldInc c.held x) r :=
    fun x j t ht r hr => Nat.lt_of_lt_of_le (hh j t ht r hr) (heldCnt_inc_ge _ _ _)
  have hmap : ∀ (f : Nat → Shard σ → Shard σ × List (Reason × Rec) × Bool),
      (∀ j t, c.shards[j]? = some t → ∀ r ∈ prot (f j t).1.ev, r ∈ prot t.ev) →
      HeldInv prot { c with shards := (mapShards f 0 c.shards).1 } := by
    intro f hf j t ht r hr
    simp only [mapShards_getElem?, Nat.zero_add] at ht
    cases hs : c.shards[j]? with
    | none => simp [hs] at ht
    | some s =>
      simp only [hs, Option.map_some, Option.some.injEq] at ht
      subst ht
      exact hh j s hs r (hf j s hs r hr)
  cases op with
  | ins key ver weight hint phantom loc age =>
    simp only [Cache.step]
    split
    · exact hh
    · rename_i s hs
      have hsi := hc.shard _ s hs
      apply heldInv_setAt hh (fun j t ht _ => mono_inc _ j t ht)
      intro r hr
      refine Nat.lt_of_lt_of_le (hh _ s hs r ?_) (heldCnt_inc_ge _ _ _)
      -- the protected set of the new shard is within the old one
      cases phantom with
      | true =>
        simp only [Shard.emplace, if_true] at hr
        split at hr
        · rename_i old hold
          have hoi := findKey_some hold
          have hid := hasId_members_iff L hsi hoi.1
          simp only [Shard.unlink, hid, if_true] at hr
          exact (U.remove_sub s.ev old hsi.ok ((hsi.mem_iff old).mpr hoi.1) r hr).1
        · exact hr
      | false =>
        simp only [Shard.emplace, Bool.false_eq_true, if_false] at hr
        have hev := evict_protects L H (s.cap - weight) s hsi
        have es := evict_spec L (s.cap - weight) s hsi
        generalize Shard.evict P s (s.cap - weight) = ev at hev es hr
        obtain ⟨s1, vs, pk⟩ := ev
        simp only [] at hev es hr
        have h1 : ShardInv P Ok s1 := es.inv
        obtain ⟨vs', hvs, _, _, _, hidx, hsub, _⟩ := es.victims
        have hfresh1 : ∀ x ∈ s1.index, x.id ≠ c.nextId := fun x hx =>
          Nat.ne_of_lt (hc.fresh _ s hs x ((hidx x).mp hx).1)
        split at hr
        · rename_i old hold
          have hoi := findKey_some hold
          have hid := hasId_members_iff L h1 hoi.1
          simp only [hid, if_true] at hr
          have hm : old ∈ P.members s1.ev := (h1.mem_iff old).mpr hoi.1
          have hokr := L.remove_ok _ _ h1.ok hm
          have hnotin : c.nextId ∉ (P.members (P.remove s1.ev old)).map (·.id) := by
            intro hc'
            obtain ⟨x, hx, hxe⟩ := List.mem_map.mp hc'
            have := (L.remove_mem _ _ h1.ok hm x).mp hx
            exact hfresh1 x ((h1.mem_iff x).mp this.1) hxe
          have hr' : r ∈ prot (P.push (P.remove s1.ev old) { id := c.nextId, key, hash := cfg.H key, ver, weight, hint, phantom := false, loc, age }) := hr
          rw [H.push _ _ hokr hnotin] at hr'
          rw [← hev.1]
          exact (U.remove_sub s1.ev old h1.ok hm r hr').1
        · have hnotin : c.nextId ∉ (P.members s1.ev).map (·.id) := by
            intro hc'
            obtain ⟨x, hx, hxe⟩ := List.mem_map.mp hc'
            exact hfresh1 x ((h1.mem_iff x).mp hx) hxe
          have hr' : r ∈ prot (P.push s1.ev { id := c.nextId, key, hash := cfg.H key, ver, weight, hint, phantom := false, loc, age }) := hr
          rw [H.push _ _ h1.ok hnotin] at hr'
          rw [← hev.1]; exact hr'
  | get key =>
    simp only [Cache.step]
    split
    · exact hh
    · rename_i s hs
      have hsi := hc.shard _ s hs
      split
      · exact hh
      · rename_i x hx
        apply heldInv_setAt hh (fun j t ht _ => mono_inc _ j t ht)
        intro r hr
        rcases U.acquire_only s.ev x hsi.ok r hr with h | h
        · exact Nat.lt_of_lt_of_le (hh _ s hs r h) (heldCnt_inc_ge _ _ _)
        · have hxi := findKey_some hx
          have hrm := H.sub _ (L.acquire_ok _ x hsi.ok) r hr
          have hrm' : r ∈ P.members s.ev := (L.acquire_mem _ x hsi.ok r).mp hrm
          have : r = x := eq_of_id_eq (L.nodup s.ev hsi.ok) hrm' ((hsi.mem_iff x).mpr hxi.1) h
          rw [this]; exact heldCnt_inc_self _ _
  | touch key =>
    simp only [Cache.step]
    split
    · exact hh
    · rename_i s hs
      have hsi := hc.shard _ s hs
      split
      · exact hh
      · rename_i x hx
        split
        · rename_i hz
          apply heldInv_setAt hh (fun j t ht _ => hh j t ht)
          intro r hr
          obtain ⟨h1, h2⟩ := U.release_removes _ x (L.acquire_ok _ x hsi.ok) r hr
          rcases U.acquire_only s.ev x hsi.ok r h1 with h | h
          · exact hh _ s hs r h
          · exact absurd h h2
        · rename_i hz
          apply heldInv_setAt hh (fun j t ht _ => hh j t ht)
          intro r hr
          rcases U.acquire_only s.ev x hsi.ok r hr with h | h
          · exact hh _ s hs r h
          · have hxi := findKey_some hx
            have hrm := H.sub _ (L.acquire_ok _ x hsi.ok) r hr
            have hrm' : r ∈ P.members s.ev := (L.acquire_mem _ x hsi.ok r).mp hrm
            have : r = x := eq_of_id_eq (L.nodup s.ev hsi.ok) hrm' ((hsi.mem_iff x).mpr hxi.1) h
            rw [this]; omega
  | contains key =>
    simp only [Cache.step]
    split <;> exact hh
  | remove key =>
    simp only [Cache.step]
    split
    · exact hh
    · rename_i s hs
      have hsi := hc.shard _ s hs
      split
      · exact hh
      · rename_i x hx
        have hxi := findKey_some hx
        have hid := hasId_members_iff L hsi hxi.1
        apply heldInv_setAt hh (fun j t ht _ => mono_inc _ j t ht)
        intro r hr
        simp only [Shard.unlink, hid, if_true] at hr
        exact Nat.lt_of_lt_of_le (hh _ s hs r (U.remove_sub s.ev x hsi.ok ((hsi.mem_iff x).mpr hxi.1) r hr).1) (heldCnt_inc_ge _ _ _)
  | clone rid =>
    simp only [Cache.step]
    split
    · exact hh
    · intro j t ht r hr
      exact mono_inc _ j t ht r hr
  | drop rid =>
    simp only [Cache.step]
    split
    · exact hh
    · rename_i x hx
      split
      · rename_i hle
        -- last handle of `x`: other records keep their count, `x` itself must not stay protected
        have other : ∀ (j : Nat) (t : Shard σ), c.shards[j]? = some t → ∀ r ∈ prot t.ev, r ≠ x →
            0 < heldCnt (heldDec c.held x) r := by
          intro j t ht r hr hne
          rw [heldCnt_dec_ne _ _ _ hne]; exact hh j t ht r hr
        -- where a protected copy of `x` can live
        have home : ∀ (j : Nat) (t : Shard σ), c.shards[j]? = some t → x ∈ prot t.ev →
            x.phantom = false ∧ j = cfg.shardOf x.hash := by
          intro j t ht hxp
          have hti := hc.shard j t ht
          have hxi := (hti.mem_iff x).mp (H.sub t.ev hti.ok x hxp)
          exact ⟨hc.real j t ht x hxi, (hc.placed j t ht x hxi).2.symm⟩
        split
        · rename_i hph
          intro j t ht r hr
          apply other j t ht r hr
          intro e; subst e
          have := (home j t ht hr).1
          rw [this] at hph; cases hph
        · split
          · rename_i hnone
            intro j t ht r hr
            apply other j t ht r hr
            intro e; subst e
            have := (home j t ht hr).2
            subst this
            rw [hnone] at ht; cases ht
          · rename_i s hs
            have hsi := hc.shard _ s hs
            apply heldInv_setAt hh
            · intro j t ht hji r hr
              apply other j t ht r hr
              intro e; subst e
              exact hji (home j t ht hr).2
            · intro r hr
              obtain ⟨h1, h2⟩ := U.release_removes s.ev x hsi.ok r hr
              exact other _ s hs r h1 (fun e => h2 (by rw [e]))
      · rename_i hgt
        intro j t ht r hr
        by_cases hne : r = x
        · rw [hne]; exact heldCnt_dec_gt _ _ (by omega)
        · rw [heldCnt_dec_ne _ _ _ hne]; exact hh j t ht r hr
  | clear =>
    simp only [Cache.step]
    apply hmap
    intro j t ht r hr
    have := U.clear t.ev (hc.shard j t ht).ok
    simp only [] at hr
    rw [this] at hr; cases hr
  | resize cap =>
    simp only [Cache.step]
    apply hmap
    intro j t ht r hr
    have hti := hc.shard j t ht
    have h1 : ShardInv P Ok { t with ev := P.update t.ev (shardCapacityFor cap c.shards.length j),
                                     cap := shardCapacityFor cap c.shards.length j } :=
      ⟨L.update_ok _ _ hti.ok, fun x => by rw [L.update_mem _ _ hti.ok x]; exact hti.mem_iff x,
        hti.keys, hti.usage_eq, hti.entries_eq⟩
    simp only [] at hr
    rw [(evict_protects L H _ _ h1).1] at hr
    have : r ∈ prot (P.update t.ev (shardCapacityFor cap c.shards.length j)) := hr
    rw [H.update t.ev _ hti.ok] at this
    exact this
  | evictAll =>
    simp only [Cache.step]
    apply hmap
    intro j t ht r hr
    simp only [] at hr
    rw [(evict_protects L H 0 t (hc.shard j t ht)).1] at hr
    exact hr
  | flush =>
    simp only [Cache.step]
    apply hmap
    intro j t ht r hr
    simp only [] at hr
    rw [(evict_protects L H 0 t (hc.shard j t ht)).1] at hr
    exact hr

end Foyer
