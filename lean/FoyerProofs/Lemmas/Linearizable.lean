import FoyerModel.Conc
/-
  Atomic sections are linearizable: for every interleaving of `invoke / atomic step / respond`
  actions over any sequential object, the order of the atomic steps is a legal sequential history
  that contains every completed call with the result it returned and respects real time.
-/
namespace Foyer.Conc

variable {S O R : Type}

def carries (st : TStatus O R) (id : Nat) : Prop :=
  match st with
  | .idle => False
  | .pending i _ => i = id
  | .done i _ _ => i = id

structure J (o : SeqObj S O R) (c : CState S O R) : Prop where
  legal : seqRun o o.init (c.lins.map (·.op)) = (c.obj, c.lins.map (·.ret))
  t_inv : ∀ e ∈ c.invs, e.time < c.time
  t_res : ∀ e ∈ c.ress, e.time < c.time
  t_lin : ∀ e ∈ c.lins, e.time < c.time
  sorted : c.lins.Pairwise (fun a b => a.time < b.time)
  id_lin : ∀ e ∈ c.lins, e.id < c.nextId
  id_res : ∀ e ∈ c.ress, e.id < c.nextId
  id_th : ∀ t id, carries (c.th t) id → id < c.nextId
  th_distinct : ∀ t u id, carries (c.th t) id → carries (c.th u) id → t = u
  res_finished : ∀ e ∈ c.ress, ∀ t, ¬ carries (c.th t) e.id
  lin_not_pending : ∀ e ∈ c.lins, ∀ t op, c.th t ≠ .pending e.id op
  pending_inv : ∀ t id op, c.th t = .pending id op → ∃ i ∈ c.invs, i.id = id ∧ i.op = op
  done_lin : ∀ t id op r, c.th t = .done id op r → ∃ l ∈ c.lins, l.id = id ∧ l.op = op ∧ l.ret = r
  lin_after_inv : ∀ l ∈ c.lins, (∀ i ∈ c.invs, i.id = l.id → i.time < l.time) ∧
    ∃ i ∈ c.invs, i.id = l.id ∧ i.op = l.op
  res_after_lin : ∀ e ∈ c.ress, (∀ l ∈ c.lins, l.id = e.id → l.time < e.time) ∧
    ∃ l ∈ c.lins, l.id = e.id ∧ l.ret = e.ret

theorem seqRun_append (o : SeqObj S O R) (s : S) (ops : List O) (op : O) :
    seqRun o s (ops ++ [op]) =
      ((o.step (seqRun o s ops).1 op).1, (seqRun o s ops).2 ++ [(o.step (seqRun o s ops).1 op).2]) := by
  induction ops generalizing s with
  | nil => simp [seqRun]
  | cons x xs ih =>
    simp only [List.cons_append, seqRun]
    rw [ih]

theorem J_init (o : SeqObj S O R) : J o (CState.init o) := by
  constructor <;> simp [CState.init, carries, seqRun]

theorem setTh_same (th : Nat → TStatus O R) (t : Nat) (st : TStatus O R) : setTh th t st t = st := by
  simp [setTh]

theorem setTh_other (th : Nat → TStatus O R) (t u : Nat) (st : TStatus O R) (h : u ≠ t) : setTh th t st u = th u := by
  simp [setTh, h]

theorem J_step (o : SeqObj S O R) (c : CState S O R) (h : J o c) (a : Action O) : J o (cstep o c a) := by
  have bump : J o { c with time := c.time + 1 } :=
    { h with
      t_inv := fun e he => Nat.lt_succ_of_lt (h.t_inv e he)
      t_res := fun e he => Nat.lt_succ_of_lt (h.t_res e he)
      t_lin := fun e he => Nat.lt_succ_of_lt (h.t_lin e he) }
  cases a with
  | inv t op =>
    simp only [cstep]
    cases hst : c.th t with
    | pending id op' => exact bump
    | done id op' r => exact bump
    | idle =>
      simp only []
      have carr : ∀ u id, carries (setTh c.th t (.pending c.nextId op) u) id →
          (u = t ∧ id = c.nextId) ∨ (u ≠ t ∧ carries (c.th u) id) := by
        intro u id hc
        by_cases hu : u = t
        · subst hu; rw [setTh_same] at hc; exact Or.inl ⟨rfl, hc.symm⟩
        · rw [setTh_other _ _ _ _ hu] at hc; exact Or.inr ⟨hu, hc⟩
      refine
        { legal := h.legal
          t_inv := ?_, t_res := fun e he => Nat.lt_succ_of_lt (h.t_res e he)
          t_lin := fun e he => Nat.lt_succ_of_lt (h.t_lin e he)
          sorted := h.sorted
          id_lin := fun e he => Nat.lt_succ_of_lt (h.id_lin e he)
          id_res := fun e he => Nat.lt_succ_of_lt (h.id_res e he)
          id_th := ?_, th_distinct := ?_, res_finished := ?_, lin_not_pending := ?_
          pending_inv := ?_, done_lin := ?_, lin_after_inv := ?_, res_after_lin := h.res_after_lin }
      · intro e he
        rcases List.mem_append.mp he with h1 | h1
        · exact Nat.lt_succ_of_lt (h.t_inv e h1)
        · simp only [List.mem_singleton] at h1; subst h1; exact Nat.lt_succ_self _
      · intro u id hc
        rcases carr u id hc with ⟨_, rfl⟩ | ⟨_, h2⟩
        · exact Nat.lt_succ_self _
        · exact Nat.lt_succ_of_lt (h.id_th u id h2)
      · intro u v i hu hv
        rcases carr u i hu with ⟨hu1, hu2⟩ | ⟨hu1, hu2⟩ <;> rcases carr v i hv with ⟨hv1, hv2⟩ | ⟨hv1, hv2⟩
        · rw [hu1, hv1]
        · exact absurd (h.id_th v i hv2) (by rw [hu2]; exact Nat.lt_irrefl _)
        · exact absurd (h.id_th u i hu2) (by rw [hv2]; exact Nat.lt_irrefl _)
        · exact h.th_distinct u v i hu2 hv2
      · intro e he u hc
        rcases carr u e.id hc with ⟨_, h2⟩ | ⟨_, h2⟩
        · exact absurd (h.id_res e he) (by rw [h2]; exact Nat.lt_irrefl _)
        · exact h.res_finished e he u h2
      · intro e he u op' hp
        dsimp only at hp
        by_cases hu : u = t
        · subst hu
          rw [setTh_same] at hp
          injection hp with h1 h2
          exact absurd (h.id_lin e he) (by rw [← h1]; exact Nat.lt_irrefl _)
        · rw [setTh_other _ _ _ _ hu] at hp
          exact h.lin_not_pending e he u op' hp
      · intro u id op' hp
        dsimp only at hp
        by_cases hu : u = t
        · subst hu
          rw [setTh_same] at hp
          cases hp
          exact ⟨_, List.mem_append.mpr (Or.inr (List.mem_singleton.mpr rfl)), rfl, rfl⟩
        · rw [setTh_other _ _ _ _ hu] at hp
          obtain ⟨i, hi, h1, h2⟩ := h.pending_inv u id op' hp
          exact ⟨i, List.mem_append.mpr (Or.inl hi), h1, h2⟩
      · intro u id op' r hp
        dsimp only at hp
        by_cases hu : u = t
        · subst hu; rw [setTh_same] at hp; cases hp
        · rw [setTh_other _ _ _ _ hu] at hp
          exact h.done_lin u id op' r hp
      · intro l hl
        obtain ⟨h1, i, hi, h2, h3⟩ := h.lin_after_inv l hl
        refine ⟨?_, i, List.mem_append.mpr (Or.inl hi), h2, h3⟩
        intro j hj hid
        rcases List.mem_append.mp hj with h4 | h4
        · exact h1 j h4 hid
        · simp only [List.mem_singleton] at h4
          subst h4
          exact absurd (h.id_lin l hl) (by rw [← hid]; exact Nat.lt_irrefl _)
  | lin t =>
    simp only [cstep]
    cases hst : c.th t with
    | idle => exact bump
    | done id op' r => exact bump
    | pending id op =>
      simp only []
      have carr : ∀ u i, carries (setTh c.th t (.done id op (o.step c.obj op).2) u) i → carries (c.th u) i := by
        intro u i hc
        by_cases hu : u = t
        · subst hu; rw [setTh_same] at hc; rw [hst]; exact hc
        · rw [setTh_other _ _ _ _ hu] at hc; exact hc
      refine
        { legal := ?_
          t_inv := fun e he => Nat.lt_succ_of_lt (h.t_inv e he)
          t_res := fun e he => Nat.lt_succ_of_lt (h.t_res e he)
          t_lin := ?_, sorted := ?_, id_lin := ?_, id_res := h.id_res
          id_th := fun u i hc => h.id_th u i (carr u i hc)
          th_distinct := fun u v i hu hv => h.th_distinct u v i (carr u i hu) (carr v i hv)
          res_finished := fun e he u hc => h.res_finished e he u (carr u e.id hc)
          lin_not_pending := ?_, pending_inv := ?_, done_lin := ?_, lin_after_inv := ?_, res_after_lin := ?_ }
      · simp only [List.map_append, List.map_cons, List.map_nil]
        rw [seqRun_append, h.legal]
      · intro e he
        rcases List.mem_append.mp he with h1 | h1
        · exact Nat.lt_succ_of_lt (h.t_lin e h1)
        · simp only [List.mem_singleton] at h1; subst h1; exact Nat.lt_succ_self _
      · rw [List.pairwise_append]
        refine ⟨h.sorted, List.pairwise_singleton _ _, ?_⟩
        intro a ha b hb
        simp only [List.mem_singleton] at hb; subst hb
        exact h.t_lin a ha
      · intro e he
        rcases List.mem_append.mp he with h1 | h1
        · exact h.id_lin e h1
        · simp only [List.mem_singleton] at h1; subst h1
          exact h.id_th t id (by rw [hst]; rfl)
      · intro e he u op' hp
        dsimp only at hp
        by_cases hu : u = t
        · subst hu; rw [setTh_same] at hp; cases hp
        · rw [setTh_other _ _ _ _ hu] at hp
          rcases List.mem_append.mp he with h1 | h1
          · exact h.lin_not_pending e h1 u op' hp
          · simp only [List.mem_singleton] at h1; subst h1
            exact hu (h.th_distinct u t id (by rw [hp]; rfl) (by rw [hst]; rfl))
      · intro u i op' hp
        dsimp only at hp
        by_cases hu : u = t
        · subst hu; rw [setTh_same] at hp; cases hp
        · rw [setTh_other _ _ _ _ hu] at hp
          exact h.pending_inv u i op' hp
      · intro u i op' r hp
        dsimp only at hp
        by_cases hu : u = t
        · subst hu
          rw [setTh_same] at hp
          cases hp
          exact ⟨_, List.mem_append.mpr (Or.inr (List.mem_singleton.mpr rfl)), rfl, rfl, rfl⟩
        · rw [setTh_other _ _ _ _ hu] at hp
          obtain ⟨l, hl, h1⟩ := h.done_lin u i op' r hp
          exact ⟨l, List.mem_append.mpr (Or.inl hl), h1⟩
      · intro l hl
        rcases List.mem_append.mp hl with h1 | h1
        · exact h.lin_after_inv l h1
        · simp only [List.mem_singleton] at h1; subst h1
          obtain ⟨i, hi, h2, h3⟩ := h.pending_inv t id op hst
          exact ⟨fun j hj _ => h.t_inv j hj, i, hi, h2, h3⟩
      · intro e he
        obtain ⟨h1, l, hl, h2⟩ := h.res_after_lin e he
        refine ⟨?_, l, List.mem_append.mpr (Or.inl hl), h2⟩
        intro l' hl' hid
        rcases List.mem_append.mp hl' with h4 | h4
        · exact h1 l' h4 hid
        · simp only [List.mem_singleton] at h4; subst h4
          exact absurd (by rw [hst]; exact hid) (h.res_finished e he t)
  | res t =>
    simp only [cstep]
    cases hst : c.th t with
    | idle => exact bump
    | pending id op => exact bump
    | done id op r =>
      simp only []
      have carr : ∀ u i, carries (setTh c.th t .idle u) i → u ≠ t ∧ carries (c.th u) i := by
        intro u i hc
        by_cases hu : u = t
        · subst hu; rw [setTh_same] at hc; exact absurd hc (by simp [carries])
        · rw [setTh_other _ _ _ _ hu] at hc; exact ⟨hu, hc⟩
      refine
        { legal := h.legal
          t_inv := fun e he => Nat.lt_succ_of_lt (h.t_inv e he)
          t_res := ?_
          t_lin := fun e he => Nat.lt_succ_of_lt (h.t_lin e he)
          sorted := h.sorted, id_lin := h.id_lin, id_res := ?_
          id_th := fun u i hc => h.id_th u i (carr u i hc).2
          th_distinct := fun u v i hu hv => h.th_distinct u v i (carr u i hu).2 (carr v i hv).2
          res_finished := ?_, lin_not_pending := ?_, pending_inv := ?_, done_lin := ?_
          lin_after_inv := h.lin_after_inv, res_after_lin := ?_ }
      · intro e he
        rcases List.mem_append.mp he with h1 | h1
        · exact Nat.lt_succ_of_lt (h.t_res e h1)
        · simp only [List.mem_singleton] at h1; subst h1; exact Nat.lt_succ_self _
      · intro e he
        rcases List.mem_append.mp he with h1 | h1
        · exact h.id_res e h1
        · simp only [List.mem_singleton] at h1; subst h1
          exact h.id_th t id (by rw [hst]; rfl)
      · intro e he u hc
        obtain ⟨hu, hc'⟩ := carr u e.id hc
        rcases List.mem_append.mp he with h1 | h1
        · exact h.res_finished e h1 u hc'
        · simp only [List.mem_singleton] at h1; subst h1
          exact hu (h.th_distinct u t id hc' (by rw [hst]; rfl))
      · intro e he u op' hp
        dsimp only at hp
        by_cases hu : u = t
        · subst hu; rw [setTh_same] at hp; cases hp
        · rw [setTh_other _ _ _ _ hu] at hp; exact h.lin_not_pending e he u op' hp
      · intro u i op' hp
        dsimp only at hp
        by_cases hu : u = t
        · subst hu; rw [setTh_same] at hp; cases hp
        · rw [setTh_other _ _ _ _ hu] at hp; exact h.pending_inv u i op' hp
      · intro u i op' r' hp
        dsimp only at hp
        by_cases hu : u = t
        · subst hu; rw [setTh_same] at hp; cases hp
        · rw [setTh_other _ _ _ _ hu] at hp; exact h.done_lin u i op' r' hp
      · intro e he
        rcases List.mem_append.mp he with h1 | h1
        · exact h.res_after_lin e h1
        · simp only [List.mem_singleton] at h1; subst h1
          obtain ⟨l, hl, h2, _, h4⟩ := h.done_lin t id op r hst
          exact ⟨fun l' hl' _ => h.t_lin l' hl', l, hl, h2, h4⟩

theorem J_run (o : SeqObj S O R) (as : List (Action O)) : ∀ c, J o c → J o (crun o c as) := by
  induction as with
  | nil => intro c h; exact h
  | cons a as ih => intro c h; exact ih _ (J_step o c h a)

end Foyer.Conc
