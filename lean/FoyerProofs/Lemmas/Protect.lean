import FoyerProofs.Lemmas.CacheInv
import FoyerProofs.Lemmas.LawfulBasic
/-
  "Protected" records: a set of members a policy promises never to pop (LRU: the pin list).
  `protected_step`: a protected record is never a victim of any operation, and stays protected
  unless the operation addresses it (drop of its handle, touch / remove / insert of its key, clear).
-/
namespace Foyer

variable {σ : Type}

structure Protects (P : Policy σ) (Ok : σ → Prop) (prot : σ → List Rec) : Prop where
  sub : ∀ s, Ok s → ∀ r ∈ prot s, r ∈ P.members s
  pop : ∀ s r s', Ok s → P.pop s = some (r, s') → r ∉ prot s ∧ prot s' = prot s
  push : ∀ s r, Ok s → r.id ∉ (P.members s).map (·.id) → prot (P.push s r) = prot s
  remove : ∀ s x, Ok s → x ∈ P.members s → ∀ r ∈ prot s, r ≠ x → r ∈ prot (P.remove s x)
  acquire : ∀ s x, Ok s → ∀ r ∈ prot s, r ∈ prot (P.acquire s x)
  acquire_pins : ∀ s x, Ok s → x ∈ P.members s → x ∈ prot (P.acquire s x)
  release : ∀ s x, Ok s → ∀ r ∈ prot s, r.id ≠ x.id → r ∈ prot (P.release s x)
  update : ∀ s c, Ok s → prot (P.update s c) = prot s

variable {P : Policy σ} {Ok : σ → Prop} {prot : σ → List Rec}

/-- The eviction loop never pops a protected record and leaves the protected set alone. -/
theorem evictLoop_protects (L : Lawful P Ok) (H : Protects P Ok prot) (target : Nat) :
    ∀ (fuel : Nat) (s : Shard σ) (acc : List Rec), ShardInv P Ok s →
      prot (evictLoop P target fuel s acc).1.ev = prot s.ev ∧
      ∀ v ∈ (evictLoop P target fuel s acc).2.1, v ∈ acc ∨ v ∉ prot s.ev := by
  intro fuel
  induction fuel with
  | zero => intro s acc _; exact ⟨rfl, fun v hv => Or.inl hv⟩
  | succ fuel ih =>
    intro s acc h
    unfold evictLoop
    split
    · split
      · exact ⟨rfl, fun v hv => Or.inl hv⟩
      · rename_i r ev' hpop
        have hpm := L.pop_mem s.ev r ev' h.ok hpop
        have hri : r ∈ s.index := (h.mem_iff r).mp hpm.1
        have hfk : findKey r.key s.index = some r := findKey_of_mem h.keys hri
        obtain ⟨hnp, hpe⟩ := H.pop s.ev r ev' h.ok hpop
        simp only [hfk, if_true]
        -- the shard after the pop satisfies the invariant (same argument as in `evictLoop_spec`)
        have hw := wsum_eraseKey h.keys hfk
        have hl := length_eraseKey h.keys hfk
        have hmem1 : ∀ x, x ∈ eraseKey r.key s.index ↔ (x ∈ s.index ∧ x ≠ r) := by
          intro x
          rw [mem_eraseKey]
          constructor
          · rintro ⟨hx, hk⟩; exact ⟨hx, fun e => hk (by rw [e])⟩
          · rintro ⟨hx, hne⟩; exact ⟨hx, fun e => hne (eq_of_key_eq h.keys hx hri e)⟩
        have h1 : ShardInv P Ok { s with ev := ev', index := eraseKey r.key s.index,
                                         usage := s.usage - r.weight, entries := s.entries - 1 } := by
          refine ⟨L.pop_ok s.ev r ev' h.ok hpop, ?_, keysNodup_eraseKey h.keys, ?_, ?_⟩
          · intro x; rw [hpm.2 x, hmem1 x, h.mem_iff x]
          · show s.usage - r.weight = wsum (eraseKey r.key s.index)
            have := h.usage_eq; have := weight_le_wsum hri; omega
          · show s.entries - 1 = (eraseKey r.key s.index).length
            have := h.entries_eq; omega
        have := ih _ (acc ++ [r]) h1
        refine ⟨by rw [this.1]; exact hpe, ?_⟩
        intro v hv
        rcases this.2 v hv with h' | h'
        · rcases List.mem_append.mp h' with h'' | h''
          · exact Or.inl h''
          · simp only [List.mem_singleton] at h''
            subst h''
            exact Or.inr hnp
        · right
          show v ∉ prot s.ev
          rw [← hpe]; exact h'
    · exact ⟨rfl, fun v hv => Or.inl hv⟩

theorem evict_protects (L : Lawful P Ok) (H : Protects P Ok prot) (target : Nat) (s : Shard σ)
    (h : ShardInv P Ok s) :
    prot (Shard.evict P s target).1.ev = prot s.ev ∧ ∀ v ∈ (Shard.evict P s target).2.1, v ∉ prot s.ev := by
  have := evictLoop_protects L H target (s.index.length + 1) s [] h
  refine ⟨this.1, fun v hv => ?_⟩
  rcases this.2 v hv with h' | h'
  · cases h'
  · exact h'

/-- A record protected in some shard. -/
def Cache.protected (prot : σ → List Rec) (c : Cache σ) (r : Rec) : Prop :=
  ∃ (i : Nat) (s : Shard σ), c.shards[i]? = some s ∧ r ∈ prot s.ev

theorem protected_setAt_other {c : Cache σ} {r : Rec} {i j : Nat} {s s' : Shard σ}
    (hs : c.shards[i]? = some s) (hr : r ∈ prot s.ev) (hij : i ≠ j) (n : Nat) (hl : List (Rec × Nat)) :
    Cache.protected prot { shards := setAt c.shards j s', nextId := n, held := hl } r := by
  refine ⟨i, s, ?_, hr⟩
  simp only [getElem?_setAt]
  have : ¬ (i = j ∧ j < c.shards.length) := fun h => hij h.1
  simp [this, hs]

theorem protected_setAt_same {c : Cache σ} {r : Rec} {i : Nat} {s' : Shard σ}
    (hi : i < c.shards.length) (hr : r ∈ prot s'.ev) (n : Nat) (hl : List (Rec × Nat)) :
    Cache.protected prot { shards := setAt c.shards i s', nextId := n, held := hl } r :=
  ⟨i, s', by simp [getElem?_setAt, hi], hr⟩

theorem mem_leaves_mapShards (f : Nat → Shard σ → Shard σ × List (Reason × Rec) × Bool) :
    ∀ (l : List (Shard σ)) (i0 : Nat) (x : Reason × Rec), x ∈ (mapShards f i0 l).2.1 →
      ∃ (j : Nat) (s : Shard σ), l[j]? = some s ∧ x ∈ (f (i0 + j) s).2.1 := by
  intro l
  induction l with
  | nil => intro i0 x h; simp [mapShards] at h
  | cons t ts ih =>
    intro i0 x h
    simp only [mapShards, List.mem_append] at h
    rcases h with h | h
    · exact ⟨0, t, by simp, by simpa using h⟩
    · obtain ⟨j, s, hj, hx⟩ := ih (i0 + 1) x h
      refine ⟨j + 1, s, by simpa using hj, ?_⟩
      have e : i0 + (j + 1) = i0 + 1 + j := by omega
      rw [e]; exact hx

/-- **protected_step** -/
theorem protected_step (L : Lawful P Ok) (H : Protects P Ok prot) {cfg : Cfg} (hn : 0 < cfg.nshards)
    {c : Cache σ} (hc : CacheInv P Ok cfg c) (r : Rec) (hr : Cache.protected prot c r) (op : Op) :
    (Reason.evict, r) ∉ (Cache.step P cfg c op).2.leaves ∧
    (Cache.protected prot (Cache.step P cfg c op).1 r ∨ op = .drop r.id ∨ op = .touch r.key ∨
      op = .remove r.key ∨ (∃ v w h p l a, op = .ins r.key v w h p l a) ∨ op = .clear) := by
  obtain ⟨i, s, hs, hrs⟩ := hr
  have hsi := hc.shard i s hs
  have hrm : r ∈ P.members s.ev := H.sub s.ev hsi.ok r hrs
  have hri : r ∈ s.index := (hsi.mem_iff r).mp hrm
  have hpl := hc.placed i s hs r hri
  have hilt : i < c.shards.length := (List.getElem?_eq_some_iff.mp hs).1
  -- `r` lives in shard `i` only
  have only_i : ∀ (j : Nat) (t : Shard σ), c.shards[j]? = some t → r ∈ t.index → j = i := by
    intro j t ht hrt
    have := hc.placed j t ht r hrt
    rw [← this.2, hpl.2]
  -- victims of an eviction in any shard are not `r`
  have evict_ok : ∀ (j : Nat) (t : Shard σ) (tg : Nat), c.shards[j]? = some t →
      prot t.ev = prot t.ev → ∀ (t0 : Shard σ), ShardInv P Ok t0 → t0.index = t.index → prot t0.ev = prot t.ev →
      r ∉ (Shard.evict P t0 tg).2.1 := by
    intro j t tg ht _ t0 ht0 hidx hprot hv
    have es := evict_spec L tg t0 ht0
    obtain ⟨vs, hvs, _, _, _, _, hsub, _⟩ := es.victims
    simp only [List.nil_append] at hvs
    have hrt : r ∈ t.index := by rw [← hidx]; exact hsub r (by rw [← hvs]; exact hv)
    have hji := only_i j t ht hrt
    subst hji
    rw [hs] at ht; cases ht
    have := (evict_protects L H tg t0 ht0).2 r hv
    rw [hprot] at this
    exact this hrs
  cases op with
  | ins key ver weight hint phantom loc age =>
    simp only [Cache.step]
    split
    · exact ⟨by simp, Or.inl ⟨i, s, hs, hrs⟩⟩
    · rename_i t ht
      by_cases hij : i = cfg.shardOf (cfg.H key)
      · -- the insert goes to `r`'s shard
        subst hij
        rw [hs] at ht; cases ht
        by_cases hk : key = r.key
        · subst hk
          refine ⟨?_, Or.inr (Or.inr (Or.inr (Or.inr (Or.inl ⟨ver, weight, hint, phantom, loc, age, rfl⟩))))⟩
          -- `r` may leave as `replace`, never as `evict`
          cases phantom with
          | true =>
            have sp := emplace_phantom_spec (r := { id := c.nextId, key := r.key, hash := cfg.H r.key, ver, weight, hint, phantom := true, loc, age }) L hsi rfl
            generalize Shard.emplace P s _ = res at sp
            obtain ⟨s', lv, pk⟩ := res
            intro hmem
            exact sp.2.2.2.2.2.2 Reason.evict r hmem rfl
          | false =>
            simp only [Shard.emplace, Bool.false_eq_true, if_false]
            have hev := evict_protects L H (s.cap - weight) s hsi
            have es := evict_spec L (s.cap - weight) s hsi
            generalize Shard.evict P s (s.cap - weight) = ev at hev es
            obtain ⟨s1, vs, pk⟩ := ev
            simp only [] at hev ⊢
            split
            · intro hmem
              simp only [List.mem_append, List.mem_map, List.mem_singleton, Prod.mk.injEq] at hmem
              rcases hmem with ⟨v, hv, _, rfl⟩ | ⟨h1, _⟩
              · exact hev.2 v hv hrs
              · cases h1
            · intro hmem
              simp only [List.mem_map, Prod.mk.injEq] at hmem
              obtain ⟨v, hv, _, rfl⟩ := hmem
              exact hev.2 v hv hrs
        · -- another key of the same shard: `r` stays indexed and protected
          cases phantom with
          | true =>
            simp only [Shard.emplace, if_true]
            split
            · rename_i old hold
              have hoi := findKey_some hold
              have hne : r ≠ old := fun e => hk (by rw [e, hoi.2])
              have hid := hasId_members_iff L hsi hoi.1
              refine ⟨(by simp), Or.inl ?_⟩
              apply protected_setAt_same hilt
              show r ∈ prot (Shard.unlink P s old).ev
              simp only [Shard.unlink, hid, if_true]
              exact H.remove s.ev old hsi.ok ((hsi.mem_iff old).mpr hoi.1) r hrs hne
            · refine ⟨by simp, Or.inl ?_⟩
              exact protected_setAt_same hilt hrs _ _
          | false =>
            simp only [Shard.emplace, Bool.false_eq_true, if_false]
            have hev := evict_protects L H (s.cap - weight) s hsi
            have es := evict_spec L (s.cap - weight) s hsi
            generalize Shard.evict P s (s.cap - weight) = ev at hev es
            obtain ⟨s1, vs, pk⟩ := ev
            simp only [] at hev es ⊢
            have h1 : ShardInv P Ok s1 := es.inv
            obtain ⟨vs', hvs, _, _, _, hidx, hsub, _⟩ := es.victims
            simp only [List.nil_append] at hvs
            have hrs1 : r ∈ prot s1.ev := by rw [hev.1]; exact hrs
            have hfresh1 : ∀ x ∈ s1.index, x.id ≠ c.nextId := fun x hx =>
              Nat.ne_of_lt (hc.fresh _ s hs x ((hidx x).mp hx).1)
            split
            · rename_i old hold
              have hoi := findKey_some hold
              have hne : r ≠ old := fun e => hk (by rw [e, hoi.2])
              have hid := hasId_members_iff L h1 hoi.1
              simp only [hid, if_true]
              have hm : old ∈ P.members s1.ev := (h1.mem_iff old).mpr hoi.1
              have hokr := L.remove_ok _ _ h1.ok hm
              have hnotin : c.nextId ∉ (P.members (P.remove s1.ev old)).map (·.id) := by
                intro hc'
                obtain ⟨x, hx, hxe⟩ := List.mem_map.mp hc'
                have := (L.remove_mem _ _ h1.ok hm x).mp hx
                exact hfresh1 x ((h1.mem_iff x).mp this.1) hxe
              refine ⟨?_, Or.inl ?_⟩
              · intro hmem
                simp only [List.mem_append, List.mem_map, List.mem_singleton, Prod.mk.injEq] at hmem
                rcases hmem with ⟨v, hv, _, rfl⟩ | ⟨h1', _⟩
                · exact hev.2 v hv hrs
                · cases h1'
              · apply protected_setAt_same hilt
                show r ∈ prot (P.push (P.remove s1.ev old) _)
                rw [H.push _ _ hokr hnotin]
                exact H.remove s1.ev old h1.ok hm r hrs1 hne
            · have hnotin : c.nextId ∉ (P.members s1.ev).map (·.id) := by
                intro hc'
                obtain ⟨x, hx, hxe⟩ := List.mem_map.mp hc'
                exact hfresh1 x ((h1.mem_iff x).mp hx) hxe
              refine ⟨?_, Or.inl ?_⟩
              · intro hmem
                simp only [List.mem_map, Prod.mk.injEq] at hmem
                obtain ⟨v, hv, _, rfl⟩ := hmem
                exact hev.2 v hv hrs
              · apply protected_setAt_same hilt
                show r ∈ prot (P.push s1.ev _)
                rw [H.push _ _ h1.ok hnotin]
                exact hrs1
      · -- another shard: nothing of `r`'s shard changes, and its victims are not `r`
        refine ⟨?_, Or.inl (protected_setAt_other hs hrs hij _ _)⟩
        intro hmem
        have hti := hc.shard _ t ht
        have hrt : r ∈ t.index := by
          cases phantom with
          | true =>
            have sp := emplace_phantom_spec (r := { id := c.nextId, key, hash := cfg.H key, ver, weight, hint, phantom := true, loc, age }) L hti rfl
            generalize Shard.emplace P t _ = res at sp hmem
            obtain ⟨s', lv, pk⟩ := res
            exact absurd rfl (sp.2.2.2.2.2.2 Reason.evict r hmem)
          | false =>
            have sp := emplace_spec (r := { id := c.nextId, key, hash := cfg.H key, ver, weight, hint, phantom := false, loc, age }) L hti rfl
              (fun x hx => Nat.ne_of_lt (hc.fresh _ t ht x hx))
            generalize Shard.emplace P t _ = res at sp hmem
            obtain ⟨s', lv, pk⟩ := res
            obtain ⟨s1, vs, repl, hevq, es, hlv, hcase⟩ := sp.shape
            obtain ⟨vs', hvs, _, _, _, _, hsub, _⟩ := es.victims
            simp only [List.nil_append] at hvs
            have hlv' : lv = vs.map (fun v => (Reason.evict, v)) ++ repl := hlv
            have hmem' : (Reason.evict, r) ∈ lv := hmem
            rw [hlv'] at hmem'
            rcases List.mem_append.mp hmem' with h | h
            · simp only [List.mem_map, Prod.mk.injEq] at h
              obtain ⟨v, hv, _, rfl⟩ := h
              exact hsub v (by rw [← hvs]; exact hv)
            · rcases hcase with ⟨h1, _⟩ | ⟨old, h1, _⟩
              · rw [h1] at h; cases h
              · rw [h1] at h; simp at h
        exact hij (only_i _ t ht hrt).symm
  | get key =>
    simp only [Cache.step]
    split
    · exact ⟨by simp, Or.inl ⟨i, s, hs, hrs⟩⟩
    · rename_i t ht
      split
      · exact ⟨by simp, Or.inl ⟨i, s, hs, hrs⟩⟩
      · rename_i x hx
        refine ⟨by simp, Or.inl ?_⟩
        by_cases hij : i = cfg.shardOf (cfg.H key)
        · subst hij
          rw [hs] at ht; cases ht
          exact protected_setAt_same hilt (H.acquire s.ev x hsi.ok r hrs) _ _
        · exact protected_setAt_other hs hrs hij _ _
  | touch key =>
    simp only [Cache.step]
    split
    · exact ⟨by simp, Or.inl ⟨i, s, hs, hrs⟩⟩
    · rename_i t ht
      split
      · exact ⟨by simp, Or.inl ⟨i, s, hs, hrs⟩⟩
      · rename_i x hx
        refine ⟨by simp, ?_⟩
        by_cases hij : i = cfg.shardOf (cfg.H key)
        · subst hij
          rw [hs] at ht; cases ht
          have hxi := findKey_some hx
          by_cases hxr : x = r
          · subst hxr
            exact Or.inr (Or.inr (Or.inl (by rw [hxi.2])))
          · left
            split
            · apply protected_setAt_same hilt
              have hne : r.id ≠ x.id := fun e =>
                hxr (eq_of_id_eq (L.nodup s.ev hsi.ok) ((hsi.mem_iff x).mpr hxi.1) hrm e.symm)
              exact H.release _ x (L.acquire_ok _ x hsi.ok) r (H.acquire s.ev x hsi.ok r hrs) hne
            · exact protected_setAt_same hilt (H.acquire s.ev x hsi.ok r hrs) _ _
        · exact Or.inl (protected_setAt_other hs hrs hij _ _)
  | contains key =>
    simp only [Cache.step]
    split <;> exact ⟨by simp, Or.inl ⟨i, s, hs, hrs⟩⟩
  | remove key =>
    simp only [Cache.step]
    split
    · exact ⟨by simp, Or.inl ⟨i, s, hs, hrs⟩⟩
    · rename_i t ht
      split
      · exact ⟨by simp, Or.inl ⟨i, s, hs, hrs⟩⟩
      · rename_i x hx
        refine ⟨(by simp), ?_⟩
        by_cases hij : i = cfg.shardOf (cfg.H key)
        · subst hij
          rw [hs] at ht; cases ht
          have hxi := findKey_some hx
          by_cases hxr : x = r
          · subst hxr
            exact Or.inr (Or.inr (Or.inr (Or.inl (by rw [hxi.2]))))
          · left
            apply protected_setAt_same hilt
            have hid := hasId_members_iff L hsi hxi.1
            show r ∈ prot (Shard.unlink P s x).ev
            simp only [Shard.unlink, hid, if_true]
            exact H.remove s.ev x hsi.ok ((hsi.mem_iff x).mpr hxi.1) r hrs (fun e => hxr e.symm)
        · exact Or.inl (protected_setAt_other hs hrs hij _ _)
  | clone rid =>
    simp only [Cache.step]
    split
    · exact ⟨by simp, Or.inl ⟨i, s, hs, hrs⟩⟩
    · exact ⟨by simp, Or.inl ⟨i, s, hs, hrs⟩⟩
  | drop rid =>
    simp only [Cache.step]
    split
    · exact ⟨by simp, Or.inl ⟨i, s, hs, hrs⟩⟩
    · rename_i x hx
      have hxid : x.id = rid := by
        have : ∀ (l : List (Rec × Nat)), heldFind l rid = some x → x.id = rid := by
          intro l
          induction l with
          | nil => intro h; simp [heldFind] at h
          | cons y ys ih =>
            intro h
            simp only [heldFind] at h
            split at h
            · rename_i hy; cases h; exact hy
            · exact ih h
        exact this _ hx
      by_cases hrid : rid = r.id
      · subst hrid
        refine ⟨?_, Or.inr (Or.inl rfl)⟩
        split
        · split
          · rename_i hph
            -- a phantom record is never indexed, so it is not `r`
            intro hmem
            simp only [List.mem_singleton, Prod.mk.injEq] at hmem
            have := hc.real i s hs r hri
            rw [← hmem.2] at hph
            rw [this] at hph; cases hph
          · split <;> simp
        · simp
      · split
        · split
          · refine ⟨?_, Or.inl ⟨i, s, hs, hrs⟩⟩
            intro hmem
            simp only [List.mem_singleton, Prod.mk.injEq] at hmem
            exact hrid (by rw [← hxid, hmem.2])
          · split
            · exact ⟨by simp, Or.inl ⟨i, s, hs, hrs⟩⟩
            · rename_i t ht
              refine ⟨by simp, Or.inl ?_⟩
              by_cases hij : i = cfg.shardOf x.hash
              · subst hij
                rw [hs] at ht; cases ht
                exact protected_setAt_same hilt (H.release s.ev x hsi.ok r hrs (fun e => hrid (by rw [← hxid, e]))) _ _
              · exact protected_setAt_other hs hrs hij _ _
        · exact ⟨by simp, Or.inl ⟨i, s, hs, hrs⟩⟩
  | clear =>
    simp only [Cache.step]
    refine ⟨?_, Or.inr (Or.inr (Or.inr (Or.inr (Or.inr trivial))))⟩
    intro hmem
    obtain ⟨j, t, _, hx⟩ := mem_leaves_mapShards _ _ _ _ hmem
    simp only [List.mem_map, Prod.mk.injEq] at hx
    obtain ⟨_, _, h, _⟩ := hx
    cases h
  | resize cap =>
    simp only [Cache.step]
    constructor
    · intro hmem
      obtain ⟨j, t, ht, hx⟩ := mem_leaves_mapShards _ _ _ _ hmem
      simp only [List.mem_map, Prod.mk.injEq, Nat.zero_add] at hx
      obtain ⟨v, hv, _, rfl⟩ := hx
      have hti := hc.shard j t ht
      have h1 : ShardInv P Ok { t with ev := P.update t.ev (shardCapacityFor cap c.shards.length j),
                                       cap := shardCapacityFor cap c.shards.length j } :=
        ⟨L.update_ok _ _ hti.ok, fun x => by rw [L.update_mem _ _ hti.ok x]; exact hti.mem_iff x,
          hti.keys, hti.usage_eq, hti.entries_eq⟩
      exact evict_ok j t _ ht rfl _ h1 rfl (H.update t.ev _ hti.ok) hv
    · left
      have h1 : ShardInv P Ok { s with ev := P.update s.ev (shardCapacityFor cap c.shards.length i),
                                       cap := shardCapacityFor cap c.shards.length i } :=
        ⟨L.update_ok _ _ hsi.ok, fun x => by rw [L.update_mem _ _ hsi.ok x]; exact hsi.mem_iff x,
          hsi.keys, hsi.usage_eq, hsi.entries_eq⟩
      refine ⟨i, _, by rw [mapShards_getElem?, hs]; rfl, ?_⟩
      simp only [Nat.zero_add]
      rw [(evict_protects L H _ _ h1).1]
      show r ∈ prot (P.update s.ev _)
      rw [H.update s.ev _ hsi.ok]; exact hrs
  | evictAll =>
    simp only [Cache.step]
    constructor
    · intro hmem
      obtain ⟨j, t, ht, hx⟩ := mem_leaves_mapShards _ _ _ _ hmem
      simp only [List.mem_map, Prod.mk.injEq, Nat.zero_add] at hx
      obtain ⟨v, hv, _, rfl⟩ := hx
      exact evict_ok j t 0 ht rfl t (hc.shard j t ht) rfl rfl hv
    · left
      refine ⟨i, _, by rw [mapShards_getElem?, hs]; rfl, ?_⟩
      simp only [Nat.zero_add]
      rw [(evict_protects L H 0 s hsi).1]; exact hrs
  | flush =>
    simp only [Cache.step]
    constructor
    · intro hmem
      obtain ⟨j, t, ht, hx⟩ := mem_leaves_mapShards _ _ _ _ hmem
      simp only [List.mem_map, Prod.mk.injEq, Nat.zero_add] at hx
      obtain ⟨v, hv, _, rfl⟩ := hx
      exact evict_ok j t 0 ht rfl t (hc.shard j t ht) rfl rfl hv
    · left
      refine ⟨i, _, by rw [mapShards_getElem?, hs]; rfl, ?_⟩
      simp only [Nat.zero_add]
      rw [(evict_protects L H 0 s hsi).1]; exact hrs

end Foyer
