import FoyerModel.Policies.Lfu
import FoyerProofs.Lemmas.LawfulOfPerm
/-
  w-TinyLFU is a lawful policy (for any sketch configuration / bucket function).
-/
namespace Foyer

theorem lfuWindowOverflow_perm (cap : Nat) : ∀ (w p : List Rec) (ww pw : Nat),
    let res := lfuWindowOverflow cap w p ww pw
    (res.1 ++ res.2.1).Perm (w ++ p) := by
  intro w
  induction w with
  | nil => intro p ww pw; simp [lfuWindowOverflow]
  | cons r rs ih =>
    intro p ww pw
    simp only [lfuWindowOverflow]
    split
    · have := ih (p ++ [r]) (ww - r.weight) (pw + r.weight)
      simp only [] at this ⊢
      refine this.trans ?_
      grind
    · exact List.Perm.refl _

theorem lfuProtectedOverflow_perm (cap : Nat) : ∀ (t p : List Rec) (tw pw : Nat),
    let res := lfuProtectedOverflow cap t p tw pw
    (res.1 ++ res.2.1).Perm (t ++ p) := by
  intro t
  induction t with
  | nil => intro p tw pw; simp [lfuProtectedOverflow]
  | cons r rs ih =>
    intro p tw pw
    simp only [lfuProtectedOverflow]
    split
    · have := ih (p ++ [r]) (tw - r.weight) (pw + r.weight)
      simp only [] at this ⊢
      refine this.trans ?_
      grind
    · exact List.Perm.refl _

theorem touchFreq_queues (k : SketchCfg) (s : Lfu) (h : Nat) :
    (Lfu.touchFreq k s h).window = s.window ∧ (Lfu.touchFreq k s h).probation = s.probation ∧
    (Lfu.touchFreq k s h).prot = s.prot ∧ (Lfu.touchFreq k s h).wCap = s.wCap ∧
    (Lfu.touchFreq k s h).tCap = s.tCap ∧ (Lfu.touchFreq k s h).ww = s.ww ∧
    (Lfu.touchFreq k s h).pw = s.pw ∧ (Lfu.touchFreq k s h).tw = s.tw := by
  unfold Lfu.touchFreq
  simp only []
  split <;> simp

theorem hasId_true {i : Nat} {l : List Rec} (h : hasId i l = true) : ∃ x ∈ l, x.id = i := by
  unfold hasId at h
  cases hf : findId i l with
  | none => simp [hf] at h
  | some x => exact ⟨x, (findId_some hf).1, (findId_some hf).2⟩

theorem hasId_false {i : Nat} {l : List Rec} (h : ¬ hasId i l = true) : ∀ x ∈ l, x.id ≠ i := by
  intro x hx hid
  apply h
  unfold hasId
  have : ∀ (l : List Rec), x ∈ l → (findId i l).isSome = true := by
    intro l hl
    induction l with
    | nil => cases hl
    | cons y ys ih =>
      simp only [findId]
      split
      · rfl
      · rename_i hne
        rcases List.mem_cons.mp hl with rfl | h'
        · exact absurd hid hne
        · exact ih h'
  exact this l hx

theorem perm_eraseId {l : List Rec} {x : Rec} (hn : idsNodup l) (hx : x ∈ l) : l.Perm (x :: eraseId x.id l) := by
  have : eraseId x.id l = l.filter (fun y => y.id ≠ x.id) := by
    clear hn hx
    induction l with
    | nil => rfl
    | cons y ys ih =>
      simp only [eraseId, List.filter_cons]
      split <;> simp_all
  rw [this]
  exact perm_cons_filter (fun (r : Rec) => r.id) l x hn hx

theorem idsNodup_parts {a b c : List Rec} (h : idsNodup (a ++ b ++ c)) : idsNodup a ∧ idsNodup b ∧ idsNodup c := by
  rw [idsNodup_append, idsNodup_append] at h
  exact ⟨h.1.1, h.1.2.1, h.2.1⟩

theorem lfu_permLaws (wf pf : Nat → Nat) (k : SketchCfg) : PermLaws (lfuPolicy wf pf k) (fun _ => True) where
  init_I _ := trivial
  init_members _ := rfl
  push s r _ _ _ := by
    refine ⟨trivial, ?_⟩
    simp only [lfuPolicy]
    obtain ⟨h1, h2, h3, _⟩ := touchFreq_queues k { s with ww := s.ww + r.weight } r.hash
    generalize Lfu.touchFreq k { s with ww := s.ww + r.weight } r.hash = s1 at *
    have := lfuWindowOverflow_perm s1.wCap (s1.window ++ [r]) s1.probation s1.ww s1.pw
    generalize lfuWindowOverflow s1.wCap (s1.window ++ [r]) s1.probation s1.ww s1.pw = res at *
    obtain ⟨w, p, ww, pw⟩ := res
    show (w ++ p ++ s1.prot).Perm (r :: (s.window ++ s.probation ++ s.prot))
    simp only [] at this
    rw [h1, h2] at this
    rw [h3]
    have := this.append_right s.prot
    refine this.trans ?_
    grind
  pop s r s' _ _ hp := by
    refine ⟨trivial, ?_⟩
    simp only [lfuPolicy] at hp
    split at hp
    · rename_i hw hpb
      split at hp
      · cases hp
      · rename_i x rest ht
        cases hp
        show (s.window ++ s.probation ++ s.prot).Perm (r :: (s.window ++ s.probation ++ rest))
        rw [hw, hpb, ht]; simp
    · rename_i p ps hw hpb
      cases hp
      show (s.window ++ s.probation ++ s.prot).Perm (r :: (s.window ++ ps ++ s.prot))
      rw [hw, hpb]; simp
    · rename_i w ws hw hpb
      cases hp
      show (s.window ++ s.probation ++ s.prot).Perm (r :: (ws ++ s.probation ++ s.prot))
      rw [hw, hpb]; simp
    · rename_i w ws p ps hw hpb
      split at hp
      · cases hp
        show (s.window ++ s.probation ++ s.prot).Perm (r :: (ws ++ s.probation ++ s.prot))
        rw [hw]; simp
      · cases hp
        show (s.window ++ s.probation ++ s.prot).Perm (r :: (s.window ++ ps ++ s.prot))
        rw [hpb]; grind
  remove s r _ hn hr := by
    refine ⟨trivial, ?_⟩
    have hn' : idsNodup (s.window ++ s.probation ++ s.prot) := hn
    have hr' : r ∈ s.window ++ s.probation ++ s.prot := hr
    obtain ⟨hnw, hnp, hnt⟩ := idsNodup_parts hn'
    simp only [lfuPolicy]
    split
    · rename_i h
      obtain ⟨x, hx, hid⟩ := hasId_true h
      have : x = r := eq_of_id_eq hn' (by simp [hx]) hr' hid
      subst this
      show (s.window ++ s.probation ++ s.prot).Perm (x :: (eraseId x.id s.window ++ s.probation ++ s.prot))
      have := ((perm_eraseId hnw hx).append_right s.probation).append_right s.prot
      simpa using this
    · rename_i hw
      split
      · rename_i h
        obtain ⟨x, hx, hid⟩ := hasId_true h
        have : x = r := eq_of_id_eq hn' (by simp [hx]) hr' hid
        subst this
        show (s.window ++ s.probation ++ s.prot).Perm (x :: (s.window ++ eraseId x.id s.probation ++ s.prot))
        have := ((perm_eraseId hnp hx).append_left s.window).append_right s.prot
        refine this.trans ?_
        grind
      · rename_i hp
        have hrt : r ∈ s.prot := by
          rcases List.mem_append.mp hr' with h | h
          · rcases List.mem_append.mp h with h | h
            · exact absurd rfl (hasId_false hw r h)
            · exact absurd rfl (hasId_false hp r h)
          · exact h
        show (s.window ++ s.probation ++ s.prot).Perm (r :: (s.window ++ s.probation ++ eraseId r.id s.prot))
        have := (perm_eraseId hnt hrt).append_left (s.window ++ s.probation)
        refine this.trans ?_
        grind
  acquire s r _ hn := by
    refine ⟨trivial, ?_⟩
    have hn' : idsNodup (s.window ++ s.probation ++ s.prot) := hn
    obtain ⟨hnw, hnp, hnt⟩ := idsNodup_parts hn'
    simp only [lfuPolicy]
    obtain ⟨h1, h2, h3, _⟩ := touchFreq_queues k s r.hash
    generalize Lfu.touchFreq k s r.hash = s1 at *
    split
    · rename_i x hf
      rw [h1] at hf
      obtain ⟨hx, hid⟩ := findId_some hf
      show (eraseId r.id s1.window ++ [x] ++ s1.probation ++ s1.prot).Perm (s.window ++ s.probation ++ s.prot)
      rw [h1, h2, h3, ← hid]
      have := ((perm_eraseId hnw hx).append_right s.probation).append_right s.prot
      refine List.Perm.trans ?_ this.symm
      grind
    · split
      · rename_i x hf
        rw [h2] at hf
        obtain ⟨hx, hid⟩ := findId_some hf
        have := lfuProtectedOverflow_perm s1.tCap (s1.prot ++ [x]) (eraseId r.id s1.probation) (s1.tw + x.weight) (s1.pw - x.weight)
        generalize lfuProtectedOverflow s1.tCap (s1.prot ++ [x]) (eraseId r.id s1.probation) (s1.tw + x.weight) (s1.pw - x.weight) = res at *
        obtain ⟨t, p, tw, pw⟩ := res
        show (s1.window ++ p ++ t).Perm (s.window ++ s.probation ++ s.prot)
        simp only [] at this
        rw [h1]
        rw [h2, h3, ← hid] at this
        have h4 := ((perm_eraseId hnp hx).append_left s.window).append_right s.prot
        refine List.Perm.trans ?_ h4.symm
        have h5 : (s.window ++ p ++ t).Perm (s.window ++ (t ++ p)) := by grind
        refine h5.trans ?_
        refine (this.append_left s.window).trans ?_
        grind
      · split
        · rename_i x hf
          rw [h3] at hf
          obtain ⟨hx, hid⟩ := findId_some hf
          show (s1.window ++ s1.probation ++ (eraseId r.id s1.prot ++ [x])).Perm (s.window ++ s.probation ++ s.prot)
          rw [h1, h2, h3, ← hid]
          have := (perm_eraseId hnt hx).append_left (s.window ++ s.probation)
          refine List.Perm.trans ?_ this.symm
          grind
        · show (s1.window ++ s1.probation ++ s1.prot).Perm (s.window ++ s.probation ++ s.prot)
          rw [h1, h2, h3]
  release _ _ _ _ := ⟨trivial, List.Perm.refl _⟩
  update _ _ _ _ := ⟨trivial, List.Perm.refl _⟩
  clear _ _ _ := ⟨trivial, rfl⟩

end Foyer

namespace Foyer
theorem lfu_lawful (wf pf : Nat → Nat) (k : SketchCfg) :
    Lawful (lfuPolicy wf pf k) (fun s => True ∧ idsNodup ((lfuPolicy wf pf k).members s)) :=
  Lawful.ofPerm (lfu_permLaws wf pf k)
end Foyer
