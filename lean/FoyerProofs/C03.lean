import FoyerProofs.C08
import FoyerProofs.C04
/-
  C03 — corrupted or misdirected disk bytes never surface as a cached value.

  The load path of the model (`Foyer.Codec.decEntry`: header, range, checksum — then the caller's key
  comparison, `Foyer.Hyb.disk_lookup_own_key_or_miss`) for *arbitrary* bytes:

    * whatever `decEntry` accepts is, bit for bit, the byte string the checksum stored in the header
      vouches for (`decEntry_sound`);
    * if the header of a genuinely stored entry is followed by other bytes than were stored, the load
      fails unless the checksum function cannot tell the two payloads apart
      (`load_genuine_or_error`; `decEntry_detects`, `decHeader_rejects` from C08);
    * recovery only takes entries listed in (checksummed) blob index pages that are on the device
      (`scan_subset`, `recoverBlock_subset` from C04).

  The idealisation "XxHash64 tells the damaged payload from the stored one" is the hypothesis of
  `load_genuine_or_error`; the fault-injection campaign checks it on every injected fault.
-/
namespace Foyer.Codec

/-- **Whatever the device returned, a successful load yields exactly the bytes the header's checksum
covers**: the value and key are cut out of the bytes read, at the lengths the header states, and
their checksum is the stored one. -/
theorem decEntry_sound (cs : Bytes → Nat) (bs : Bytes) (h : Header) (v k : Bytes)
    (hd : decEntry cs bs = .ok (h, v, k)) :
    ∃ rest, decHeader bs = .ok (h, rest) ∧ h.valueLen + h.keyLen ≤ rest.length ∧
      cs (rest.take (h.valueLen + h.keyLen)) = h.checksum ∧
      v = rest.take h.valueLen ∧ k = (rest.drop h.valueLen).take h.keyLen := by
  unfold decEntry at hd
  cases hh : decHeader bs with
  | error e => rw [hh] at hd; cases hd
  | ok p =>
    obtain ⟨h0, rest⟩ := p
    rw [hh] at hd
    simp only at hd
    split at hd
    · cases hd
    · rename_i hlen
      split at hd
      · cases hd
      · rename_i hcs
        simp only [Except.ok.injEq, Prod.mk.injEq] at hd
        obtain ⟨h1, h2, h3⟩ := hd
        subst h1
        refine ⟨rest, rfl, by omega, ?_, h2.symm, h3.symm⟩
        simpa using hcs

/-- **A genuine header followed by the wrong bytes is rejected** (or, if the bytes are the stored
ones, yields exactly the stored value and key) — provided the checksum function tells the damaged
payload from the stored one. -/
theorem load_genuine_or_error (cs : Bytes → Nat) (h : Header) (hw : h.wf) (stored damaged pad : Bytes)
    (hs : stored.length = h.valueLen + h.keyLen) (hd : damaged.length = h.valueLen + h.keyLen)
    (hstored : h.checksum = cs stored) (hnoforgery : cs damaged = cs stored → damaged = stored) :
    decEntry cs (encHeader h ++ damaged ++ pad) = .error .checksum ∨
    decEntry cs (encHeader h ++ damaged ++ pad) = .ok (h, stored.take h.valueLen, (stored.drop h.valueLen).take h.keyLen) := by
  by_cases hc : cs damaged = h.checksum
  · right
    have heq : damaged = stored := hnoforgery (by rw [hc, hstored])
    subst heq
    unfold decEntry
    rw [List.append_assoc, decHeader_encHeader _ hw]
    simp only []
    have h1 : ¬ ((damaged ++ pad).length < h.valueLen + h.keyLen) := by
      simp only [List.length_append]; omega
    have h2 : (damaged ++ pad).take (h.valueLen + h.keyLen) = damaged := by
      rw [← hs, List.take_left']; rfl
    have h3 : (damaged ++ pad).take h.valueLen = damaged.take h.valueLen := by
      rw [List.take_append_of_le_length (by omega)]
    have h4 : ((damaged ++ pad).drop h.valueLen).take h.keyLen = (damaged.drop h.valueLen).take h.keyLen := by
      rw [List.drop_append_of_le_length (by omega), List.take_append_of_le_length (by simp; omega)]
    simp only [h1, if_false, h2, hc, ne_eq, not_true_eq_false, h3, h4]
  · left
    exact decEntry_detects cs h hw damaged pad hd hc

end Foyer.Codec
