import FoyerProofs.Lemmas.HeldInv
import FoyerProofs.Lemmas.LawfulLru
import FoyerProofs.C05
import FoyerProofs.C02
import FoyerProofs.C14
/-
  C18 — Handles pin what they reference and report outdatedness truthfully.

  * `held_data_stable` (= C02 Part C): a held handle keeps denoting the same, unchanged record;
  * under LRU a record that was looked up and is still held sits in the pin list (`lru_get_pins`),
    is never an eviction victim and stays pinned until an operation addresses it
    (`lru_held_not_victim`);
  * nothing leaks: every pinned record has an outstanding handle in every reachable state
    (`lru_pinned_is_held`), so a cache with no outstanding handles is brought back within capacity
    by the next insert (`lru_no_leak`).
  `is_outdated()` is *defined* in the model as "a lookup of the key no longer returns this record";
  that the implementation's `IN_INDEXER` flag agrees is checked by the correspondence (field `held`).
-/
namespace Foyer.C18

abbrev LruOk (capFn : Nat → Nat) : Lru → Prop := fun s => LruI s ∧ idsNodup ((lruPolicy capFn).members s)

def lruPin (s : Lru) : List Rec := s.pin.map (·.r)

theorem mem_pin_members (capFn : Nat → Nat) (s : Lru) (r : Rec) (h : r ∈ lruPin s) : r ∈ (lruPolicy capFn).members s := by
  show r ∈ (s.low ++ s.high ++ s.pin).map (·.r)
  simp only [List.map_append, List.mem_append]
  exact Or.inr h

theorem withOverflow_pin (s : Lru) : (Lru.withOverflow s).pin = s.pin := by
  unfold Lru.withOverflow
  generalize lruOverflow s.hpCap s.high s.low s.hw = res
  obtain ⟨h, l, w⟩ := res
  rfl

theorem mem_map_eraseEnt {l : List LruEnt} {i : Nat} {r : Rec} :
    r ∈ (eraseEnt i l).map (·.r) ↔ r ∈ l.map (·.r) ∧ r.id ≠ i := by
  simp only [List.mem_map, mem_eraseEnt]
  constructor
  · rintro ⟨e, ⟨he, hne⟩, rfl⟩; exact ⟨⟨e, he, rfl⟩, hne⟩
  · rintro ⟨⟨e, he, rfl⟩, hne⟩; exact ⟨e, ⟨he, hne⟩, rfl⟩

theorem lru_protects (capFn : Nat → Nat) : Protects (lruPolicy capFn) (LruOk capFn) lruPin where
  sub s _ r h := mem_pin_members capFn s r h
  pop s r s' h hp := by
    obtain ⟨h1, h2⟩ := C14.lru_never_pops_pinned capFn s r s' h.2 hp
    exact ⟨h1, by unfold lruPin; rw [h2]⟩
  push s r _ _ := by
    simp only [lruPolicy, lruPin]
    split
    · rw [withOverflow_pin]
    · rfl
  remove s x h hx r hr hne := by
    have hrm := mem_pin_members capFn s r hr
    have hid : r.id ≠ x.id := fun e => hne (eq_of_id_eq h.2 hrm hx e)
    simp only [lruPolicy, lruPin]
    split
    · exact mem_map_eraseEnt.mpr ⟨hr, hid⟩
    · split <;> exact hr
  acquire s x _ r hr := by
    simp only [lruPolicy, lruPin]
    split
    · simp only [List.map_append, List.mem_append]; exact Or.inl hr
    · split
      · simp only [List.map_append, List.mem_append]; exact Or.inl hr
      · exact hr
  acquire_pins s x h hx := by
    have hx' : x ∈ (s.low ++ s.high ++ s.pin).map (·.r) := hx
    simp only [lruPolicy, lruPin]
    split
    · rename_i e hf
      obtain ⟨he, hid⟩ := findEnt_some hf
      have : e.r = x := eq_of_id_eq h.2 (by
        show e.r ∈ (s.low ++ s.high ++ s.pin).map (·.r)
        simp only [List.map_append, List.mem_append, List.mem_map]
        exact Or.inl (Or.inr ⟨e, he, rfl⟩)) hx hid
      simp only [List.map_append, List.mem_append, List.map_cons, List.map_nil, List.mem_singleton]
      exact Or.inr this.symm
    · rename_i hfh
      split
      · rename_i e hf
        obtain ⟨he, hid⟩ := findEnt_some hf
        have : e.r = x := eq_of_id_eq h.2 (by
          show e.r ∈ (s.low ++ s.high ++ s.pin).map (·.r)
          simp only [List.map_append, List.mem_append, List.mem_map]
          exact Or.inl (Or.inl ⟨e, he, rfl⟩)) hx hid
        simp only [List.map_append, List.mem_append, List.map_cons, List.map_nil, List.mem_singleton]
        exact Or.inr this.symm
      · rename_i hfl
        simp only [List.map_append, List.mem_append, List.mem_map] at hx'
        rcases hx' with (⟨e, he, her⟩ | ⟨e, he, her⟩) | h3
        · exact absurd (by rw [her]) (findEnt_none hfl e he)
        · exact absurd (by rw [her]) (findEnt_none hfh e he)
        · exact List.mem_map.mpr h3
  release s x _ r hr hne := by
    simp only [lruPolicy, lruPin]
    split
    · exact hr
    · split
      · rw [withOverflow_pin]; exact mem_map_eraseEnt.mpr ⟨hr, hne⟩
      · exact mem_map_eraseEnt.mpr ⟨hr, hne⟩
  update s c _ := by
    simp only [lruPolicy, lruPin]
    rw [withOverflow_pin]

theorem lru_unprotects (capFn : Nat → Nat) : Unprotects (lruPolicy capFn) (LruOk capFn) lruPin where
  init _ := rfl
  acquire_only s x _ r hr := by
    simp only [lruPolicy, lruPin] at hr
    split at hr
    · rename_i e hf
      simp only [List.map_append, List.mem_append, List.map_cons, List.map_nil, List.mem_singleton] at hr
      rcases hr with h | h
      · exact Or.inl h
      · right; rw [h]; exact (findEnt_some hf).2
    · split at hr
      · rename_i e hf
        simp only [List.map_append, List.mem_append, List.map_cons, List.map_nil, List.mem_singleton] at hr
        rcases hr with h | h
        · exact Or.inl h
        · right; rw [h]; exact (findEnt_some hf).2
      · exact Or.inl hr
  release_removes s x _ r hr := by
    simp only [lruPolicy, lruPin] at hr
    split at hr
    · rename_i hf
      refine ⟨hr, ?_⟩
      obtain ⟨e, he, rfl⟩ := List.mem_map.mp hr
      exact findEnt_none hf e he
    · split at hr
      · rw [withOverflow_pin] at hr; exact mem_map_eraseEnt.mp hr
      · exact mem_map_eraseEnt.mp hr
  remove_sub s x h hx r hr := by
    have hx' : x ∈ (s.low ++ s.high ++ s.pin).map (·.r) := hx
    simp only [lruPolicy, lruPin] at hr
    split at hr
    · exact mem_map_eraseEnt.mp hr
    · rename_i hfp
      -- `x` is not pinned: a pinned `r` is a different member, hence has a different id
      have hrm := mem_pin_members capFn s r (by
        split at hr <;> exact hr)
      have hr0 : r ∈ lruPin s := by split at hr <;> exact hr
      refine ⟨hr0, ?_⟩
      obtain ⟨e, he, rfl⟩ := List.mem_map.mp hr0
      exact findEnt_none hfp e he
  clear _ _ := rfl

variable {capFn : Nat → Nat}

/-- **lru_get_pins**: a successful lookup pins the record (it joins the pin list of its shard). -/
theorem lru_get_pins {cfg : Cfg} (hn : 0 < cfg.nshards) {c : Cache Lru}
    (hc : CacheInv (lruPolicy capFn) (LruOk capFn) cfg c) (k : Nat) (r : Rec)
    (h : (Cache.step (lruPolicy capFn) cfg c (.get k)).2.ret = Ret.handle r) :
    Cache.protected lruPin (Cache.step (lruPolicy capFn) cfg c (.get k)).1 r := by
  simp only [Cache.step] at h ⊢
  split at h
  · cases h
  · rename_i s hs
    have hsi := hc.shard _ s hs
    split at h
    · cases h
    · rename_i x hx
      cases h
      have hlt : cfg.shardOf (cfg.H k) < c.shards.length := (List.getElem?_eq_some_iff.mp hs).1
      simp only [hx]
      apply protected_setAt_same hlt
      exact (lru_protects capFn).acquire_pins s.ev r hsi.ok ((hsi.mem_iff r).mpr (findKey_some hx).1)

/-- **lru_held_not_victim** (one step of the induction over the operations between the lookup and
the drop of the last handle): a pinned record is never reported as evicted, and it stays pinned
unless the operation is the drop of its handle, or a touch / remove / insert of its key, or clear. -/
theorem lru_held_not_victim {cfg : Cfg} (hn : 0 < cfg.nshards) {c : Cache Lru}
    (hc : CacheInv (lruPolicy capFn) (LruOk capFn) cfg c) (r : Rec) (hr : Cache.protected lruPin c r) (op : Op) :
    (Reason.evict, r) ∉ (Cache.step (lruPolicy capFn) cfg c op).2.leaves ∧
    (Cache.protected lruPin (Cache.step (lruPolicy capFn) cfg c op).1 r ∨ op = .drop r.id ∨ op = .touch r.key ∨
      op = .remove r.key ∨ (∃ v w h p l a, op = .ins r.key v w h p l a) ∨ op = .clear) :=
  protected_step (lru_lawful capFn) (lru_protects capFn) hn hc r hr op

/-- **lru_pinned_is_held**: in every reachable state every pinned record has an outstanding handle
(`refs > 0`) — pins never leak. -/
theorem lru_pinned_is_held (cfg : Cfg) (hn : 0 < cfg.nshards) (cap : Nat) (ops : List Op) :
    HeldInv lruPin (Cache.run (lruPolicy capFn) cfg (Cache.new (lruPolicy capFn) cfg cap) ops).1 := by
  have gen : ∀ (ops : List Op) (c : Cache Lru), CacheInv (lruPolicy capFn) (LruOk capFn) cfg c → HeldInv lruPin c →
      HeldInv lruPin (Cache.run (lruPolicy capFn) cfg c ops).1 := by
    intro ops
    induction ops with
    | nil => intro c _ h; exact h
    | cons op ops ih =>
      intro c hc hh
      simp only [Cache.run]
      exact ih _ (step_inv (lru_lawful capFn) hn hc op)
        (heldInv_step (lru_lawful capFn) (lru_protects capFn) (lru_unprotects capFn) hc hh op)
  apply gen ops _ (new_inv (lru_lawful capFn) cfg cap)
  intro i s hs r hr
  have : s = Shard.new (lruPolicy capFn) (shardCapacityFor cap cfg.nshards i) := by
    simp only [Cache.new, List.getElem?_map] at hs
    cases hr' : (List.range cfg.nshards)[i]? with
    | none => simp [hr'] at hs
    | some j =>
      simp only [hr', Option.map_some, Option.some.injEq] at hs
      have : j = i := by
        obtain ⟨_, e⟩ := List.getElem?_eq_some_iff.mp hr'
        simpa using e.symm
      subst this; exact hs.symm
  subst this
  simp [Shard.new, lruPolicy, lruPin] at hr

/-- **lru_no_leak**: with no outstanding handles nothing is pinned, so an insert of an entry that
fits the shard leaves the shard within its capacity. -/
theorem lru_no_leak {cfg : Cfg} (hn : 0 < cfg.nshards) {c : Cache Lru}
    (hc : CacheInv (lruPolicy capFn) (LruOk capFn) cfg c) (hh : HeldInv lruPin c) (hnone : c.held = [])
    (key ver weight : Nat) (hint : Hint) (loc : Loc) (age : Age) (s : Shard Lru)
    (hs : c.shards[cfg.shardOf (cfg.H key)]? = some s) (hw : weight ≤ s.cap) :
    ∃ s', (Cache.step (lruPolicy capFn) cfg c (.ins key ver weight hint false loc age)).1.shards[cfg.shardOf (cfg.H key)]? = some s' ∧
      s'.usage ≤ s'.cap := by
  have hsi := hc.shard _ s hs
  have hpin : s.ev.pin = [] := by
    cases hp : s.ev.pin with
    | nil => rfl
    | cons e es =>
      have := hh _ s hs e.r (by simp [lruPin, hp])
      rw [hnone] at this
      simp [heldCnt] at this
  have hfr := hc.fresh _ s hs
  have sp := emplace_spec (r := { id := c.nextId, key, hash := cfg.H key, ver, weight, hint, phantom := false, loc, age })
    (lru_lawful capFn) hsi rfl (fun x hx => Nat.ne_of_lt (hfr x hx))
  have hlt : cfg.shardOf (cfg.H key) < c.shards.length := (List.getElem?_eq_some_iff.mp hs).1
  simp only [Cache.step, hs]
  generalize Shard.emplace (lruPolicy capFn) s _ = res at sp
  obtain ⟨s', lv, pk⟩ := res
  refine ⟨s', by simp [getElem?_setAt, hlt], ?_⟩
  obtain ⟨s1, vs, repl, hevq, es, _, hcase⟩ := sp.shape
  have hcap : s'.cap = s.cap := sp.cap_eq
  rw [hcap]
  have hpin1 : lruPin s1.ev = lruPin s.ev := by
    have := (evict_protects (lru_lawful capFn) (lru_protects capFn) (s.cap - weight) s hsi).1
    rw [hevq] at this; exact this
  rcases es.done with h | h
  · -- the eviction loop reached its target
    have h' : s1.usage ≤ s.cap - weight := h
    rcases hcase with ⟨_, _, h3, _⟩ | ⟨old, _, _, h3, _⟩
    · have h3' : s'.usage = s1.usage + weight := h3
      omega
    · have h3' : s'.usage + old.weight = s1.usage + weight := h3
      omega
  · -- nothing poppable although nothing is pinned: every other entry is gone, only the new one is left
    have hl : s1.ev.low = [] := by
      cases hlow : s1.ev.low with
      | nil => rfl
      | cons e rest =>
        obtain ⟨s2, h2, _⟩ := (C14.lru_low_before_high capFn s1.ev).1 e rest hlow
        rw [h2] at h; cases h
    have hh1 : s1.ev.high = [] := by
      cases hhigh : s1.ev.high with
      | nil => rfl
      | cons e rest =>
        obtain ⟨s2, h2, _⟩ := (C14.lru_low_before_high capFn s1.ev).2.1 hl e rest hhigh
        rw [h2] at h; cases h
    have hp1 : s1.ev.pin = [] := by
      have : lruPin s1.ev = [] := by rw [hpin1]; simp [lruPin, hpin]
      simpa [lruPin] using this
    have hidx : s1.index = [] := by
      cases hi : s1.index with
      | nil => rfl
      | cons x xs =>
        have := (es.inv.mem_iff x).mpr (by rw [hi]; exact List.mem_cons_self)
        have hm : x ∈ (s1.ev.low ++ s1.ev.high ++ s1.ev.pin).map (·.r) := this
        rw [hl, hh1, hp1] at hm
        simp at hm
    have hu1 : s1.usage = 0 := by rw [es.inv.usage_eq, hidx]; rfl
    rcases hcase with ⟨_, _, h3, _⟩ | ⟨old, _, hfk, _, _⟩
    · have h3' : s'.usage = s1.usage + weight := h3
      omega
    · rw [hidx] at hfk; simp [findKey] at hfk

end Foyer.C18

namespace Foyer.C18
/-- **held_data_stable**: see `Foyer.C02.held_stable`. -/
theorem held_data_stable {σ : Type} {P : Policy σ} (cfg : Cfg) (c : Cache σ) (op : Op) (rid : Nat) (x : Rec)
    (h : heldFind c.held rid = some x) (hop : op ≠ .drop rid) :
    heldFind (Cache.step P cfg c op).1.held rid = some x := C02.held_stable cfg c op rid x h hop

/-! ### Non-vacuity -/
namespace Demo
def cfg : Cfg := { nshards := 1, H := fun k => k }
def P := lruPolicy (fun c => c / 2)
/-- insert two unit entries into a cache of capacity 2, look the first up and hold it, insert a
third: the victim is the *second* entry (the first one is pinned) -/
def ops : List Op := [.ins 0 1 1 .normal false, .drop 0, .ins 1 2 1 .normal false, .drop 1, .get 0, .ins 2 3 1 .normal false]
example : ((Cache.run P cfg (Cache.new P cfg 2) ops).2.map fun o => o.leaves.map (·.2.key)) = [[], [], [], [], [], [1]] := by decide
example : (Cache.run P cfg (Cache.new P cfg 2) ops).1.shards.map (fun s => s.ev.pin.map (·.r.key)) = [[0]] := by decide
end Demo
end Foyer.C18
