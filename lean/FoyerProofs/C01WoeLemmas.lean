import FoyerProofs.C01Woi
import FoyerProofs.Lemmas.MemFacts
/-
  Helper lemmas for the write-on-eviction refinement (`C01Woe.lean`).

  Under write-on-eviction memory is the only holder of a freshly written value; the disk tier may show an
  older version of the key for as long as memory holds the key.  The invariant `EInv` + `ED` says:
  memory holds the register value (`M`), never under in-memory-only advice (`N`); a record that came from
  disk (`young`) agrees with what the disk tier shows (`Y`, it will not be written again); and when memory
  does not hold the key, whatever the disk tier shows for it is the register value (`ED`).  The point of
  the proof is that an eviction hands the record to the pipe within the same memory operation
  (`evicted_is_piped`), and that what the pipe submits becomes the disk tier's view (`pipeAll_*`).
-/
namespace Foyer.Hyb
open Foyer

section
variable {σ : Type} (P : Policy σ) (hc : HCfg) (k : Nat)

/-- disk-side well-formedness: flusher idle-able, keeper covered by the queue, sequence numbers fresh -/
structure DS (s : HState σ) : Prop where
  hh : s.held = false
  hg : s.gated = false
  hi : s.inflight = []
  kq : KQ s
  seqok : batchLt (assocGet s.index (hc.mcfg.H k)) s.queue (hc.mcfg.H k) s.seq

/-- every entry of key `k` the disk tier will show satisfies `Q` -/
def Kview (s : HState σ) (Q : DiskEnt → Prop) : Prop :=
  ∀ e, pview hc s (hc.mcfg.H k) = some (.addr e) → e.key = k → Q e

theorem ds_submit {s : HState σ} (h : DS hc k s) (r : Rec) : DS hc k (submit s r) := by
  have hps := pview_submit hc s r (hc.mcfg.H k) h.seqok
  have hf := submit_flags s r
  by_cases hy : r.age = .young
  · rw [hps.1 hy]; exact h
  · exact ⟨by rw [hf.1]; exact h.hh, by rw [hf.2.1]; exact h.hg, by rw [hf.2.2.1]; exact h.hi, submit_kq s r h.kq,
           (hps.2 hy).2.1⟩

/-- submitting a record of another key shows nothing new for `k` -/
theorem kview_submit_other {s : HState σ} (h : DS hc k s) (r : Rec) (hk : r.key ≠ k) (Q : DiskEnt → Prop)
    (hv : Kview hc k s Q) : Kview hc k (submit s r) Q := by
  have hps := pview_submit hc s r (hc.mcfg.H k) h.seqok
  by_cases hy : r.age = .young
  · rw [hps.1 hy]; exact hv
  · obtain ⟨hpv, _, _⟩ := hps.2 hy
    intro e he hke
    rw [hpv] at he
    by_cases hh : hc.mcfg.H k = r.hash
    · simp only [hh, if_true] at he
      split at he
      · cases he
      · simp only [Option.some.injEq, Idx.addr.injEq] at he
        rw [← he] at hke
        exact absurd hke hk
    · simp only [hh, if_false] at he
      exact hv e he hke

/-- submitting a record of `k`: from now on the disk tier shows that version (or nothing) for `k` -/
theorem kview_submit_self {s : HState σ} (h : DS hc k s) (r : Rec) (hk : r.key = k) (hh : r.hash = hc.mcfg.H k)
    (hy : r.age ≠ .young) : Kview hc k (submit s r) (fun e => e.ver = r.ver) := by
  obtain ⟨hpv, _, _⟩ := (pview_submit hc s r (hc.mcfg.H k) h.seqok).2 hy
  intro e he _
  rw [hpv, if_pos hh.symm] at he
  split at he
  · cases he
  · simp only [Option.some.injEq, Idx.addr.injEq] at he
    rw [← he]; rfl

theorem kview_mono {s : HState σ} {Q Q' : DiskEnt → Prop} (hq : ∀ e, Q e → Q' e) (hv : Kview hc k s Q) :
    Kview hc k s Q' := fun e he hke => hq e (hv e he hke)

variable (he : hc.woi = false)

include he in
theorem pipeSend_woe (s : HState σ) (r : Rec) :
    pipeSend hc s r = if r.loc = .inMem then s else submit s r := by
  unfold pipeSend
  rw [he]
  simp only [Bool.false_eq_true, if_false]

include he in
theorem ds_pipeSend {s : HState σ} (h : DS hc k s) (r : Rec) : DS hc k (pipeSend hc s r) := by
  rw [pipeSend_woe hc he]
  split
  · exact h
  · exact ds_submit hc k h r

include he in
/-- **What the pipe leaves behind for key `k`.**  `l` is what a memory operation hands to the pipe; its
records of key `k` are all the record `r0`. -/
theorem pipeAll_kview (r0 : Rec) (hr0 : r0.hash = hc.mcfg.H k) : ∀ (l : List Rec) (s : HState σ) (Q : DiskEnt → Prop),
    (∀ x ∈ l, x.key = k → x = r0) → DS hc k s → Kview hc k s Q →
    DS hc k (l.foldl (pipeSend hc) s) ∧
    Kview hc k (l.foldl (pipeSend hc) s) (fun e => Q e ∨ e.ver = r0.ver) ∧
    (r0 ∈ l → r0.key = k → r0.age ≠ .young → r0.loc ≠ .inMem →
      Kview hc k (l.foldl (pipeSend hc) s) (fun e => e.ver = r0.ver)) ∧
    ((∀ x ∈ l, x.key ≠ k) → Kview hc k (l.foldl (pipeSend hc) s) Q) := by
  intro l
  induction l with
  | nil =>
    intro s Q _ hds hv
    exact ⟨hds, kview_mono hc k (fun e h => Or.inl h) hv, fun h => (by cases h), fun _ => hv⟩
  | cons x xs ih =>
    intro s Q hl hds hv
    simp only [List.foldl_cons]
    have hds1 := ds_pipeSend hc k he hds x
    have hl' : ∀ y ∈ xs, y.key = k → y = r0 := fun y hy => hl y (List.mem_cons_of_mem _ hy)
    by_cases hxk : x.key = k
    · have hx0 : x = r0 := hl x List.mem_cons_self hxk
      subst hx0
      by_cases hsent : x.loc ≠ .inMem ∧ x.age ≠ .young
      · -- sent: from here on the view of `k` is this version
        have hv1 : Kview hc k (pipeSend hc s x) (fun e => e.ver = x.ver) := by
          rw [pipeSend_woe hc he, if_neg hsent.1]
          exact kview_submit_self hc k hds x hxk hr0 hsent.2
        obtain ⟨a1, a2, _, _⟩ := ih (pipeSend hc s x) (fun e => e.ver = x.ver) hl' hds1 hv1
        have a2' : Kview hc k (xs.foldl (pipeSend hc) (pipeSend hc s x)) (fun e => e.ver = x.ver) :=
          kview_mono hc k (fun e h => h.elim id id) a2
        refine ⟨a1, kview_mono hc k (fun e h => Or.inr h) a2', fun _ _ _ _ => a2', ?_⟩
        intro hno
        exact absurd hxk (hno x List.mem_cons_self)
      · -- not sent (in-memory-only advice or already on disk): nothing changes
        have hsame : pipeSend hc s x = s := by
          rw [pipeSend_woe hc he]
          by_cases hloc : x.loc = .inMem
          · rw [if_pos hloc]
          · rw [if_neg hloc]
            have hy : x.age = .young := by
              by_cases hy : x.age = .young
              · exact hy
              · exact absurd ⟨hloc, hy⟩ hsent
            exact (pview_submit hc s x (hc.mcfg.H k) hds.seqok).1 hy
        rw [hsame]
        obtain ⟨a1, a2, a3, _⟩ := ih s Q hl' hds hv
        refine ⟨a1, a2, ?_, ?_⟩
        · intro hm hk0 hy hloc
          rcases List.mem_cons.mp hm with _ | hm'
          · exact absurd ⟨hloc, hy⟩ hsent
          · exact a3 hm' hk0 hy hloc
        · intro hno
          exact absurd hxk (hno x List.mem_cons_self)
    · -- a record of another key
      have hv1 : Kview hc k (pipeSend hc s x) Q := by
        rw [pipeSend_woe hc he]
        split
        · exact hv
        · exact kview_submit_other hc k hds x hxk Q hv
      obtain ⟨a1, a2, a3, a4⟩ := ih (pipeSend hc s x) Q hl' hds1 hv1
      refine ⟨a1, a2, ?_, ?_⟩
      · intro hm hk0 hy hloc
        rcases List.mem_cons.mp hm with h0 | hm'
        · rw [h0] at hk0; exact absurd hk0 hxk
        · exact a3 hm' hk0 hy hloc
      · intro hno
        exact a4 (fun y hy => hno y (List.mem_cons_of_mem _ hy))

end

/-! ### the invariant (write-on-eviction) -/
section
variable {σ : Type} (P : Policy σ) (hc : HCfg) (Ok : σ → Prop) (L : Lawful P Ok) (hn : 0 < hc.mcfg.nshards)
  (he : hc.woi = false) (k : Nat)

structure EInv (tr : Option Nat) (s : HState σ) : Prop where
  cinv : CacheInv P Ok hc.mcfg s.mem
  ds : DS hc k s
  M : ∀ r, Cache.lookup hc.mcfg s.mem k = some r → tr = some r.ver
  N : ∀ r, Cache.lookup hc.mcfg s.mem k = some r → r.loc ≠ .inMem
  Y : ∀ r, Cache.lookup hc.mcfg s.mem k = some r → r.age = .young → Kview hc k s (fun e => e.ver = r.ver)

/-- when memory does not hold `k`, what the disk tier shows for `k` is the register value -/
def ED (tr : Option Nat) (s : HState σ) : Prop :=
  Cache.lookup hc.mcfg s.mem k = none → Kview hc k s (fun e => tr = some e.ver)

/-- a record of key `k` (used where the pipe receives no record of `k` at all) -/
def dummyRec : Rec :=
  { id := 0, key := k, hash := hc.mcfg.H k, ver := 0, weight := 0, hint := .normal, phantom := false, loc := .default, age := .fresh }

theorem memOp_eq (s : HState σ) (op : Op) :
    (memOp P hc s op).1 = (Cache.step P hc.mcfg s.mem op).2.piped.foldl (pipeSend hc)
      { s with mem := (Cache.step P hc.mcfg s.mem op).1 } := by
  unfold memOp; rfl

theorem ds_base {s : HState σ} (h : DS hc k s) (m : Cache σ) : DS hc k { s with mem := m } :=
  ⟨h.hh, h.hg, h.hi, h.kq, h.seqok⟩

theorem kview_base {s : HState σ} {Q : DiskEnt → Prop} (h : Kview hc k s Q) (m : Cache σ) :
    Kview hc k ({ s with mem := m } : HState σ) Q := h

include he in
theorem ds_pipeAll : ∀ (l : List Rec) (s : HState σ), DS hc k s → DS hc k (l.foldl (pipeSend hc) s) := by
  intro l
  induction l with
  | nil => intro s h; exact h
  | cons x xs ih => intro s h; exact ih _ (ds_pipeSend hc k he h x)

include L hn he in
/-- **A memory operation that does not write `k`**, given that whatever it pipes under key `k` is the record
memory held: evictions keep `ED` because the evicted record reaches the disk tier in the same operation. -/
theorem einv_memOp_core {tr : Option Nat} {s : HState σ} (h : EInv P hc Ok k tr s) (hd : ED hc k tr s) (op : Op)
    (hq : quietFor k op)
    (hp1 : ∀ x ∈ (Cache.step P hc.mcfg s.mem op).2.piped, x.key = k → Cache.lookup hc.mcfg s.mem k = some x) :
    EInv P hc Ok k tr (memOp P hc s op).1 ∧ ED hc k tr (memOp P hc s op).1 := by
  have hl := C02.lookup_step L hn h.cinv k op (Cache.lookup hc.mcfg s.mem k) (Or.inr rfl)
  rw [regStep_quietFor hq] at hl
  have hmem : (memOp P hc s op).1.mem = (Cache.step P hc.mcfg s.mem op).1 := memOp_mem P hc s op
  have hcinv : CacheInv P Ok hc.mcfg (memOp P hc s op).1.mem := by rw [hmem]; exact step_inv L hn h.cinv op
  have hdsb := ds_base hc k h.ds (Cache.step P hc.mcfg s.mem op).1
  cases hcur : Cache.lookup hc.mcfg s.mem k with
  | none =>
    rw [hcur] at hl
    have hl' : Cache.lookup hc.mcfg (memOp P hc s op).1.mem k = none := by
      rw [hmem]; rcases hl with h1 | h1 <;> exact h1
    have hno : ∀ x ∈ (Cache.step P hc.mcfg s.mem op).2.piped, x.key ≠ k := by
      intro x hx hxk
      have := hp1 x hx hxk
      rw [hcur] at this; cases this
    have hf := pipeAll_kview hc k he (dummyRec hc k) rfl (Cache.step P hc.mcfg s.mem op).2.piped _
      (fun e => tr = some e.ver) (fun x hx hxk => absurd hxk (hno x hx)) hdsb (kview_base hc k (hd hcur) _)
    rw [← memOp_eq] at hf
    refine ⟨⟨hcinv, hf.1, ?_, ?_, ?_⟩, fun _ => hf.2.2.2 hno⟩
    · intro r hr; rw [hl'] at hr; cases hr
    · intro r hr; rw [hl'] at hr; cases hr
    · intro r hr; rw [hl'] at hr; cases hr
  | some r =>
    rw [hcur] at hl
    have hrk : r.key = k := lookup_key hc.mcfg s.mem k r hcur
    have hrh := (lookup_hash h.cinv hcur).1
    have hlist : ∀ x ∈ (Cache.step P hc.mcfg s.mem op).2.piped, x.key = k → x = r := by
      intro x hx hxk
      have := hp1 x hx hxk
      rw [hcur] at this; cases this; rfl
    cases hfin : Cache.lookup hc.mcfg (Cache.step P hc.mcfg s.mem op).1 k with
    | some r' =>
      have hr' : r' = r := by
        rcases hl with h1 | h1
        · rw [h1] at hfin; cases hfin
        · rw [h1] at hfin; cases hfin; rfl
      subst hr'
      have hf := pipeAll_kview hc k he r' hrh (Cache.step P hc.mcfg s.mem op).2.piped _
        (fun e => e.ver = r'.ver ∨ r'.age ≠ .young) hlist hdsb
        (kview_base hc k (fun e he' hke => by
          by_cases hy : r'.age = .young
          · exact Or.inl (h.Y r' hcur hy e he' hke)
          · exact Or.inr hy) _)
      rw [← memOp_eq] at hf
      refine ⟨⟨hcinv, hf.1, ?_, ?_, ?_⟩, ?_⟩
      · intro x hx; rw [hmem, hfin] at hx; cases hx; exact h.M _ hcur
      · intro x hx; rw [hmem, hfin] at hx; cases hx; exact h.N _ hcur
      · intro x hx hy; rw [hmem, hfin] at hx; cases hx
        intro e he' hke
        rcases hf.2.1 e he' hke with (h1 | h1) | h1
        · exact h1
        · exact absurd hy h1
        · exact h1
      · intro hnone; rw [hmem, hfin] at hnone; cases hnone
    | none =>
      have hpiped := evicted_is_piped L hn h.cinv k op hq r hcur hfin
      have hl' : Cache.lookup hc.mcfg (memOp P hc s op).1.mem k = none := by rw [hmem]; exact hfin
      have hver : Kview hc k (memOp P hc s op).1 (fun e => e.ver = r.ver) := by
        by_cases hy : r.age = .young
        · have hf := pipeAll_kview hc k he r hrh (Cache.step P hc.mcfg s.mem op).2.piped _
            (fun e => e.ver = r.ver) hlist hdsb (kview_base hc k (h.Y r hcur hy) _)
          rw [← memOp_eq] at hf
          exact kview_mono hc k (fun e h1 => h1.elim id id) hf.2.1
        · have hf := pipeAll_kview hc k he r hrh (Cache.step P hc.mcfg s.mem op).2.piped _
            (fun _ => True) hlist hdsb (fun _ _ _ => trivial)
          rw [← memOp_eq] at hf
          exact hf.2.2.1 hpiped hrk hy (h.N r hcur)
      have hds : DS hc k (memOp P hc s op).1 := by
        rw [memOp_eq]; exact ds_pipeAll hc he k _ _ hdsb
      refine ⟨⟨hcinv, hds, ?_, ?_, ?_⟩, ?_⟩
      · intro x hx; rw [hl'] at hx; cases hx
      · intro x hx; rw [hl'] at hx; cases hx
      · intro x hx; rw [hl'] at hx; cases hx
      · intro _ e he' hke
        rw [h.M r hcur, hver e he' hke]

include L hn he in
/-- lookups, evict-all, inserts and removes of other keys -/
theorem einv_memOp_quiet {tr : Option Nat} {s : HState σ} (h : EInv P hc Ok k tr s) (hd : ED hc k tr s) (op : Op)
    (hq : quietFor k op) (hnd : ∀ rid, op ≠ .drop rid) :
    EInv P hc Ok k tr (memOp P hc s op).1 ∧ ED hc k tr (memOp P hc s op).1 := by
  apply einv_memOp_core P hc Ok L hn he k h hd op hq
  intro x hx hxk
  have := piped_is_lookup L h.cinv k op hq hnd x hx
  rw [hxk] at this; exact this

include L hn he in
/-- dropping the only handle of a record that is not a disk-only record of `k` -/
theorem einv_memOp_drop {tr : Option Nat} {s : HState σ} (h : EInv P hc Ok k tr s) (hd : ED hc k tr s) (r : Rec)
    (hheld : s.mem.held = [(r, 1)]) (hr : r.phantom = true → r.key ≠ k) :
    EInv P hc Ok k tr (memOp P hc s (.drop r.id)).1 ∧ ED hc k tr (memOp P hc s (.drop r.id)).1 := by
  apply einv_memOp_core P hc Ok L hn he k h hd (.drop r.id) (by simp only [quietFor])
  intro x hx hxk
  rw [(held_drop (P := P) hc.mcfg s.mem r hheld).2] at hx
  split at hx
  · rename_i hp
    simp only [List.mem_singleton] at hx
    subst hx
    exact absurd hxk (hr hp)
  · cases hx


/-- with `k` absent from memory the memory-side clauses are vacuous: the register may be anything -/
theorem einv_retag {tr : Option Nat} {s : HState σ} (h : EInv P hc Ok k tr s)
    (hnone : Cache.lookup hc.mcfg s.mem k = none) (tr' : Option Nat) : EInv P hc Ok k tr' s :=
  ⟨h.cinv, h.ds, fun r hr => (by rw [hnone] at hr; cases hr), fun r hr => (by rw [hnone] at hr; cases hr),
   fun r hr => (by rw [hnone] at hr; cases hr)⟩

include L hn he in
/-- a memory operation while memory does not hold `k` and nothing of key `k` is piped: the disk tier's view
of `k` is untouched -/
theorem einv_memOp_nok {tr : Option Nat} {s : HState σ} (h : EInv P hc Ok k tr s)
    (hnone : Cache.lookup hc.mcfg s.mem k = none) (op : Op)
    (hreg : ∀ out, regStep k none op out = none)
    (hno : ∀ x ∈ (Cache.step P hc.mcfg s.mem op).2.piped, x.key ≠ k) :
    EInv P hc Ok k tr (memOp P hc s op).1 ∧ Cache.lookup hc.mcfg (memOp P hc s op).1.mem k = none ∧
    (∀ Q, Kview hc k s Q → Kview hc k (memOp P hc s op).1 Q) := by
  have hl := C02.lookup_step L hn h.cinv k op none (Or.inl hnone)
  rw [hreg] at hl
  have hmem : (memOp P hc s op).1.mem = (Cache.step P hc.mcfg s.mem op).1 := memOp_mem P hc s op
  have hl' : Cache.lookup hc.mcfg (memOp P hc s op).1.mem k = none := by
    rw [hmem]; rcases hl with h1 | h1 <;> exact h1
  have hdsb := ds_base hc k h.ds (Cache.step P hc.mcfg s.mem op).1
  have hds : DS hc k (memOp P hc s op).1 := by
    rw [memOp_eq]; exact ds_pipeAll hc he k _ _ hdsb
  refine ⟨⟨by rw [hmem]; exact step_inv L hn h.cinv op, hds, ?_, ?_, ?_⟩, hl', ?_⟩
  · intro r hr; rw [hl'] at hr; cases hr
  · intro r hr; rw [hl'] at hr; cases hr
  · intro r hr; rw [hl'] at hr; cases hr
  · intro Q hQ
    have hf := pipeAll_kview hc k he (dummyRec hc k) rfl (Cache.step P hc.mcfg s.mem op).2.piped _
      Q (fun x hx hxk => absurd hxk (hno x hx)) hdsb (kview_base hc k hQ _)
    rw [← memOp_eq] at hf
    exact hf.2.2.2 hno

include L hn he in
/-- **Writing `k` into memory** (insert, origin fetch): memory now holds the register value; the disk tier may
lag behind for as long as memory holds the key. -/
theorem einv_ins_k {tr : Option Nat} {s : HState σ} (h : EInv P hc Ok k tr s) (ver w : Nat) (hint : Hint) (loc : Loc)
    (hloc : loc ≠ .inMem) (r : Rec) (hr : (memOp P hc s (.ins k ver w hint false loc .fresh)).2.ret = .handle r) :
    EInv P hc Ok k (some ver) (memOp P hc s (.ins k ver w hint false loc .fresh)).1 ∧
    ED hc k (some ver) (memOp P hc s (.ins k ver w hint false loc .fresh)).1 := by
  rw [memOp_out] at hr
  have hmem := memOp_mem P hc s (.ins k ver w hint false loc .fresh)
  have hf := ins_handle_fields P hc.mcfg s.mem k ver w hint false loc .fresh r hr
  have hl' : Cache.lookup hc.mcfg (memOp P hc s (.ins k ver w hint false loc .fresh)).1.mem k = some r := by
    rw [hmem]; exact ins_lookup_exact L hn h.cinv k ver w hint loc .fresh r hr
  have hds : DS hc k (memOp P hc s (.ins k ver w hint false loc .fresh)).1 := by
    rw [memOp_eq]; exact ds_pipeAll hc he k _ _ (ds_base hc k h.ds _)
  refine ⟨⟨by rw [hmem]; exact step_inv L hn h.cinv _, hds, ?_, ?_, ?_⟩, ?_⟩
  · intro x hx; rw [hl'] at hx; cases hx; rw [hf.2.1]
  · intro x hx; rw [hl'] at hx; cases hx; rw [hf.2.2.1]; exact hloc
  · intro x hx hy; rw [hl'] at hx; cases hx; rw [hf.2.2.2.1] at hy; cases hy
  · intro hnone; rw [hl'] at hnone; cases hnone

include L hn he in
/-- **Populating memory from a disk hit**: the new record is marked `young` and agrees with the disk tier. -/
theorem einv_ins_young {tr : Option Nat} {s : HState σ} (h : EInv P hc Ok k tr s)
    (hnone : Cache.lookup hc.mcfg s.mem k = none) (v w : Nat) (hint : Hint) (loc : Loc) (hloc : loc ≠ .inMem)
    (htr : tr = some v) (hv : Kview hc k s (fun e => e.ver = v)) (r : Rec)
    (hr : (memOp P hc s (.ins k v w hint false loc .young)).2.ret = .handle r) :
    EInv P hc Ok k tr (memOp P hc s (.ins k v w hint false loc .young)).1 ∧
    ED hc k tr (memOp P hc s (.ins k v w hint false loc .young)).1 := by
  rw [memOp_out] at hr
  have hmem := memOp_mem P hc s (.ins k v w hint false loc .young)
  have hf := ins_handle_fields P hc.mcfg s.mem k v w hint false loc .young r hr
  have hl' : Cache.lookup hc.mcfg (memOp P hc s (.ins k v w hint false loc .young)).1.mem k = some r := by
    rw [hmem]; exact ins_lookup_exact L hn h.cinv k v w hint loc .young r hr
  have hdsb := ds_base hc k h.ds (Cache.step P hc.mcfg s.mem (.ins k v w hint false loc .young)).1
  have hno : ∀ x ∈ (Cache.step P hc.mcfg s.mem (.ins k v w hint false loc .young)).2.piped, x.key ≠ k := by
    intro x hx hxk
    have := piped_is_lookup_ins L h.cinv k v w hint false loc .young x hx
    rw [hxk, hnone] at this; cases this
  have hfold := pipeAll_kview hc k he (dummyRec hc k) rfl _ _ (fun e => e.ver = v)
    (fun x hx hxk => absurd hxk (hno x hx)) hdsb (kview_base hc k hv _)
  rw [← memOp_eq] at hfold
  refine ⟨⟨by rw [hmem]; exact step_inv L hn h.cinv _, hfold.1, ?_, ?_, ?_⟩, ?_⟩
  · intro x hx; rw [hl'] at hx; cases hx; rw [hf.2.1]; exact htr
  · intro x hx; rw [hl'] at hx; cases hx; rw [hf.2.2.1]; exact hloc
  · intro x hx _; rw [hl'] at hx; cases hx; rw [hf.2.1]; exact hfold.2.2.2 hno
  · intro hnone'; rw [hl'] at hnone'; cases hnone'

include L hn he in
/-- **A disk-only insert of `k`** (storage writer, on-disk advice), first half: memory lets go of `k`, nothing is
piped yet (the record reaches the pipe when its handle is dropped). -/
theorem einv_ins_phantom_k {tr : Option Nat} {s : HState σ} (h : EInv P hc Ok k tr s) (ver w : Nat) (hint : Hint)
    (loc : Loc) (tr' : Option Nat) :
    EInv P hc Ok k tr' (memOp P hc s (.ins k ver w hint true loc .fresh)).1 ∧
    Cache.lookup hc.mcfg (memOp P hc s (.ins k ver w hint true loc .fresh)).1.mem k = none := by
  have hl := C02.lookup_step L hn h.cinv k (.ins k ver w hint true loc .fresh) (Cache.lookup hc.mcfg s.mem k) (Or.inr rfl)
  simp only [regStep, if_true] at hl
  have hmem := memOp_mem P hc s (.ins k ver w hint true loc .fresh)
  have hl' : Cache.lookup hc.mcfg (memOp P hc s (.ins k ver w hint true loc .fresh)).1.mem k = none := by
    rw [hmem]; rcases hl with h1 | h1 <;> exact h1
  have hds : DS hc k (memOp P hc s (.ins k ver w hint true loc .fresh)).1 := by
    rw [memOp_eq]; exact ds_pipeAll hc he k _ _ (ds_base hc k h.ds _)
  refine ⟨⟨by rw [hmem]; exact step_inv L hn h.cinv _, hds, ?_, ?_, ?_⟩, hl'⟩
  · intro r hr; rw [hl'] at hr; cases hr
  · intro r hr; rw [hl'] at hr; cases hr
  · intro r hr; rw [hl'] at hr; cases hr

include L hn he in
/-- second half: dropping the handle of the disk-only record sends it through the pipe; from now on the disk
tier shows this version. -/
theorem einv_drop_phantom_k {tr : Option Nat} {s : HState σ} (h : EInv P hc Ok k tr s)
    (hnone : Cache.lookup hc.mcfg s.mem k = none) (r : Rec) (hheld : s.mem.held = [(r, 1)])
    (hph : r.phantom = true) (hrk : r.key = k) (hrh : r.hash = hc.mcfg.H k) (hy : r.age ≠ .young)
    (hloc : r.loc ≠ .inMem) :
    EInv P hc Ok k (some r.ver) (memOp P hc s (.drop r.id)).1 ∧ ED hc k (some r.ver) (memOp P hc s (.drop r.id)).1 := by
  have hl := C02.lookup_step L hn h.cinv k (.drop r.id) none (Or.inl hnone)
  simp only [regStep] at hl
  have hmem := memOp_mem P hc s (.drop r.id)
  have hl' : Cache.lookup hc.mcfg (memOp P hc s (.drop r.id)).1.mem k = none := by
    rw [hmem]; rcases hl with h1 | h1 <;> exact h1
  have hpiped := (held_drop (P := P) hc.mcfg s.mem r hheld).2
  rw [hph, if_pos rfl] at hpiped
  have hdsb := ds_base hc k h.ds (Cache.step P hc.mcfg s.mem (.drop r.id)).1
  have heq : (memOp P hc s (.drop r.id)).1 = submit ({ s with mem := (Cache.step P hc.mcfg s.mem (.drop r.id)).1 } : HState σ) r := by
    rw [memOp_eq, hpiped]
    simp only [List.foldl_cons, List.foldl_nil]
    rw [pipeSend_woe hc he, if_neg hloc]
  have hds : DS hc k (memOp P hc s (.drop r.id)).1 := by rw [heq]; exact ds_submit hc k hdsb r
  have hkv : Kview hc k (memOp P hc s (.drop r.id)).1 (fun e => e.ver = r.ver) := by
    rw [heq]; exact kview_submit_self hc k hdsb r hrk hrh hy
  refine ⟨⟨by rw [hmem]; exact step_inv L hn h.cinv _, hds, ?_, ?_, ?_⟩, ?_⟩
  · intro x hx; rw [hl'] at hx; cases hx
  · intro x hx; rw [hl'] at hx; cases hx
  · intro x hx; rw [hl'] at hx; cases hx
  · intro _ e he' hke; rw [hkv e he' hke]

/-- `Store::delete`: the hash of the key loses its index entry. -/
theorem einv_delete {tr : Option Nat} {s : HState σ} (h : EInv P hc Ok k tr s) (key : Nat) :
    EInv P hc Ok k tr (delete hc s key) ∧ (∀ Q, Kview hc k s Q → Kview hc k (delete hc s key) Q) ∧
    (key = k → ∀ Q, Kview hc k (delete hc s key) Q) := by
  obtain ⟨hpv, hsq⟩ := pview_delete hc s key (hc.mcfg.H k) h.ds.seqok
  have hkv : ∀ Q, Kview hc k s Q → Kview hc k (delete hc s key) Q := by
    intro Q hQ e he' hke
    rw [hpv] at he'
    split at he'
    · cases he'
    · exact hQ e he' hke
  refine ⟨⟨h.cinv, ⟨h.ds.hh, h.ds.hg, h.ds.hi, delete_kq hc s key h.ds.kq, hsq⟩, h.M, h.N, ?_⟩, hkv, ?_⟩
  · intro r hr hy; exact hkv _ (h.Y r hr hy)
  · intro hkk Q e he' _
    rw [hpv, hkk, if_pos rfl] at he'
    cases he'

/-- the flusher running to quiescence changes nothing the invariant looks at -/
theorem einv_flush {tr : Option Nat} {s : HState σ} (h : EInv P hc Ok k tr s) (hd : ED hc k tr s) :
    EInv P hc Ok k tr (flush hc s) ∧ ED hc k tr (flush hc s) ∧ (flush hc s).queue = [] ∧ (flush hc s).keeper = [] := by
  obtain ⟨hq, hi, hkp, hm, hsq, hh, hg, _, hix⟩ := flush_quiet hc s h.ds.hh h.ds.hg h.ds.hi h.ds.kq
  have hpv : pview hc (flush hc s) (hc.mcfg.H k) = pview hc s (hc.mcfg.H k) := by
    unfold pview
    simp only
    rw [hq, hix]
    rfl
  have hkv : ∀ Q, Kview hc k s Q → Kview hc k (flush hc s) Q := by
    intro Q hQ e he' hke; rw [hpv] at he'; exact hQ e he' hke
  have hds : DS hc k (flush hc s) := by
    refine ⟨hh, hg, hi, ?_, ?_⟩
    · intro p hp; rw [hkp] at hp; cases hp
    · rw [hq, hix, hsq]
      refine ⟨lookupAfter_seqLt h.ds.seqok, ?_, ?_⟩
      · intro e he' _; cases he'
      · intro p hp _; cases hp
  refine ⟨⟨by rw [hm]; exact h.cinv, hds, ?_, ?_, ?_⟩, ?_, hq, hkp⟩
  · intro r hr; rw [hm] at hr; exact h.M r hr
  · intro r hr; rw [hm] at hr; exact h.N r hr
  · intro r hr hy; rw [hm] at hr; exact hkv _ (h.Y r hr hy)
  · intro hnone; rw [hm] at hnone; exact hkv _ (hd hnone)


include L hn he in
/-- a memory operation after which `k` is not in memory, whatever was there (remove, clear, disk-only insert) -/
theorem einv_memOp_unlink {tr : Option Nat} {s : HState σ} (h : EInv P hc Ok k tr s) (op : Op)
    (hreg : ∀ cur out, regStep k cur op out = none) (tr' : Option Nat) :
    EInv P hc Ok k tr' (memOp P hc s op).1 ∧ Cache.lookup hc.mcfg (memOp P hc s op).1.mem k = none := by
  have hl := C02.lookup_step L hn h.cinv k op (Cache.lookup hc.mcfg s.mem k) (Or.inr rfl)
  rw [hreg] at hl
  have hmem := memOp_mem P hc s op
  have hl' : Cache.lookup hc.mcfg (memOp P hc s op).1.mem k = none := by
    rw [hmem]; rcases hl with h1 | h1 <;> exact h1
  have hds : DS hc k (memOp P hc s op).1 := by
    rw [memOp_eq]; exact ds_pipeAll hc he k _ _ (ds_base hc k h.ds _)
  refine ⟨⟨by rw [hmem]; exact step_inv L hn h.cinv _, hds, ?_, ?_, ?_⟩, hl'⟩
  · intro r hr; rw [hl'] at hr; cases hr
  · intro r hr; rw [hl'] at hr; cases hr
  · intro r hr; rw [hl'] at hr; cases hr

/-! ### the handle table at the hybrid level -/

theorem memOp_held_ins (s : HState σ) (hh : s.mem.held = []) (key ver w : Nat) (hint : Hint) (ph : Bool) (loc : Loc)
    (age : Age) (r : Rec) (hr : (memOp P hc s (.ins key ver w hint ph loc age)).2.ret = .handle r) :
    (memOp P hc s (.ins key ver w hint ph loc age)).1.mem.held = [(r, 1)] := by
  rw [memOp_out] at hr
  rw [memOp_mem]
  exact held_ins hc.mcfg s.mem hh key ver w hint ph loc age r hr

theorem memOp_held_drop (s : HState σ) (r : Rec) (hh : s.mem.held = [(r, 1)]) :
    (memOp P hc s (.drop r.id)).1.mem.held = [] := by
  rw [memOp_mem]
  exact (held_drop hc.mcfg s.mem r hh).1

include L hn he in
/-- **insert, then drop the returned handle** (what every insert path of the hybrid cache does under
write-on-eviction; a disk-only record reaches the pipe at the drop). -/
theorem einv_insert_seq {tr : Option Nat} {s : HState σ} (h : EInv P hc Ok k tr s) (hd : ED hc k tr s)
    (hheld : s.mem.held = []) (key ver w : Nat) (hint : Hint) (ph : Bool) (loc : Loc)
    (hloc : key = k → loc ≠ .inMem) (r : Rec)
    (hr : (memOp P hc s (.ins key ver w hint ph loc .fresh)).2.ret = .handle r) :
    EInv P hc Ok k (if key = k then some ver else tr)
      (memOp P hc (memOp P hc s (.ins key ver w hint ph loc .fresh)).1 (.drop r.id)).1 ∧
    ED hc k (if key = k then some ver else tr)
      (memOp P hc (memOp P hc s (.ins key ver w hint ph loc .fresh)).1 (.drop r.id)).1 ∧
    (memOp P hc (memOp P hc s (.ins key ver w hint ph loc .fresh)).1 (.drop r.id)).1.mem.held = [] := by
  have hheld1 := memOp_held_ins P hc s hheld key ver w hint ph loc .fresh r hr
  have hheld2 := memOp_held_drop P hc _ r hheld1
  have hf : r.key = key ∧ r.ver = ver ∧ r.loc = loc ∧ r.age = .fresh ∧ r.phantom = ph ∧ r.hash = hc.mcfg.H key ∧ _ :=
    ins_handle_fields P hc.mcfg s.mem key ver w hint ph loc .fresh r (by rw [← memOp_out]; exact hr)
  by_cases hkk : key = k
  · subst hkk
    rw [if_pos rfl]
    cases hph : ph with
    | true =>
      subst hph
      obtain ⟨h1, hl1⟩ := einv_memOp_unlink P hc Ok L hn he key h (.ins key ver w hint true loc .fresh)
        (by intro _ _; simp only [regStep, if_true]) tr
      have := einv_drop_phantom_k P hc Ok L hn he key h1 hl1 r hheld1 hf.2.2.2.2.1 hf.1 hf.2.2.2.2.2.1
        (by rw [hf.2.2.2.1]; decide) (by rw [hf.2.2.1]; exact hloc rfl)
      rw [hf.2.1] at this
      exact ⟨this.1, this.2, hheld2⟩
    | false =>
      subst hph
      obtain ⟨h1, hd1⟩ := einv_ins_k P hc Ok L hn he key h ver w hint loc (hloc rfl) r hr
      have := einv_memOp_drop P hc Ok L hn he key h1 hd1 r hheld1 (by intro hp; rw [hf.2.2.2.2.1] at hp; cases hp)
      exact ⟨this.1, this.2, hheld2⟩
  · rw [if_neg hkk]
    obtain ⟨h1, hd1⟩ := einv_memOp_quiet P hc Ok L hn he k h hd (.ins key ver w hint ph loc .fresh) hkk
      (by intro rid hrid; cases hrid)
    have := einv_memOp_drop P hc Ok L hn he k h1 hd1 r hheld1 (by intro _; rw [hf.1]; exact hkk)
    exact ⟨this.1, this.2, hheld2⟩

end
end Foyer.Hyb
