import FoyerProofs.Lemmas.Hybrid
import FoyerProofs.C02
/-
  C12 — disk writes happen exactly when policy and placement advice say so (hybrid model).

  `subs` is the log of everything ever handed to the disk tier (`Store::enqueue` / `delete`); the
  device write log of the implementation is compared with it by the correspondence (`w`, `disk`).
-/
namespace Foyer.Hyb
open Foyer

section
variable {σ : Type} (P : Policy σ) (hc : HCfg)

/-- No submission carries in-memory-only advice. -/
def NoInMem (s : HState σ) : Prop := SubsAll (fun e _ => e.loc ≠ .inMem) s

theorem pipeSend_noInMem (s : HState σ) (r : Rec) (hs : NoInMem s) : NoInMem (pipeSend hc s r) := by
  unfold pipeSend
  split
  · exact hs
  · split
    · exact hs
    · rename_i hl
      exact submit_subsAll s r hs (fun _ _ => hl)

theorem foldl_pipeSend_noInMem (l : List Rec) : ∀ s : HState σ, NoInMem s → NoInMem (l.foldl (pipeSend hc) s) := by
  induction l with
  | nil => intro s hs; exact hs
  | cons r rs ih => intro s hs; exact ih _ (pipeSend_noInMem hc s r hs)

theorem memOp_noInMem (s : HState σ) (op : Op) (hs : NoInMem s) : NoInMem (memOp P hc s op).1 := by
  unfold memOp
  exact foldl_pipeSend_noInMem hc _ _ (subsAll_of_eq rfl hs)

/-- The handle an insert returns is the record built from the arguments. -/
theorem ins_handle_fields (cfg : Cfg) (c : Cache σ) (key ver w : Nat) (h : Hint) (ph : Bool) (loc : Loc) (age : Age)
    (r : Rec) (hr : (Cache.step P cfg c (.ins key ver w h ph loc age)).2.ret = .handle r) :
    r.key = key ∧ r.ver = ver ∧ r.loc = loc ∧ r.age = age ∧ r.phantom = ph ∧ r.hash = cfg.H key ∧ r.id = c.nextId := by
  simp only [Cache.step] at hr
  split at hr
  · cases hr
  · simp only at hr
    split at hr
    · cases hr
    · cases hr
      exact ⟨rfl, rfl, rfl, rfl, rfl, rfl, rfl⟩

theorem memInsert_noInMem (s : HState σ) (k v : Nat) (ph : Bool) (loc : Loc) (age : Age) (hs : NoInMem s) :
    NoInMem (memInsert P hc s k v ph loc age).1 := by
  unfold memInsert
  have h1 := memOp_noInMem P hc s (.ins k v 1 .normal ph loc age) hs
  cases hm : memOp P hc s (.ins k v 1 .normal ph loc age) with
  | mk s1 out =>
    rw [hm] at h1
    simp only
    split
    · dsimp only; exact memOp_noInMem P hc s1 _ h1
    · exact h1

theorem loadAndPopulate_noInMem (s : HState σ) (k : Nat) (hs : NoInMem s) :
    NoInMem (loadAndPopulate P hc s k).1 := by
  unfold loadAndPopulate
  split
  · exact memInsert_noInMem P hc s _ _ _ _ _ hs
  · split
    · exact hs
    · split
      · exact memInsert_noInMem P hc s _ _ _ _ _ hs
      · exact hs

theorem flush_noInMem (s : HState σ) (hs : NoInMem s) : NoInMem (flush hc s) :=
  subsAll_of_eq (flush_subs hc s) hs

theorem stepCore_noInMem (s : HState σ) (op : HOp) (hs : NoInMem s) : NoInMem (stepCore P hc s op).1 := by
  cases op with
  | ins key ver loc big =>
    simp only [stepCore]
    have h0 : NoInMem (if big then { s with big := ver :: s.big } else s) := by
      split
      · exact subsAll_of_eq rfl hs
      · exact hs
    generalize (if big then { s with big := ver :: s.big } else s) = s0 at h0
    have h1 := memOp_noInMem P hc s0 (.ins key ver 1 .normal (decide (loc = .onDisk)) loc .fresh) h0
    have ho := memOp_out P hc s0 (.ins key ver 1 .normal (decide (loc = .onDisk)) loc .fresh)
    cases hm : memOp P hc s0 (.ins key ver 1 .normal (decide (loc = .onDisk)) loc .fresh) with
    | mk s1 out =>
      rw [hm] at h1 ho
      simp only at h1 ho ⊢
      split
      · rename_i r hr
        have hf := ins_handle_fields P hc.mcfg s0.mem key ver 1 .normal _ loc .fresh r (by rw [← ho]; exact hr)
        dsimp only
        apply memOp_noInMem
        split
        · rename_i hc2
          refine submit_subsAll s1 r h1 (fun _ _ => ?_)
          show r.loc ≠ Loc.inMem
          rw [hf.2.2.1]
          simp only [Bool.and_eq_true, decide_eq_true_eq] at hc2
          exact hc2.2
        · exact h1
      · exact h1
  | wins key ver force =>
    simp only [stepCore]
    have h1 := memOp_noInMem P hc s (.ins key ver 1 .normal true .default .fresh) hs
    have ho := memOp_out P hc s (.ins key ver 1 .normal true .default .fresh)
    cases hm : memOp P hc s (.ins key ver 1 .normal true .default .fresh) with
    | mk s1 out =>
      rw [hm] at h1 ho
      simp only at h1 ho ⊢
      split
      · rename_i r hr
        have hf := ins_handle_fields P hc.mcfg s.mem key ver 1 .normal _ .default .fresh r (by rw [← ho]; exact hr)
        dsimp only
        apply memOp_noInMem
        split
        · refine submit_subsAll s1 r h1 (fun _ _ => ?_)
          show r.loc ≠ Loc.inMem
          rw [hf.2.2.1]; decide
        · exact h1
      · exact h1
  | rm key =>
    simp only [stepCore]
    have h1 := memOp_noInMem P hc s (.remove key) hs
    cases hm : memOp P hc s (.remove key) with
    | mk s1 out =>
      rw [hm] at h1
      simp only at h1 ⊢
      have h2 : NoInMem (match out.ret with
          | .handle r => (memOp P hc s1 (.drop r.id)).1
          | _ => s1) := by
        split
        · exact memOp_noInMem P hc s1 _ h1
        · exact h1
      exact subsAll_append_tomb (delete_subs hc _ key) h2
  | clear =>
    simp only [stepCore]
    have h1 := memOp_noInMem P hc s .clear hs
    cases hm : memOp P hc s .clear with
    | mk s1 out =>
      rw [hm] at h1
      simp only at h1 ⊢
      have : NoInMem (flush hc { s1 with seq := s1.seq + 1, queue := s1.queue ++ [.tomb 0 s1.seq],
                                          subs := s1.subs ++ [.tomb 0 s1.seq] }) := by
        apply flush_noInMem
        exact subsAll_append_tomb (s := s1) rfl h1
      exact subsAll_of_eq rfl this
  | get key =>
    simp only [stepCore]
    have h1 := memOp_noInMem P hc s (.get key) hs
    cases hm : memOp P hc s (.get key) with
    | mk s1 out =>
      rw [hm] at h1
      simp only at h1 ⊢
      split
      · dsimp only; exact memOp_noInMem P hc s1 _ h1
      · have h2 := loadAndPopulate_noInMem P hc s1 key h1
        split
        · rename_i heq; rw [heq] at h2; exact h2
        · rename_i heq; rw [heq] at h2; exact h2
  | fetch key ov =>
    simp only [stepCore]
    have h1 := memOp_noInMem P hc s (.get key) hs
    cases hm : memOp P hc s (.get key) with
    | mk s1 out =>
      rw [hm] at h1
      simp only at h1 ⊢
      split
      · dsimp only; exact memOp_noInMem P hc s1 _ h1
      · have h2 := loadAndPopulate_noInMem P hc s1 key h1
        split
        · rename_i heq; rw [heq] at h2; exact h2
        · rename_i s2 heq
          rw [heq] at h2
          simp only at h2
          have h3 := memOp_noInMem P hc s2 (.ins key ov 1 .normal false .default .fresh) h2
          have ho := memOp_out P hc s2 (.ins key ov 1 .normal false .default .fresh)
          cases hm3 : memOp P hc s2 (.ins key ov 1 .normal false .default .fresh) with
          | mk s3 out3 =>
            rw [hm3] at h3 ho
            simp only at h3 ho ⊢
            split
            · rename_i r hr
              have hf := ins_handle_fields P hc.mcfg s2.mem key ov 1 .normal _ .default .fresh r (by rw [← ho]; exact hr)
              dsimp only
              apply memOp_noInMem
              split
              · refine submit_subsAll s3 r h3 (fun _ _ => ?_)
                show r.loc ≠ Loc.inMem
                rw [hf.2.2.1]; decide
              · exact h3
            · exact h3
  | evict => simp only [stepCore]; exact memOp_noInMem P hc s _ hs
  | contains key => simp only [stepCore]; exact hs
  | wait => simp only [stepCore]; exact hs
  | hold => simp only [stepCore]; exact subsAll_of_eq rfl hs
  | unhold => simp only [stepCore]; exact subsAll_of_eq rfl hs
  | gate => simp only [stepCore]; exact subsAll_of_eq rfl hs
  | releaseAll => simp only [stepCore]; exact subsAll_of_eq rfl hs
  | releaseBatch => simp only [stepCore]; exact subsAll_of_eq rfl hs
  | lose h =>
    simp only [stepCore]
    split
    · exact hs
    · exact subsAll_of_eq rfl hs
  | reopen =>
    simp only [stepCore]
    have h1 : NoInMem (if hc.foc then (memOp P hc s .flush).1 else s) := by
      split
      · exact memOp_noInMem P hc s _ hs
      · exact hs
    generalize (if hc.foc then (memOp P hc s .flush).1 else s) = s1 at h1
    have h2 := flush_noInMem hc { s1 with held := false, gated := false } (subsAll_of_eq rfl h1)
    exact subsAll_of_eq rfl h2

/-- One step never submits an entry advised in-memory-only. -/
theorem step_noInMem (s : HState σ) (op : HOp) (hs : NoInMem s) : NoInMem (step P hc s op).1 := by
  unfold step
  exact flush_noInMem hc _ (stepCore_noInMem P hc s op hs)

/-- **C12 (in-memory-only advice)**: in every history — any operations, hold / gate windows, closes
and reopens — nothing advised in-memory-only is ever handed to the disk tier. -/
theorem inmem_never_submitted (memcap : Nat) (ops : List HOp) :
    NoInMem (run P hc (init P hc memcap) ops) := by
  have hgen : ∀ (ops : List HOp) (s : HState σ), NoInMem s → NoInMem (run P hc s ops) := by
    intro ops
    induction ops with
    | nil => intro s hs; exact hs
    | cons op ops ih => intro s hs; exact ih _ (step_noInMem P hc s op hs)
  apply hgen
  intro x hx
  simp [init] at hx

/-- **C12 (write-on-insertion: evictions write nothing)**. -/
theorem woi_eviction_writes_nothing (hw : hc.woi = true) (s : HState σ) (r : Rec) : pipeSend hc s r = s := by
  unfold pipeSend; simp [hw]

/-- **C12 (an entry just loaded from disk is not rewritten)**: the engine skips `young` entries. -/
theorem young_not_rewritten (s : HState σ) (r : Rec) (hy : r.age = .young) : submit s r = s := by
  unfold submit; simp [hy]

/-- Under write-on-insertion nothing reaches the disk tier through the pipe, whatever memory evicts. -/
theorem woi_memOp_subs (hw : hc.woi = true) (s : HState σ) (op : Op) : (memOp P hc s op).1.subs = s.subs := by
  unfold memOp
  simp only
  have : ∀ (l : List Rec) (s : HState σ), (l.foldl (pipeSend hc) s) = s := by
    intro l
    induction l with
    | nil => intro s; rfl
    | cons r rs ih => intro s; simp only [List.foldl_cons]; rw [woi_eviction_writes_nothing hc hw, ih]
  rw [this]

/-- Under write-on-eviction a memory operation that evicts nothing submits nothing. -/
theorem woe_no_eviction_no_write (s : HState σ) (op : Op)
    (hne : evictedOf (Cache.step P hc.mcfg s.mem op).2.leaves = []) : (memOp P hc s op).1.subs = s.subs := by
  unfold memOp
  simp only
  rw [C13.pipe_iff_evict, hne]
  rfl

theorem get_ret_handle_of_lookup (cfg : Cfg) (c : Cache σ) (k : Nat) (r : Rec) (h : Cache.lookup cfg c k = some r) :
    (Cache.step P cfg c (.get k)).2.ret = .handle r := by
  simp only [Cache.lookup] at h
  simp only [Cache.step]
  split at h
  · cases h
  · rename_i sh hsh
    rw [h]

theorem loadAndPopulate_src (s : HState σ) (k : Nat) (v : Nat) (src : String)
    (h : (loadAndPopulate P hc s k).2 = some (v, src)) : src = "memory" ∨ src = "disk" := by
  unfold loadAndPopulate at h
  split at h
  · simp only [Option.some.injEq, Prod.mk.injEq] at h; left; exact h.2.symm
  · split at h
    · cases h
    · split at h
      · simp only [Option.some.injEq, Prod.mk.injEq] at h; right; exact h.2.symm
      · cases h

/-- **C12 (origin only after both tiers missed)**: `get_or_fetch` answers from the origin only if
memory missed and the disk tier (keeper, then index with key check) missed. -/
theorem origin_only_after_misses (s : HState σ) (key ov : Nat)
    (h : (step P hc s (.fetch key ov)).2 = .val key ov "outer") :
    Cache.lookup hc.mcfg s.mem key = none ∧
    (loadAndPopulate P hc (memOp P hc s (.get key)).1 key).2 = none := by
  simp only [step, stepCore] at h
  have ho := memOp_out P hc s (.get key)
  cases hm : memOp P hc s (.get key) with
  | mk s1 out =>
    rw [hm] at h ho
    simp only at h ho
    split at h
    · -- memory hit: the source is "memory"
      simp at h
    · rename_i hnh
      constructor
      · cases hl : Cache.lookup hc.mcfg s.mem key with
        | none => rfl
        | some r =>
          exact absurd (by rw [ho]; exact get_ret_handle_of_lookup P hc.mcfg s.mem key r hl) (hnh r)
      · split at h
        · rename_i s2 v src heq
          simp only [HRet.val.injEq] at h
          have := loadAndPopulate_src P hc s1 key v src (by rw [heq])
          rcases this with h' | h' <;> rw [h'] at h <;> simp at h
        · rename_i s2 heq
          rw [heq]
end

end Foyer.Hyb
