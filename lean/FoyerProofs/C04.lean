import FoyerProofs.C07
import FoyerProofs.C01
/-
  C04 — recovery after a crash at any point is consistent.

  The crash-point enumeration (harness domain `crash`, `Driver.Crash`) runs, for every prefix of the
  device writes of a workload, the recovery model built from `Foyer.Blk.recoverBlock` (per block) and
  `Foyer.Hyb.recover` (the sequence-guarded index) and compares it with the reopened real store.
  The theorems here are about those two functions, for *every* device content:

    * the scanner and the per-block recovery never invent an entry: whatever they return is listed in
      a blob index page that is on the device (`scan_subset`, `recoverBlock_subset`) — so a key reads
      as a miss or as something that was really written;
    * per hash the newest copy wins and a tombstone at least as new suppresses it
      (`Foyer.Hyb.recovery_picks_latest`, `recovery_honours_tombstones`, proved in C01) — so a version
      written later (also after a restart: the sequence counter restarts above everything recovered)
      supersedes the earlier ones, and an acknowledged delete is not undone;
    * a block written in sequence order is read back exactly (`recover_reads_back`, C07) — so, while
      nothing is reclaimed, what was acknowledged stays readable.
-/
namespace Foyer.Blk

theorem idxAt_mem {m : IdxMap} {o : Nat} {es : List BEI} (h : idxAt m o = some es) : (o, es) ∈ m := by
  unfold idxAt at h
  cases hf : m.find? (·.1 = o) with
  | none => rw [hf] at h; cases h
  | some a =>
    rw [hf] at h
    simp only [Option.map_some, Option.some.injEq] at h
    have hm := List.mem_of_find?_eq_some hf
    have hp := List.find?_some hf
    simp only [decide_eq_true_eq] at hp
    have : a = (o, es) := by cases a; simp_all
    rw [← this]; exact hm

/-- **The scanner never invents an entry**: everything it returns sits in a blob index page of the
device, at the position that page says. -/
theorem scan_subset (c : LCfg) (m : IdxMap) : ∀ (fuel off : Nat), ∀ ps ∈ scan c m fuel off, ∀ p ∈ ps,
    ∃ o es e, (o, es) ∈ m ∧ e ∈ es ∧ p = place o e := by
  intro fuel
  induction fuel with
  | zero => intro off ps h; simp [scan] at h
  | succ fuel ih =>
    intro off ps h p hp
    simp only [scan] at h
    split at h
    · cases h
    · split at h
      · cases h
      · rename_i es hes
        rcases List.mem_cons.mp h with h1 | h1
        · subst h1
          simp only [List.mem_map] at hp
          obtain ⟨e, he, hpe⟩ := hp
          exact ⟨off, es, e, idxAt_mem hes, he, hpe.symm⟩
        · exact ih _ ps h1 p hp

theorem guardSeq_subset : ∀ (l : List Placed) (last : Nat), ∀ p ∈ guardSeq l last, p ∈ l := by
  intro l
  induction l with
  | nil => intro _ p h; simp [guardSeq] at h
  | cons x xs ih =>
    intro last p h
    simp only [guardSeq] at h
    split at h
    · cases h
    · rcases List.mem_cons.mp h with h1 | h1
      · subst h1; exact List.mem_cons_self
      · exact List.mem_cons_of_mem _ (ih _ p h1)

/-- **Per-block recovery never invents an entry** (for any device content: torn, stale, reused). -/
theorem recoverBlock_subset (c : LCfg) (m : IdxMap) : ∀ p ∈ recoverBlock c m,
    ∃ o es e, (o, es) ∈ m ∧ e ∈ es ∧ p = place o e := by
  intro p hp
  unfold recoverBlock at hp
  have h1 := guardSeq_subset _ _ p hp
  simp only [List.mem_flatten] at h1
  obtain ⟨ps, hps, hpp⟩ := h1
  exact scan_subset c m _ _ ps hps p hpp

/-! non-vacuity: a block with a stale blob behind the live one; the sequence guard cuts the stale entries off -/
section Demo
def m1 : IdxMap := [(0, [⟨1001, 7, 4096, 100⟩, ⟨1002, 8, 8192, 100⟩]), (12288, [⟨1000, 3, 4096, 50⟩])]
example : recoverBlock { B := 32768, I := 4096 } m1 = [⟨1001, 7, 4096, 100⟩, ⟨1002, 8, 8192, 100⟩] := by decide
end Demo

end Foyer.Blk
