import FoyerProofs.C06
/-
  C11 — An explicit insert is not overwritten by an older in-flight fetch.
-/
namespace Foyer.Infl

/-- **insert_answers_waiters**: `insert k v` delivers `v` to every caller that was waiting for `k`
and leaves no flight for `k` behind (its leader is closed). -/
theorem insert_answers_waiters (s : St) (k v : Nat) :
    (step s (.insert k v)).cache k = some v ∧ (step s (.insert k v)).flight k = none ∧
    (∀ fl, s.flight k = some fl → ∀ c ∈ s.callers, c.st = .pending → c.id ∈ fl.waiters →
      ∃ c' ∈ (step s (.insert k v)).callers, c'.id = c.id ∧ c'.st = .done (.val v)) := by
  have e : step s (.insert k v) = insertKV s k v := rfl
  rw [e]
  unfold insertKV
  refine ⟨by simp only [upd_same], takeNotify_flight s k _, ?_⟩
  intro fl hfl c hc hp hw
  show ∃ c' ∈ (takeNotify s k (.val v)).callers, _
  rw [takeNotify_callers s k _ fl hfl]
  refine ⟨_, List.mem_map.mpr ⟨c, hc, rfl⟩, ?_⟩
  simp [hw, hp]

/-- One step cannot change a cached key that has no flight, unless the step is an insert or a
remove of that very key. -/
theorem cached_stable_step (s : St) (h : Inv s) (k v : Nat) (hc : s.cache k = some v) (e : Ev)
    (hne : ∀ w, e ≠ .insert k w ∧ e ≠ .pinsert k w) (hnr : e ≠ .remove k) :
    (step s e).cache k = some v := by
  have hnf : s.flight k = none := h.cached_no_flight k v hc
  -- a flight-driven insert can only concern a key that has a flight
  have ins_other : ∀ (j w : Nat), (s.flight j).isSome → (insertKV s j w).cache k = some v := by
    intro j w hj
    have hjk : k ≠ j := by
      intro e'; subst e'; rw [hnf] at hj; cases hj
    unfold insertKV
    simp only [upd_other _ _ _ _ hjk, takeNotify_cache]
    exact hc
  have tsr : ∀ (j : Nat) (fl : Flight) (fr : Option Nat) (r : Res), (trySetRequired s j fl fr r).cache k = some v := by
    intro j fl fr r
    unfold trySetRequired
    cases fr with
    | some f => exact hc
    | none =>
      simp only []
      cases fl.donated with
      | some f => exact hc
      | none => simp only [takeNotify_cache]; exact hc
  cases e with
  | call c j disk fetch =>
    simp only [step]
    cases s.cache j <;> simp only []
    · cases s.flight j <;> simp only []
      · split
        · exact hc
        · split <;> exact hc
      · exact hc
    · exact hc
  | disk c r =>
    simp only [step]
    split
    · exact hc
    · rename_i j hj
      split
      · exact hc
      · rename_i fl hfl
        split
        · split
          · cases r with
            | hit w => exact ins_other j w (by rw [hfl]; rfl)
            | miss => exact tsr j fl _ _
            | err => exact tsr j fl _ _
          · exact hc
        · exact hc
  | origin f r =>
    simp only [step]
    split
    · exact hc
    · rename_i j hj
      split
      · exact hc
      · rename_i fl hfl
        split
        · cases r with
          | ok w => exact ins_other j w (by rw [hfl]; rfl)
          | err => simp only [takeNotify_cache]; exact hc
        · exact hc
  | insert j w =>
    have hjk : k ≠ j := fun e' => (hne w).1 (by rw [e'])
    show (insertKV s j w).cache k = some v
    unfold insertKV
    simp only [upd_other _ _ _ _ hjk, takeNotify_cache]
    exact hc
  | pinsert j w =>
    have hjk : k ≠ j := fun e' => (hne w).2 (by rw [e'])
    show (pinsertKV s j w).cache k = some v
    unfold pinsertKV
    simp only [upd_other _ _ _ _ hjk, takeNotify_cache]
    exact hc
  | remove j =>
    have hjk : k ≠ j := fun e' => hnr (by rw [e'])
    simp only [step, upd_other _ _ _ _ hjk]
    exact hc
  | dropCaller c => exact hc
  | abort =>
    simp only [step]
    generalize (s.callers.map (·.key)) = ks
    have : ∀ (ks : List Nat) (t : St), t.cache k = some v → (ks.foldl (fun acc k => takeNotify acc k .errCancelled) t).cache k = some v := by
      intro ks
      induction ks with
      | nil => intro t ht; exact ht
      | cons j js ih => intro t ht; exact ih _ (by simp only [takeNotify_cache]; exact ht)
    exact this ks s hc

/-- **late_fetch_discarded**: once `insert k v` has returned, `k` reads `v` in *every* later state,
whatever the still-running fetch resolves to, whoever else calls, until the next explicit insert
or remove of `k`. -/
theorem late_fetch_discarded (k v : Nat) : ∀ (evs : List Ev) (s : St), Inv s → wfRun s evs →
    s.cache k = some v → (∀ e ∈ evs, (∀ w, e ≠ .insert k w ∧ e ≠ .pinsert k w) ∧ e ≠ .remove k) →
    (run s evs).cache k = some v := by
  intro evs
  induction evs with
  | nil => intro s _ _ hc _; exact hc
  | cons e es ih =>
    intro s h hw hc hall
    have h1 := hall e List.mem_cons_self
    exact ih _ (inv_step h e hw.1) hw.2 (cached_stable_step s h k v hc e h1.1 h1.2)
      (fun e' he' => hall e' (List.mem_cons_of_mem _ he'))

/-- The property as stated: from any reachable state, insert `k v`, then anything that is not an
insert / remove of `k`. -/
theorem insert_not_overwritten (pre post : List Ev) (k v : Nat) (hw : wfRun {} (pre ++ [.insert k v] ++ post))
    (hpost : ∀ e ∈ post, (∀ w, e ≠ .insert k w ∧ e ≠ .pinsert k w) ∧ e ≠ .remove k) :
    (run {} (pre ++ [.insert k v] ++ post)).cache k = some v := by
  have split : ∀ (a b : List Ev) (s : St), run s (a ++ b) = run (run s a) b := by
    intro a b s; simp [run, List.foldl_append]
  have wsplit : ∀ (a b : List Ev) (s : St), wfRun s (a ++ b) → wfRun s a ∧ wfRun (run s a) b := by
    intro a
    induction a with
    | nil => intro b s h; exact ⟨trivial, h⟩
    | cons e es ih =>
      intro b s h
      obtain ⟨h1, h2⟩ := h
      obtain ⟨h3, h4⟩ := ih b _ h2
      exact ⟨⟨h1, h3⟩, h4⟩
  rw [split]
  obtain ⟨hw1, hw2⟩ := wsplit _ _ _ hw
  apply late_fetch_discarded k v post _ (inv_run _ _ inv_init hw1) hw2 _ hpost
  rw [split]
  exact (insert_answers_waiters _ k v).1

/-- **A disk-only insert** (`pinsert`: the memory filter rejects the value, or on-disk advice) **closes the
flight of its key all the same**: its waiters receive the inserted value, nothing stays cached for the key, and
no flight is left whose late result could be written. -/
theorem pinsert_closes_flight (s : St) (k v : Nat) :
    (step s (.pinsert k v)).cache k = none ∧ (step s (.pinsert k v)).flight k = none ∧
    (∀ fl, s.flight k = some fl → ∀ c ∈ s.callers, c.st = .pending → c.id ∈ fl.waiters →
      ∃ c' ∈ (step s (.pinsert k v)).callers, c'.id = c.id ∧ c'.st = .done (.val v)) := by
  have e : step s (.pinsert k v) = pinsertKV s k v := rfl
  rw [e]
  unfold pinsertKV
  refine ⟨by simp only [upd_same], takeNotify_flight s k _, ?_⟩
  intro fl hfl c hc hp hw
  show ∃ c' ∈ (takeNotify s k (.val v)).callers, _
  rw [takeNotify_callers s k _ fl hfl]
  refine ⟨_, List.mem_map.mpr ⟨c, hc, rfl⟩, ?_⟩
  simp [hw, hp]

/-- **The result of a closed lookup / fetch is discarded**: with no flight for the key of caller `c`, a late
disk or origin result for `c` changes nothing at all. -/
theorem closed_flight_ignores_results (s : St) (c k : Nat) (hk : keyOfCaller s c = some k) (hf : s.flight k = none)
    (d : DRes) (o : ORes) : step s (.disk c d) = s ∧ step s (.origin c o) = s := by
  constructor <;> simp only [step, hk, hf]

/-! ### Non-vacuity: the very scenario of the property -/
namespace Demo11
def evs : List Ev := [.call 0 3 false true, .insert 3 100, .origin 0 (.ok 7), .call 1 3 false true]
example : (run {} evs).cache 3 = some 100 := by decide
example : (run {} evs).callers.map (·.st) = [.done (.val 100), .done (.hit 100)] := by decide
example : (run {} evs).started = [0] := by decide
/-- a disk-only insert while a fetch is in flight: the waiter gets the inserted value, the late fetch result is dropped -/
def evs2 : List Ev := [.call 0 3 false true, .pinsert 3 1000000100, .origin 0 (.ok 7), .call 1 3 false false]
example : (run {} evs2).cache 3 = none := by decide
example : (run {} evs2).callers.map (·.st) = [.done (.val 1000000100), .done .none] := by decide
end Demo11

end Foyer.Infl
