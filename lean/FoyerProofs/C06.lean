import FoyerModel.Inflight
/-
  C06 — Concurrent fetches of one key are coalesced and every caller is answered.
  (C11's theorems are in `FoyerProofs/C11.lean`; both are about `FoyerModel.Inflight`.)

  In the model the in-flight entry of a key and its open leader task are one object (`Flight`),
  so "at most one open leader per key" is structural (`flight : Nat → Option Flight`); what is
  proved by induction over *every* event sequence is that no caller is ever left waiting outside
  a flight (`no_orphan_waiter`), that every flight waits for a future that has really started
  (`flight_awaits_started`), and the per-event consequences: every terminal transition of a leader
  answers all its waiters, failures cache nothing, donated fetch closures are used.
-/
namespace Foyer.Infl

/-- Events as the harness (and any client) issues them: caller ids are fresh. -/
def Ev.wf (s : St) : Ev → Prop
  | .call c _ _ _ => ∀ x ∈ s.callers, x.id ≠ c
  | _ => True

/-- The invariant. -/
structure Inv (s : St) : Prop where
  /-- a pending caller is registered in the flight of its key -/
  waiting : ∀ c ∈ s.callers, c.st = .pending → ∃ fl, s.flight c.key = some fl ∧ c.id ∈ fl.waiters
  /-- a cached key has no flight (nothing in flight can later overwrite it) -/
  cached_no_flight : ∀ k v, s.cache k = some v → s.flight k = none
  /-- the future a leader awaits has started; a donated closure has not -/
  awaits : ∀ k fl, s.flight k = some fl →
    match fl.st with
    | .optional d _ => d ∈ s.dstarted
    | .required f => f ∈ s.started
  /-- every waiter of a flight is a caller of that key -/
  waiters_keys : ∀ k fl, s.flight k = some fl → ∀ w ∈ fl.waiters, ∃ c ∈ s.callers, c.id = w ∧ c.key = k

theorem notify_mem {callers : List Caller} {ws : List Nat} {r : Res} {c : Caller}
    (h : c ∈ notify callers ws r) :
    ∃ c0 ∈ callers, c0.id = c.id ∧ c0.key = c.key ∧
      (c = c0 ∨ (c0.st = .pending ∧ c0.id ∈ ws ∧ c.st = .done r)) := by
  simp only [notify, List.mem_map] at h
  obtain ⟨c0, h0, rfl⟩ := h
  refine ⟨c0, h0, ?_⟩
  split
  · rename_i hc
    refine ⟨rfl, rfl, Or.inr ⟨hc.2, by simpa using hc.1, rfl⟩⟩
  · exact ⟨rfl, rfl, Or.inl rfl⟩

theorem notify_pending {callers : List Caller} {ws : List Nat} {r : Res} {c : Caller}
    (h : c ∈ notify callers ws r) (hp : c.st = .pending) : c ∈ callers ∧ c.id ∉ ws := by
  obtain ⟨c0, h0, _, _, h3 | ⟨_, _, h6⟩⟩ := notify_mem h
  · subst h3
    refine ⟨h0, ?_⟩
    intro hw
    simp only [notify, List.mem_map] at h
    obtain ⟨c1, h1, he⟩ := h
    split at he
    · rw [← he] at hp; cases hp
    · rename_i hn
      subst he
      exact hn ⟨by simpa using hw, hp⟩
  · rw [h6] at hp; cases hp

theorem notify_ids (callers : List Caller) (ws : List Nat) (r : Res) :
    ∀ c ∈ callers, ∃ c' ∈ notify callers ws r, c'.id = c.id ∧ c'.key = c.key := by
  intro c hc
  refine ⟨_, List.mem_map.mpr ⟨c, hc, rfl⟩, ?_⟩
  split <;> exact ⟨rfl, rfl⟩

theorem upd_same {α : Type} (f : Nat → α) (k : Nat) (a : α) : upd f k a k = a := by simp [upd]
theorem upd_other {α : Type} (f : Nat → α) (k j : Nat) (a : α) (h : j ≠ k) : upd f k a j = f j := by simp [upd, h]

/-- `takeNotify` keeps the invariant (the taken flight's waiters are all answered). -/
theorem inv_takeNotify {s : St} (h : Inv s) (k : Nat) (r : Res) : Inv (takeNotify s k r) := by
  unfold takeNotify
  cases hf : s.flight k with
  | none => exact h
  | some fl =>
    simp only []
    refine ⟨?_, ?_, ?_, ?_⟩
    · intro c hc hp
      obtain ⟨hc0, hnw⟩ := notify_pending hc hp
      obtain ⟨fl', h1, h2⟩ := h.waiting c hc0 hp
      by_cases hk : c.key = k
      · rw [hk, hf] at h1; cases h1; exact absurd h2 hnw
      · exact ⟨fl', by simp only [upd_other _ _ _ _ hk]; exact h1, h2⟩
    · intro j v hv
      by_cases hj : j = k
      · subst hj; simp only [upd_same]
      · simp only [upd_other _ _ _ _ hj]; exact h.cached_no_flight j v hv
    · intro j fl' hj
      by_cases hjk : j = k
      · subst hjk; simp only [upd_same] at hj; cases hj
      · simp only [upd_other _ _ _ _ hjk] at hj; exact h.awaits j fl' hj
    · intro j fl' hj w hw
      by_cases hjk : j = k
      · subst hjk; simp only [upd_same] at hj; cases hj
      · simp only [upd_other _ _ _ _ hjk] at hj
        obtain ⟨c, hc, h1, h2⟩ := h.waiters_keys j fl' hj w hw
        obtain ⟨c', hc', h3, h4⟩ := notify_ids s.callers fl.waiters r c hc
        exact ⟨c', hc', by rw [h3, h1], by rw [h4, h2]⟩

theorem takeNotify_flight (s : St) (k : Nat) (r : Res) : (takeNotify s k r).flight k = none := by
  unfold takeNotify
  cases hf : s.flight k with
  | none => exact hf
  | some fl => exact upd_same _ _ _

theorem takeNotify_cache (s : St) (k : Nat) (r : Res) : (takeNotify s k r).cache = s.cache := by
  unfold takeNotify; cases s.flight k <;> rfl

theorem takeNotify_started (s : St) (k : Nat) (r : Res) :
    (takeNotify s k r).started = s.started ∧ (takeNotify s k r).dstarted = s.dstarted := by
  unfold takeNotify; cases s.flight k <;> exact ⟨rfl, rfl⟩

theorem inv_insertKV {s : St} (h : Inv s) (k v : Nat) : Inv (insertKV s k v) := by
  have h1 := inv_takeNotify h k (.val v)
  have hfl := takeNotify_flight s k (.val v)
  unfold insertKV
  refine ⟨h1.waiting, ?_, h1.awaits, h1.waiters_keys⟩
  intro j w hw
  by_cases hj : j = k
  · subst hj; exact hfl
  · simp only [upd_other _ _ _ _ hj] at hw
    exact h1.cached_no_flight j w hw

theorem inv_pinsertKV {s : St} (h : Inv s) (k v : Nat) : Inv (pinsertKV s k v) := by
  have h1 := inv_takeNotify h k (.val v)
  unfold pinsertKV
  refine ⟨h1.waiting, ?_, h1.awaits, h1.waiters_keys⟩
  intro j w hw
  by_cases hj : j = k
  · subst hj; simp [upd_same] at hw
  · simp only [upd_other _ _ _ _ hj] at hw
    exact h1.cached_no_flight j w hw

theorem inv_trySetRequired {s : St} (h : Inv s) (k : Nat) (fl : Flight) (hfl : s.flight k = some fl)
    (fr : Option Nat) (r : Res) : Inv (trySetRequired s k fl fr r) := by
  have setSt : ∀ (f : Nat) (don : Option Nat),
      Inv { s with flight := upd s.flight k (some { fl with st := .required f, donated := don }),
                   started := s.started ++ [f] } := by
    intro f don
    refine ⟨?_, ?_, ?_, ?_⟩
    · intro c hc hp
      obtain ⟨fl', h1, h2⟩ := h.waiting c hc hp
      by_cases hk : c.key = k
      · rw [hk, hfl] at h1; cases h1
        exact ⟨{ fl with st := .required f, donated := don }, by rw [hk]; simp only [upd_same], h2⟩
      · exact ⟨fl', by simp only [upd_other _ _ _ _ hk]; exact h1, h2⟩
    · intro j v hv
      by_cases hj : j = k
      · subst hj
        have := h.cached_no_flight j v hv
        rw [hfl] at this; cases this
      · simp only [upd_other _ _ _ _ hj]; exact h.cached_no_flight j v hv
    · intro j fl' hj
      by_cases hjk : j = k
      · subst hjk
        simp only [upd_same, Option.some.injEq] at hj
        subst hj
        simp
      · simp only [upd_other _ _ _ _ hjk] at hj
        have := h.awaits j fl' hj
        split at this <;> simp_all
    · intro j fl' hj w hw
      by_cases hjk : j = k
      · subst hjk
        simp only [upd_same, Option.some.injEq] at hj
        subst hj
        exact h.waiters_keys j fl hfl w hw
      · simp only [upd_other _ _ _ _ hjk] at hj
        exact h.waiters_keys j fl' hj w hw
  unfold trySetRequired
  cases fr with
  | some f => exact setSt f fl.donated
  | none =>
    simp only []
    cases hd : fl.donated with
    | some f => exact setSt f none
    | none => exact inv_takeNotify h k r

/-- **The invariant is inductive.** -/
theorem inv_step {s : St} (h : Inv s) (e : Ev) (hwf : e.wf s) : Inv (step s e) := by
  cases e with
  | call c k disk fetch =>
    simp only [Ev.wf] at hwf
    simp only [step]
    cases hc : s.cache k with
    | some v =>
      simp only []
      refine ⟨?_, h.cached_no_flight, h.awaits, ?_⟩
      · intro x hx hp
        rcases List.mem_append.mp hx with h1 | h1
        · exact h.waiting x h1 hp
        · simp only [List.mem_singleton] at h1; subst h1; cases hp
      · intro j fl hj w hw
        obtain ⟨x, hx, h1⟩ := h.waiters_keys j fl hj w hw
        exact ⟨x, List.mem_append.mpr (Or.inl hx), h1⟩
    | none =>
      simp only []
      cases hf : s.flight k with
      | some fl =>
        simp only []
        refine ⟨?_, ?_, ?_, ?_⟩
        · intro x hx hp
          rcases List.mem_append.mp hx with h1 | h1
          · obtain ⟨fl', h2, h3⟩ := h.waiting x h1 hp
            by_cases hk : x.key = k
            · rw [hk, hf] at h2; cases h2
              exact ⟨_, by rw [hk]; exact upd_same _ _ _, List.mem_append.mpr (Or.inl h3)⟩
            · exact ⟨fl', by simp only [upd_other _ _ _ _ hk]; exact h2, h3⟩
          · simp only [List.mem_singleton] at h1; subst h1
            exact ⟨_, upd_same _ _ _, List.mem_append.mpr (Or.inr (List.mem_singleton.mpr rfl))⟩
        · intro j v hv
          by_cases hj : j = k
          · subst hj; rw [hc] at hv; cases hv
          · simp only [upd_other _ _ _ _ hj]; exact h.cached_no_flight j v hv
        · intro j fl' hj
          by_cases hjk : j = k
          · subst hjk
            simp only [upd_same, Option.some.injEq] at hj
            subst hj
            exact h.awaits j fl hf
          · simp only [upd_other _ _ _ _ hjk] at hj; exact h.awaits j fl' hj
        · intro j fl' hj w hw
          by_cases hjk : j = k
          · subst hjk
            simp only [upd_same, Option.some.injEq] at hj
            subst hj
            rcases List.mem_append.mp hw with h1 | h1
            · obtain ⟨x, hx, h2⟩ := h.waiters_keys j fl hf w h1
              exact ⟨x, List.mem_append.mpr (Or.inl hx), h2⟩
            · simp only [List.mem_singleton] at h1; subst h1
              exact ⟨_, List.mem_append.mpr (Or.inr (List.mem_singleton.mpr rfl)), rfl, rfl⟩
          · simp only [upd_other _ _ _ _ hjk] at hj
            obtain ⟨x, hx, h2⟩ := h.waiters_keys j fl' hj w hw
            exact ⟨x, List.mem_append.mpr (Or.inl hx), h2⟩
      | none =>
        simp only []
        -- a new flight led by `c` (or, with neither lookup nor fetch, an immediate `Ok(None)`)
        have newFlight : ∀ (fl : Flight) (st' dst' : List Nat), fl.waiters = [c] →
            (match fl.st with | .optional d _ => d ∈ dst' | .required f => f ∈ st') →
            (∀ x, x ∈ s.started → x ∈ st') → (∀ x, x ∈ s.dstarted → x ∈ dst') →
            Inv { s with callers := s.callers ++ [{ id := c, key := k, st := .pending }],
                         flight := upd s.flight k (some fl), started := st', dstarted := dst' } := by
          intro fl st' dst' hw hst hs1 hs2
          refine ⟨?_, ?_, ?_, ?_⟩
          · intro x hx hp
            rcases List.mem_append.mp hx with h1 | h1
            · obtain ⟨fl', h2, h3⟩ := h.waiting x h1 hp
              by_cases hk : x.key = k
              · rw [hk, hf] at h2; cases h2
              · exact ⟨fl', by simp only [upd_other _ _ _ _ hk]; exact h2, h3⟩
            · simp only [List.mem_singleton] at h1; subst h1
              exact ⟨fl, upd_same _ _ _, by rw [hw]; exact List.mem_singleton.mpr rfl⟩
          · intro j v hv
            by_cases hj : j = k
            · subst hj; rw [hc] at hv; cases hv
            · simp only [upd_other _ _ _ _ hj]; exact h.cached_no_flight j v hv
          · intro j fl' hj
            by_cases hjk : j = k
            · subst hjk
              simp only [upd_same, Option.some.injEq] at hj
              subst hj; exact hst
            · simp only [upd_other _ _ _ _ hjk] at hj
              have := h.awaits j fl' hj
              split at this
              · exact hs2 _ this
              · exact hs1 _ this
          · intro j fl' hj w hw'
            by_cases hjk : j = k
            · subst hjk
              simp only [upd_same, Option.some.injEq] at hj
              subst hj
              rw [hw] at hw'
              simp only [List.mem_singleton] at hw'; subst hw'
              exact ⟨_, List.mem_append.mpr (Or.inr (List.mem_singleton.mpr rfl)), rfl, rfl⟩
            · simp only [upd_other _ _ _ _ hjk] at hj
              obtain ⟨x, hx, h2⟩ := h.waiters_keys j fl' hj w hw'
              exact ⟨x, List.mem_append.mpr (Or.inl hx), h2⟩
        split
        · exact newFlight _ s.started (s.dstarted ++ [c]) rfl (by simp) (fun _ hx => hx)
            (fun _ hx => List.mem_append.mpr (Or.inl hx))
        · split
          · exact newFlight _ (s.started ++ [c]) s.dstarted rfl (by simp)
              (fun _ hx => List.mem_append.mpr (Or.inl hx)) (fun _ hx => hx)
          · -- no flight is created; `c` is answered `none` at once
            refine ⟨?_, h.cached_no_flight, h.awaits, ?_⟩
            · intro x hx hp
              obtain ⟨hx0, hnw⟩ := notify_pending hx hp
              rcases List.mem_append.mp hx0 with h1 | h1
              · exact h.waiting x h1 hp
              · simp only [List.mem_singleton] at h1; subst h1
                exact absurd (List.mem_singleton.mpr rfl) hnw
            · intro j fl hj w hw
              obtain ⟨x, hx, h2⟩ := h.waiters_keys j fl hj w hw
              obtain ⟨x', hx', h3, h4⟩ := notify_ids (s.callers ++ [{ id := c, key := k, st := .pending }]) [c] .none x
                (List.mem_append.mpr (Or.inl hx))
              exact ⟨x', hx', by rw [h3, h2.1], by rw [h4, h2.2]⟩
  | disk c r =>
    simp only [step]
    split
    · exact h
    · rename_i k hk
      split
      · exact h
      · rename_i fl hfl
        split
        · rename_i d fr hst
          split
          · cases r with
            | hit v => exact inv_insertKV h k v
            | miss => exact inv_trySetRequired h k fl hfl fr .none
            | err => exact inv_trySetRequired h k fl hfl fr .errDisk
          · exact h
        · exact h
  | origin f r =>
    simp only [step]
    split
    · exact h
    · rename_i k hk
      split
      · exact h
      · rename_i fl hfl
        split
        · cases r with
          | ok v => exact inv_insertKV h k v
          | err => exact inv_takeNotify h k .errFetch
        · exact h
  | insert k v => exact inv_insertKV h k v
  | pinsert k v => exact inv_pinsertKV h k v
  | remove k =>
    simp only [step]
    refine ⟨h.waiting, ?_, h.awaits, h.waiters_keys⟩
    intro j v hv
    by_cases hj : j = k
    · subst hj; simp [upd_same] at hv
    · simp only [upd_other _ _ _ _ hj] at hv; exact h.cached_no_flight j v hv
  | dropCaller c =>
    simp only [step]
    refine ⟨?_, h.cached_no_flight, h.awaits, ?_⟩
    · intro x hx hp
      simp only [List.mem_map] at hx
      obtain ⟨x0, hx0, he⟩ := hx
      split at he
      · subst he; cases hp
      · subst he; exact h.waiting x0 hx0 hp
    · intro j fl hj w hw
      obtain ⟨x, hx, h2⟩ := h.waiters_keys j fl hj w hw
      refine ⟨_, List.mem_map.mpr ⟨x, hx, rfl⟩, ?_⟩
      split <;> exact h2
  | abort =>
    simp only [step]
    generalize (s.callers.map (·.key)) = ks
    induction ks generalizing s with
    | nil => exact h
    | cons k ks ih => exact ih (inv_takeNotify h k .errCancelled) trivial

/-- **no_orphan_waiter** — for every event sequence (with fresh caller ids): in every reachable
state each waiting caller is registered in the flight of its key, whose leader awaits a future that
has started.  So a caller can stay unanswered only as long as that future neither resolves nor is
dropped; no caller is ever "forgotten". -/
def wfRun : St → List Ev → Prop
  | _, [] => True
  | s, e :: es => e.wf s ∧ wfRun (step s e) es

theorem inv_init : Inv {} := ⟨by simp, by simp, by simp, by simp⟩

theorem inv_run : ∀ (evs : List Ev) (s : St), Inv s → wfRun s evs → Inv (run s evs) := by
  intro evs
  induction evs with
  | nil => intro s h _; exact h
  | cons e es ih => intro s h hw; exact ih _ (inv_step h e hw.1) hw.2

theorem no_orphan_waiter (evs : List Ev) (hw : wfRun {} evs) :
    ∀ c ∈ (run {} evs).callers, c.st = .pending →
      ∃ fl, (run {} evs).flight c.key = some fl ∧ c.id ∈ fl.waiters ∧
        (match fl.st with
          | .optional d _ => d ∈ (run {} evs).dstarted
          | .required f => f ∈ (run {} evs).started) := by
  intro c hc hp
  have h := inv_run evs {} inv_init hw
  obtain ⟨fl, h1, h2⟩ := h.waiting c hc hp
  exact ⟨fl, h1, h2, h.awaits _ fl h1⟩

/-! ### every terminal transition of a leader answers all its waiters -/

theorem notify_answers (callers : List Caller) (ws : List Nat) (r : Res) :
    ∀ c ∈ notify callers ws r, c.id ∈ ws → c.st ≠ .pending := by
  intro c hc hw hp
  exact (notify_pending hc hp).2 hw

theorem takeNotify_flight_other (s : St) (k j : Nat) (r : Res) (h : j ≠ k) :
    (takeNotify s k r).flight j = s.flight j := by
  unfold takeNotify
  cases hf : s.flight k with
  | none => rfl
  | some fl => simp only [upd_other _ _ _ _ h]

theorem takeNotify_callers (s : St) (k : Nat) (r : Res) (fl : Flight) (hf : s.flight k = some fl) :
    (takeNotify s k r).callers = notify s.callers fl.waiters r := by
  unfold takeNotify; simp only [hf]

/-- **success_same_entry / coalescing**: when the origin fetch of the leader resolves successfully,
the value is cached, the flight is gone, and *every* waiter that was still listening holds that same
value — one fetch served them all. -/
theorem origin_ok_answers_all (s : St) (f k v : Nat) (fl : Flight) (hk : keyOfCaller s f = some k)
    (hfl : s.flight k = some fl) (hst : fl.st = .required f) :
    (step s (.origin f (.ok v))).cache k = some v ∧ (step s (.origin f (.ok v))).flight k = none ∧
    (step s (.origin f (.ok v))).started = s.started ∧
    ∀ c ∈ (step s (.origin f (.ok v))).callers, c.id ∈ fl.waiters → c.st ≠ .pending := by
  have e : step s (.origin f (.ok v)) = insertKV s k v := by simp [step, hk, hfl, hst]
  rw [e]
  unfold insertKV
  refine ⟨by simp only [upd_same], takeNotify_flight s k _, (takeNotify_started s k _).1, ?_⟩
  show ∀ c ∈ (takeNotify s k (.val v)).callers, _
  rw [takeNotify_callers s k _ fl hfl]
  exact notify_answers _ _ _

/-- **error_propagates / failed_fetch_caches_nothing**: a failed origin fetch answers every waiter
(with the fetch's error), caches nothing and leaves no flight behind — the next caller leads a new
fetch. -/
theorem origin_err_answers_all (s : St) (f k : Nat) (fl : Flight) (hk : keyOfCaller s f = some k)
    (hfl : s.flight k = some fl) (hst : fl.st = .required f) :
    (step s (.origin f .err)).cache = s.cache ∧ (step s (.origin f .err)).flight k = none ∧
    (∀ c ∈ (step s (.origin f .err)).callers, c.id ∈ fl.waiters → c.st ≠ .pending) ∧
    (∀ c ∈ s.callers, c.st = .pending → c.id ∈ fl.waiters →
      ∃ c' ∈ (step s (.origin f .err)).callers, c'.id = c.id ∧ c'.st = .done .errFetch) := by
  have e : step s (.origin f .err) = takeNotify s k .errFetch := by simp [step, hk, hfl, hst]
  rw [e]
  refine ⟨takeNotify_cache s k _, takeNotify_flight s k _, ?_, ?_⟩
  · rw [takeNotify_callers s k _ fl hfl]; exact notify_answers _ _ _
  · intro c hc hp hw
    rw [takeNotify_callers s k _ fl hfl]
    refine ⟨_, List.mem_map.mpr ⟨c, hc, rfl⟩, ?_⟩
    simp [hw, hp]

/-- After a failed fetch the next call of the key fetches again. -/
theorem next_call_fetches_again (s : St) (c k : Nat) (hc : s.cache k = none) (hf : s.flight k = none) :
    (step s (.call c k false true)).started = s.started ++ [c] := by
  simp [step, hc, hf]

def abortAll (ks : List Nat) (s : St) : St := ks.foldl (fun acc k => takeNotify acc k .errCancelled) s

theorem abortAll_inv : ∀ (ks : List Nat) (s : St), Inv s → Inv (abortAll ks s) := by
  intro ks
  induction ks with
  | nil => intro s h; exact h
  | cons k ks ih => intro s h; exact ih _ (inv_takeNotify h k .errCancelled)

theorem abortAll_flight_none : ∀ (ks : List Nat) (s : St) (k : Nat), s.flight k = none → (abortAll ks s).flight k = none := by
  intro ks
  induction ks with
  | nil => intro s k h; exact h
  | cons j js ih =>
    intro s k h
    apply ih
    by_cases hjk : k = j
    · subst hjk; exact takeNotify_flight s k _
    · rw [takeNotify_flight_other s j k _ hjk]; exact h

theorem abortAll_flight_mem : ∀ (ks : List Nat) (s : St) (k : Nat), k ∈ ks → (abortAll ks s).flight k = none := by
  intro ks
  induction ks with
  | nil => intro s k h; cases h
  | cons j js ih =>
    intro s k h
    rcases List.mem_cons.mp h with rfl | h1
    · exact abortAll_flight_none js _ k (takeNotify_flight s k _)
    · exact ih _ k h1

theorem abortAll_keys : ∀ (ks : List Nat) (s : St), ∀ x ∈ (abortAll ks s).callers, ∃ x0 ∈ s.callers, x0.key = x.key := by
  intro ks
  induction ks with
  | nil => intro s x hx; exact ⟨x, hx, rfl⟩
  | cons j js ih =>
    intro s x hx
    obtain ⟨x1, hx1', h1⟩ := ih _ x hx
    have hx1 : x1 ∈ (takeNotify s j .errCancelled).callers := hx1'
    cases hj : s.flight j with
    | none =>
      have : takeNotify s j .errCancelled = s := by unfold takeNotify; simp only [hj]
      rw [this] at hx1; exact ⟨x1, hx1, h1⟩
    | some fl' =>
      rw [takeNotify_callers s j _ fl' hj] at hx1
      obtain ⟨x0, hx0, _, h3, _⟩ := notify_mem hx1
      exact ⟨x0, hx0, by rw [h3, h1]⟩

/-- **cancel_propagates**: when the fetch tasks are cancelled no caller is left waiting. -/
theorem abort_answers_all (s : St) (h : Inv s) : ∀ c ∈ (step s .abort).callers, c.st ≠ .pending := by
  intro c hc hp
  have hc' : c ∈ (abortAll (s.callers.map (·.key)) s).callers := hc
  have hInv := abortAll_inv (s.callers.map (·.key)) s h
  obtain ⟨fl, hfl, _⟩ := hInv.waiting c hc' hp
  obtain ⟨x0, hx0, h1⟩ := abortAll_keys _ s c hc'
  have hmem : c.key ∈ s.callers.map (·.key) := List.mem_map.mpr ⟨x0, hx0, h1⟩
  rw [abortAll_flight_mem _ s c.key hmem] at hfl
  cases hfl

/-- **donated_fetch_used**: a lookup-only leader that was joined by a caller with a fetch closure
runs that closure once its own disk lookup missed (or failed), keeping every waiter registered. -/
theorem donated_fetch_used (s : St) (d k f : Nat) (fl : Flight) (hk : keyOfCaller s d = some k)
    (hfl : s.flight k = some fl) (hst : fl.st = .optional d none) (hdon : fl.donated = some f) (r : DRes)
    (hmiss : r = .miss ∨ r = .err) :
    (step s (.disk d r)).started = s.started ++ [f] ∧
    (step s (.disk d r)).flight k = some { fl with st := .required f, donated := none } := by
  rcases hmiss with rfl | rfl <;>
    simp [step, hk, hfl, hst, trySetRequired, hdon, upd_same]

/-! ### Non-vacuity -/
namespace Demo
def evs : List Ev := [.call 0 7 true false, .call 1 7 false true, .disk 0 .miss, .origin 1 (.ok 5)]
example : (run {} evs).started = [1] := by decide
example : (run {} evs).callers.map (·.st) = [.done (.val 5), .done (.val 5)] := by decide
example : wfRun {} evs := by simp [wfRun, Ev.wf, step, evs]
end Demo

end Foyer.Infl
