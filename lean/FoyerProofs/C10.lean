import FoyerModel.Tomb
/-
  C10 — With the tombstone log, a flushed delete survives any number of restarts.

  `open_finds_tail`: for every history `(append* ; reopen)*` with strictly increasing, non-zero
  sequences whose total number of tombstones stays below the log's capacity, after every `open` the
  tail is right behind the last tombstone and *every* tombstone ever appended is recovered — no
  slot is overwritten, however the appends are distributed over pages and restarts.
-/
namespace Foyer.Tomb

def increasing : List Tomb → Nat → Prop
  | [], _ => True
  | t :: ts, lo => lo < t.seq ∧ increasing ts t.seq

/-- The shape of the device image after `ts` were appended: slot 0 unused, then `ts`, then empty slots. -/
def image (cap : Nat) (ts : List Tomb) : List Tomb := empty :: ts ++ List.replicate (cap - 1 - ts.length) empty

theorem scanLatest_empties (n i : Nat) (acc : Option (Nat × Nat)) :
    scanLatest (List.replicate n empty) i acc = acc := by
  induction n generalizing i with
  | zero => rfl
  | succ n ih => simp only [List.replicate_succ, scanLatest, empty]; exact ih (i + 1)

def lastOf : List Tomb → Nat → Nat × Nat → Nat × Nat
  | [], _, acc => acc
  | t :: ts, i, _ => lastOf ts (i + 1) (t.seq, i)

theorem lastOf_snd : ∀ (ts : List Tomb) (i : Nat) (acc : Nat × Nat), ts ≠ [] → (lastOf ts i acc).2 = i + ts.length - 1 := by
  intro ts
  induction ts with
  | nil => intro i acc h; exact absurd rfl h
  | cons t ts ih =>
    intro i acc _
    simp only [lastOf]
    cases ts with
    | nil => simp [lastOf]
    | cons u us =>
      rw [ih (i + 1) (t.seq, i) (by simp)]
      simp only [List.length_cons]; omega

theorem scanLatest_increasing : ∀ (ts : List Tomb) (i lo j : Nat) (rest : List Tomb), increasing ts lo →
    scanLatest (ts ++ rest) i (some (lo, j)) = scanLatest rest (i + ts.length) (some (lastOf ts i (lo, j))) := by
  intro ts
  induction ts with
  | nil => intro i lo j rest _; simp [lastOf]
  | cons t ts ih =>
    intro i lo j rest hinc
    have h1 : lo < t.seq := hinc.1
    have h2 : increasing ts t.seq := hinc.2
    have hne : ¬ t.seq = 0 := fun e => by rw [e] at h1; exact Nat.not_lt_zero _ h1
    have hng : ¬ lo > t.seq := Nat.not_lt.mpr (Nat.le_of_lt h1)
    simp only [List.cons_append, scanLatest, hne, if_false, hng, lastOf, List.length_cons]
    rw [ih (i + 1) t.seq i rest h2]
    congr 1; omega

theorem latestIndex_image (cap : Nat) (ts : List Tomb) (hinc : increasing ts 0) (hlen : ts.length + 1 ≤ cap) :
    latestIndex (image cap ts) = ts.length := by
  unfold latestIndex image
  cases ts with
  | nil =>
    show ((scanLatest (empty :: ([] ++ List.replicate (cap - 1 - 0) empty)) 0 none).map (·.2)).getD 0 = 0
    simp only [List.nil_append, scanLatest, empty, if_true]
    have := scanLatest_empties (cap - 1 - 0) (0 + 1) none
    simp only [empty] at this
    rw [this]; rfl
  | cons t ts =>
    have h1 : 0 < t.seq := hinc.1
    have h2 : increasing ts t.seq := hinc.2
    have hne : ¬ t.seq = 0 := fun e => by rw [e] at h1; exact Nat.lt_irrefl _ h1
    show ((scanLatest (empty :: (t :: ts ++ List.replicate (cap - 1 - (t :: ts).length) empty)) 0 none).map (·.2)).getD 0 = (t :: ts).length
    simp only [List.cons_append, scanLatest, empty, if_true, hne, if_false]
    have hs := scanLatest_increasing ts (0 + 1 + 1) t.seq (0 + 1) (List.replicate (cap - 1 - (t :: ts).length) empty) h2
    simp only [empty] at hs
    rw [hs]
    have he := scanLatest_empties (cap - 1 - (t :: ts).length) (0 + 1 + 1 + ts.length) (some (lastOf ts (0 + 1 + 1) (t.seq, 0 + 1)))
    simp only [empty] at he
    rw [he]
    simp only [Option.map_some, Option.getD_some, List.length_cons]
    cases ts with
    | nil => simp [lastOf]
    | cons u us =>
      rw [lastOf_snd _ _ _ (by simp)]
      simp only [List.length_cons]; omega

theorem slotIndex_small (pages s : Nat) (h : s < pages * SPP) : slotIndex pages s = s := by
  unfold slotIndex
  have hp : s / SPP < pages := by
    apply (Nat.div_lt_iff_lt_mul (by decide : 0 < SPP)).mpr
    exact h
  rw [Nat.mod_eq_of_lt hp]
  have := Nat.div_add_mod s SPP
  rw [Nat.mul_comm] at this
  exact this

theorem image_append (cap : Nat) (ts : List Tomb) (t : Tomb) (h : ts.length + 2 ≤ cap) :
    (image cap ts).set (ts.length + 1) t = image cap (ts ++ [t]) := by
  unfold image
  have e : cap - 1 - ts.length = (cap - 1 - (ts ++ [t]).length) + 1 := by simp; omega
  rw [e, List.replicate_succ]
  show (empty :: (ts ++ empty :: List.replicate (cap - 1 - (ts ++ [t]).length) empty)).set (ts.length + 1) t = _
  rw [List.set_cons_succ, List.set_append_right _ _ (Nat.le_refl _)]
  simp

/-- The invariant: the device holds exactly the appended tombstones behind the unused slot 0, and
the tail is right behind them. -/
structure Good (cap : Nat) (l : Log) (ts : List Tomb) : Prop where
  slots_eq : l.slots = image cap ts
  tail_eq : l.tail = ts.length + 1
  cap_eq : cap = l.pages * SPP

theorem good_step (cap : Nat) (l : Log) (ts : List Tomb) (h : Good cap l ts) (hinc : increasing ts 0)
    (op : Op) :
    match op with
    | .append t => ts.length + 2 ≤ cap → Good cap (step l op) (ts ++ [t])
    | .reopen => ts.length + 1 ≤ cap → Good cap (step l op) ts := by
  cases op with
  | append t =>
    intro hlen
    refine ⟨?_, by simp [step, append, h.tail_eq], h.cap_eq⟩
    simp only [step, append, h.tail_eq, h.slots_eq]
    rw [slotIndex_small _ _ (by rw [← h.cap_eq]; omega)]
    exact image_append cap ts t hlen
  | reopen =>
    intro hlen
    refine ⟨h.slots_eq, ?_, h.cap_eq⟩
    simp only [step, openLog, h.slots_eq]
    rw [latestIndex_image cap ts hinc hlen]

theorem recovered_image (cap : Nat) (ts : List Tomb) (hinc : increasing ts 0) : recovered (image cap ts) = ts := by
  unfold recovered image
  have h1 : ∀ (ts : List Tomb) (lo : Nat), increasing ts lo → ts.filter (·.seq ≠ 0) = ts := by
    intro ts
    induction ts with
    | nil => intro _ _; rfl
    | cons t ts ih =>
      intro lo h
      have : t.seq ≠ 0 := by have := h.1; omega
      simp only [List.filter_cons, this, ne_eq, not_false_eq_true, decide_true, if_true]
      rw [ih t.seq h.2]
  simp only [List.filter_cons, empty, ne_eq, not_true_eq_false, decide_false, Bool.false_eq_true, if_false,
    List.filter_append, h1 ts 0 hinc]
  have : (List.replicate (cap - 1 - ts.length) ({ hash := 0, seq := 0 } : Tomb)).filter (fun x => decide ¬x.seq = 0) = [] := by
    apply List.filter_eq_nil_iff.mpr
    intro x hx
    simp [List.eq_of_mem_replicate hx]
  rw [this]; simp

/-- **open_finds_tail** — for every interleaving of appends and reopens whose tombstones carry
strictly increasing non-zero sequences and number fewer than the log's slots: the final state holds
every appended tombstone (`recovered` returns exactly them, in order) and the tail is right behind
the last one.  In particular nothing is lost across any number of restarts. -/
theorem open_finds_tail (pages : Nat) (hp : 0 < pages) : ∀ (ops : List Op) (l : Log) (ts : List Tomb),
    Good (pages * SPP) l ts → increasing (ts ++ appended ops) 0 → ts.length + (appended ops).length + 1 ≤ pages * SPP →
    Good (pages * SPP) (run l ops) (ts ++ appended ops) := by
  intro ops
  induction ops with
  | nil => intro l ts h _ _; simpa [run, appended] using h
  | cons op ops ih =>
    intro l ts h hinc hlen
    have hinc_ts : increasing ts 0 := by
      have : ∀ (a b : List Tomb) (lo : Nat), increasing (a ++ b) lo → increasing a lo := by
        intro a
        induction a with
        | nil => intro _ _ _; trivial
        | cons x xs ihx => intro b lo hh; exact ⟨hh.1, ihx b x.seq hh.2⟩
      exact this ts _ 0 hinc
    cases op with
    | append t =>
      simp only [appended, List.length_cons] at hinc hlen
      have hs := good_step (pages * SPP) l ts h hinc_ts (.append t) (by omega)
      have := ih (step l (.append t)) (ts ++ [t]) hs (by simpa using hinc) (by simp; omega)
      simpa [run, appended] using this
    | reopen =>
      simp only [appended] at hinc hlen
      have hs := good_step (pages * SPP) l ts h hinc_ts .reopen (by omega)
      have := ih (step l .reopen) ts hs hinc hlen
      simpa [run, appended] using this

theorem fresh_good (pages : Nat) (hp : 0 < pages) : Good (pages * SPP) (fresh pages) [] := by
  have hc : 0 < pages * SPP := Nat.mul_pos hp (by decide)
  refine ⟨?_, ?_, rfl⟩
  · show List.replicate (pages * SPP) empty = image (pages * SPP) []
    unfold image
    have : pages * SPP = (pages * SPP - 1 - ([] : List Tomb).length) + 1 := by simp; omega
    conv => lhs; rw [this, List.replicate_succ]
    rfl
  · show latestIndex (List.replicate (pages * SPP) empty) + 1 = 0 + 1
    unfold latestIndex
    rw [scanLatest_empties]; rfl

/-- The property at the level of a fresh log: after any history below capacity, reopening recovers
every tombstone that was ever appended. -/
theorem flushed_deletes_survive (pages : Nat) (hp : 0 < pages) (ops : List Op)
    (hinc : increasing (appended ops) 0) (hlen : (appended ops).length + 1 ≤ pages * SPP) :
    recovered (run (fresh pages) (ops ++ [.reopen])).slots = appended ops ∧
    (run (fresh pages) (ops ++ [.reopen])).tail = (appended ops).length + 1 := by
  have happ : ∀ (os : List Op), appended (os ++ [Op.reopen]) = appended os := by
    intro os
    induction os with
    | nil => rfl
    | cons o os ih => cases o <;> simp [appended, ih]
  have happ := happ ops
  have := open_finds_tail pages hp (ops ++ [.reopen]) (fresh pages) [] (fresh_good pages hp)
    (by simpa [happ] using hinc) (by simpa [happ] using hlen)
  simp only [List.nil_append, happ] at this
  exact ⟨by rw [this.slots_eq]; exact recovered_image _ _ hinc, this.tail_eq⟩

/-! ### Non-vacuity: the scenario that breaks an in-page-only position (D5) -/
namespace Demo
def mk (n : Nat) (from_ : Nat) : List Op := (List.range n).map fun i => Op.append { hash := from_ + i, seq := from_ + i }
/-- 300 deletes (more than one page), reopen, 2 more deletes, reopen: all 302 are recovered -/
example : (recovered (run (fresh 2) (mk 300 1 ++ [.reopen] ++ mk 2 301 ++ [.reopen])).slots).length = 302 := by decide +kernel
example : (run (fresh 2) (mk 300 1 ++ [.reopen] ++ mk 2 301 ++ [.reopen])).tail = 303 := by decide +kernel
end Demo

end Foyer.Tomb
