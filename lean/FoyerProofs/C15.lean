import FoyerProofs.Lemmas.Hybrid
import FoyerProofs.C01
/-
  C15 — a graceful close persists what memory held (hybrid model).

  `reopen` = close (optionally flush memory through the pipe, drain the flusher) followed by
  recovery from the device.
-/
namespace Foyer.Hyb
open Foyer

section
variable {σ : Type} (P : Policy σ) (hc : HCfg)

/-- waiting in the flusher (received, or in a batch whose writes are in flight) or already on the device -/
def Pending (e : DiskEnt) (s : HState σ) : Prop :=
  Sub.entry e true ∈ s.queue ∨ Sub.entry e true ∈ s.inflight ∨ e ∈ s.disk

theorem applyBatch_disk (s : HState σ) (b : List Sub) (e : DiskEnt) :
    e ∈ (applyBatch hc s b).disk ↔ e ∈ s.disk ∨ Sub.entry e true ∈ b := by
  unfold applyBatch
  simp only [List.mem_append, List.mem_filterMap]
  constructor
  · rintro (h | ⟨q, hq, he⟩)
    · left; exact h
    · right
      cases q with
      | entry e' f =>
        cases f with
        | true => simp only [Option.some.injEq] at he; subst he; exact hq
        | false => cases he
      | tomb _ _ => cases he
  · rintro (h | h)
    · left; exact h
    · right; exact ⟨.entry e true, h, rfl⟩

theorem flush_pending (s : HState σ) (e : DiskEnt) (h : Pending e s) : Pending e (flush hc s) := by
  unfold flush
  split
  · exact h
  · split
    · split
      · rename_i hcond
        simp only [Bool.and_eq_true, List.isEmpty_iff] at hcond
        split
        · rcases h with h | h | h
          · right; left; exact h
          · rw [hcond.1] at h; cases h
          · right; right; exact h
        · rcases h with h | h | h
          · right; right; exact (applyBatch_disk hc s s.queue e).mpr (Or.inr h)
          · rw [hcond.1] at h; cases h
          · right; right; exact (applyBatch_disk hc s s.queue e).mpr (Or.inl h)
      · exact h
    · right; right
      show e ∈ (applyBatch hc (applyBatch hc s s.inflight) s.queue).disk
      rw [applyBatch_disk, applyBatch_disk]
      rcases h with h | h | h
      · right; exact h
      · left; right; exact h
      · left; left; exact h

theorem flush_drains (s : HState σ) (hh : s.held = false) (hg : s.gated = false) (e : DiskEnt)
    (h : Pending e s) : e ∈ (flush hc s).disk := by
  unfold flush
  simp only [hh, hg, Bool.false_eq_true, if_false]
  show e ∈ (applyBatch hc (applyBatch hc s s.inflight) s.queue).disk
  rw [applyBatch_disk, applyBatch_disk]
  rcases h with h | h | h
  · right; exact h
  · left; right; exact h
  · left; left; exact h

theorem flush_disk_mono (s : HState σ) (e : DiskEnt) (h : e ∈ s.disk) : e ∈ (flush hc s).disk := by
  have := flush_pending hc s e (Or.inr (Or.inr h))
  unfold flush at this ⊢
  split
  · exact h
  · split
    · split
      · split
        · exact h
        · exact (applyBatch_disk hc s s.queue e).mpr (Or.inl h)
      · exact h
    · show e ∈ (applyBatch hc (applyBatch hc s s.inflight) s.queue).disk
      rw [applyBatch_disk, applyBatch_disk]; left; left; exact h

theorem submit_big (s : HState σ) (r : Rec) : (submit s r).big = s.big := by
  unfold submit
  split
  · rfl
  · split <;> rfl

theorem submit_pending_mono (s : HState σ) (r : Rec) (e : DiskEnt) (h : Pending e s) : Pending e (submit s r) := by
  unfold submit
  split
  · exact h
  · split
    · rcases h with h | h | h
      · left; exact List.mem_append_left _ h
      · right; left; exact h
      · right; right; exact h
    · rcases h with h | h | h
      · left; exact List.mem_append_left _ h
      · right; left; exact h
      · right; right; exact h

/-- A submitted record that fits is pending afterwards. -/
theorem submit_pending (s : HState σ) (r : Rec) (hy : r.age ≠ .young) (hb : s.big.contains r.ver = false) :
    ∃ e, Pending e (submit s r) ∧ e.key = r.key ∧ e.ver = r.ver ∧ e.hash = r.hash := by
  unfold submit
  rw [if_neg hy]
  simp only [hb, Bool.false_eq_true, if_false]
  refine ⟨{ key := r.key, hash := r.hash, ver := r.ver, seq := s.seq, loc := r.loc }, ?_, rfl, rfl, rfl⟩
  left
  exact List.mem_append_right _ (List.mem_singleton.mpr rfl)

theorem pipeSend_big (s : HState σ) (r : Rec) : (pipeSend hc s r).big = s.big := by
  unfold pipeSend
  split
  · rfl
  · split
    · rfl
    · exact submit_big s r

theorem pipeSend_pending_mono (s : HState σ) (r : Rec) (e : DiskEnt) (h : Pending e s) :
    Pending e (pipeSend hc s r) := by
  unfold pipeSend
  split
  · exact h
  · split
    · exact h
    · exact submit_pending_mono s r e h

/-- Under write-on-eviction every record the pipe receives — unless advised in-memory-only, just
loaded from disk, or larger than the per-entry limit — becomes pending. -/
theorem foldl_pipeSend_pending (hw : hc.woi = false) : ∀ (l : List Rec) (s : HState σ) (r : Rec),
    r ∈ l → r.loc ≠ .inMem → r.age ≠ .young → s.big.contains r.ver = false →
    ∃ e, Pending e (l.foldl (pipeSend hc) s) ∧ e.key = r.key ∧ e.ver = r.ver ∧ e.hash = r.hash := by
  intro l
  induction l with
  | nil => intro s r hr; cases hr
  | cons a l ih =>
    intro s r hr hl hy hb
    simp only [List.foldl_cons]
    have hmono : ∀ (l : List Rec) (s : HState σ) (e : DiskEnt), Pending e s → Pending e (l.foldl (pipeSend hc) s) := by
      intro l
      induction l with
      | nil => intro s e h; exact h
      | cons b l ih2 => intro s e h; exact ih2 _ e (pipeSend_pending_mono hc s b e h)
    rcases List.mem_cons.mp hr with h1 | h1
    · subst h1
      have : ∃ e, Pending e (pipeSend hc s r) ∧ e.key = r.key ∧ e.ver = r.ver ∧ e.hash = r.hash := by
        unfold pipeSend
        simp only [hw, Bool.false_eq_true, if_false, hl]
        exact submit_pending s r hy hb
      obtain ⟨e, hp, h2⟩ := this
      exact ⟨e, hmono l _ e hp, h2⟩
    · exact ih _ r h1 hl hy (by rw [pipeSend_big]; exact hb)

/-- **C15 (flush-on-close, write-on-eviction)**: everything the closing flush takes out of memory —
except entries advised in-memory-only, entries just loaded from disk (their copy is already there)
and entries larger than the per-entry limit — is on the device when `close` returns, whatever the
flusher was doing before (held, gated, queue non-empty). -/
theorem close_persists_flushed (hf : hc.foc = true) (hw : hc.woi = false) (s : HState σ) (r : Rec)
    (hr : r ∈ (Cache.step P hc.mcfg s.mem .flush).2.piped)
    (hl : r.loc ≠ .inMem) (hy : r.age ≠ .young) (hb : s.big.contains r.ver = false) :
    ∃ e ∈ (step P hc s .reopen).1.disk, e.key = r.key ∧ e.ver = r.ver ∧ e.hash = r.hash := by
  have hfin : ∀ e, e ∈ (stepCore P hc s .reopen).1.disk → e ∈ (step P hc s .reopen).1.disk := by
    intro e he; unfold step; exact flush_disk_mono hc _ e he
  suffices hs : ∃ e ∈ (stepCore P hc s .reopen).1.disk, e.key = r.key ∧ e.ver = r.ver ∧ e.hash = r.hash by
    obtain ⟨e, he, h2⟩ := hs
    exact ⟨e, hfin e he, h2⟩
  simp only [stepCore, hf, if_true]
  have hp : ∃ e, Pending e (memOp P hc s .flush).1 ∧ e.key = r.key ∧ e.ver = r.ver ∧ e.hash = r.hash := by
    unfold memOp
    simp only
    exact foldl_pipeSend_pending hc hw _ _ r hr hl hy hb
  obtain ⟨e, hpe, h2⟩ := hp
  refine ⟨e, ?_, h2⟩
  exact flush_drains hc { (memOp P hc s .flush).1 with held := false, gated := false } rfl rfl e hpe

/-- **C15 (what was queued is drained by close)**, both policies. -/
theorem close_drains_queue (s : HState σ) (e : DiskEnt) (h : Pending e s) :
    e ∈ (step P hc s .reopen).1.disk := by
  unfold step
  apply flush_disk_mono
  simp only [stepCore]
  have h1 : Pending e (if hc.foc then (memOp P hc s .flush).1 else s) := by
    split
    · unfold memOp
      simp only
      have hmono : ∀ (l : List Rec) (s : HState σ), Pending e s → Pending e (l.foldl (pipeSend hc) s) := by
        intro l
        induction l with
        | nil => intro s h; exact h
        | cons b l ih2 => intro s h; exact ih2 _ (pipeSend_pending_mono hc s b e h)
      exact hmono _ _ h
    · exact h
  exact flush_drains hc { (if hc.foc then (memOp P hc s .flush).1 else s) with held := false, gated := false } rfl rfl e h1

/-- **C15 (flush-on-close disabled)**: closing hands nothing to the disk tier. -/
theorem close_without_flush_submits_nothing (hf : hc.foc = false) (s : HState σ) :
    (step P hc s .reopen).1.subs = s.subs := by
  unfold step
  simp only [flush_subs, stepCore, hf, Bool.false_eq_true, if_false]

/-- **C15 (after reopening)**: the index is exactly what recovery reconstructs from the device (and
the tombstone log, if enabled): per hash the newest copy, unless a logged tombstone is newer. -/
theorem reopen_index_is_recovery (s : HState σ) :
    (stepCore P hc s .reopen).1.index =
      recover (stepCore P hc s .reopen).1.disk (if hc.tombLog then (stepCore P hc s .reopen).1.tombs else []) := by
  simp only [stepCore]

end

/-! ### non-vacuity: a resident entry of a write-on-eviction cache survives close + reopen -/
section Demo
def dcfg : HCfg := { woi := false, foc := true, tombLog := true, mcfg := { nshards := 1, H := fun k => k } }
def dstate : HState Fifo := (step fifoPolicy dcfg (init fifoPolicy dcfg 2) (.ins 3 1 .default false)).1
example : (Cache.step fifoPolicy dcfg.mcfg dstate.mem .flush).2.piped.map (fun r => (r.key, r.ver)) = [(3, 1)] := by decide
example : ((step fifoPolicy dcfg dstate .reopen).1.disk.map fun e => (e.key, e.ver)) = [(3, 1)] := by decide
example : (step fifoPolicy dcfg (step fifoPolicy dcfg dstate .reopen).1 (.get 3)).2 = .val 3 1 "disk" := by decide
end Demo

end Foyer.Hyb
