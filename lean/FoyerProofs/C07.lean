import FoyerProofs.Lemmas.Layout
/-
  C07 — what the flusher writes is exactly what recovery and lookups read back.

  Part 1 (this section): the layout specification (`FoyerModel.BlockSpec`, a monotone cursor allocator)
  keeps every block a chain of blobs inside the block; hence all index pages and entries are page
  aligned, inside the block and pairwise disjoint, and the scanner reads a block back exactly.
  Part 2: the splitter model (`Foyer.Blk.split`, a transcription of `Splitter::split` with its split
  context carried across batches) places every entry exactly where the specification does.
-/
namespace Foyer.Blk

/-- The invariant of the specification. -/
structure SpecInv (c : LCfg) (sp : Spec) : Prop where
  chain : chained c 0 sp.blobs
  curOff : sp.cur.off = chainEnd c 0 sp.blobs
  curWF : entsFrom c c.I sp.cur.ents
  curFits : sp.cur.ents ≠ [] → sp.cur.off + bsize c sp.cur ≤ c.B
  curIn : sp.cur.off ≤ c.B
  doneOk : ∀ bs ∈ sp.done, chained c 0 bs ∧ chainEnd c 0 bs ≤ c.B

theorem specInv_init (c : LCfg) : SpecInv c {} :=
  ⟨trivial, rfl, trivial, fun h => absurd rfl h, Nat.zero_le _, fun _ h => by cases h⟩

/-- The blobs of the current block form a chain inside the block. -/
theorem curBlobs_chain {c : LCfg} {sp : Spec} (h : SpecInv c sp) :
    chained c 0 sp.curBlobs ∧ chainEnd c 0 sp.curBlobs ≤ c.B := by
  unfold Spec.curBlobs
  split
  · exact ⟨h.chain, by rw [← h.curOff]; exact h.curIn⟩
  · rename_i hne
    have hne' : sp.cur.ents ≠ [] := by intro e; rw [e] at hne; exact hne rfl
    refine ⟨chained_append c _ _ _ h.chain h.curOff hne' h.curWF, ?_⟩
    rw [chainEnd_append, ← h.curOff]
    exact h.curFits hne'

theorem roll_inv {c : LCfg} (w : WF c) {sp : Spec} (h : SpecInv c sp) : SpecInv c (roll c sp) := by
  unfold roll
  split
  · rename_i hfull
    have hne : sp.cur.ents ≠ [] := by
      intro e; rw [e] at hfull; simp at hfull; have := w.hcap; omega
    exact ⟨chained_append c _ _ _ h.chain h.curOff hne h.curWF,
           by simp only [chainEnd_append, h.curOff],
           trivial, fun hh => absurd rfl hh, h.curFits hne, h.doneOk⟩
  · exact h

/-- **The specification keeps its invariant** for every entry that fits a block at all. -/
theorem placeS_inv {c : LCfg} (w : WF c) {sp : Spec} (h : SpecInv c sp) (i : Info)
    (hfit : c.I + alignUp c.P i.len ≤ c.B) : SpecInv c (placeS c sp i).1 := by
  have h1 := roll_inv w h
  unfold placeS
  simp only
  generalize roll c sp = sp1 at h1
  split
  · -- new block
    refine ⟨trivial, rfl, ⟨rfl, trivial⟩, fun _ => ?_, Nat.zero_le _, ?_⟩
    · simp only [bsize, esize]; omega
    · intro bs hbs
      rcases List.mem_append.mp hbs with hb | hb
      · exact h1.doneOk bs hb
      · simp only [List.mem_singleton] at hb
        subst hb
        exact curBlobs_chain h1
  · rename_i hfits
    refine ⟨h1.chain, h1.curOff, ?_, fun _ => ?_, h1.curIn, h1.doneOk⟩
    · exact entsFrom_append c _ _ _ h1.curWF (by simp [bsize])
    · simp only [bsize, esize_append, esize] at hfits ⊢
      omega

theorem placeAll_inv {c : LCfg} (w : WF c) : ∀ (is : List Info) (sp : Spec), SpecInv c sp →
    (∀ i ∈ is, c.I + alignUp c.P i.len ≤ c.B) → SpecInv c (placeAll c sp is).1 := by
  intro is
  induction is with
  | nil => intro sp h _; exact h
  | cons i is ih =>
    intro sp h hfit
    simp only [placeAll]
    exact ih _ (placeS_inv w h i (hfit i List.mem_cons_self)) (fun j hj => hfit j (List.mem_cons_of_mem _ hj))

/-! ### C07, first sentence: aligned, inside the block, pairwise disjoint -/

theorem contig_aligned (p : Nat) : ∀ (rs : List (Nat × Nat)) (start e : Nat), contig start rs e → p ∣ start →
    (∀ r ∈ rs, p ∣ r.2) → ∀ r ∈ rs, p ∣ r.1 := by
  intro rs
  induction rs with
  | nil => intro _ _ _ _ _ r hr; cases hr
  | cons x xs ih =>
    intro start e h hs hz r hr
    simp only [contig] at h
    rcases List.mem_cons.mp hr with h1 | h1
    · subst h1; rw [h.1]; exact hs
    · exact ih _ _ h.2 (Nat.dvd_add hs (hz x List.mem_cons_self)) (fun y hy => hz y (List.mem_cons_of_mem _ hy)) r h1

theorem regions_sizes_dvd {c : LCfg} (w : WF c) (bs : List Blob) : ∀ r ∈ regions c bs, c.P ∣ r.2 := by
  intro r hr
  simp only [regions, List.mem_flatMap, blobRegions, List.mem_cons, entRegions, List.mem_map] at hr
  obtain ⟨b, _, hb⟩ := hr
  rcases hb with hb | ⟨e, _, he⟩
  · rw [hb]; exact w.hI
  · rw [← he]; exact alignUp_dvd _ _

/-- **Every index page and every entry of a block of the specification** starts on a page boundary,
lies inside the block, and overlaps no other index page or entry of that block. -/
theorem block_layout_sound {c : LCfg} (w : WF c) {bs : List Blob} (hc : chained c 0 bs) (hB : chainEnd c 0 bs ≤ c.B) :
    (regions c bs).Pairwise disjoint ∧
    ∀ r ∈ regions c bs, c.P ∣ r.1 ∧ r.1 + r.2 ≤ c.B := by
  have hcon := regions_contig c bs 0 hc
  refine ⟨contig_pairwise _ _ _ hcon, fun r hr => ⟨?_, ?_⟩⟩
  · exact contig_aligned c.P _ _ _ hcon (Nat.dvd_zero _) (regions_sizes_dvd w bs) r hr
  · have := (contig_ge _ _ _ hcon).2 r hr
    omega

/-- … for the current block and every finished block of every reachable specification state. -/
theorem layout_sound {c : LCfg} (w : WF c) (is : List Info) (hfit : ∀ i ∈ is, c.I + alignUp c.P i.len ≤ c.B) :
    let sp := (placeAll c {} is).1
    ∀ bs, (bs = sp.curBlobs ∨ bs ∈ sp.done) →
      (regions c bs).Pairwise disjoint ∧ ∀ r ∈ regions c bs, c.P ∣ r.1 ∧ r.1 + r.2 ≤ c.B := by
  intro sp bs hbs
  have hinv : SpecInv c sp := placeAll_inv w is {} (specInv_init c) hfit
  rcases hbs with h | h
  · subst h
    have := curBlobs_chain hinv
    exact block_layout_sound w this.1 this.2
  · have := hinv.doneOk bs h
    exact block_layout_sound w this.1 this.2

/-! ### C07, second sentence: a scan reconstructs exactly the entries written -/

theorem idxAt_none_of_ge (c : LCfg) (w : WF c) : ∀ (bs : List Blob) (start : Nat), chained c start bs →
    ∀ off, chainEnd c start bs ≤ off → idxAt (idxMapOf bs) off = none := by
  intro bs
  induction bs with
  | nil => intro _ _ off _; rfl
  | cons b bs ih =>
    intro start h off ho
    simp only [chained] at h
    simp only [chainEnd] at ho
    simp only [idxMapOf, List.map_cons]
    rw [idxAt_cons]
    have hge := chainEnd_ge c bs (start + bsize c b)
    have hpos : 0 < bsize c b := by simp only [bsize]; have := w.hI0; omega
    have : ¬ b.off = off := by omega
    simp only [this, if_false]
    exact ih _ h.2.2.2 off ho

theorem chain_length_le {c : LCfg} (w : WF c) : ∀ (bs : List Blob) (start : Nat), chained c start bs →
    start + bs.length * c.P ≤ chainEnd c start bs := by
  intro bs
  induction bs with
  | nil => intro start _; simp [chainEnd]
  | cons b bs ih =>
    intro start h
    simp only [chained] at h
    simp only [chainEnd, List.length_cons]
    have := ih _ h.2.2.2
    have hI : c.P ≤ c.I := Nat.le_of_dvd w.hI0 w.hI
    have : c.P ≤ bsize c b := by simp only [bsize]; omega
    rw [Nat.add_mul, Nat.one_mul]
    omega

/-- **The scanner reads a block of the specification back exactly**: blob by blob, every entry with
its hash, sequence, position and length, and nothing else. -/
theorem scan_reads_back {c : LCfg} (w : WF c) {bs : List Blob} (hc : chained c 0 bs) (hB : chainEnd c 0 bs ≤ c.B) :
    (scan c (idxMapOf bs) (c.B / c.P + 1) 0).flatten = placedOf bs := by
  have hlen : bs.length < c.B / c.P + 1 := by
    have h1 := chain_length_le w bs 0 hc
    have h2 : bs.length * c.P ≤ c.B := by omega
    have : bs.length ≤ c.B / c.P := (Nat.le_div_iff_mul_le w.hP).mpr h2
    omega
  rw [scan_chain w bs 0 _ (idxMapOf bs) hc (idxAt_idxMapOf c w bs 0 hc) hB
    (Or.inr (idxAt_none_of_ge c w bs 0 hc _ (Nat.le_refl _))) hlen]
  simp only [placedOf, List.flatMap]

/-- … and recovery (scan + sequence guard) keeps all of it when the block was written in sequence
order, as the flusher does without reinsertion. -/
theorem recover_reads_back {c : LCfg} (w : WF c) {bs : List Blob} (hc : chained c 0 bs) (hB : chainEnd c 0 bs ≤ c.B)
    (hseq : (placedOf bs).Pairwise (fun a b => a.seq ≤ b.seq)) :
    recoverBlock c (idxMapOf bs) = placedOf bs := by
  unfold recoverBlock
  rw [scan_reads_back w hc hB]
  exact guardSeq_sorted _ 0 (fun _ _ => Nat.zero_le _) hseq

end Foyer.Blk

/-! ### Part 2: the splitter refines the specification -/
namespace Foyer.Blk

/-- positions of the entries of a batch: (block index within the batch, absolute offset in the block) -/
def emitted : List (List Part) → Nat → List (Nat × Nat)
  | [], _ => []
  | b :: bs, i => (b.flatMap fun p => p.indices.map fun e => (i, p.blobOff + e.off)) ++ emitted bs (i + 1)

/-- … including the entries of the part that is still being assembled -/
def outPos (s : SplitSt) : List (Nat × Nat) :=
  emitted s.blocks 0 ++ s.indices.map fun e => (s.blocks.length - 1, s.ctx.blobOff + e.off)

theorem pushPart_length : ∀ (bs : List (List Part)) (p : Part), bs ≠ [] → (pushPart bs p).length = bs.length := by
  intro bs
  induction bs with
  | nil => intro p h; exact absurd rfl h
  | cons b bs ih =>
    intro p _
    cases bs with
    | nil => rfl
    | cons b' bs' => simp only [pushPart, List.length_cons]; rw [ih p (by simp)]; rfl

theorem pushPart_ne_nil : ∀ (bs : List (List Part)) (p : Part), pushPart bs p ≠ [] := by
  intro bs p
  cases bs with
  | nil => simp [pushPart]
  | cons b bs =>
    cases bs with
    | nil => simp [pushPart]
    | cons b' bs' => simp [pushPart]

theorem emitted_pushPart : ∀ (bs : List (List Part)) (p : Part) (i : Nat), bs ≠ [] →
    emitted (pushPart bs p) i = emitted bs i ++ p.indices.map fun e => (i + bs.length - 1, p.blobOff + e.off) := by
  intro bs
  induction bs with
  | nil => intro p i h; exact absurd rfl h
  | cons b bs ih =>
    intro p i _
    cases bs with
    | nil =>
      simp only [pushPart, emitted, List.flatMap_append, List.flatMap_cons, List.flatMap_nil, List.append_nil,
        List.length_cons, List.length_nil]
      have : i + (0 + 1) - 1 = i := by omega
      rw [this]
    | cons b' bs' =>
      simp only [pushPart, emitted]
      have := ih p (i + 1) (by simp)
      rw [this, List.append_assoc]
      congr 2
      simp only [List.length_cons]
      have : i + 1 + (bs'.length + 1) - 1 = i + (bs'.length + 1 + 1) - 1 := by omega
      rw [this]

theorem emitted_snoc_nil : ∀ (bs : List (List Part)) (i : Nat), emitted (bs ++ [[]]) i = emitted bs i := by
  intro bs
  induction bs with
  | nil => intro i; simp [emitted]
  | cons b bs ih => intro i; simp only [List.cons_append, emitted, ih]

/-- The simulation relation between the splitter's state and the specification. -/
structure Rel (c : LCfg) (s : SplitSt) (sp : Spec) : Prop where
  idx : s.ctx.idx = sp.cur.ents
  off : s.ctx.blobOff = sp.cur.off
  size : s.ctx.partOff + s.partSize = bsize c sp.cur
  ne : s.blocks ≠ []
  pz : s.indices = [] → s.partSize = 0

theorem roll_of_not_full {c : LCfg} {sp : Spec} (h : ¬ sp.cur.ents.length ≥ c.cap) : roll c sp = sp := by
  unfold roll; rw [if_neg h]

theorem roll_roll {c : LCfg} (w : WF c) (sp : Spec) : roll c (roll c sp) = roll c sp := by
  by_cases h : sp.cur.ents.length ≥ c.cap
  · have : ¬ (roll c sp).cur.ents.length ≥ c.cap := by
      unfold roll; rw [if_pos h]; simp; have := w.hcap; omega
    exact roll_of_not_full this
  · rw [roll_of_not_full h, roll_of_not_full h]

theorem placeS_roll {c : LCfg} (w : WF c) (sp : Spec) (i : Info) : placeS c (roll c sp) i = placeS c sp i := by
  unfold placeS
  rw [roll_roll w]

theorem roll_done (c : LCfg) (sp : Spec) : (roll c sp).done = sp.done := by
  unfold roll; split <;> rfl

/-- the blob index is full: `split_blob` closes the blob, as the specification's `roll` does -/
theorem splitBlob_full {c : LCfg} {s : SplitSt} {sp : Spec} (hR : Rel c s sp) (hfull : s.ctx.idx.length ≥ c.cap) :
    Rel c (splitBlob c s) (roll c sp) ∧ outPos (splitBlob c s) = outPos s ∧
    (splitBlob c s).blocks.length = s.blocks.length ∧ (splitBlob c s).ctx.idx = [] := by
  have hfull' : sp.cur.ents.length ≥ c.cap := by rw [← hR.idx]; exact hfull
  unfold splitBlob roll
  rw [if_pos hfull']
  split
  · rename_i he
    have he' : s.indices = [] := by simpa using he
    have hz := hR.pz he'
    refine ⟨⟨rfl, ?_, ?_, hR.ne, fun _ => hz⟩, ?_, rfl, rfl⟩
    · show s.ctx.blobOff + s.ctx.partOff = sp.cur.off + bsize c sp.cur
      have := hR.size; have := hR.off; omega
    · show c.I + s.partSize = bsize c { off := sp.cur.off + bsize c sp.cur, ents := [] }
      simp only [bsize, esize]; omega
    · simp only [outPos, he', List.map_nil]
  · rename_i he
    refine ⟨⟨rfl, ?_, ?_, ?_, fun _ => rfl⟩, ?_, pushPart_length _ _ hR.ne, rfl⟩
    · show s.ctx.blobOff + s.ctx.partOff + s.partSize = sp.cur.off + bsize c sp.cur
      have := hR.size; have := hR.off; omega
    · show c.I + 0 = bsize c { off := sp.cur.off + bsize c sp.cur, ents := [] }
      simp only [bsize, esize]
    · exact pushPart_ne_nil _ _
    · dsimp only
      simp only [outPos, List.map_nil, List.append_nil]
      rw [emitted_pushPart _ _ _ hR.ne]
      simp only [Nat.zero_add]

end Foyer.Blk

namespace Foyer.Blk

/-- the entry does not fit the block: `split_blob` + `split_block` leave a fresh block -/
theorem split_over_state {c : LCfg} {s : SplitSt} {sp : Spec} (hR : Rel c s sp) :
    (splitBlock (splitBlob c s)).ctx = { partOff := c.I, idx := [], blobOff := 0 } ∧
    (splitBlock (splitBlob c s)).indices = [] ∧ (splitBlock (splitBlob c s)).partSize = 0 ∧
    (splitBlock (splitBlob c s)).blocks.length = s.blocks.length + 1 ∧
    outPos (splitBlock (splitBlob c s)) = outPos s := by
  unfold splitBlob
  split
  · rename_i he
    have he' : s.indices = [] := by simpa using he
    have hz := hR.pz he'
    refine ⟨rfl, he', hz, by simp [splitBlock], ?_⟩
    simp only [outPos, splitBlock, he', List.map_nil, List.append_nil, emitted_snoc_nil]
  · refine ⟨rfl, rfl, rfl, ?_, ?_⟩
    · simp only [splitBlock, List.length_append, List.length_cons, List.length_nil]
      rw [pushPart_length _ _ hR.ne]
    · simp only [outPos, splitBlock, List.map_nil, List.append_nil, emitted_snoc_nil]
      rw [emitted_pushPart _ _ _ hR.ne]
      simp only [Nat.zero_add]

theorem handle_succ (c : LCfg) (n : Nat) (s : SplitSt) (info : Info) :
    handle c (n + 1) s info =
      if s.ctx.idx.length ≥ c.cap then handle c n (splitBlob c s) info
      else if s.ctx.blobOff + s.ctx.partOff + s.partSize + alignUp c.P info.len > c.B then
        handle c n (splitBlock (splitBlob c s)) info
      else
        { s with ctx := { s.ctx with idx := s.ctx.idx ++ [{ hash := info.hash, seq := info.seq, off := s.ctx.partOff + s.partSize, len := info.len }] },
                 indices := s.indices ++ [{ hash := info.hash, seq := info.seq, off := s.ctx.partOff + s.partSize, len := info.len }],
                 partSize := s.partSize + alignUp c.P info.len } := rfl

/-- appending: the entry goes right behind the previous allocation, as in the specification -/
theorem append_refines {c : LCfg} {s : SplitSt} {sp : Spec} (hR : Rel c s sp) (i : Info) :
    let e : BEI := { hash := i.hash, seq := i.seq, off := s.ctx.partOff + s.partSize, len := i.len }
    let s' : SplitSt := { s with ctx := { s.ctx with idx := s.ctx.idx ++ [e] }, indices := s.indices ++ [e],
                                 partSize := s.partSize + alignUp c.P i.len }
    let sp' : Spec := { sp with cur := { sp.cur with ents := sp.cur.ents ++
         [{ hash := i.hash, seq := i.seq, off := bsize c sp.cur, len := i.len }] } }
    Rel c s' sp' ∧ outPos s' = outPos s ++ [(s.blocks.length - 1, sp.cur.off + bsize c sp.cur)] ∧
    s'.blocks.length = s.blocks.length := by
  intro e s' sp'
  have hsz := hR.size
  refine ⟨⟨?_, hR.off, ?_, hR.ne, ?_⟩, ?_, rfl⟩
  · show s.ctx.idx ++ [e] = sp.cur.ents ++ [_]
    rw [hR.idx]
    show sp.cur.ents ++ [({ hash := i.hash, seq := i.seq, off := s.ctx.partOff + s.partSize, len := i.len } : BEI)] = _
    rw [hsz]
  · show s.ctx.partOff + (s.partSize + alignUp c.P i.len) = bsize c { off := sp.cur.off, ents := sp.cur.ents ++ [_] }
    simp only [bsize, esize_append, esize] at hsz ⊢
    omega
  · intro h
    have h' : s.indices ++ [e] = [] := h
    simp at h'
  · show emitted s.blocks 0 ++ List.map (fun e' => (s.blocks.length - 1, s.ctx.blobOff + e'.off)) (s.indices ++ [e]) =
      (emitted s.blocks 0 ++ List.map (fun e' => (s.blocks.length - 1, s.ctx.blobOff + e'.off)) s.indices) ++
        [(s.blocks.length - 1, sp.cur.off + bsize c sp.cur)]
    rw [List.map_append, List.append_assoc]
    simp only [List.map_cons, List.map_nil]
    have hl : s.ctx.blobOff + e.off = sp.cur.off + bsize c sp.cur := by
      show s.ctx.blobOff + (s.ctx.partOff + s.partSize) = _
      rw [hR.off, hsz]
    rw [hl]

/-- **One entry, open blob not full**: the splitter places it where the specification does. -/
theorem handle_nf {c : LCfg} (w : WF c) {s : SplitSt} {sp : Spec} (hR : Rel c s sp)
    (hnf : ¬ s.ctx.idx.length ≥ c.cap) (i : Info) (hfit : c.I + alignUp c.P i.len ≤ c.B)
    (b0 : Nat) (hb : s.blocks.length + b0 = sp.done.length + 1) (n : Nat) :
    Rel c (handle c (n + 2) s i) (placeS c sp i).1 ∧
    outPos (handle c (n + 2) s i) = outPos s ++ [((placeS c sp i).2.1 - b0, (placeS c sp i).2.2)] ∧
    (handle c (n + 2) s i).blocks.length + b0 = (placeS c sp i).1.done.length + 1 := by
  have hnf' : ¬ sp.cur.ents.length ≥ c.cap := by rw [← hR.idx]; exact hnf
  have hroll := roll_of_not_full hnf'
  have hsz := hR.size
  have hoff := hR.off
  rw [show n + 2 = (n + 1) + 1 from rfl, handle_succ, if_neg hnf]
  unfold placeS
  simp only [hroll]
  by_cases hover : s.ctx.blobOff + s.ctx.partOff + s.partSize + alignUp c.P i.len > c.B
  · have hover' : sp.cur.off + bsize c sp.cur + alignUp c.P i.len > c.B := by omega
    rw [if_pos hover, if_pos hover']
    obtain ⟨hctx, hind, hps, hlen, hout⟩ := split_over_state hR
    generalize splitBlock (splitBlob c s) = s2 at hctx hind hps hlen hout
    have hnf2 : ¬ s2.ctx.idx.length ≥ c.cap := by rw [hctx]; simp; have := w.hcap; omega
    have hfit2 : ¬ s2.ctx.blobOff + s2.ctx.partOff + s2.partSize + alignUp c.P i.len > c.B := by
      rw [hctx, hps]; simp only; omega
    rw [handle_succ, if_neg hnf2, if_neg hfit2]
    have hne2 : s2.blocks ≠ [] := by
      intro h; rw [h] at hlen; simp at hlen
    refine ⟨⟨?_, ?_, ?_, hne2, ?_⟩, ?_, ?_⟩
    · show s2.ctx.idx ++ [_] = [_]
      rw [hctx, hps]; rfl
    · show s2.ctx.blobOff = 0
      rw [hctx]
    · show s2.ctx.partOff + (s2.partSize + alignUp c.P i.len) = bsize c { off := 0, ents := [_] }
      rw [hctx, hps]; simp only [bsize, esize]; omega
    · intro h
      have h' : s2.indices ++ [({ hash := i.hash, seq := i.seq, off := s2.ctx.partOff + s2.partSize, len := i.len } : BEI)] = [] := h
      simp at h'
    · show emitted s2.blocks 0 ++ List.map (fun e' => (s2.blocks.length - 1, s2.ctx.blobOff + e'.off))
          (s2.indices ++ [({ hash := i.hash, seq := i.seq, off := s2.ctx.partOff + s2.partSize, len := i.len } : BEI)]) = _
      rw [hind, ← hout]
      simp only [List.nil_append, List.map_cons, List.map_nil, outPos, hind, List.append_nil]
      rw [hctx, hps, hlen]
      have h1 : s.blocks.length + 1 - 1 = sp.done.length + 1 - b0 := by omega
      have h2 : 0 + (c.I + 0) = c.I := by omega
      simp only [h1, h2]
    · show s2.blocks.length + b0 = (sp.done ++ [_]).length + 1
      rw [hlen]; simp only [List.length_append, List.length_cons, List.length_nil]; omega
  · have hover' : ¬ sp.cur.off + bsize c sp.cur + alignUp c.P i.len > c.B := by omega
    rw [if_neg hover, if_neg hover']
    obtain ⟨h1, h2, h3⟩ := append_refines hR i
    refine ⟨h1, ?_, ?_⟩
    · rw [h2]
      congr 2
      simp only [Prod.mk.injEq, and_true]
      omega
    · show s.blocks.length + b0 = sp.done.length + 1
      exact hb

/-- **One entry, any state**: `handle` (with the fuel the model gives it) follows the specification. -/
theorem handle_refines {c : LCfg} (w : WF c) {s : SplitSt} {sp : Spec} (hR : Rel c s sp)
    (i : Info) (hfit : c.I + alignUp c.P i.len ≤ c.B)
    (b0 : Nat) (hb : s.blocks.length + b0 = sp.done.length + 1) :
    Rel c (handle c 4 s i) (placeS c sp i).1 ∧
    outPos (handle c 4 s i) = outPos s ++ [((placeS c sp i).2.1 - b0, (placeS c sp i).2.2)] ∧
    (handle c 4 s i).blocks.length + b0 = (placeS c sp i).1.done.length + 1 := by
  by_cases hfull : s.ctx.idx.length ≥ c.cap
  · obtain ⟨hR1, hout1, hlen1, hidx1⟩ := splitBlob_full hR hfull
    rw [show (4 : Nat) = 3 + 1 from rfl, handle_succ, if_pos hfull]
    have hnf1 : ¬ (splitBlob c s).ctx.idx.length ≥ c.cap := by rw [hidx1]; simp; have := w.hcap; omega
    have := handle_nf w hR1 hnf1 i hfit b0 (by rw [hlen1, roll_done]; exact hb) 1
    rw [placeS_roll w, hout1] at this
    exact this
  · exact handle_nf w hR hfull i hfit b0 hb 2

end Foyer.Blk

namespace Foyer.Blk

theorem fold_refines {c : LCfg} (w : WF c) : ∀ (is : List Info) (s : SplitSt) (sp : Spec), Rel c s sp →
    (∀ i ∈ is, c.I + alignUp c.P i.len ≤ c.B) → ∀ (b0 : Nat), s.blocks.length + b0 = sp.done.length + 1 →
    Rel c (is.foldl (fun s i => handle c 4 s i) s) (placeAll c sp is).1 ∧
    outPos (is.foldl (fun s i => handle c 4 s i) s) = outPos s ++ (placeAll c sp is).2.map (fun p => (p.1 - b0, p.2)) ∧
    (is.foldl (fun s i => handle c 4 s i) s).blocks.length + b0 = (placeAll c sp is).1.done.length + 1 := by
  intro is
  induction is with
  | nil =>
    intro s sp hR _ b0 hb
    refine ⟨hR, ?_, hb⟩
    simp [placeAll]
  | cons i is ih =>
    intro s sp hR hfit b0 hb
    obtain ⟨h1, h2, h3⟩ := handle_refines w hR i (hfit i List.mem_cons_self) b0 hb
    obtain ⟨g1, g2, g3⟩ := ih _ _ h1 (fun j hj => hfit j (List.mem_cons_of_mem _ hj)) b0 h3
    simp only [List.foldl_cons, placeAll]
    refine ⟨g1, ?_, g3⟩
    rw [g2, h2, List.append_assoc]
    rfl

/-- the split context between two batches, related to the specification -/
def RelC (c : LCfg) (ctx : Ctx) (sp : Spec) : Prop :=
  ctx.idx = sp.cur.ents ∧ ctx.blobOff = sp.cur.off ∧ ctx.partOff = bsize c sp.cur

theorem rel_of_relC {c : LCfg} {ctx : Ctx} {sp : Spec} (h : RelC c ctx sp) : Rel c { ctx := ctx } sp :=
  ⟨h.1, h.2.1, by show ctx.partOff + 0 = _; rw [h.2.2]; rfl, by simp, fun _ => rfl⟩

theorem seal_refines {c : LCfg} {s : SplitSt} {sp : Spec} (hR : Rel c s sp) :
    (RelC c (sealBlob c s).ctx sp ∨ RelC c (sealBlob c s).ctx (roll c sp)) ∧
    emitted (sealBlob c s).blocks 0 = outPos s := by
  unfold sealBlob
  split
  · rename_i he
    have he' : s.indices = [] := by simpa using he
    have hz := hR.pz he'
    refine ⟨Or.inl ⟨hR.idx, hR.off, ?_⟩, ?_⟩
    · have := hR.size; omega
    · simp only [outPos, he', List.map_nil, List.append_nil]
  · refine ⟨?_, ?_⟩
    · by_cases hfull : s.ctx.idx.length ≥ c.cap
      · right
        have hfull' : sp.cur.ents.length ≥ c.cap := by rw [← hR.idx]; exact hfull
        simp only [hfull, if_true]
        unfold roll
        rw [if_pos hfull']
        refine ⟨rfl, ?_, ?_⟩
        · show s.ctx.blobOff + s.ctx.partOff + s.partSize = sp.cur.off + bsize c sp.cur
          have := hR.size; have := hR.off; omega
        · show c.I = bsize c { off := sp.cur.off + bsize c sp.cur, ents := [] }
          simp [bsize, esize]
      · left
        simp only [hfull, if_false]
        exact ⟨hR.idx, hR.off, hR.size⟩
    · simp only
      rw [emitted_pushPart _ _ _ hR.ne]
      simp only [outPos, Nat.zero_add]

theorem placeAll_roll {c : LCfg} (w : WF c) (sp : Spec) (i : Info) (is : List Info) :
    placeAll c (roll c sp) (i :: is) = placeAll c sp (i :: is) := by
  simp only [placeAll, placeS_roll w]

/-- **One batch**: `Splitter::split` (model) reports exactly the positions the specification assigns,
and hands a context to the next batch that is again related to the specification. -/
theorem split_refines {c : LCfg} (w : WF c) (ctx : Ctx) (sp : Spec)
    (h : RelC c ctx sp ∨ RelC c ctx (roll c sp)) (is : List Info)
    (hfit : ∀ i ∈ is, c.I + alignUp c.P i.len ≤ c.B) :
    (RelC c (split c ctx is).1 (placeAll c sp is).1 ∨ RelC c (split c ctx is).1 (roll c (placeAll c sp is).1)) ∧
    emitted (split c ctx is).2 0 = (placeAll c sp is).2.map (fun p => (p.1 - sp.done.length, p.2)) := by
  cases is with
  | nil =>
    simp only [split, List.foldl_nil, placeAll, List.map_nil]
    have hs : sealBlob c ({ ctx := ctx } : SplitSt) = { ctx := ctx } := by
      unfold sealBlob; simp
    rw [hs]
    exact ⟨h, rfl⟩
  | cons i is =>
    -- either way the specification continues from `sp`
    have key : ∀ sp0, RelC c ctx sp0 → sp0.done.length = sp.done.length →
        placeAll c sp0 (i :: is) = placeAll c sp (i :: is) →
        (RelC c (split c ctx (i :: is)).1 (placeAll c sp (i :: is)).1 ∨
          RelC c (split c ctx (i :: is)).1 (roll c (placeAll c sp (i :: is)).1)) ∧
        emitted (split c ctx (i :: is)).2 0 = (placeAll c sp (i :: is)).2.map (fun p => (p.1 - sp.done.length, p.2)) := by
      intro sp0 h0 hd hp
      have hR := rel_of_relC h0
      obtain ⟨g1, g2, _⟩ := fold_refines w (i :: is) _ sp0 hR hfit sp0.done.length (by simp; omega)
      obtain ⟨k1, k2⟩ := seal_refines g1
      simp only [split]
      rw [hp] at k1 g2
      refine ⟨k1, ?_⟩
      rw [k2, g2, hd]
      simp [outPos, emitted]
    rcases h with h | h
    · exact key sp h rfl rfl
    · exact key (roll c sp) h (by rw [roll_done]) (placeAll_roll w sp i is)

/-- Run the splitter model over a sequence of batches, collecting the reported positions. -/
def runBatches (c : LCfg) : Ctx → List (List Info) → List (List (Nat × Nat))
  | _, [] => []
  | ctx, is :: rest => emitted (split c ctx is).2 0 :: runBatches c (split c ctx is).1 rest

/-- The same for the specification (block numbers relative to the batch's first block). -/
def specBatches (c : LCfg) : Spec → List (List Info) → List (List (Nat × Nat))
  | _, [] => []
  | sp, is :: rest =>
    (placeAll c sp is).2.map (fun p => (p.1 - sp.done.length, p.2)) :: specBatches c (placeAll c sp is).1 rest

/-- **C07 (refinement)**: for every sequence of batches of entries that fit a block, the splitter —
with its context carried from batch to batch — puts every entry exactly where the monotone cursor
allocator puts it.  Together with `layout_sound` and `recover_reads_back`: placements are page
aligned, inside one block, never overlap, and a scan reads them back exactly. -/
theorem splitter_refines_spec {c : LCfg} (w : WF c) (batches : List (List Info))
    (hfit : ∀ is ∈ batches, ∀ i ∈ is, c.I + alignUp c.P i.len ≤ c.B) :
    runBatches c (Ctx.new c) batches = specBatches c {} batches := by
  have gen : ∀ (bs : List (List Info)) (ctx : Ctx) (sp : Spec), (RelC c ctx sp ∨ RelC c ctx (roll c sp)) →
      (∀ is ∈ bs, ∀ i ∈ is, c.I + alignUp c.P i.len ≤ c.B) → runBatches c ctx bs = specBatches c sp bs := by
    intro bs
    induction bs with
    | nil => intro _ _ _ _; rfl
    | cons is rest ih =>
      intro ctx sp h hf
      obtain ⟨h1, h2⟩ := split_refines w ctx sp h is (hf is List.mem_cons_self)
      simp only [runBatches, specBatches]
      rw [h2, ih _ _ h1 (fun js hjs => hf js (List.mem_cons_of_mem _ hjs))]
  apply gen _ _ _ _ hfit
  left
  exact ⟨rfl, rfl, by simp [Ctx.new, bsize, esize]⟩

/-! ### non-vacuity: a concrete configuration, and a batch that exercises block and blob splits -/
section Demo
def dc : LCfg := { B := 16384, I := 4096 }
example : WF dc := ⟨by decide, ⟨1, by decide⟩, ⟨4, by decide⟩, by decide, by decide, by decide⟩
def dbatches : List (List Info) :=
  [[⟨1001, 1, 100⟩, ⟨1002, 2, 5000⟩], [⟨1003, 3, 4096⟩, ⟨1004, 4, 12288⟩, ⟨1005, 5, 1⟩]]
example : runBatches dc (Ctx.new dc) dbatches = [[(0, 4096), (0, 8192)], [(1, 4096), (2, 4096), (3, 4096)]] := by decide
example : specBatches dc {} dbatches = [[(0, 4096), (0, 8192)], [(1, 4096), (2, 4096), (3, 4096)]] := by decide
end Demo

end Foyer.Blk
