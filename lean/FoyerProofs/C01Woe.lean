import FoyerProofs.C01WoeLemmas
/-
  C01, part 3 — **the hybrid cache under write-on-eviction (the default policy) refines the same per-key
  register** as under write-on-insertion (`truthStep` / `readOk` of `C01Woi.lean`).

  `woe_reads_truth`: for an arbitrary `Lawful` memory policy, an arbitrary hasher (collisions allowed), every
  capacity and every history of insert (any size including oversize, any placement advice except
  in-memory-only advice on the observed key), storage-writer insert, remove, clear, get, get_or_fetch,
  evict-all, contains, wait and disk-capacity evictions — every lookup of `k` answers a miss or the
  register value.  The disk tier may hold an older version of `k` for as long as memory holds the key; the
  proof shows that the moment memory lets go of it (eviction inside any memory operation) the record is
  handed to the pipe and becomes what the disk tier shows.

  Not covered (correspondence and monitors only): flusher held / device writes gated, close + reopen.
-/
namespace Foyer.Hyb
open Foyer

section
variable {σ : Type} (P : Policy σ) (hc : HCfg) (Ok : σ → Prop) (L : Lawful P Ok) (hn : 0 < hc.mcfg.nshards)
  (he : hc.woi = false) (k : Nat)

/-- the invariant at an API-call boundary: the flusher is idle, no handle is outstanding -/
def EB (tr : Option Nat) (s : HState σ) : Prop :=
  EInv P hc Ok k tr s ∧ ED hc k tr s ∧ s.queue = [] ∧ s.keeper = [] ∧ s.mem.held = []

theorem memInsert_eq (s : HState σ) (key ver : Nat) (ph : Bool) (loc : Loc) (age : Age) (r : Rec)
    (hr : (memOp P hc s (.ins key ver 1 .normal ph loc age)).2.ret = .handle r) :
    (memInsert P hc s key ver ph loc age).1 =
      (memOp P hc (memOp P hc s (.ins key ver 1 .normal ph loc age)).1 (.drop r.id)).1 := by
  unfold memInsert
  generalize hm : memOp P hc s (.ins key ver 1 .normal ph loc age) = p at hr
  obtain ⟨s1, out⟩ := p
  simp only at hr ⊢
  rw [hr]

include L hn in
theorem memOp_ins_handle' {s : HState σ} (hci : CacheInv P Ok hc.mcfg s.mem) (key ver w : Nat) (hint : Hint)
    (ph : Bool) (loc : Loc) (age : Age) : ∃ r, (memOp P hc s (.ins key ver w hint ph loc age)).2.ret = .handle r := by
  rw [memOp_out]
  exact ins_ret_handle P hc Ok L hn hci key ver w hint ph loc age

include L hn he in
/-- populating memory with what the disk tier returned for `key` -/
theorem einv_populate {tr : Option Nat} {s : HState σ} (h : EInv P hc Ok k tr s) (hd : ED hc k tr s)
    (hheld : s.mem.held = []) (key v : Nat)
    (hk : key = k → Cache.lookup hc.mcfg s.mem k = none ∧ tr = some v ∧ Kview hc k s (fun e => e.ver = v)) :
    EInv P hc Ok k tr (memInsert P hc s key v false .default .young).1 ∧
    ED hc k tr (memInsert P hc s key v false .default .young).1 ∧
    (memInsert P hc s key v false .default .young).1.mem.held = [] := by
  obtain ⟨r, hr⟩ := memOp_ins_handle' P hc Ok L hn h.cinv key v 1 .normal false .default .young
  rw [memInsert_eq P hc s key v false .default .young r hr]
  have hheld1 := memOp_held_ins P hc s hheld key v 1 .normal false .default .young r hr
  have hheld2 := memOp_held_drop P hc _ r hheld1
  have hf : r.key = key ∧ r.ver = v ∧ r.loc = .default ∧ r.age = .young ∧ r.phantom = false ∧ _ :=
    ins_handle_fields P hc.mcfg s.mem key v 1 .normal false .default .young r (by rw [← memOp_out]; exact hr)
  by_cases hkk : key = k
  · subst hkk
    obtain ⟨hnone, htr, hv⟩ := hk rfl
    obtain ⟨h1, hd1⟩ := einv_ins_young P hc Ok L hn he key h hnone v 1 .normal .default (by decide) htr hv r hr
    have := einv_memOp_drop P hc Ok L hn he key h1 hd1 r hheld1 (by intro hp; rw [hf.2.2.2.2.1] at hp; cases hp)
    exact ⟨this.1, this.2, hheld2⟩
  · obtain ⟨h1, hd1⟩ := einv_memOp_quiet P hc Ok L hn he k h hd (.ins key v 1 .normal false .default .young) hkk
      (by intro rid hrid; cases hrid)
    have := einv_memOp_drop P hc Ok L hn he k h1 hd1 r hheld1 (by intro _; rw [hf.1]; exact hkk)
    exact ⟨this.1, this.2, hheld2⟩

include L hn he in
/-- **The disk lookup of a memory miss, with the flusher idle.** -/
theorem einv_load {tr : Option Nat} {s : HState σ} (h : EInv P hc Ok k tr s) (hd : ED hc k tr s)
    (hq : s.queue = []) (hkp : s.keeper = []) (hheld : s.mem.held = []) (key : Nat)
    (hmiss : key = k → Cache.lookup hc.mcfg s.mem k = none) :
    EInv P hc Ok k tr (loadAndPopulate P hc s key).1 ∧ ED hc k tr (loadAndPopulate P hc s key).1 ∧
    (loadAndPopulate P hc s key).1.mem.held = [] ∧
    (∀ v src, (loadAndPopulate P hc s key).2 = some (v, src) → key = k → tr = some v) ∧
    ((loadAndPopulate P hc s key).2 = none → (loadAndPopulate P hc s key).1 = s) := by
  unfold loadAndPopulate
  rw [hkp, assocGet_nil]
  simp only
  cases hix : indexAddr s.index (hc.mcfg.H key) with
  | none =>
    simp only
    refine ⟨h, hd, hheld, ?_, ?_⟩
    · intro _ _ hx; cases hx
    · intro _; trivial
  | some e =>
    simp only
    by_cases hek : e.key = key
    · rw [if_pos hek]
      have hfacts : key = k → Cache.lookup hc.mcfg s.mem k = none ∧ tr = some e.ver ∧ Kview hc k s (fun e' => e'.ver = e.ver) := by
        intro hkk
        subst hkk
        have hpv : pview hc s (hc.mcfg.H key) = some (.addr e) := by
          unfold pview; simp only; rw [hq, lookupAfter_nil]; exact indexAddr_some hix
        refine ⟨hmiss rfl, hd (hmiss rfl) e hpv hek, ?_⟩
        intro e' he' _
        rw [hpv] at he'; cases he'; rfl
      have hp := einv_populate P hc Ok L hn he k h hd hheld key e.ver hfacts
      generalize hmi : memInsert P hc s key e.ver false .default .young = p at hp
      obtain ⟨s1, o1⟩ := p
      simp only at hp ⊢
      refine ⟨hp.1, hp.2.1, hp.2.2, ?_, ?_⟩
      · intro v src hx hkk
        simp only [Option.some.injEq, Prod.mk.injEq] at hx
        rw [← hx.1]
        exact (hfacts hkk).2.1
      · intro hx; cases hx
    · rw [if_neg hek]
      refine ⟨h, hd, hheld, ?_, ?_⟩
      · intro _ _ hx; cases hx
      · intro _; trivial

theorem einv_big {tr : Option Nat} {s : HState σ} (h : EInv P hc Ok k tr s) (hd : ED hc k tr s) (b : List Nat) :
    EInv P hc Ok k tr { s with big := b } ∧ ED hc k tr ({ s with big := b } : HState σ) :=
  ⟨⟨h.cinv, ⟨h.ds.hh, h.ds.hg, h.ds.hi, h.ds.kq, h.ds.seqok⟩, h.M, h.N, h.Y⟩, hd⟩

include he in
/-- operations that evict nothing leave the flusher's queue and the keeper alone -/
theorem memOp_nopipe (s : HState σ) (op : Op) (hp : (Cache.step P hc.mcfg s.mem op).2.piped = []) :
    (memOp P hc s op).1 = { s with mem := (Cache.step P hc.mcfg s.mem op).1 } := by
  rw [memOp_eq, hp]; rfl

include L hn he in
/-- **One API call** (before the flusher runs). -/
theorem woe_stepCore {tr : Option Nat} {s : HState σ} (h : EB P hc Ok k tr s) (op : HOp) (hok : okOp k op) :
    EInv P hc Ok k (truthStep k tr op (stepCore P hc s op).2) (stepCore P hc s op).1 ∧
    ED hc k (truthStep k tr op (stepCore P hc s op).2) (stepCore P hc s op).1 ∧
    (stepCore P hc s op).1.mem.held = [] ∧
    readOk k tr op (stepCore P hc s op).2 := by
  obtain ⟨h, hd, hq, hkp, hheld⟩ := h
  have hwoi : ∀ b : Bool, (hc.woi && b) = false := by intro b; rw [he]; rfl
  cases op with
  | ins key ver loc big =>
    simp only [stepCore, readOk, truthStep, and_true, hwoi, he, Bool.false_eq_true, if_false]
    generalize hs0 : (if big = true then ({ s with big := ver :: s.big } : HState σ) else s) = s0
    have h0 : EInv P hc Ok k tr s0 ∧ ED hc k tr s0 ∧ s0.mem.held = [] := by
      rw [← hs0]; split
      · exact ⟨(einv_big P hc Ok k h hd _).1, (einv_big P hc Ok k h hd _).2, hheld⟩
      · exact ⟨h, hd, hheld⟩
    obtain ⟨r, hr⟩ := memOp_ins_handle' P hc Ok L hn h0.1.cinv key ver 1 .normal (decide (loc = .onDisk)) loc .fresh
    have hseq := einv_insert_seq P hc Ok L hn he k h0.1 h0.2.1 h0.2.2 key ver 1 .normal (decide (loc = .onDisk)) loc
      hok r hr
    generalize hm : memOp P hc s0 (.ins key ver 1 .normal (decide (loc = .onDisk)) loc .fresh) = p at hr hseq
    obtain ⟨s1, out⟩ := p
    simp only at hr hseq ⊢
    rw [hr]
    exact hseq
  | wins key ver force =>
    simp only [stepCore, readOk, truthStep, and_true, he, Bool.false_eq_true, if_false]
    obtain ⟨r, hr⟩ := memOp_ins_handle' P hc Ok L hn h.cinv key ver 1 .normal true .default .fresh
    have hseq := einv_insert_seq P hc Ok L hn he k h hd hheld key ver 1 .normal true .default
      (fun _ => by decide) r hr
    generalize hm : memOp P hc s (.ins key ver 1 .normal true .default .fresh) = p at hr hseq
    obtain ⟨s1, out⟩ := p
    simp only at hr hseq ⊢
    rw [hr]
    exact hseq
  | rm key =>
    simp only [stepCore, readOk, truthStep, and_true]
    have hrol := (C02.reads_observe_lookup (P := P) hc.mcfg s.mem key).2.1
    have hhr := held_remove (P := P) hc.mcfg s.mem hheld key
    have hout := memOp_out P hc s (.remove key)
    have hmem := memOp_mem P hc s (.remove key)
    by_cases hkk : key = k
    · subst hkk
      obtain ⟨h1, hl1⟩ := einv_memOp_unlink P hc Ok L hn he key h (.remove key)
        (by intro _ _; simp only [regStep, if_true]) tr
      generalize hm : memOp P hc s (.remove key) = p at h1 hl1 hout hmem
      obtain ⟨s1, out⟩ := p
      simp only at h1 hl1 hout hmem ⊢
      have h2 : EInv P hc Ok key tr (match out.ret with | .handle r => (memOp P hc s1 (.drop r.id)).1 | _ => s1) ∧
          Cache.lookup hc.mcfg (match out.ret with | .handle r => (memOp P hc s1 (.drop r.id)).1 | _ => s1).mem key = none ∧
          (match out.ret with | .handle r => (memOp P hc s1 (.drop r.id)).1 | _ => s1).mem.held = [] := by
        split
        · rename_i r hr
          rw [hout] at hr
          have hheld1 : s1.mem.held = [(r, 1)] := by rw [hmem]; exact hhr.1 r hr
          have hlk : Cache.lookup hc.mcfg s.mem key = some r := by
            rcases hrol with h0 | h0 | ⟨r', h01, h02, _⟩
            · rw [h0] at hr; cases hr
            · rw [h0] at hr; cases hr
            · rw [h01] at hr; cases hr; exact h02
          have hnp := (lookup_hash h.cinv hlk).2
          have hpiped : (Cache.step P hc.mcfg s1.mem (.drop r.id)).2.piped = [] := by
            rw [(held_drop (P := P) hc.mcfg s1.mem r hheld1).2, hnp]; rfl
          obtain ⟨a1, a2, _⟩ := einv_memOp_nok P hc Ok L hn he key h1 hl1 (.drop r.id) (by intro _; simp only [regStep])
            (by intro x hx; rw [hpiped] at hx; cases hx)
          exact ⟨a1, a2, memOp_held_drop P hc s1 r hheld1⟩
        · rename_i hnh
          refine ⟨h1, hl1, ?_⟩
          rw [hmem]
          exact hhr.2 (fun r hr => hnh r (by rw [hout]; exact hr))
      obtain ⟨d1, _, d3⟩ := einv_delete P hc Ok key h2.1 key
      have hlk : Cache.lookup hc.mcfg (delete hc (match out.ret with | .handle r => (memOp P hc s1 (.drop r.id)).1 | _ => s1) key).mem key = none := by
        rw [delete_mem]; exact h2.2.1
      rw [if_pos trivial]
      refine ⟨einv_retag P hc Ok key d1 hlk none, fun _ => d3 rfl _, ?_⟩
      rw [delete_mem]; exact h2.2.2
    · rw [if_neg hkk]
      obtain ⟨h1, hd1⟩ := einv_memOp_quiet P hc Ok L hn he k h hd (.remove key) hkk (by intro rid hrid; cases hrid)
      generalize hm : memOp P hc s (.remove key) = p at h1 hd1 hout hmem
      obtain ⟨s1, out⟩ := p
      simp only at h1 hd1 hout hmem ⊢
      have h2 : EInv P hc Ok k tr (match out.ret with | .handle r => (memOp P hc s1 (.drop r.id)).1 | _ => s1) ∧
          ED hc k tr (match out.ret with | .handle r => (memOp P hc s1 (.drop r.id)).1 | _ => s1) ∧
          (match out.ret with | .handle r => (memOp P hc s1 (.drop r.id)).1 | _ => s1).mem.held = [] := by
        split
        · rename_i r hr
          rw [hout] at hr
          have hheld1 : s1.mem.held = [(r, 1)] := by rw [hmem]; exact hhr.1 r hr
          have hrk : r.key = key := by
            rcases hrol with h0 | h0 | ⟨r', h01, _, h03⟩
            · rw [h0] at hr; cases hr
            · rw [h0] at hr; cases hr
            · rw [h01] at hr; cases hr; exact h03
          have := einv_memOp_drop P hc Ok L hn he k h1 hd1 r hheld1 (by intro _; rw [hrk]; exact hkk)
          exact ⟨this.1, this.2, memOp_held_drop P hc s1 r hheld1⟩
        · rename_i hnh
          refine ⟨h1, hd1, ?_⟩
          rw [hmem]
          exact hhr.2 (fun r hr => hnh r (by rw [hout]; exact hr))
      obtain ⟨d1, d2, _⟩ := einv_delete P hc Ok k h2.1 key
      refine ⟨d1, ?_, ?_⟩
      · intro hnone
        rw [delete_mem] at hnone
        exact d2 _ (h2.2.1 hnone)
      · rw [delete_mem]; exact h2.2.2
  | clear =>
    simp only [stepCore, readOk, truthStep, and_true]
    obtain ⟨h1, hl1⟩ := einv_memOp_unlink P hc Ok L hn he k h .clear (by intro _ _; simp only [regStep]) none
    have hheld1 : (memOp P hc s .clear).1.mem.held = [] := by
      rw [memOp_mem, held_clear]; exact hheld
    generalize hm : memOp P hc s .clear = p at h1 hl1 hheld1
    obtain ⟨s1, out⟩ := p
    simp only at h1 hl1 hheld1 ⊢
    generalize hs1' : ({ s1 with seq := s1.seq + 1, queue := s1.queue ++ [Sub.tomb 0 s1.seq],
                                 subs := s1.subs ++ [Sub.tomb 0 s1.seq] } : HState σ) = s1'
    have hkq : KQ s1' := by
      rw [← hs1']
      intro p hp
      obtain ⟨e, f, hef, he'⟩ := h1.ds.kq p hp
      exact ⟨e, f, List.mem_append_left _ hef, he'⟩
    obtain ⟨fq, fi, fkp, fm, _, fh, fg, _, _⟩ := flush_quiet hc s1' (by rw [← hs1']; exact h1.ds.hh)
      (by rw [← hs1']; exact h1.ds.hg) (by rw [← hs1']; exact h1.ds.hi) hkq
    have hmem : (flush hc s1').mem = s1.mem := by rw [fm, ← hs1']
    refine ⟨⟨by rw [hmem]; exact h1.cinv, ⟨fh, fg, fi, ?_, ?_⟩, ?_, ?_, ?_⟩, ?_, ?_⟩
    · intro p hp; rw [fkp] at hp; cases hp
    · rw [fq]
      refine ⟨?_, ?_, ?_⟩
      · intro i hi; cases hi
      · intro e he' _; cases he'
      · intro p hp _; cases hp
    · intro r hr; rw [hmem, hl1] at hr; cases hr
    · intro r hr; rw [hmem, hl1] at hr; cases hr
    · intro r hr; rw [hmem, hl1] at hr; cases hr
    · intro _ e he' _
      unfold pview at he'
      simp only at he'
      rw [fq] at he'
      cases he'
    · rw [hmem]; exact hheld1
  | get key =>
    simp only [stepCore, truthStep]
    obtain ⟨h1, hd1⟩ := einv_memOp_quiet P hc Ok L hn he k h hd (.get key) (by simp only [quietFor])
      (by intro rid hrid; cases hrid)
    have hout := memOp_out P hc s (.get key)
    have hnp := memOp_nopipe P hc he s (.get key) (no_leaves_piped_nil hc.mcfg s.mem (.get key) trivial)
    have hhg := held_get (P := P) hc.mcfg s.mem hheld key
    generalize hm : memOp P hc s (.get key) = p at h1 hd1 hout hnp
    obtain ⟨s1, out⟩ := p
    simp only at h1 hd1 hout hnp ⊢
    split
    · rename_i r hr
      simp only
      rw [hout] at hr
      have hlk := get_handle_lookup P hc s.mem key r hr
      have hheld1 : s1.mem.held = [(r, 1)] := by rw [hnp]; exact hhg.1 r hr
      have hrk : r.key = key := lookup_key hc.mcfg s.mem key r hlk
      have hnph := (lookup_hash h.cinv hlk).2
      have := einv_memOp_drop P hc Ok L hn he k h1 hd1 r hheld1 (by intro hp; rw [hnph] at hp; cases hp)
      refine ⟨this.1, this.2, memOp_held_drop P hc s1 r hheld1, ?_⟩
      simp only [readOk]
      intro hkk key' v src hv
      simp only [HRet.val.injEq] at hv
      subst hkk
      exact ⟨hv.1.symm, by rw [h.M r hlk, hv.2.1]⟩
    · rename_i hnh
      have hsame : (Cache.step P hc.mcfg s.mem (.get key)).1 = s.mem :=
        hhg.2 (fun r hr => hnh r (by rw [hout]; exact hr))
      have hs1 : s1 = s := by rw [hnp, hsame]
      subst hs1
      have hmiss : key = k → Cache.lookup hc.mcfg s1.mem k = none := by
        intro hkk; subst hkk
        exact get_not_handle P hc s1.mem key (by intro r hr; exact hnh r (by rw [hout]; exact hr))
      obtain ⟨hl1, hl2, hl3, hl4, _⟩ := einv_load P hc Ok L hn he k h hd hq hkp hheld key hmiss
      generalize hlp : loadAndPopulate P hc s1 key = p at hl1 hl2 hl3 hl4
      obtain ⟨s2, o⟩ := p
      cases o with
      | none =>
        simp only
        refine ⟨hl1, hl2, hl3, ?_⟩
        simp only [readOk]
        intro _ _ _ _ hv; cases hv
      | some vs =>
        obtain ⟨v, src⟩ := vs
        simp only
        refine ⟨hl1, hl2, hl3, ?_⟩
        simp only [readOk]
        intro hkk key' v' src' hv
        simp only [HRet.val.injEq] at hv
        exact ⟨by rw [← hv.1]; exact hkk, by rw [← hv.2.1]; exact hl4 v src rfl hkk⟩
  | fetch key ov =>
    simp only [stepCore, he, Bool.false_eq_true, if_false]
    obtain ⟨h1, hd1⟩ := einv_memOp_quiet P hc Ok L hn he k h hd (.get key) (by simp only [quietFor])
      (by intro rid hrid; cases hrid)
    have hout := memOp_out P hc s (.get key)
    have hnp := memOp_nopipe P hc he s (.get key) (no_leaves_piped_nil hc.mcfg s.mem (.get key) trivial)
    have hhg := held_get (P := P) hc.mcfg s.mem hheld key
    generalize hm : memOp P hc s (.get key) = p at h1 hd1 hout hnp
    obtain ⟨s1, out⟩ := p
    simp only at h1 hd1 hout hnp ⊢
    split
    · rename_i r hr
      simp only
      rw [hout] at hr
      have hlk := get_handle_lookup P hc s.mem key r hr
      have hheld1 : s1.mem.held = [(r, 1)] := by rw [hnp]; exact hhg.1 r hr
      have hnph := (lookup_hash h.cinv hlk).2
      have hdrop := einv_memOp_drop P hc Ok L hn he k h1 hd1 r hheld1 (by intro hp; rw [hnph] at hp; cases hp)
      by_cases hkk : key = k
      · subst hkk
        have hM := h.M r hlk
        simp only [truthStep, if_true, readOk]
        rw [← hM]
        refine ⟨hdrop.1, hdrop.2, memOp_held_drop P hc s1 r hheld1, fun _ => ⟨⟨_, _, rfl⟩, ?_⟩⟩
        intro key' v src hv
        simp only [HRet.val.injEq] at hv
        exact ⟨hv.1.symm, Or.inl (by rw [hM, hv.2.1])⟩
      · simp only [truthStep, if_neg hkk, readOk]
        exact ⟨hdrop.1, hdrop.2, memOp_held_drop P hc s1 r hheld1, fun e => absurd e hkk⟩
    · rename_i hnh
      have hsame : (Cache.step P hc.mcfg s.mem (.get key)).1 = s.mem :=
        hhg.2 (fun r hr => hnh r (by rw [hout]; exact hr))
      have hs1 : s1 = s := by rw [hnp, hsame]
      subst hs1
      have hmiss : key = k → Cache.lookup hc.mcfg s1.mem k = none := by
        intro hkk; subst hkk
        exact get_not_handle P hc s1.mem key (by intro r hr; exact hnh r (by rw [hout]; exact hr))
      obtain ⟨hl1, hl2, hl3, hl4, hl5⟩ := einv_load P hc Ok L hn he k h hd hq hkp hheld key hmiss
      generalize hlp : loadAndPopulate P hc s1 key = p at hl1 hl2 hl3 hl4 hl5
      obtain ⟨s2, o⟩ := p
      cases o with
      | some vs =>
        obtain ⟨v, src⟩ := vs
        simp only
        by_cases hkk : key = k
        · have hv := hl4 v src rfl hkk
          simp only [truthStep, if_pos hkk, readOk]
          rw [← hv]
          refine ⟨hl1, hl2, hl3, fun _ => ⟨⟨_, _, by rw [hkk]⟩, ?_⟩⟩
          intro key' v' src' hv'
          simp only [HRet.val.injEq] at hv'
          exact ⟨by rw [← hv'.1]; exact hkk, Or.inl (by rw [hv, hv'.2.1])⟩
        · simp only [truthStep, if_neg hkk, readOk]
          exact ⟨hl1, hl2, hl3, fun e => absurd e hkk⟩
      | none =>
        simp only at hl5 ⊢
        have hs2 : s2 = s1 := hl5 trivial
        subst hs2
        obtain ⟨r, hr⟩ := memOp_ins_handle' P hc Ok L hn h.cinv key ov 1 .normal false .default .fresh
        have hseq := einv_insert_seq P hc Ok L hn he k h hd hheld key ov 1 .normal false .default
          (fun _ => by decide) r hr
        generalize hm3 : memOp P hc s2 (.ins key ov 1 .normal false .default .fresh) = p3 at hr hseq
        obtain ⟨s3, out3⟩ := p3
        simp only at hr hseq ⊢
        rw [hr]
        simp only
        by_cases hkk : key = k
        · simp only [truthStep, if_pos hkk, readOk]
          rw [if_pos hkk] at hseq
          refine ⟨hseq.1, hseq.2.1, hseq.2.2, fun _ => ⟨⟨_, _, by rw [hkk]⟩, ?_⟩⟩
          intro key' v' src' hv'
          simp only [HRet.val.injEq] at hv'
          exact ⟨by rw [← hv'.1]; exact hkk, Or.inr hv'.2.1.symm⟩
        · simp only [truthStep, if_neg hkk, readOk]
          rw [if_neg hkk] at hseq
          exact ⟨hseq.1, hseq.2.1, hseq.2.2, fun e => absurd e hkk⟩
  | evict =>
    simp only [stepCore, readOk, truthStep, and_true]
    obtain ⟨h1, hd1⟩ := einv_memOp_quiet P hc Ok L hn he k h hd .evictAll (by simp only [quietFor])
      (by intro rid hrid; cases hrid)
    refine ⟨h1, hd1, ?_⟩
    rw [memOp_mem, held_evictAll]; exact hheld
  | contains key => simp only [stepCore, readOk, truthStep, and_true]; exact ⟨h, hd, hheld⟩
  | wait => simp only [stepCore, readOk, truthStep, and_true]; exact ⟨h, hd, hheld⟩
  | lose h' =>
    simp only [stepCore, readOk, truthStep, and_true]
    split
    · exact ⟨h, hd, hheld⟩
    · rename_i e he'
      simp only
      have hpv : ∀ (d : List DiskEnt), pview hc ({ s with index := assocDel s.index h', disk := d } : HState σ) (hc.mcfg.H k) =
          if hc.mcfg.H k = h' then none else pview hc s (hc.mcfg.H k) := by
        intro d
        unfold pview
        simp only
        rw [hq, lookupAfter_nil, lookupAfter_nil, assocGet_del]
      have hkv : ∀ (d : List DiskEnt) Q, Kview hc k s Q →
          Kview hc k ({ s with index := assocDel s.index h', disk := d } : HState σ) Q := by
        intro d Q hQ e' he'' hke
        rw [hpv] at he''
        split at he''
        · cases he''
        · exact hQ e' he'' hke
      refine ⟨⟨h.cinv, ⟨h.ds.hh, h.ds.hg, h.ds.hi, h.ds.kq, ?_⟩, h.M, h.N, ?_⟩, ?_, hheld⟩
      · show batchLt (assocGet (assocDel s.index h') (hc.mcfg.H k)) s.queue (hc.mcfg.H k) s.seq
        rw [assocGet_del]
        split
        · exact batchLt_cur h.ds.seqok (by intro i hi; cases hi)
        · exact h.ds.seqok
      · intro r hr hy; exact hkv _ _ (h.Y r hr hy)
      · intro hnone; exact hkv _ _ (hd hnone)
  | hold => exact absurd hok (by simp only [okOp, not_false_eq_true])
  | unhold => exact absurd hok (by simp only [okOp, not_false_eq_true])
  | gate => exact absurd hok (by simp only [okOp, not_false_eq_true])
  | releaseAll => exact absurd hok (by simp only [okOp, not_false_eq_true])
  | releaseBatch => exact absurd hok (by simp only [okOp, not_false_eq_true])
  | reopen => exact absurd hok (by simp only [okOp, not_false_eq_true])

include L hn he in
/-- **One API call followed by the flusher running to quiescence.** -/
theorem woe_step {tr : Option Nat} {s : HState σ} (h : EB P hc Ok k tr s) (op : HOp) (hok : okOp k op) :
    EB P hc Ok k (truthStep k tr op (step P hc s op).2) (step P hc s op).1 ∧ readOk k tr op (step P hc s op).2 := by
  obtain ⟨h1, h2, h3, h4⟩ := woe_stepCore P hc Ok L hn he k h op hok
  unfold step
  simp only
  obtain ⟨f1, f2, f3, f4⟩ := einv_flush P hc Ok k h1 h2
  exact ⟨⟨f1, f2, f3, f4, by rw [flush_mem]; exact h3⟩, h4⟩

include L hn he in
theorem woe_reads_from : ∀ (ops : List HOp) (tr : Option Nat) (s : HState σ), EB P hc Ok k tr s →
    (∀ op ∈ ops, okOp k op) → readsOk P hc k tr s ops := by
  intro ops
  induction ops with
  | nil => intro _ _ _ _; trivial
  | cons op ops ih =>
    intro tr s h hok
    obtain ⟨h1, h2⟩ := woe_step P hc Ok L hn he k h op (hok op (List.mem_cons_self))
    exact ⟨h2, ih _ _ h1 (fun o ho => hok o (List.mem_cons_of_mem _ ho))⟩

include L in
theorem eb_init (memcap : Nat) : EB P hc Ok k none (init P hc memcap) := by
  have hl : Cache.lookup hc.mcfg (init P hc memcap).mem k = none := by
    simp only [init, Cache.lookup, Cache.new, List.getElem?_map]
    cases (List.range hc.mcfg.nshards)[hc.mcfg.shardOf (hc.mcfg.H k)]? <;> simp [Shard.new, findKey]
  refine ⟨⟨new_inv L hc.mcfg memcap, ⟨rfl, rfl, rfl, ?_, ?_⟩, ?_, ?_, ?_⟩, ?_, rfl, rfl, rfl⟩
  · intro p hp; cases hp
  · refine ⟨?_, ?_, ?_⟩
    · intro i hi; cases hi
    · intro e he' _; cases he'
    · intro p hp _; cases hp
  · intro r hr; rw [hl] at hr; cases hr
  · intro r hr; rw [hl] at hr; cases hr
  · intro r hr; rw [hl] at hr; cases hr
  · intro _ e he' _; cases he'

include L hn he in
/-- **C01 (write-on-eviction, the default policy): reads observe the latest write, whatever the history.** -/
theorem woe_reads_truth (memcap : Nat) (ops : List HOp) (hok : ∀ op ∈ ops, okOp k op) :
    readsOk P hc k none (init P hc memcap) ops :=
  woe_reads_from P hc Ok L hn he k ops none _ (eb_init P hc Ok L k memcap) hok

end
end Foyer.Hyb

/-! ### Non-vacuity -/
namespace Foyer.Hyb.DemoWoe
open Foyer Foyer.Hyb

def hcfg : HCfg := { woi := false, foc := false, tombLog := true, mcfg := { nshards := 1, H := fun k => k % 2 } }

/-- memory of 2 entries: inserts of the colliding key 2 and of key 4 push key 0 out to disk; an update of key 0
while an older copy is on disk; a storage-writer insert; an oversize update; disk-capacity eviction; remove -/
def ops : List HOp :=
  [.ins 0 1 .default false, .ins 2 2 .default false, .ins 4 3 .default false, .get 0, .ins 0 4 .default false,
   .ins 2 5 .default false, .ins 4 6 .default false, .get 0, .wins 0 7 true, .get 0, .evict, .get 0,
   .ins 0 8 .default true, .evict, .get 0, .fetch 0 9, .lose 0, .get 0, .rm 0, .fetch 0 10, .clear, .get 0]

def rets : HState Fifo → List HOp → List HRet
  | _, [] => []
  | s, op :: ops => (step fifoPolicy hcfg s op).2 :: rets (step fifoPolicy hcfg s op).1 ops

example : readsOk fifoPolicy hcfg 0 none (init fifoPolicy hcfg 2) ops :=
  woe_reads_truth fifoPolicy hcfg _ fifo_lawful (by decide) rfl 0 2 ops (by decide)

end Foyer.Hyb.DemoWoe
