import FoyerProofs.C01Reopen
/-
  C15 / C01 — **the closing flush takes everything out of memory**, for eviction policies that always yield a
  victim while they hold one (`Drains`; proved for FIFO) and caches whose entries weigh at least 1 (`WPos`,
  true of every entry the hybrid model inserts).  This discharges the assumption `FlushDrops` of
  `woe_reads_truth_reopen_partial`: for such policies the write-on-eviction refinement holds across graceful
  restarts without further assumptions (`woe_reads_truth_reopen`).
-/
namespace Foyer
open Foyer

variable {σ : Type} {P : Policy σ} {Ok : σ → Prop}

/-- the policy yields a victim as long as it tracks a record -/
def Drains (P : Policy σ) (Ok : σ → Prop) : Prop := ∀ s, Ok s → P.pop s = none → P.members s = []

theorem fifo_drains : Drains fifoPolicy (fun s => idsNodup s.q) := by
  intro s _ hp
  cases hq : s.q with
  | nil => exact hq
  | cons r rs =>
    have : fifoPolicy.pop s = some (r, { q := rs }) := by
      show (match s.q with | [] => none | r :: rs => some (r, ({ q := rs } : Fifo))) = _
      rw [hq]
    rw [this] at hp; cases hp

theorem wsum_zero_nil : ∀ (l : List Rec), (∀ r ∈ l, 1 ≤ r.weight) → wsum l = 0 → l = [] := by
  intro l
  cases l with
  | nil => intro _ _; rfl
  | cons r rs =>
    intro hw h0
    have := hw r List.mem_cons_self
    simp only [wsum] at h0
    omega

/-- evicting a shard down to usage 0 empties it -/
theorem evict_zero_empties (L : Lawful P Ok) (D : Drains P Ok) {s : Shard σ} (h : ShardInv P Ok s)
    (hw : ∀ r ∈ s.index, 1 ≤ r.weight) : (Shard.evict P s 0).1.index = [] := by
  have es := evict_spec L 0 s h
  obtain ⟨vs, _, _, _, _, hidx, _, _⟩ := es.victims
  have hw' : ∀ r ∈ (Shard.evict P s 0).1.index, 1 ≤ r.weight := fun r hr => hw r ((hidx r).mp hr).1
  rcases es.done with hd | hd
  · apply wsum_zero_nil _ hw'
    have := es.inv.usage_eq
    omega
  · have hm := D _ es.inv.ok hd
    rw [List.eq_nil_iff_forall_not_mem]
    intro r hr
    have := (es.inv.mem_iff r).mpr hr
    rw [hm] at this
    cases this

/-- every findable entry weighs at least 1 -/
def WPos (c : Cache σ) : Prop := ∀ r ∈ c.findable, 1 ≤ r.weight

/-- **`flush` leaves nothing findable.** -/
theorem flush_lookup_none (L : Lawful P Ok) (D : Drains P Ok) {cfg : Cfg} {c : Cache σ} (hc : CacheInv P Ok cfg c)
    (hw : WPos c) (k : Nat) : Cache.lookup cfg (Cache.step P cfg c .flush).1 k = none := by
  simp only [Cache.step, Cache.lookup]
  rw [mapShards_getElem?]
  cases hs : c.shards[cfg.shardOf (cfg.H k)]? with
  | none => rfl
  | some s =>
    simp only [Option.map_some]
    have hidx := evict_zero_empties L D (hc.shard _ s hs) (fun r hr => hw r (mem_findable_of_shard hs hr))
    generalize Shard.evict P s 0 = ev at hidx
    obtain ⟨s1, vs, pk⟩ := ev
    simp only at hidx ⊢
    rw [hidx]; rfl

/-- the weight of what an operation inserts (1 for everything else) -/
def Op.insWeight : Op → Nat
  | .ins _ _ w _ _ _ _ => w
  | _ => 1

theorem wpos_step (L : Lawful P Ok) {cfg : Cfg} {c : Cache σ} (hc : CacheInv P Ok cfg c) (hw : WPos c) (op : Op)
    (hop : 1 ≤ op.insWeight) : WPos (Cache.step P cfg c op).1 := by
  intro r hr
  have hperm := step_conservation L hc op
  have : r ∈ admittedOf op (Cache.step P cfg c op).2 ++ c.findable :=
    hperm.symm.subset (List.mem_append.mpr (Or.inl hr))
  rcases List.mem_append.mp this with h1 | h1
  · -- the record the step admitted
    cases op with
    | ins key ver w hint ph loc age =>
      unfold admittedOf at h1
      split at h1
      · rename_i r0 hr0
        split at h1
        · cases h1
        · simp only [List.mem_singleton] at h1
          subst h1
          -- its weight is the operation's
          simp only [Cache.step] at hr0
          split at hr0
          · cases hr0
          · simp only at hr0
            split at hr0
            · cases hr0
            · cases hr0; exact hop
      · cases h1
    | get _ => simp [admittedOf] at h1
    | touch _ => simp [admittedOf] at h1
    | contains _ => simp [admittedOf] at h1
    | remove _ => simp [admittedOf] at h1
    | clone _ => simp [admittedOf] at h1
    | drop _ => simp [admittedOf] at h1
    | clear => simp [admittedOf] at h1
    | resize _ => simp [admittedOf] at h1
    | evictAll => simp [admittedOf] at h1
    | flush => simp [admittedOf] at h1
  · exact hw r h1

end Foyer

namespace Foyer.Hyb
open Foyer

section
variable {σ : Type} (P : Policy σ) (hc : HCfg) (Ok : σ → Prop) (L : Lawful P Ok) (hn : 0 < hc.mcfg.nshards)

/-- memory is well-formed and every entry weighs at least 1 -/
def MW (s : HState σ) : Prop := CacheInv P Ok hc.mcfg s.mem ∧ WPos s.mem

include L hn in
theorem mw_memOp {s : HState σ} (h : MW P hc Ok s) (op : Op) (hop : 1 ≤ op.insWeight) : MW P hc Ok (memOp P hc s op).1 := by
  unfold MW
  rw [memOp_mem]
  exact ⟨step_inv L hn h.1 op, wpos_step L h.1 h.2 op hop⟩

theorem mw_congr {s s' : HState σ} (h : MW P hc Ok s) (hm : s'.mem = s.mem) : MW P hc Ok s' := by
  unfold MW; rw [hm]; exact h

include L hn in
theorem mw_memInsert {s : HState σ} (h : MW P hc Ok s) (key ver : Nat) (ph : Bool) (loc : Loc) (age : Age) :
    MW P hc Ok (memInsert P hc s key ver ph loc age).1 := by
  unfold memInsert
  have b1 := mw_memOp P hc Ok L hn h (.ins key ver 1 .normal ph loc age) (Nat.le_refl 1)
  generalize memOp P hc s (.ins key ver 1 .normal ph loc age) = p at b1
  obtain ⟨s1, out⟩ := p
  simp only at b1 ⊢
  split
  · rename_i r _
    exact mw_memOp P hc Ok L hn b1 (.drop r.id) (Nat.le_refl 1)
  · exact b1

include L hn in
theorem mw_load {s : HState σ} (h : MW P hc Ok s) (key : Nat) : MW P hc Ok (loadAndPopulate P hc s key).1 := by
  unfold loadAndPopulate
  split
  · rename_i r _
    have := mw_memInsert P hc Ok L hn h key r.ver r.phantom r.loc r.age
    generalize memInsert P hc s key r.ver r.phantom r.loc r.age = p at this
    obtain ⟨s1, o⟩ := p
    exact this
  · split
    · exact h
    · rename_i e _
      split
      · have := mw_memInsert P hc Ok L hn h key e.ver false .default .young
        generalize memInsert P hc s key e.ver false .default .young = p at this
        obtain ⟨s1, o⟩ := p
        exact this
      · exact h

theorem mw_ite {s : HState σ} (h : MW P hc Ok s) (c : Prop) [Decidable c] (x : Rec) :
    MW P hc Ok (if c then submit s x else s) := by
  split
  · exact mw_congr P hc Ok h (submit_mem s x)
  · exact h

include L hn in
/-- every API call of the hybrid model keeps memory well-formed and all weights at least 1 -/
theorem mw_stepCore {s : HState σ} (h : MW P hc Ok s) (op : HOp) : MW P hc Ok (stepCore P hc s op).1 := by
  have one : (1 : Nat) ≤ 1 := Nat.le_refl 1
  cases op with
  | ins key ver loc big =>
    simp only [stepCore]
    have b0 : MW P hc Ok (if big = true then ({ s with big := ver :: s.big } : HState σ) else s) := by
      split
      · exact mw_congr P hc Ok h rfl
      · exact h
    generalize (if big = true then ({ s with big := ver :: s.big } : HState σ) else s) = s0 at b0
    have b1 := mw_memOp P hc Ok L hn b0 (.ins key ver 1 .normal (decide (loc = .onDisk)) loc .fresh) one
    generalize memOp P hc s0 (.ins key ver 1 .normal (decide (loc = .onDisk)) loc .fresh) = p at b1
    obtain ⟨s1, out⟩ := p
    simp only at b1 ⊢
    split
    · rename_i r _
      exact mw_memOp P hc Ok L hn (mw_ite P hc Ok b1 _ r) (.drop r.id) one
    · exact b1
  | wins key ver force =>
    simp only [stepCore]
    have b1 := mw_memOp P hc Ok L hn h (.ins key ver 1 .normal true .default .fresh) one
    generalize memOp P hc s (.ins key ver 1 .normal true .default .fresh) = p at b1
    obtain ⟨s1, out⟩ := p
    simp only at b1 ⊢
    split
    · rename_i r _
      exact mw_memOp P hc Ok L hn (mw_ite P hc Ok b1 _ r) (.drop r.id) one
    · exact b1
  | rm key =>
    simp only [stepCore]
    have b1 := mw_memOp P hc Ok L hn h (.remove key) one
    generalize memOp P hc s (.remove key) = p at b1
    obtain ⟨s1, out⟩ := p
    simp only at b1 ⊢
    apply mw_congr P hc Ok _ (delete_mem hc _ key)
    split
    · rename_i r _
      exact mw_memOp P hc Ok L hn b1 (.drop r.id) one
    · exact b1
  | clear =>
    simp only [stepCore]
    have b1 := mw_memOp P hc Ok L hn h .clear one
    generalize memOp P hc s .clear = p at b1
    obtain ⟨s1, out⟩ := p
    simp only at b1 ⊢
    apply mw_congr P hc Ok b1
    show (flush hc _).mem = s1.mem
    rw [flush_mem]
  | get key =>
    simp only [stepCore]
    have b1 := mw_memOp P hc Ok L hn h (.get key) one
    generalize memOp P hc s (.get key) = p at b1
    obtain ⟨s1, out⟩ := p
    simp only at b1 ⊢
    split
    · rename_i r _
      exact mw_memOp P hc Ok L hn b1 (.drop r.id) one
    · have b2 := mw_load P hc Ok L hn b1 key
      generalize loadAndPopulate P hc s1 key = p2 at b2
      obtain ⟨s2, o⟩ := p2
      cases o with
      | none => exact b2
      | some vs => obtain ⟨v, src⟩ := vs; exact b2
  | fetch key ov =>
    simp only [stepCore]
    have b1 := mw_memOp P hc Ok L hn h (.get key) one
    generalize memOp P hc s (.get key) = p at b1
    obtain ⟨s1, out⟩ := p
    simp only at b1 ⊢
    split
    · rename_i r _
      exact mw_memOp P hc Ok L hn b1 (.drop r.id) one
    · have b2 := mw_load P hc Ok L hn b1 key
      generalize loadAndPopulate P hc s1 key = p2 at b2
      obtain ⟨s2, o⟩ := p2
      cases o with
      | some vs => obtain ⟨v, src⟩ := vs; exact b2
      | none =>
        simp only at b2 ⊢
        have b3 := mw_memOp P hc Ok L hn b2 (.ins key ov 1 .normal false .default .fresh) one
        generalize memOp P hc s2 (.ins key ov 1 .normal false .default .fresh) = p3 at b3
        obtain ⟨s3, out3⟩ := p3
        simp only at b3 ⊢
        split
        · rename_i r _
          exact mw_memOp P hc Ok L hn (mw_ite P hc Ok b3 _ r) (.drop r.id) one
        · exact b3
  | evict => simp only [stepCore]; exact mw_memOp P hc Ok L hn h .evictAll one
  | contains key => simp only [stepCore]; exact h
  | wait => simp only [stepCore]; exact h
  | lose h' =>
    simp only [stepCore]
    split
    · exact h
    · exact mw_congr P hc Ok h rfl
  | reopen =>
    simp only [stepCore]
    refine ⟨new_inv L hc.mcfg _, ?_⟩
    intro r hr
    have : r ∈ (Cache.new P hc.mcfg ((s.mem.shards.map (·.cap)).sum)).findable := hr
    unfold Cache.findable Cache.new at this
    simp only [List.mem_flatMap, List.mem_map, List.mem_range] at this
    obtain ⟨sh, ⟨i, _, hsh⟩, hrs⟩ := this
    rw [← hsh] at hrs
    simp [Shard.new] at hrs
  | hold => simp only [stepCore]; exact mw_congr P hc Ok h rfl
  | unhold => simp only [stepCore]; exact mw_congr P hc Ok h rfl
  | gate => simp only [stepCore]; exact mw_congr P hc Ok h rfl
  | releaseAll => simp only [stepCore]; exact mw_congr P hc Ok h rfl
  | releaseBatch =>
    simp only [stepCore]
    apply mw_congr P hc Ok h
    show (applyBatch hc s s.inflight).mem = s.mem
    unfold applyBatch; rfl

include L hn in
theorem mw_step {s : HState σ} (h : MW P hc Ok s) (op : HOp) : MW P hc Ok (step P hc s op).1 := by
  unfold step
  exact mw_congr P hc Ok (mw_stepCore P hc Ok L hn h op) (flush_mem hc _)

variable (he : hc.woi = false) (ht : hc.tombLog = true) (hf : hc.foc = true) (D : Drains P Ok) (k : Nat)

include L hn he ht hf D in
theorem woe_reads_from_rw : ∀ (ops : List HOp) (tr : Option Nat) (s : HState σ),
    EBR P hc Ok k tr s → WPos s.mem → (∀ op ∈ ops, okOpR k op) → readsOk P hc k tr s ops := by
  intro ops
  induction ops with
  | nil => intro _ _ _ _ _; trivial
  | cons op ops ih =>
    intro tr s h hwp hok
    have hmw : MW P hc Ok s := ⟨h.1.1.cinv, hwp⟩
    have hmw' := mw_step P hc Ok L hn hmw op
    have hstep : EBR P hc Ok k (truthStep k tr op (step P hc s op).2) (step P hc s op).1 ∧
        readOk k tr op (step P hc s op).2 := by
      rcases hok op List.mem_cons_self with hop | hre
      · obtain ⟨h1, h2⟩ := woe_step P hc Ok L hn he k h.1 op hop
        exact ⟨⟨h1, (rb_step P hc _ h.2 ht h.1.2.2.1 op (okOp_quiet hop)).1⟩, h2⟩
      · have hre := isReopen_eq hre
        subst hre
        obtain ⟨w1, w2, w3⟩ := woe_reopen P hc Ok L hn he ht hf k h (flush_lookup_none L D h.1.1.cinv hwp k)
        have b := rb_step P hc (hc.mcfg.H k) h.2 ht h.1.2.2.1 .reopen trivial
        unfold step at b ⊢
        simp only [truthStep, readOk, and_true]
        obtain ⟨f1, f2, f3, f4⟩ := einv_flush P hc Ok k w1 w2
        exact ⟨⟨f1, f2, f3, f4, by rw [flush_mem]; exact w3⟩, b.1⟩
    exact ⟨hstep.2, ih _ _ hstep.1 hmw'.2 (fun o ho => hok o (List.mem_cons_of_mem _ ho))⟩

include L hn he ht hf D in
/-- **C01 / C15 (write-on-eviction, flush-on-close, tombstone log on; eviction policies that `Drain`)**: reads
observe the latest write across any number of graceful restarts — no further assumption. -/
theorem woe_reads_truth_reopen (memcap : Nat) (ops : List HOp) (hok : ∀ op ∈ ops, okOpR k op) :
    readsOk P hc k none (init P hc memcap) ops := by
  apply woe_reads_from_rw P hc Ok L hn he ht hf D k ops none _ ⟨eb_init P hc Ok L k memcap, rb_init P hc _ memcap⟩ _ hok
  intro r hr
  have : r ∈ (Cache.new P hc.mcfg memcap).findable := hr
  unfold Cache.findable Cache.new at this
  simp only [List.mem_flatMap, List.mem_map, List.mem_range] at this
  obtain ⟨sh, ⟨i, _, hsh⟩, hrs⟩ := this
  rw [← hsh] at hrs
  simp [Shard.new] at hrs

end
end Foyer.Hyb

/-! ### Non-vacuity: FIFO memory, write-on-eviction, flush-on-close, restarts -/
namespace Foyer.Hyb.DemoWoeReopen
open Foyer Foyer.Hyb

def hcfg : HCfg := { woi := false, foc := true, tombLog := true, mcfg := { nshards := 1, H := fun k => k % 2 } }

def ops : List HOp :=
  [.ins 0 1 .default false, .reopen, .get 0, .ins 0 2 .default false, .reopen, .get 0, .rm 0, .reopen, .get 0,
   .ins 0 3 .default false, .ins 0 4 .default true, .reopen, .get 0, .fetch 0 5, .reopen, .get 0]

def rets : HState Fifo → List HOp → List HRet
  | _, [] => []
  | s, op :: ops => (step fifoPolicy hcfg s op).2 :: rets (step fifoPolicy hcfg s op).1 ops

example : readsOk fifoPolicy hcfg 0 none (init fifoPolicy hcfg 4) ops :=
  woe_reads_truth_reopen fifoPolicy hcfg _ fifo_lawful (by decide) rfl rfl rfl fifo_drains 0 4 ops (by decide)

end Foyer.Hyb.DemoWoeReopen
