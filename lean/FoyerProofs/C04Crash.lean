import FoyerProofs.Lemmas.DiskSide
/-
  C04, model level — **recovery from any prefix of the device log and of the tombstone log**.

  The hybrid model's device log (`disk`) and tombstone log (`tombs`) are append-only lists in write order; a
  crash leaves a prefix of each (`disk.take i`, `tombs.take j`, for *any* `i`, `j` — a superset of the crash
  points the implementation can produce).  The theorems below hold for arbitrary lists, hence for every such
  pair of prefixes:

  * `crash_recovers_written`   what recovery serves for a hash after the crash was written to the device
                               before the crash, under that hash (never an invented entry);
  * `crash_acked_or_newer`     an entry that was on the device before the crash (its write was acknowledged)
                               is recovered, or something *newer* of its hash is: a newer entry, or a logged
                               tombstone at least as new — never an older copy;
  * `crash_delete_survives`    a logged tombstone newer than every copy of its hash on the device keeps the
                               hash absent;
  * `recovery_complete` (DiskSide)  the newest copy, if no tombstone is as new, is what recovery serves.
-/
namespace Foyer.Hyb
open Foyer

/-- **Acknowledged or newer, for any device content.** -/
theorem recovery_monotone (disk : List DiskEnt) (tombs : List (Nat × Nat)) (h : Nat) (e : DiskEnt) (he : e ∈ disk)
    (heh : e.hash = h) :
    (∃ e', indexAddr (recover disk tombs) h = some e' ∧ e.seq ≤ e'.seq) ∨ (∃ q, (h, q) ∈ tombs ∧ e.seq ≤ q) := by
  have hnd : KeysNodup (insAll [] (disk.map toAddr ++ tombs.map toTomb)) := insAll_nodup _ _ List.nodup_nil
  have hin : (h, Idx.addr e) ∈ disk.map toAddr ++ tombs.map toTomb := by
    apply List.mem_append.mpr; left
    simp only [List.mem_map, toAddr, Prod.mk.injEq, Idx.addr.injEq]
    exact ⟨e, he, heh, rfl⟩
  have hpres := insAll_present (disk.map toAddr ++ tombs.map toTomb) [] h (Or.inl ⟨_, hin⟩)
  cases hg : assocGet (insAll [] (disk.map toAddr ++ tombs.map toTomb)) h with
  | none => rw [hg] at hpres; cases hpres
  | some i =>
    obtain ⟨hsrc, hmx, _⟩ := insAll_max _ _ _ _ hg
    have hge : e.seq ≤ i.seq := hmx (.addr e) hin
    cases i with
    | addr e' =>
      left
      refine ⟨e', ?_, hge⟩
      unfold indexAddr
      rw [recover_eq, assocGet_filter _ _ _ hnd, hg]
      simp
    | tomb q =>
      right
      refine ⟨q, ?_, hge⟩
      rcases hsrc with h1 | h1
      · rcases List.mem_append.mp h1 with h2 | h2
        · simp only [List.mem_map, toAddr, Prod.mk.injEq] at h2
          obtain ⟨d, _, _, hdi⟩ := h2
          cases hdi
        · simp only [List.mem_map, toTomb, Prod.mk.injEq, Idx.tomb.injEq] at h2
          obtain ⟨t, ht, hth, htq⟩ := h2
          have : t = (h, q) := by cases t; simp_all
          rw [← this]; exact ht
      · simp [assocGet] at h1

/-- what is served after a crash was written before the crash -/
theorem crash_recovers_written (disk : List DiskEnt) (tombs : List (Nat × Nat)) (i j h : Nat) (e : DiskEnt)
    (hr : indexAddr (recover (disk.take i) (tombs.take j)) h = some e) : e ∈ disk ∧ e.hash = h := by
  obtain ⟨a1, a2, _, _⟩ := recovery_picks_latest _ _ h e hr
  exact ⟨List.mem_of_mem_take a1, a2⟩

/-- **A write acknowledged before the crash is never replaced by an older one.** -/
theorem crash_acked_or_newer (disk : List DiskEnt) (tombs : List (Nat × Nat)) (i j h : Nat) (e : DiskEnt)
    (he : e ∈ disk.take i) (heh : e.hash = h) :
    (∃ e', indexAddr (recover (disk.take i) (tombs.take j)) h = some e' ∧ e' ∈ disk ∧ e.seq ≤ e'.seq) ∨
    (∃ q, (h, q) ∈ tombs ∧ e.seq ≤ q) := by
  rcases recovery_monotone (disk.take i) (tombs.take j) h e he heh with ⟨e', h1, h2⟩ | ⟨q, h1, h2⟩
  · left; exact ⟨e', h1, (crash_recovers_written disk tombs i j h e' h1).1, h2⟩
  · right; exact ⟨q, List.mem_of_mem_take h1, h2⟩

/-- **A delete logged before the crash survives it**, as long as no newer copy of the hash reached the device. -/
theorem crash_delete_survives (disk : List DiskEnt) (tombs : List (Nat × Nat)) (i j h q : Nat)
    (hq : (h, q) ∈ tombs.take j) (hold : ∀ e ∈ disk.take i, e.hash = h → e.seq < q) :
    indexAddr (recover (disk.take i) (tombs.take j)) h = none :=
  recovery_honours_tombstones _ _ h q hq hold

/-! non-vacuity: a device log with an overwrite and a delete; crash before / after the second write -/
example : indexAddr (recover (([{ key := 1, hash := 1, ver := 10, seq := 1 }, { key := 1, hash := 1, ver := 11, seq := 2 }] : List DiskEnt).take 1)
    (([] : List (Nat × Nat)).take 0)) 1 = some { key := 1, hash := 1, ver := 10, seq := 1 } := by decide
example : indexAddr (recover (([{ key := 1, hash := 1, ver := 10, seq := 1 }, { key := 1, hash := 1, ver := 11, seq := 2 }] : List DiskEnt).take 2)
    (([(1, 3)] : List (Nat × Nat)).take 0)) 1 = some { key := 1, hash := 1, ver := 11, seq := 2 } := by decide
example : indexAddr (recover (([{ key := 1, hash := 1, ver := 10, seq := 1 }, { key := 1, hash := 1, ver := 11, seq := 2 }] : List DiskEnt).take 2)
    (([(1, 3)] : List (Nat × Nat)).take 1)) 1 = none := by decide

end Foyer.Hyb
