import FoyerModel.Codec
/-
  C08 — Every storable key/value round-trips through the disk format bit-exactly.

  Round-trip laws for the `Code` impls of the built-in types, the entry header, a whole entry
  (compression = none unconditionally; zstd / lz4 under the named hypothesis
  `decompress ∘ compress = id`), and the all-or-nothing bookkeeping of `Buffer::push`.
-/
namespace Foyer.Codec

theorem encLE_length (w n : Nat) : (encLE w n).length = w := by
  induction w generalizing n with
  | zero => rfl
  | succ w ih => simp [encLE, ih]

theorem encLE_wf (w n : Nat) : wfBytes (encLE w n) := by
  induction w generalizing n with
  | zero => intro b hb; cases hb
  | succ w ih =>
    intro b hb
    simp only [encLE, List.mem_cons] at hb
    rcases hb with rfl | hb
    · exact Nat.mod_lt _ (by decide)
    · exact ih _ b hb

/-- **decode_encode (unsigned, little-endian)**: `u8 … u128`, `usize`, and `f32` / `f64` as their bit
patterns. -/
theorem decLE_encLE (w n : Nat) (rest : Bytes) (h : n < 256 ^ w) :
    decLE w (encLE w n ++ rest) = some (n, rest) := by
  induction w generalizing n with
  | zero =>
    have : n = 0 := by simpa using h
    subst this; simp [decLE, encLE]
  | succ w ih =>
    have h1 : n / 256 < 256 ^ w := by
      rw [Nat.pow_succ] at h
      exact Nat.div_lt_of_lt_mul (by rw [Nat.mul_comm]; exact h)
    simp only [encLE, List.cons_append, decLE, ih _ h1]
    have := Nat.mod_add_div n 256
    simp only [Option.some.injEq, Prod.mk.injEq, and_true]
    omega

theorem decLE_short (w : Nat) (bs : Bytes) (h : bs.length < w) : decLE w bs = none := by
  induction w generalizing bs with
  | zero => omega
  | succ w ih =>
    cases bs with
    | nil => rfl
    | cons b bs =>
      simp only [decLE]
      rw [ih bs (by simpa using h)]

theorem encBE_length (w n : Nat) : (encBE w n).length = w := by
  induction w generalizing n with
  | zero => rfl
  | succ w ih => simp [encBE, ih]

theorem decBEAux_encBE (w n acc : Nat) (rest : Bytes) (h : n < 256 ^ w) :
    decBEAux w acc (encBE w n ++ rest) = some (acc * 256 ^ w + n, rest) := by
  induction w generalizing n acc with
  | zero =>
    have : n = 0 := by simpa using h
    simp [decBEAux, encBE, this]
  | succ w ih =>
    have hp : 0 < 256 ^ w := Nat.pow_pos (by decide)
    have hb : n / 256 ^ w < 256 := by
      rw [Nat.pow_succ] at h
      exact Nat.div_lt_of_lt_mul h
    have hm : n % 256 ^ w < 256 ^ w := Nat.mod_lt _ hp
    simp only [encBE, List.cons_append, decBEAux, Nat.mod_eq_of_lt hb, ih _ _ hm]
    have hd := Nat.div_add_mod n (256 ^ w)
    simp only [Option.some.injEq, Prod.mk.injEq, and_true]
    rw [Nat.pow_succ, Nat.add_mul, Nat.mul_assoc, Nat.mul_comm 256 (256 ^ w)]
    have : n / 256 ^ w * 256 ^ w = 256 ^ w * (n / 256 ^ w) := Nat.mul_comm _ _
    omega

/-- **decode_encode (big-endian fields of header / blob index / tombstone)**. -/
theorem decBE_encBE (w n : Nat) (rest : Bytes) (h : n < 256 ^ w) :
    decBE w (encBE w n ++ rest) = some (n, rest) := by
  unfold decBE
  rw [decBEAux_encBE w n 0 rest h]
  simp

theorem int_tc (p : Nat) (i : Int) (hp : 0 < p) (hlo : -(p : Int) ≤ 2 * i) (hhi : 2 * i < (p : Int)) :
    (i % (p : Int)).toNat < p ∧
    (if 2 * (i % (p : Int)).toNat < p then ((i % (p : Int)).toNat : Int) else ((i % (p : Int)).toNat : Int) - p) = i := by
  have hp' : (0 : Int) < (p : Int) := by exact_mod_cast hp
  have hm0 : 0 ≤ i % (p : Int) := Int.emod_nonneg _ (Int.ne_of_gt hp')
  have hcast : ((i % (p : Int)).toNat : Int) = i % (p : Int) := Int.toNat_of_nonneg hm0
  by_cases hneg : i < 0
  · have hem : i % (p : Int) = i + p := by
      rw [← Int.add_emod_right]
      exact Int.emod_eq_of_lt (by omega) (by omega)
    generalize (i % (p : Int)).toNat = n at hcast ⊢
    rw [hem] at hcast
    refine ⟨by omega, ?_⟩
    have : ¬ 2 * n < p := by omega
    simp only [this, if_false]
    omega
  · have hem : i % (p : Int) = i := Int.emod_eq_of_lt (by omega) (by omega)
    generalize (i % (p : Int)).toNat = n at hcast ⊢
    rw [hem] at hcast
    refine ⟨by omega, ?_⟩
    have : 2 * n < p := by omega
    simp only [this, if_true]
    omega

/-- **decode_encode (signed, two's complement)**: `i8 … i128`, `isize`. -/
theorem decInt_encInt (w : Nat) (i : Int) (rest : Bytes)
    (hlo : -((256 ^ w : Nat) : Int) ≤ 2 * i) (hhi : 2 * i < ((256 ^ w : Nat) : Int)) :
    decInt w (encInt w i ++ rest) = some (i, rest) := by
  obtain ⟨h1, h2⟩ := int_tc (256 ^ w) i (Nat.pow_pos (by decide)) hlo hhi
  unfold decInt encInt
  rw [decLE_encLE _ _ _ h1]
  simp only [Option.some.injEq, Prod.mk.injEq, and_true]
  exact h2

/-- **bool**: round trip, and every byte other than 0 / 1 is rejected. -/
theorem decBool_encBool (b : Bool) (rest : Bytes) : decBool (encBool b ++ rest) = .ok (b, rest) := by
  cases b <;> rfl

theorem bool_decode_rejects (x : Nat) (rest : Bytes) (h : 2 ≤ x) : decBool (x :: rest) = .error .parse := by
  match x, h with
  | x + 2, _ => rfl

/-- **Vec<u8> / Bytes** (and `String` below): length-prefixed, any content, any length `< 2^64`. -/
theorem decVec_encVec (bs rest : Bytes) (h : bs.length < 2 ^ 64) : decVec (encVec bs ++ rest) = .ok (bs, rest) := by
  unfold decVec encVec
  rw [List.append_assoc, decLE_encLE 8 bs.length _ (by simpa using h)]
  simp

theorem decString_encVec (valid : Bytes → Bool) (bs rest : Bytes) (h : bs.length < 2 ^ 64) (hv : valid bs = true) :
    decString valid (encVec bs ++ rest) = .ok (bs, rest) := by
  unfold decString
  rw [decVec_encVec bs rest h]
  simp [hv]

theorem decString_rejects_invalid (valid : Bytes → Bool) (bs rest : Bytes) (h : bs.length < 2 ^ 64) (hv : valid bs = false) :
    decString valid (encVec bs ++ rest) = .error .parse := by
  unfold decString
  rw [decVec_encVec bs rest h]
  simp [hv]

/-- A truncated length-prefixed value is an error, never a shorter value. -/
theorem decVec_truncated (bs : Bytes) (n : Nat) (h : bs.length < 2 ^ 64) (hn : n < bs.length) :
    decVec (encLE 8 bs.length ++ bs.take n) = .error .eof := by
  unfold decVec
  rw [decLE_encLE 8 bs.length _ (by simpa using h)]
  simp only [List.length_take]
  have : min n bs.length < bs.length := by omega
  simp [this]

/-! ### header -/

theorem encHeader_length (h : Header) : (encHeader h).length = HEADER_LEN := by
  simp [encHeader, encBE_length, HEADER_LEN]

/-- **header_roundtrip** -/
theorem decHeader_encHeader (h : Header) (hw : h.wf) (rest : Bytes) :
    decHeader (encHeader h ++ rest) = .ok (h, rest) := by
  obtain ⟨h1, h2, h3, h4, h5, h6⟩ := hw
  unfold decHeader encHeader
  simp only [List.append_assoc]
  rw [decBE_encBE 4 h.keyLen _ (by simpa using h1)]
  simp only []
  rw [decBE_encBE 4 h.valueLen _ (by simpa using h2)]
  simp only []
  rw [decBE_encBE 8 h.hash _ (by simpa using h3)]
  simp only []
  rw [decBE_encBE 8 h.seq _ (by simpa using h4)]
  simp only []
  rw [decBE_encBE 8 h.checksum _ (by simpa using h5)]
  simp only []
  rw [decBE_encBE 4 (ENTRY_MAGIC + h.compression) _ (by simp [ENTRY_MAGIC]; omega)]
  simp only []
  have e1 : (ENTRY_MAGIC + h.compression) / 256 * 256 = ENTRY_MAGIC := by simp [ENTRY_MAGIC]; omega
  have e2 : (ENTRY_MAGIC + h.compression) % 256 = h.compression := by simp [ENTRY_MAGIC]; omega
  simp [e1, e2]
  omega

/-- **header_rejects_bad_magic / bad_compression**: a 36-byte string whose last word is not
`magic | {0,1,2}` is never accepted as a header. -/
theorem decHeader_rejects (a b c d e : Nat) (v : Nat) (rest : Bytes)
    (ha : a < 2 ^ 32) (hb : b < 2 ^ 32) (hc : c < 2 ^ 64) (hd : d < 2 ^ 64) (he : e < 2 ^ 64) (hv : v < 2 ^ 32)
    (hbad : v / 256 * 256 ≠ ENTRY_MAGIC ∨ v % 256 > 2) :
    ∃ err, decHeader (encBE 4 a ++ encBE 4 b ++ encBE 8 c ++ encBE 8 d ++ encBE 8 e ++ encBE 4 v ++ rest) = .error err := by
  unfold decHeader
  simp only [List.append_assoc]
  rw [decBE_encBE 4 a _ (by simpa using ha)]
  simp only []
  rw [decBE_encBE 4 b _ (by simpa using hb)]
  simp only []
  rw [decBE_encBE 8 c _ (by simpa using hc)]
  simp only []
  rw [decBE_encBE 8 d _ (by simpa using hd)]
  simp only []
  rw [decBE_encBE 8 e _ (by simpa using he)]
  simp only []
  rw [decBE_encBE 4 v _ (by simpa using hv)]
  simp only []
  by_cases hm : v / 256 * 256 = ENTRY_MAGIC
  · rcases hbad with h | h
    · exact absurd hm h
    · simp [hm, h]
  · simp [hm]

/-! ### whole entries -/

/-- **entry_roundtrip**: an entry serialized with compression `none` is read back as exactly the
same key and value bytes, the recorded lengths being the bytes written — whatever follows it in
the page (padding / the next entry) and for any checksum function. -/
theorem decEntry_encEntry (cs : Bytes → Nat) (hash seq : Nat) (k v pad : Bytes)
    (hk : k.length < 2 ^ 32) (hv : v.length < 2 ^ 32) (hh : hash < 2 ^ 64) (hs : seq < 2 ^ 64)
    (hcs : cs (v ++ k) < 2 ^ 64) :
    decEntry cs (encEntry cs hash seq k v ++ pad) =
      .ok ({ keyLen := k.length, valueLen := v.length, hash, seq, checksum := cs (v ++ k), compression := 0 }, v, k) := by
  unfold decEntry encEntry
  simp only [List.append_assoc]
  rw [decHeader_encHeader _ ⟨hk, hv, hh, hs, hcs, Nat.zero_le 2⟩]
  simp only []
  have h1 : ¬ ((v ++ (k ++ pad)).length < v.length + k.length) := by
    simp only [List.length_append]; omega
  have h2 : (v ++ (k ++ pad)).take (v.length + k.length) = v ++ k := by
    rw [← List.append_assoc]
    have : v.length + k.length = (v ++ k).length := by simp
    rw [this, List.take_left']
    rfl
  have h3 : (v ++ (k ++ pad)).take v.length = v := by
    rw [List.take_left']; rfl
  have h4 : ((v ++ (k ++ pad)).drop v.length).take k.length = k := by
    rw [List.drop_left', List.take_left'] <;> rfl
  simp only [h1, if_false, h2, ne_eq, not_true_eq_false, h3, h4]

/-- A flipped payload is never accepted if the checksum function tells the two payloads apart
(the idealisation of XxHash64 used by C03: `NoForgery`). -/
theorem decEntry_detects (cs : Bytes → Nat) (h : Header) (hw : h.wf) (payload pad : Bytes)
    (hlen : payload.length = h.valueLen + h.keyLen) (hcs : cs payload ≠ h.checksum) :
    decEntry cs (encHeader h ++ payload ++ pad) = .error .checksum := by
  unfold decEntry
  rw [List.append_assoc, decHeader_encHeader _ hw]
  simp only []
  have h1 : ¬ ((payload ++ pad).length < h.valueLen + h.keyLen) := by
    simp only [List.length_append]; omega
  have h2 : (payload ++ pad).take (h.valueLen + h.keyLen) = payload := by
    rw [← hlen, List.take_left']; rfl
  simp only [h1, if_false, h2, ne_eq, hcs, not_false_eq_true, if_true]

/-- zstd / lz4: the round trip of the *compressed* value holds under the one hypothesis that the
codec is lossless (assumed of the `zstd` / `lz4` crates, exercised by the correspondence). -/
theorem compressed_value_roundtrip (compress decompress : Bytes → Bytes) (hloss : ∀ b, decompress (compress b) = b)
    (cs : Bytes → Nat) (hash seq : Nat) (k v pad : Bytes)
    (hk : k.length < 2 ^ 32) (hv : (compress v).length < 2 ^ 32) (hh : hash < 2 ^ 64) (hs : seq < 2 ^ 64)
    (hcs : cs (compress v ++ k) < 2 ^ 64) :
    ∃ h, decEntry cs (encEntry cs hash seq k (compress v) ++ pad) = .ok (h, compress v, k) ∧
      decompress (compress v) = v ∧ h.valueLen = (compress v).length ∧ h.keyLen = k.length :=
  ⟨_, decEntry_encEntry cs hash seq k (compress v) pad hk hv hh hs hcs, hloss v, rfl, rfl⟩

/-! ### `Buffer::push` -/

theorem alignUp_ge (n : Nat) : n ≤ alignUp PAGE n := by
  unfold alignUp PAGE
  have := Nat.div_add_mod (n + 4096 - 1) 4096
  have := Nat.mod_lt (n + 4096 - 1) (by decide : 0 < 4096)
  omega

theorem alignUp_dvd (n : Nat) : PAGE ∣ alignUp PAGE n := ⟨(n + PAGE - 1) / PAGE, Nat.mul_comm _ _⟩

theorem alignUp_le_of_dvd (n m : Nat) (hm : PAGE ∣ m) (h : n ≤ m) : alignUp PAGE n ≤ m := by
  obtain ⟨q, rfl⟩ := hm
  unfold alignUp PAGE at *
  have : (n + 4096 - 1) / 4096 ≤ q := by
    have : (n + 4096 - 1) / 4096 < q + 1 := (Nat.div_lt_iff_lt_mul (by decide)).mpr (by omega)
    omega
  calc (n + 4096 - 1) / 4096 * 4096 ≤ q * 4096 := Nat.mul_le_mul_right _ this
    _ = 4096 * q := Nat.mul_comm _ _

/-- **push_all_or_nothing**: a push either records the whole entry (`len = 36 + key_len + value_len`,
at the old `written`, advancing by the aligned length) or changes nothing. -/
theorem push_all_or_nothing (b : Buf) (hash seq klen vlen : Nat) :
    ((b.push hash seq klen vlen).2 = false ∧ (b.push hash seq klen vlen).1 = b) ∨
    ((b.push hash seq klen vlen).2 = true ∧
      (b.push hash seq klen vlen).1.infos = b.infos ++ [(hash, seq, b.written, HEADER_LEN + klen + vlen)] ∧
      (b.push hash seq klen vlen).1.written = b.written + alignUp PAGE (HEADER_LEN + klen + vlen) ∧
      alignUp PAGE (HEADER_LEN + klen + vlen) ≤ b.maxEntry) := by
  unfold Buf.push
  simp only []
  split
  · left; exact ⟨rfl, rfl⟩
  · split
    · left; exact ⟨rfl, rfl⟩
    · split
      · left; exact ⟨rfl, rfl⟩
      · right
        rename_i h
        exact ⟨rfl, rfl, rfl, Nat.le_of_not_lt h⟩

/-- Accepted entries never run past the io buffer and keep everything page-aligned. -/
theorem push_within (b : Buf) (hash seq klen vlen : Nat) (hc : PAGE ∣ b.cap) (hw : PAGE ∣ b.written)
    (hle : b.written ≤ b.cap) :
    PAGE ∣ (b.push hash seq klen vlen).1.written ∧ (b.push hash seq klen vlen).1.written ≤ b.cap := by
  rcases push_all_or_nothing b hash seq klen vlen with ⟨_, h⟩ | ⟨hok, _, h, _⟩
  · rw [h]; exact ⟨hw, hle⟩
  · rw [h]
    refine ⟨Nat.dvd_add hw (alignUp_dvd _), ?_⟩
    -- the entry fitted the remaining room, which is a whole number of pages
    have hroom : HEADER_LEN + klen + vlen ≤ b.cap - b.written := by
      unfold Buf.push at hok
      simp only [] at hok
      split at hok
      · cases hok
      · split at hok
        · cases hok
        · rename_i h1 h2
          omega
    have hd : PAGE ∣ b.cap - b.written := Nat.dvd_sub hc hw
    have := alignUp_le_of_dvd _ _ hd hroom
    omega

/-! ### Non-vacuity / concrete instances (tests, labelled as tests) -/
example : encLE 8 0x0102030405060708 = [8, 7, 6, 5, 4, 3, 2, 1] := by decide
example : encBE 4 0x97032701 = [0x97, 0x03, 0x27, 0x01] := by decide
example : encInt 2 (-2) = [254, 255] := by decide
example : decInt 2 [254, 255, 9] = some (-2, [9]) := by decide
example : (decHeader (encHeader ⟨8, 100, 7, 3, 99, 1⟩ ++ [1, 2])) = .ok (⟨8, 100, 7, 3, 99, 1⟩, [1, 2]) := by rfl
example : (({ cap := 8192, written := 0, maxEntry := 4096, infos := [] } : Buf).push 1 1 8 5000).2 = false := by decide
example : (({ cap := 8192, written := 0, maxEntry := 8192, infos := [] } : Buf).push 1 1 8 5000).1.written = 8192 := by decide

end Foyer.Codec
