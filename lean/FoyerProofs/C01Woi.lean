import FoyerProofs.C01Refine
/-
  C01, part 2 — **the hybrid cache under write-on-insertion refines a per-key register**.

  `truthStep` is the specification: the value of key `k` is what the most recent completed write of `k`
  (insert, storage-writer insert, or the origin value a `get_or_fetch` had to fetch) stored, and nothing
  after a remove or a clear.  `readOk` is what a lookup may answer: a miss, or that value.

  `woi_reads_truth`: for an arbitrary `Lawful` memory policy, an arbitrary hasher (collisions allowed),
  every capacity, and every history of insert (any size including oversize, any placement advice except
  in-memory-only advice on the observed key), storage-writer insert, remove, clear, get, get_or_fetch,
  evict-all, contains, wait and disk-capacity evictions (`lose`) — every lookup of `k` in the history
  satisfies `readOk` against the register.  No bound on the length of the history.

  Not covered by this theorem (covered by the correspondence and the trace monitors only): histories in
  which the flusher is held or device writes are gated (API calls overlapping a flush), close/reopen,
  and the write-on-eviction policy.
-/
namespace Foyer.Hyb
open Foyer

/-- the register of key `k` -/
def truthStep (k : Nat) (tr : Option Nat) (op : HOp) (ret : HRet) : Option Nat :=
  match op with
  | .ins key ver _ _ => if key = k then some ver else tr
  | .wins key ver _ => if key = k then some ver else tr
  | .rm key => if key = k then none else tr
  | .clear => none
  | .fetch key _ => if key = k then (match ret with | .val _ v _ => some v | _ => tr) else tr
  | _ => tr

/-- the histories the theorem quantifies over -/
def okOp (k : Nat) : HOp → Prop
  | .ins key _ loc _ => key = k → loc ≠ .inMem
  | .hold => False
  | .unhold => False
  | .gate => False
  | .releaseAll => False
  | .releaseBatch => False
  | .reopen => False
  | _ => True

instance (k : Nat) : DecidablePred (okOp k) := fun op => by
  cases op <;> simp only [okOp] <;> infer_instance

/-- what a lookup of `k` may answer when the register holds `tr` -/
def readOk (k : Nat) (tr : Option Nat) (op : HOp) (ret : HRet) : Prop :=
  match op with
  | .get key => key = k → ∀ key' v src, ret = .val key' v src → key' = k ∧ tr = some v
  | .fetch key ov => key = k →
      (∃ v src, ret = .val k v src) ∧ ∀ key' v src, ret = .val key' v src → key' = k ∧ (tr = some v ∨ v = ov)
  | _ => True

section
variable {σ : Type} (P : Policy σ) (hc : HCfg) (Ok : σ → Prop) (L : Lawful P Ok) (hn : 0 < hc.mcfg.nshards)
  (hw : hc.woi = true) (k : Nat)

/-- the invariant at an API-call boundary: the flusher is idle -/
def WB (tr : Option Nat) (s : HState σ) : Prop := WInv P hc Ok k tr s ∧ s.queue = [] ∧ s.keeper = []

include L hn hw in
theorem memOp_ins_handle {tr : Option Nat} {s : HState σ} (h : WInv P hc Ok k tr s) (key ver w : Nat) (hint : Hint)
    (ph : Bool) (loc : Loc) (age : Age) : ∃ r, (memOp P hc s (.ins key ver w hint ph loc age)).2.ret = .handle r := by
  rw [memOp_out]
  exact ins_ret_handle P hc Ok L hn h.cinv key ver w hint ph loc age

include L hn hw in
/-- insert, submit (if `c`), drop the handle -/
theorem winv_insert_seq {tr : Option Nat} {s : HState σ} (h : WInv P hc Ok k tr s) (key ver w : Nat) (hint : Hint)
    (ph : Bool) (loc : Loc) (c : Bool) (hck : key = k → c = true) (r : Rec)
    (hr : (memOp P hc s (.ins key ver w hint ph loc .fresh)).2.ret = .handle r) :
    WInv P hc Ok k (if key = k then some ver else tr)
      (memOp P hc (if c = true then submit (memOp P hc s (.ins key ver w hint ph loc .fresh)).1 r
                   else (memOp P hc s (.ins key ver w hint ph loc .fresh)).1) (.drop r.id)).1 := by
  by_cases hkk : key = k
  · subst hkk
    rw [if_pos rfl, if_pos (hck rfl)]
    exact winv_memOp_notWrite P hc Ok L hn hw key (winv_write P hc Ok L hn hw key h ver w hint ph loc r hr) (.drop r.id)
      (by simp only [notWrite])
  · rw [if_neg hkk]
    have h1 := winv_memOp_notWrite P hc Ok L hn hw k h (.ins key ver w hint ph loc .fresh) hkk
    have hrk : r.key ≠ k := by
      rw [memOp_out] at hr
      rw [(ins_handle_fields P hc.mcfg s.mem key ver w hint ph loc .fresh r hr).1]; exact hkk
    apply winv_memOp_notWrite P hc Ok L hn hw k _ (.drop r.id) (by simp only [notWrite])
    split
    · exact winv_submit_other P hc Ok k h1 r hrk
    · exact h1

theorem get_handle_lookup (c : Cache σ) (key : Nat) (r : Rec)
    (hr : (Cache.step P hc.mcfg c (.get key)).2.ret = .handle r) : Cache.lookup hc.mcfg c key = some r := by
  rcases (C02.reads_observe_lookup (P := P) hc.mcfg c key).1 with h | h | ⟨r', h1, h2, _⟩
  · rw [h] at hr; cases hr
  · rw [h] at hr; cases hr
  · rw [h1] at hr; cases hr; exact h2

include L hn hw in
/-- **One API call** (before the flusher runs) keeps the invariant, moves the register as `truthStep`
says, and a lookup of `k` answers from the register. -/
theorem woi_stepCore {tr : Option Nat} {s : HState σ} (h : WB P hc Ok k tr s) (op : HOp) (hok : okOp k op) :
    WInv P hc Ok k (truthStep k tr op (stepCore P hc s op).2) (stepCore P hc s op).1 ∧
    readOk k tr op (stepCore P hc s op).2 := by
  obtain ⟨h, hq, hkp⟩ := h
  cases op with
  | ins key ver loc big =>
    simp only [stepCore, readOk, truthStep, and_true]
    generalize hs0 : (if big = true then ({ s with big := ver :: s.big } : HState σ) else s) = s0
    have h0 : WInv P hc Ok k tr s0 := by
      rw [← hs0]; split
      · exact winv_big P hc Ok k h _
      · exact h
    obtain ⟨r, hr⟩ := memOp_ins_handle P hc Ok L hn hw k h0 key ver 1 .normal (decide (loc = .onDisk)) loc .fresh
    have hseq := winv_insert_seq P hc Ok L hn hw k h0 key ver 1 .normal (decide (loc = .onDisk)) loc
      (hc.woi && decide (loc ≠ .inMem)) (by intro hkk; rw [hw]; simp only [Bool.true_and, decide_eq_true_eq]; exact hok hkk) r hr
    generalize hm : memOp P hc s0 (.ins key ver 1 .normal (decide (loc = .onDisk)) loc .fresh) = p at hr hseq
    obtain ⟨s1, out⟩ := p
    simp only at hr hseq ⊢
    rw [hr]
    exact hseq
  | wins key ver force =>
    simp only [stepCore, readOk, truthStep, and_true]
    obtain ⟨r, hr⟩ := memOp_ins_handle P hc Ok L hn hw k h key ver 1 .normal true .default .fresh
    have hseq := winv_insert_seq P hc Ok L hn hw k h key ver 1 .normal true .default hc.woi (fun _ => hw) r hr
    generalize hm : memOp P hc s (.ins key ver 1 .normal true .default .fresh) = p at hr hseq
    obtain ⟨s1, out⟩ := p
    simp only at hr hseq ⊢
    rw [hr]
    exact hseq
  | rm key =>
    simp only [stepCore, readOk, truthStep, and_true]
    by_cases hkk : key = k
    · subst hkk
      obtain ⟨h1, hl1⟩ := winv_memOp_shrink P hc Ok L hn hw key h (.remove key) (by intro _ _; simp only [regStep, if_true])
      generalize hm : memOp P hc s (.remove key) = p at h1 hl1
      obtain ⟨s1, out⟩ := p
      simp only at h1 hl1 ⊢
      have h2 : WInv P hc Ok key tr (match out.ret with | .handle r => (memOp P hc s1 (.drop r.id)).1 | _ => s1) ∧
          Cache.lookup hc.mcfg (match out.ret with | .handle r => (memOp P hc s1 (.drop r.id)).1 | _ => s1).mem key = none := by
        split
        · rename_i r _
          exact ⟨winv_memOp_notWrite P hc Ok L hn hw key h1 (.drop r.id) (by simp only [notWrite]),
                 lookup_none_memOp P hc Ok L hn hw key h1 (.drop r.id) (by simp only [notWrite]) hl1⟩
        · exact ⟨h1, hl1⟩
      have := winv_delete P hc Ok key h2.1 key (fun _ => h2.2)
      rw [if_pos rfl] at this
      exact this
    · have h1 := winv_memOp_notWrite P hc Ok L hn hw k h (.remove key) hkk
      generalize hm : memOp P hc s (.remove key) = p at h1
      obtain ⟨s1, out⟩ := p
      simp only at h1 ⊢
      have h2 : WInv P hc Ok k tr (match out.ret with | .handle r => (memOp P hc s1 (.drop r.id)).1 | _ => s1) := by
        split
        · rename_i r _
          exact winv_memOp_notWrite P hc Ok L hn hw k h1 (.drop r.id) (by simp only [notWrite])
        · exact h1
      have := winv_delete P hc Ok k h2 key (fun e => absurd e hkk)
      exact this
  | clear =>
    simp only [stepCore, readOk, truthStep, and_true]
    obtain ⟨h1, hl1⟩ := winv_memOp_shrink P hc Ok L hn hw k h .clear (by intro _ _; simp only [regStep])
    generalize hm : memOp P hc s .clear = p at h1 hl1
    obtain ⟨s1, out⟩ := p
    simp only at h1 hl1 ⊢
    generalize hs1' : ({ s1 with seq := s1.seq + 1, queue := s1.queue ++ [Sub.tomb 0 s1.seq],
                                 subs := s1.subs ++ [Sub.tomb 0 s1.seq] } : HState σ) = s1'
    have hkq : KQ s1' := by
      rw [← hs1']
      intro p hp
      obtain ⟨e, f, hef, he⟩ := h1.kq p hp
      exact ⟨e, f, List.mem_append_left _ hef, he⟩
    obtain ⟨fq, fi, fkp, fm, _, fh, fg, _, _⟩ := flush_quiet hc s1' (by rw [← hs1']; exact h1.hh) (by rw [← hs1']; exact h1.hg)
      (by rw [← hs1']; exact h1.hi) hkq
    have hmem : (flush hc s1').mem = s1.mem := by rw [fm, ← hs1']
    refine ⟨by rw [hmem]; exact h1.cinv, fh, fg, fi, ?_, ?_, ?_, ?_, ?_⟩
    · intro p hp; rw [fkp] at hp; cases hp
    · rw [fq]
      refine ⟨?_, ?_, ?_⟩
      · intro i hi; cases hi
      · intro e he _; cases he
      · intro p hp _; cases hp
    · intro r hr; rw [hmem, hl1] at hr; cases hr
    · intro r hr; rw [hmem, hl1] at hr; cases hr
    · intro _ e he _
      unfold pview at he
      simp only at he
      rw [fq] at he
      cases he
  | get key =>
    simp only [stepCore, truthStep]
    have h1 := winv_memOp_notWrite P hc Ok L hn hw k h (.get key) (by simp only [notWrite])
    have hqk := memOp_queue_keeper P hc hw s (.get key)
    have hout := memOp_out P hc s (.get key)
    have hl0 : Cache.lookup hc.mcfg s.mem k = none → Cache.lookup hc.mcfg (memOp P hc s (.get key)).1.mem k = none :=
      lookup_none_memOp P hc Ok L hn hw k h (.get key) (by simp only [notWrite])
    generalize hm : memOp P hc s (.get key) = p at h1 hqk hout hl0
    obtain ⟨s1, out⟩ := p
    simp only at h1 hqk hout hl0 ⊢
    split
    · rename_i r hr
      simp only
      refine ⟨winv_memOp_notWrite P hc Ok L hn hw k h1 (.drop r.id) (by simp only [notWrite]), ?_⟩
      simp only [readOk]
      intro hkk key' v src hv
      simp only [HRet.val.injEq] at hv
      subst hkk
      rw [hout] at hr
      have := h.M r (get_handle_lookup P hc s.mem key r hr)
      exact ⟨hv.1.symm, by rw [this, hv.2.1]⟩
    · rename_i hnh
      have hmiss : key = k → Cache.lookup hc.mcfg s1.mem k = none := by
        intro hkk; subst hkk
        exact hl0 (get_not_handle P hc s.mem key (by intro r hr; exact hnh r (by rw [hout]; exact hr)))
      obtain ⟨hl1, _, _, hl4, _⟩ := winv_load P hc Ok L hn hw k h1 (hqk.1.trans hq) (hqk.2.1.trans hkp) key hmiss
      generalize hlp : loadAndPopulate P hc s1 key = p at hl1 hl4
      obtain ⟨s2, o⟩ := p
      cases o with
      | none =>
        simp only
        refine ⟨hl1, ?_⟩
        simp only [readOk]
        intro _ _ _ _ hv; cases hv
      | some vs =>
        obtain ⟨v, src⟩ := vs
        simp only
        refine ⟨hl1, ?_⟩
        simp only [readOk]
        intro hkk key' v' src' hv
        simp only [HRet.val.injEq] at hv
        exact ⟨by rw [← hv.1]; exact hkk, by rw [← hv.2.1]; exact hl4 v src rfl hkk⟩
  | fetch key ov =>
    simp only [stepCore]
    have h1 := winv_memOp_notWrite P hc Ok L hn hw k h (.get key) (by simp only [notWrite])
    have hqk := memOp_queue_keeper P hc hw s (.get key)
    have hout := memOp_out P hc s (.get key)
    have hl0 : Cache.lookup hc.mcfg s.mem k = none → Cache.lookup hc.mcfg (memOp P hc s (.get key)).1.mem k = none :=
      lookup_none_memOp P hc Ok L hn hw k h (.get key) (by simp only [notWrite])
    generalize hm : memOp P hc s (.get key) = p at h1 hqk hout hl0
    obtain ⟨s1, out⟩ := p
    simp only at h1 hqk hout hl0 ⊢
    split
    · rename_i r hr
      simp only
      rw [hout] at hr
      by_cases hkk : key = k
      · subst hkk
        have hM := h.M r (get_handle_lookup P hc s.mem key r hr)
        simp only [truthStep, if_true, readOk]
        rw [← hM]
        refine ⟨winv_memOp_notWrite P hc Ok L hn hw key h1 (.drop r.id) (by simp only [notWrite]), fun _ => ⟨⟨_, _, rfl⟩, ?_⟩⟩
        intro key' v src hv
        simp only [HRet.val.injEq] at hv
        exact ⟨hv.1.symm, Or.inl (by rw [hM, hv.2.1])⟩
      · simp only [truthStep, if_neg hkk, readOk]
        exact ⟨winv_memOp_notWrite P hc Ok L hn hw k h1 (.drop r.id) (by simp only [notWrite]), fun e => absurd e hkk⟩
    · rename_i hnh
      have hmiss : key = k → Cache.lookup hc.mcfg s1.mem k = none := by
        intro hkk; subst hkk
        exact hl0 (get_not_handle P hc s.mem key (by intro r hr; exact hnh r (by rw [hout]; exact hr)))
      obtain ⟨hl1, _, _, hl4, hl5⟩ := winv_load P hc Ok L hn hw k h1 (hqk.1.trans hq) (hqk.2.1.trans hkp) key hmiss
      generalize hlp : loadAndPopulate P hc s1 key = p at hl1 hl4 hl5
      obtain ⟨s2, o⟩ := p
      cases o with
      | some vs =>
        obtain ⟨v, src⟩ := vs
        simp only
        by_cases hkk : key = k
        · have hv := hl4 v src rfl hkk
          simp only [truthStep, if_pos hkk, readOk]
          rw [← hv]
          refine ⟨hl1, fun _ => ⟨⟨_, _, by rw [hkk]⟩, ?_⟩⟩
          intro key' v' src' hv'
          simp only [HRet.val.injEq] at hv'
          exact ⟨by rw [← hv'.1]; exact hkk, Or.inl (by rw [hv, hv'.2.1])⟩
        · simp only [truthStep, if_neg hkk, readOk]
          exact ⟨hl1, fun e => absurd e hkk⟩
      | none =>
        simp only at hl5 ⊢
        have hs2 : s2 = s1 := hl5 trivial
        subst hs2
        obtain ⟨r, hr⟩ := memOp_ins_handle P hc Ok L hn hw k hl1 key ov 1 .normal false .default .fresh
        have hseq := winv_insert_seq P hc Ok L hn hw k hl1 key ov 1 .normal false .default hc.woi (fun _ => hw) r hr
        generalize hm3 : memOp P hc s2 (.ins key ov 1 .normal false .default .fresh) = p3 at hr hseq
        obtain ⟨s3, out3⟩ := p3
        simp only at hr hseq ⊢
        rw [hr]
        simp only
        by_cases hkk : key = k
        · simp only [truthStep, if_pos hkk, readOk]
          rw [if_pos hkk] at hseq
          refine ⟨hseq, fun _ => ⟨⟨_, _, by rw [hkk]⟩, ?_⟩⟩
          intro key' v' src' hv'
          simp only [HRet.val.injEq] at hv'
          exact ⟨by rw [← hv'.1]; exact hkk, Or.inr hv'.2.1.symm⟩
        · simp only [truthStep, if_neg hkk, readOk]
          rw [if_neg hkk] at hseq
          exact ⟨hseq, fun e => absurd e hkk⟩
  | evict =>
    simp only [stepCore, readOk, truthStep, and_true]
    exact winv_memOp_notWrite P hc Ok L hn hw k h .evictAll (by simp only [notWrite])
  | contains key => simp only [stepCore, readOk, truthStep, and_true]; exact h
  | wait => simp only [stepCore, readOk, truthStep, and_true]; exact h
  | lose h' =>
    simp only [stepCore, readOk, truthStep, and_true]
    split
    · exact h
    · rename_i e he
      simp only
      have hpv : ∀ (d : List DiskEnt), pview hc ({ s with index := assocDel s.index h', disk := d } : HState σ) (hc.mcfg.H k) =
          if hc.mcfg.H k = h' then none else pview hc s (hc.mcfg.H k) := by
        intro d
        unfold pview
        simp only
        rw [hq, lookupAfter_nil, lookupAfter_nil, assocGet_del]
      refine ⟨h.cinv, h.hh, h.hg, h.hi, h.kq, ?_, h.M, ?_, ?_⟩
      · show batchLt (assocGet (assocDel s.index h') (hc.mcfg.H k)) s.queue (hc.mcfg.H k) s.seq
        rw [assocGet_del]
        split
        · exact batchLt_cur h.seqok (by intro i hi; cases hi)
        · exact h.seqok
      · intro r hr e' he' hke
        rw [hpv] at he'
        split at he'
        · cases he'
        · exact h.Y r hr e' he' hke
      · intro hnone e' he' hke
        rw [hpv] at he'
        split at he'
        · cases he'
        · exact h.D hnone e' he' hke
  | hold => exact absurd hok (by simp only [okOp, not_false_eq_true])
  | unhold => exact absurd hok (by simp only [okOp, not_false_eq_true])
  | gate => exact absurd hok (by simp only [okOp, not_false_eq_true])
  | releaseAll => exact absurd hok (by simp only [okOp, not_false_eq_true])
  | releaseBatch => exact absurd hok (by simp only [okOp, not_false_eq_true])
  | reopen => exact absurd hok (by simp only [okOp, not_false_eq_true])

include L hn hw in
/-- **One API call followed by the flusher running to quiescence.** -/
theorem woi_step {tr : Option Nat} {s : HState σ} (h : WB P hc Ok k tr s) (op : HOp) (hok : okOp k op) :
    WB P hc Ok k (truthStep k tr op (step P hc s op).2) (step P hc s op).1 ∧ readOk k tr op (step P hc s op).2 := by
  obtain ⟨h1, h2⟩ := woi_stepCore P hc Ok L hn hw k h op hok
  unfold step
  simp only
  exact ⟨winv_flush P hc Ok k h1, h2⟩

/-- every lookup of `k` along the history answers from the register -/
def readsOk (k : Nat) : Option Nat → HState σ → List HOp → Prop
  | _, _, [] => True
  | tr, s, op :: ops =>
    readOk k tr op (step P hc s op).2 ∧ readsOk k (truthStep k tr op (step P hc s op).2) (step P hc s op).1 ops

include L hn hw in
theorem woi_reads_from : ∀ (ops : List HOp) (tr : Option Nat) (s : HState σ), WB P hc Ok k tr s →
    (∀ op ∈ ops, okOp k op) → readsOk P hc k tr s ops := by
  intro ops
  induction ops with
  | nil => intro _ _ _ _; trivial
  | cons op ops ih =>
    intro tr s h hok
    obtain ⟨h1, h2⟩ := woi_step P hc Ok L hn hw k h op (hok op (List.mem_cons_self))
    exact ⟨h2, ih _ _ h1 (fun o ho => hok o (List.mem_cons_of_mem _ ho))⟩

include L in
theorem wb_init (memcap : Nat) : WB P hc Ok k none (init P hc memcap) := by
  have hl : Cache.lookup hc.mcfg (init P hc memcap).mem k = none := by
    simp only [init, Cache.lookup, Cache.new, List.getElem?_map]
    cases (List.range hc.mcfg.nshards)[hc.mcfg.shardOf (hc.mcfg.H k)]? <;> simp [Shard.new, findKey]
  refine ⟨⟨new_inv L hc.mcfg memcap, rfl, rfl, rfl, ?_, ?_, ?_, ?_, ?_⟩, rfl, rfl⟩
  · intro p hp; cases hp
  · refine ⟨?_, ?_, ?_⟩
    · intro i hi; cases hi
    · intro e he _; cases he
    · intro p hp _; cases hp
  · intro r hr; rw [hl] at hr; cases hr
  · intro r hr; rw [hl] at hr; cases hr
  · intro _ e he _; cases he

include L hn hw in
/-- **C01 (write-on-insertion): reads observe the latest write, whatever the history.** -/
theorem woi_reads_truth (memcap : Nat) (ops : List HOp) (hok : ∀ op ∈ ops, okOp k op) :
    readsOk P hc k none (init P hc memcap) ops :=
  woi_reads_from P hc Ok L hn hw k ops none _ (wb_init P hc Ok L k memcap) hok

end
end Foyer.Hyb

/-! ### Non-vacuity: the theorem instantiated on a concrete history with a collision, an overwrite, an
oversize update, a memory eviction, a disk-capacity eviction and a remove. -/
namespace Foyer.Hyb.Demo
open Foyer Foyer.Hyb

/-- one shard, every key hashes to `k % 2`: keys 0 and 2 collide -/
def hcfg : HCfg := { woi := true, foc := false, tombLog := true, mcfg := { nshards := 1, H := fun k => k % 2 } }

def ops : List HOp :=
  [.ins 0 1 .default false, .ins 2 2 .default false, .get 0, .ins 0 3 .onDisk false, .evict, .get 0,
   .ins 0 4 .default true, .get 0, .fetch 0 5, .lose 0, .get 0, .rm 0, .fetch 0 6, .clear, .get 0]

example : ∀ op ∈ ops, okOp 0 op := by decide

/-- what the calls answered along this history (computed by the model) -/
def rets : HState Fifo → List HOp → List HRet
  | _, [] => []
  | s, op :: ops => (step fifoPolicy hcfg s op).2 :: rets (step fifoPolicy hcfg s op).1 ops

example : readsOk fifoPolicy hcfg 0 none (init fifoPolicy hcfg 4) ops :=
  woi_reads_truth fifoPolicy hcfg _ fifo_lawful (by decide) rfl 0 4 ops (by decide)

end Foyer.Hyb.Demo
