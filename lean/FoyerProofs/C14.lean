import FoyerProofs.Lemmas.LawfulBasic
import FoyerProofs.Lemmas.LawfulLru
import FoyerProofs.Lemmas.LawfulSieve
import FoyerProofs.Lemmas.LawfulS3
import FoyerProofs.Lemmas.LawfulLfu
/-
  C14 — Victims are chosen as the configured eviction algorithm prescribes.

  The five algorithm models (`FoyerModel/Policies/*`) are *functions* of the operation sequence
  (determinism is definitional) and are compared victim-by-victim with the implementation by the
  algorithm-mode correspondence.  Here: each model obeys the `Eviction` contract (so every generic
  theorem of C05/C13/C18/C02/C17 applies to it), and the rules the property names hold of it.
-/
namespace Foyer.C14

/-! ### every algorithm is a lawful policy -/

theorem fifo_lawful : Lawful fifoPolicy (fun s => idsNodup s.q) := Foyer.fifo_lawful
theorem lru_lawful (capFn : Nat → Nat) :
    Lawful (lruPolicy capFn) (fun s => LruI s ∧ idsNodup ((lruPolicy capFn).members s)) := Foyer.lru_lawful capFn
theorem sieve_lawful : Lawful sievePolicy (fun s => True ∧ idsNodup (sievePolicy.members s)) := Foyer.sieve_lawful
theorem s3fifo_lawful (sf gf : Nat → Nat) (t : Nat) :
    Lawful (s3Policy sf gf t) (fun s => True ∧ idsNodup ((s3Policy sf gf t).members s)) := Foyer.s3_lawful sf gf t
theorem lfu_lawful (wf pf : Nat → Nat) (k : SketchCfg) :
    Lawful (lfuPolicy wf pf k) (fun s => True ∧ idsNodup ((lfuPolicy wf pf k).members s)) := Foyer.lfu_lawful wf pf k

/-! ### FIFO: eviction order is insertion order -/

def popAll {σ : Type} (P : Policy σ) : Nat → σ → List Rec
  | 0, _ => []
  | n + 1, s => match P.pop s with
    | none => []
    | some (r, s') => r :: popAll P n s'

theorem fifo_pop_cons (r : Rec) (rs : List Rec) : fifoPolicy.pop { q := r :: rs } = some (r, { q := rs }) := rfl
theorem fifo_push_eq (s : Fifo) (r : Rec) : fifoPolicy.push s r = { q := s.q ++ [r] } := rfl

theorem fifo_popAll (q : List Rec) : ∀ n, q.length ≤ n → popAll fifoPolicy n { q := q } = q := by
  induction q with
  | nil => intro n _; cases n <;> simp [popAll, fifoPolicy]
  | cons r rs ih =>
    intro n hn
    cases n with
    | zero => simp at hn
    | succ n =>
      simp only [popAll, fifo_pop_cons]
      congr 1
      exact ih n (by simpa using hn)

/-- Pushing `rs` (in this order) into an empty FIFO and then evicting everything yields `rs`. -/
theorem fifo_evicts_in_insertion_order (rs : List Rec) (cap : Nat) :
    popAll fifoPolicy rs.length (rs.foldl fifoPolicy.push (fifoPolicy.init cap)) = rs := by
  have : ∀ (q : List Rec), (rs.foldl fifoPolicy.push { q := q }) = { q := q ++ rs } := by
    induction rs with
    | nil => intro q; simp
    | cons r rs ih => intro q; simp only [List.foldl_cons, fifo_push_eq]; rw [ih]; simp
  show popAll fifoPolicy rs.length (rs.foldl fifoPolicy.push { q := [] }) = rs
  rw [this []]
  simp only [List.nil_append]
  exact fifo_popAll rs _ (Nat.le_refl _)

/-! ### LRU -/

/-- A record that was looked up and is still held (it sits in the pin list) is never the victim. -/
theorem lru_never_pops_pinned (capFn : Nat → Nat) (s : Lru) (r : Rec) (s' : Lru)
    (hn : idsNodup ((lruPolicy capFn).members s)) (hp : (lruPolicy capFn).pop s = some (r, s')) :
    r ∉ s.pin.map (·.r) ∧ s'.pin = s.pin := by
  have hn' : entNodup (s.low ++ s.high ++ s.pin) := (entNodup_iff _).mpr hn
  unfold entNodup at hn'
  simp only [List.map_append] at hn'
  have hdisj := (List.nodup_append.mp hn').2.2
  simp only [lruPolicy] at hp
  split at hp
  · rename_i e rest hl
    cases hp
    refine ⟨?_, rfl⟩
    intro hc
    obtain ⟨x, hx, hxe⟩ := List.mem_map.mp hc
    exact hdisj e.r.id (by simp [hl]) x.r.id (by simp; exact ⟨x, hx, rfl⟩) (by rw [hxe])
  · split at hp
    · rename_i e rest hh
      cases hp
      refine ⟨?_, rfl⟩
      intro hc
      obtain ⟨x, hx, hxe⟩ := List.mem_map.mp hc
      exact hdisj e.r.id (by simp [hh]) x.r.id (by simp; exact ⟨x, hx, rfl⟩) (by rw [hxe])
    · cases hp

/-- Low-priority entries go first, each pool in least-recently-released order (front of the list). -/
theorem lru_low_before_high (capFn : Nat → Nat) (s : Lru) :
    (∀ e rest, s.low = e :: rest → ∃ s', (lruPolicy capFn).pop s = some (e.r, s') ∧ s'.low = rest ∧ s'.high = s.high) ∧
    (s.low = [] → ∀ e rest, s.high = e :: rest → ∃ s', (lruPolicy capFn).pop s = some (e.r, s') ∧ s'.high = rest) ∧
    (s.low = [] → s.high = [] → (lruPolicy capFn).pop s = none) := by
  refine ⟨?_, ?_, ?_⟩
  · intro e rest h; simp [lruPolicy, h]
  · intro hl e rest h; simp [lruPolicy, hl, h]
  · intro hl hh; simp [lruPolicy, hl, hh]

/-- The high-priority pool never keeps more than its configured share: after every operation the
(unpinned) weight of the high-priority list is within `⌊capacity · ratio⌋`. -/
theorem lru_high_pool_bounded (capFn : Nat → Nat) (s : Lru) (hi : LruI s) (hb : s.hw ≤ s.hpCap) :
    (∀ r, ((lruPolicy capFn).push s r).hw ≤ ((lruPolicy capFn).push s r).hpCap) ∧
    (∀ r, ((lruPolicy capFn).release s r).hw ≤ ((lruPolicy capFn).release s r).hpCap) ∧
    (∀ c, ((lruPolicy capFn).update s c).hw ≤ ((lruPolicy capFn).update s c).hpCap) ∧
    (∀ r, ((lruPolicy capFn).acquire s r).hw ≤ ((lruPolicy capFn).acquire s r).hpCap) ∧
    (∀ r s', (lruPolicy capFn).pop s = some (r, s') → s'.hw ≤ s'.hpCap) := by
  have wo : ∀ t : Lru, LruI t → (Lru.withOverflow t).hw ≤ (Lru.withOverflow t).hpCap := by
    intro t ht
    obtain ⟨h1, _, h3, _, h5⟩ := withOverflow_spec t ht
    rw [h5]
    rcases h3 with h | h
    · exact h
    · have := h1.hw_eq; rw [h] at this; simp [entW] at this; omega
  refine ⟨?_, ?_, ?_, ?_, ?_⟩
  · intro r
    simp only [lruPolicy]
    split
    · apply wo
      exact ⟨by simp [entW_append, entW, hi.hw_eq], by
        intro e he; rcases List.mem_append.mp he with h | h
        · exact hi.high_flag e h
        · simp at h; subst h; rfl, hi.low_flag⟩
    · exact hb
  · intro r
    simp only [lruPolicy]
    split
    · exact hb
    · rename_i e hf
      split
      · rename_i hflag
        apply wo
        exact ⟨by simp [entW_append, entW, hi.hw_eq], by
          intro x hx; rcases List.mem_append.mp hx with h | h
          · exact hi.high_flag x h
          · simp at h; subst h; exact hflag, hi.low_flag⟩
      · exact hb
  · intro c
    simp only [lruPolicy]
    apply wo
    exact ⟨hi.hw_eq, hi.high_flag, hi.low_flag⟩
  · intro r
    simp only [lruPolicy]
    split
    · show s.hw - _ ≤ s.hpCap; omega
    · split
      · exact hb
      · exact hb
  · intro r s' hp
    simp only [lruPolicy] at hp
    split at hp
    · cases hp; exact hb
    · split at hp
      · cases hp; show s.hw - _ ≤ s.hpCap; omega
      · cases hp

/-! ### SIEVE -/

theorem sieveScan_victim_unvisited : ∀ (fuel : Nat) (q : List SieveEnt) (i j : Nat) (q' : List SieveEnt),
    sieveScan fuel q i = some (j, q') → ∃ e, q'[j]? = some e ∧ e.visited = false := by
  intro fuel
  induction fuel with
  | zero => intro q i j q' h; simp [sieveScan] at h
  | succ f ih =>
    intro q i j q' h
    simp only [sieveScan] at h
    split at h
    · cases h
    · rename_i e he
      split at h
      · rename_i hv
        cases h
        exact ⟨e, he, by simpa using hv⟩
      · exact ih _ _ _ _ h

/-- The victim of SIEVE is an entry whose visited bit is clear at the moment of eviction. -/
theorem sieve_victim_unvisited (s : Sieve) (r : Rec) (s' : Sieve) (hp : sievePolicy.pop s = some (r, s')) :
    ∃ (i : Nat) (q' : List SieveEnt) (e : SieveEnt), q'.map (·.r) = s.q.map (·.r) ∧ q'[i]? = some e ∧
      e.r = r ∧ e.visited = false ∧ s'.q = q'.eraseIdx i ∧ s'.hand = (q'[i + 1]?).map (·.r.id) := by
  simp only [sievePolicy] at hp
  split at hp
  · cases hp
  · rename_i i q' hscan
    split at hp
    · cases hp
    · rename_i e he
      cases hp
      obtain ⟨e', he', hv⟩ := sieveScan_victim_unvisited _ _ _ _ _ hscan
      rw [he] at he'
      cases he'
      exact ⟨i, q', e, sieveScan_map _ _ _ _ _ hscan, he, rfl, hv, rfl, rfl⟩

/-! ### S3-FIFO -/

/-- The eviction procedure (small → main promotion, main re-insertion while the frequency is
positive, forced eviction from small) terminates and fails only on an empty policy. -/
theorem s3fifo_evict_total (s : S3) : s.evict = none → s.small = [] ∧ s.main = [] :=
  (s3_evict_spec s).2

/-- Ghost admission: a record whose hash is in the ghost set goes straight to `main`, any other to
`small`; its frequency starts at 0. -/
theorem s3fifo_push_rule (sf gf : Nat → Nat) (t : Nat) (s : S3) (r : Rec) :
    (s.ghost.set.contains r.hash = true →
      ((s3Policy sf gf t).push s r).main = s.main ++ [{ r := r, freq := 0 }] ∧ ((s3Policy sf gf t).push s r).small = s.small) ∧
    (s.ghost.set.contains r.hash = false →
      ((s3Policy sf gf t).push s r).small = s.small ++ [{ r := r, freq := 0 }] ∧ ((s3Policy sf gf t).push s r).main = s.main) := by
  constructor
  · intro h
    have h' : r.hash ∈ s.ghost.set := by simpa using h
    simp [s3Policy, h']
  · intro h
    have h' : r.hash ∉ s.ghost.set := by simpa using h
    simp [s3Policy, h']

/-! ### w-TinyLFU -/

/-- With candidates at the front of both `window` and `probation`, the one with the *lower* sketch
estimate is evicted (ties evict the probation candidate); `protected` is touched only when both
are empty. -/
theorem lfu_pop_rule (wf pf : Nat → Nat) (k : SketchCfg) (s : Lfu) :
    (∀ w ws p ps, s.window = w :: ws → s.probation = p :: ps →
      ∃ s', (lfuPolicy wf pf k).pop s =
        some (if cmEstimate k s.counts w.hash < cmEstimate k s.counts p.hash then w else p, s')) ∧
    (s.window = [] → s.probation = [] → ∀ t ts, s.prot = t :: ts → ∃ s', (lfuPolicy wf pf k).pop s = some (t, s')) := by
  constructor
  · intro w ws p ps hw hp
    simp only [lfuPolicy, hw, hp]
    split
    · exact ⟨_, rfl⟩
    · exact ⟨_, rfl⟩
  · intro hw hp t ts ht
    simp only [lfuPolicy, hw, hp, ht]
    exact ⟨_, rfl⟩

/-! ### Non-vacuity -/

example : popAll fifoPolicy 3 ([({ id := 0, key := 0, hash := 0, ver := 1, weight := 1 } : Rec), { id := 1, key := 1, hash := 1, ver := 1, weight := 1 }].foldl fifoPolicy.push (fifoPolicy.init 9))
    = [{ id := 0, key := 0, hash := 0, ver := 1, weight := 1 }, { id := 1, key := 1, hash := 1, ver := 1, weight := 1 }] := by decide

/-- An LRU state with a pinned record, satisfying the invariant, from which `pop` succeeds. -/
example : ∃ s r s', LruI s ∧ s.pin ≠ [] ∧ (lruPolicy (fun c => c)).pop s = some (r, s') :=
  ⟨{ high := [], low := [⟨{ id := 1, key := 1, hash := 1, ver := 1, weight := 1, hint := .low }, false⟩],
     pin := [⟨{ id := 0, key := 0, hash := 0, ver := 1, weight := 1 }, true⟩], hw := 0, hpCap := 5 },
   _, _, ⟨rfl, by simp, by simp⟩, by simp, rfl⟩

end Foyer.C14
