import FoyerProofs.C01Woe
import FoyerProofs.Lemmas.DiskSideStep
/-
  C01 / C15, part 4 — **graceful restarts** (close + reopen) inside the histories of the refinement theorem.

  `woi_reads_truth_reopen`: with the tombstone log enabled and write-on-insertion, for an arbitrary `Lawful`
  memory policy, hasher and capacity, every history of the operations of `woi_reads_truth` *and graceful
  restarts* (with or without flush-on-close) satisfies `readsOk`: a lookup of `k` answers a miss or the
  register value — removed keys stay removed, updated keys never fall back to an older version, an entry
  dropped for its size stays invisible, after any number of restarts.

  The proof joins the memory/disk agreement invariant (`WInv`) with the disk-side invariant `RInv` ("the
  index shows, for the hash, what recovery would reconstruct from the device log and the tombstone log"),
  which makes the restart invisible (`reopen_view`).

  With the tombstone log disabled the statement is false (a remove is forgotten by a restart): that is the
  documented limitation recorded as a known finding; the theorem needs `hc.tombLog = true`.
-/
namespace Foyer.Hyb
open Foyer

/-- the histories: those of `okOp`, plus graceful restarts -/
def isReopen : HOp → Bool
  | .reopen => true
  | _ => false

def okOpR (k : Nat) (op : HOp) : Prop := okOp k op ∨ isReopen op = true

theorem isReopen_eq {op : HOp} (h : isReopen op = true) : op = .reopen := by
  cases op <;> simp only [isReopen] at h <;> first | rfl | cases h

theorem okOp_quiet {k : Nat} {op : HOp} (h : okOp k op) : quietOp op := by
  cases op <;> simp only [okOp] at h <;> simp only [quietOp]

section
variable {σ : Type} (P : Policy σ) (hc : HCfg) (Ok : σ → Prop) (L : Lawful P Ok) (hn : 0 < hc.mcfg.nshards)
  (hw : hc.woi = true) (ht : hc.tombLog = true) (k : Nat)

theorem lookup_new (cap : Nat) : Cache.lookup hc.mcfg (Cache.new P hc.mcfg cap) k = none := by
  simp only [Cache.lookup, Cache.new, List.getElem?_map]
  cases (List.range hc.mcfg.nshards)[hc.mcfg.shardOf (hc.mcfg.H k)]? <;> simp [Shard.new, findKey]

/-- the boundary invariant with the disk-side part -/
def WBR (tr : Option Nat) (s : HState σ) : Prop := WB P hc Ok k tr s ∧ RB hc (hc.mcfg.H k) s

include L hn hw ht in
/-- **A graceful restart keeps the invariant and the register.** -/
theorem woi_reopen {tr : Option Nat} {s : HState σ} (h : WBR P hc Ok k tr s) :
    WInv P hc Ok k tr (stepCore P hc s .reopen).1 := by
  obtain ⟨⟨hwv, hq, hkp⟩, hrb⟩ := h
  simp only [stepCore, ht, if_true]
  -- flush-on-close (a no-op for the disk under write-on-insertion, it only empties memory)
  have h1 : WInv P hc Ok k tr (if hc.foc = true then (memOp P hc s .flush).1 else s) ∧
      RB hc (hc.mcfg.H k) (if hc.foc = true then (memOp P hc s .flush).1 else s) := by
    split
    · exact ⟨winv_memOp_notWrite P hc Ok L hn hw k hwv .flush (by simp only [notWrite]), rb_memOp P hc _ hrb .flush⟩
    · exact ⟨hwv, hrb⟩
  generalize (if hc.foc = true then (memOp P hc s .flush).1 else s) = s1 at h1
  obtain ⟨w1, b1⟩ := h1
  have w1' : WInv P hc Ok k tr ({ s1 with held := false, gated := false } : HState σ) :=
    ⟨w1.cinv, rfl, rfl, w1.hi, w1.kq, w1.seqok, w1.M, w1.Y, w1.D⟩
  have b1' : RB hc (hc.mcfg.H k) ({ s1 with held := false, gated := false } : HState σ) :=
    ⟨rinv_congr hc _ (s := s1) rfl rfl rfl rfl rfl b1.r, b1.ih, ⟨rfl, rfl, b1.q.hi, b1.q.kq⟩⟩
  obtain ⟨w2, hq2, hkp2⟩ := winv_flush P hc Ok k w1'
  obtain ⟨b2, _⟩ := rb_flush hc _ b1' ht
  generalize flush hc ({ s1 with held := false, gated := false } : HState σ) = s2 at w2 hq2 hkp2 b2
  have b3 := rb_restarted hc (hc.mcfg.H k) b2 hq2 (Cache.new P hc.mcfg ((s.mem.shards.map (·.cap)).sum))
  have hview := reopen_view hc (hc.mcfg.H k) b2.r hq2
  have hln := lookup_new P hc k ((s.mem.shards.map (·.cap)).sum)
  show WInv P hc Ok k tr (restarted s2 (Cache.new P hc.mcfg ((s.mem.shards.map (·.cap)).sum)))
  refine ⟨new_inv L hc.mcfg _, w2.hh, w2.hg, rfl, fun p hp => (by cases hp), b3.r.seqok, ?_, ?_, ?_⟩
  · intro r hr
    have : Cache.lookup hc.mcfg (Cache.new P hc.mcfg ((s.mem.shards.map (·.cap)).sum)) k = some r := hr
    rw [hln] at this; cases this
  · intro r hr
    have : Cache.lookup hc.mcfg (Cache.new P hc.mcfg ((s.mem.shards.map (·.cap)).sum)) k = some r := hr
    rw [hln] at this; cases this
  · intro _ e he hke
    have he' : assocGet (recover s2.disk s2.tombs) (hc.mcfg.H k) = some (.addr e) := he
    have h3 : indexAddr (recover s2.disk s2.tombs) (hc.mcfg.H k) = some e := by unfold indexAddr; rw [he']
    rw [hview] at h3
    have hp2 : pview hc s2 (hc.mcfg.H k) = some (.addr e) := by
      rw [pview_idle hc _ s2 hq2]; exact indexAddr_some h3
    cases hl2 : Cache.lookup hc.mcfg s2.mem k with
    | none => exact w2.D hl2 e hp2 hke
    | some r => rw [w2.M r hl2, w2.Y r hl2 e hp2 hke]

include L hn hw ht in
/-- one step of a history with restarts -/
theorem woi_step_r {tr : Option Nat} {s : HState σ} (h : WBR P hc Ok k tr s) (op : HOp) (hok : okOpR k op) :
    WBR P hc Ok k (truthStep k tr op (step P hc s op).2) (step P hc s op).1 ∧ readOk k tr op (step P hc s op).2 := by
  rcases hok with hok | hre
  · obtain ⟨h1, h2⟩ := woi_step P hc Ok L hn hw k h.1 op hok
    exact ⟨⟨h1, (rb_step P hc _ h.2 ht h.1.2.1 op (okOp_quiet hok)).1⟩, h2⟩
  · have hre := isReopen_eq hre
    subst hre
    have w := woi_reopen P hc Ok L hn hw ht k h
    have b := rb_step P hc (hc.mcfg.H k) h.2 ht h.1.2.1 .reopen trivial
    unfold step at b ⊢
    simp only [truthStep, readOk, and_true]
    exact ⟨winv_flush P hc Ok k w, b.1⟩

include L hn hw ht in
theorem woi_reads_from_r : ∀ (ops : List HOp) (tr : Option Nat) (s : HState σ), WBR P hc Ok k tr s →
    (∀ op ∈ ops, okOpR k op) → readsOk P hc k tr s ops := by
  intro ops
  induction ops with
  | nil => intro _ _ _ _; trivial
  | cons op ops ih =>
    intro tr s h hok
    obtain ⟨h1, h2⟩ := woi_step_r P hc Ok L hn hw ht k h op (hok op (List.mem_cons_self))
    exact ⟨h2, ih _ _ h1 (fun o ho => hok o (List.mem_cons_of_mem _ ho))⟩

include L hn hw ht in
/-- **C01 / C15 (write-on-insertion, tombstone log on): reads observe the latest write across any number of
graceful restarts.** -/
theorem woi_reads_truth_reopen (memcap : Nat) (ops : List HOp) (hok : ∀ op ∈ ops, okOpR k op) :
    readsOk P hc k none (init P hc memcap) ops :=
  woi_reads_from_r P hc Ok L hn hw ht k ops none _ ⟨wb_init P hc Ok L k memcap, rb_init P hc _ memcap⟩ hok

end
end Foyer.Hyb

/-! ### write-on-eviction: restarts with flush-on-close -/
namespace Foyer.Hyb
open Foyer

section
variable {σ : Type} (P : Policy σ) (hc : HCfg) (Ok : σ → Prop) (L : Lawful P Ok) (hn : 0 < hc.mcfg.nshards)
  (he : hc.woi = false) (ht : hc.tombLog = true) (hf : hc.foc = true) (k : Nat)

/-- what the closing flush has to achieve for `k` (a property of the eviction policy and the weights: `flush`
evicts down to usage 0): afterwards memory does not hold `k`.  Assumed by `woe_reads_truth_reopen_partial`;
on the implementation it is what the C15 monitor clause `resident_entry_lost_by_close` checks. -/
def FlushDrops : Prop :=
  ∀ c : Cache σ, CacheInv P Ok hc.mcfg c → c.held = [] → Cache.lookup hc.mcfg (Cache.step P hc.mcfg c .flush).1 k = none

def EBR (tr : Option Nat) (s : HState σ) : Prop := EB P hc Ok k tr s ∧ RB hc (hc.mcfg.H k) s

include L hn he ht hf in
theorem woe_reopen {tr : Option Nat} {s : HState σ} (h : EBR P hc Ok k tr s)
    (hfl : Cache.lookup hc.mcfg (Cache.step P hc.mcfg s.mem .flush).1 k = none) :
    EInv P hc Ok k tr (stepCore P hc s .reopen).1 ∧ ED hc k tr (stepCore P hc s .reopen).1 ∧
    (stepCore P hc s .reopen).1.mem.held = [] := by
  obtain ⟨⟨hev, hed, hq, hkp, hheld⟩, hrb⟩ := h
  simp only [stepCore, ht, hf, if_true]
  obtain ⟨e1, d1⟩ := einv_memOp_quiet P hc Ok L hn he k hev hed .flush (by simp only [quietFor])
    (by intro rid hrid; cases hrid)
  have b1 := rb_memOp P hc (hc.mcfg.H k) hrb .flush
  have hl1 : Cache.lookup hc.mcfg (memOp P hc s .flush).1.mem k = none := by
    rw [memOp_mem]; exact hfl
  generalize (memOp P hc s .flush).1 = s1 at e1 d1 b1 hl1
  have e1' : EInv P hc Ok k tr ({ s1 with held := false, gated := false } : HState σ) :=
    ⟨e1.cinv, ⟨rfl, rfl, e1.ds.hi, e1.ds.kq, e1.ds.seqok⟩, e1.M, e1.N, e1.Y⟩
  have d1' : ED hc k tr ({ s1 with held := false, gated := false } : HState σ) := d1
  have b1' : RB hc (hc.mcfg.H k) ({ s1 with held := false, gated := false } : HState σ) :=
    ⟨rinv_congr hc _ (s := s1) rfl rfl rfl rfl rfl b1.r, b1.ih, ⟨rfl, rfl, b1.q.hi, b1.q.kq⟩⟩
  obtain ⟨e2, d2, hq2, _⟩ := einv_flush P hc Ok k e1' d1'
  obtain ⟨b2, _⟩ := rb_flush hc _ b1' ht
  have hl2 : Cache.lookup hc.mcfg (flush hc ({ s1 with held := false, gated := false } : HState σ)).mem k = none := by
    rw [flush_mem]; exact hl1
  generalize flush hc ({ s1 with held := false, gated := false } : HState σ) = s2 at e2 d2 hq2 b2 hl2
  have b3 := rb_restarted hc (hc.mcfg.H k) b2 hq2 (Cache.new P hc.mcfg ((s.mem.shards.map (·.cap)).sum))
  have hview := reopen_view hc (hc.mcfg.H k) b2.r hq2
  have hln := lookup_new P hc k ((s.mem.shards.map (·.cap)).sum)
  show EInv P hc Ok k tr (restarted s2 (Cache.new P hc.mcfg ((s.mem.shards.map (·.cap)).sum))) ∧
       ED hc k tr (restarted s2 (Cache.new P hc.mcfg ((s.mem.shards.map (·.cap)).sum))) ∧ _
  refine ⟨⟨new_inv L hc.mcfg _, ⟨e2.ds.hh, e2.ds.hg, rfl, fun p hp => (by cases hp), b3.r.seqok⟩, ?_, ?_, ?_⟩, ?_, rfl⟩
  · intro r hr
    have : Cache.lookup hc.mcfg (Cache.new P hc.mcfg ((s.mem.shards.map (·.cap)).sum)) k = some r := hr
    rw [hln] at this; cases this
  · intro r hr
    have : Cache.lookup hc.mcfg (Cache.new P hc.mcfg ((s.mem.shards.map (·.cap)).sum)) k = some r := hr
    rw [hln] at this; cases this
  · intro r hr
    have : Cache.lookup hc.mcfg (Cache.new P hc.mcfg ((s.mem.shards.map (·.cap)).sum)) k = some r := hr
    rw [hln] at this; cases this
  · intro _ e he' hke
    have he'' : assocGet (recover s2.disk s2.tombs) (hc.mcfg.H k) = some (.addr e) := he'
    have h3 : indexAddr (recover s2.disk s2.tombs) (hc.mcfg.H k) = some e := by unfold indexAddr; rw [he'']
    rw [hview] at h3
    have hp2 : pview hc s2 (hc.mcfg.H k) = some (.addr e) := by
      rw [pview_idle hc _ s2 hq2]; exact indexAddr_some h3
    exact d2 hl2 e hp2 hke

include L hn he ht hf in
theorem woe_step_r {tr : Option Nat} {s : HState σ} (hfd : FlushDrops P hc Ok k) (h : EBR P hc Ok k tr s) (op : HOp)
    (hok : okOpR k op) :
    EBR P hc Ok k (truthStep k tr op (step P hc s op).2) (step P hc s op).1 ∧ readOk k tr op (step P hc s op).2 := by
  rcases hok with hok | hre
  · obtain ⟨h1, h2⟩ := woe_step P hc Ok L hn he k h.1 op hok
    exact ⟨⟨h1, (rb_step P hc _ h.2 ht h.1.2.2.1 op (okOp_quiet hok)).1⟩, h2⟩
  · have hre := isReopen_eq hre
    subst hre
    obtain ⟨w1, w2, w3⟩ := woe_reopen P hc Ok L hn he ht hf k h (hfd s.mem h.1.1.cinv h.1.2.2.2.2)
    have b := rb_step P hc (hc.mcfg.H k) h.2 ht h.1.2.2.1 .reopen trivial
    unfold step at b ⊢
    simp only [truthStep, readOk, and_true]
    obtain ⟨f1, f2, f3, f4⟩ := einv_flush P hc Ok k w1 w2
    exact ⟨⟨f1, f2, f3, f4, by rw [flush_mem]; exact w3⟩, b.1⟩

include L hn he ht hf in
theorem woe_reads_from_r (hfd : FlushDrops P hc Ok k) : ∀ (ops : List HOp) (tr : Option Nat) (s : HState σ),
    EBR P hc Ok k tr s → (∀ op ∈ ops, okOpR k op) → readsOk P hc k tr s ops := by
  intro ops
  induction ops with
  | nil => intro _ _ _ _; trivial
  | cons op ops ih =>
    intro tr s h hok
    obtain ⟨h1, h2⟩ := woe_step_r P hc Ok L hn he ht hf k hfd h op (hok op (List.mem_cons_self))
    exact ⟨h2, ih _ _ h1 (fun o ho => hok o (List.mem_cons_of_mem _ ho))⟩

include L hn he ht hf in
/-- **C01 / C15 (write-on-eviction with flush-on-close, tombstone log on)** — partial: under the assumption that
the closing flush takes `k` out of memory (`FlushDrops`), reads observe the latest write across any number of
graceful restarts.  Everything else (the flushed record reaches the device before close returns, recovery
shows it, removed keys stay removed) is proved. -/
theorem woe_reads_truth_reopen_partial (hfd : FlushDrops P hc Ok k) (memcap : Nat) (ops : List HOp)
    (hok : ∀ op ∈ ops, okOpR k op) : readsOk P hc k none (init P hc memcap) ops :=
  woe_reads_from_r P hc Ok L hn he ht hf k hfd ops none _ ⟨eb_init P hc Ok L k memcap, rb_init P hc _ memcap⟩ hok

end
end Foyer.Hyb

/-! ### Non-vacuity -/
namespace Foyer.Hyb.DemoReopen
open Foyer Foyer.Hyb

def hcfg : HCfg := { woi := true, foc := true, tombLog := true, mcfg := { nshards := 1, H := fun k => k % 2 } }

def ops : List HOp :=
  [.ins 0 1 .default false, .reopen, .get 0, .ins 0 2 .default false, .ins 2 3 .default false, .reopen, .get 0,
   .ins 0 4 .default false, .rm 0, .reopen, .get 0, .ins 0 5 .default false, .ins 0 6 .default true, .reopen, .get 0,
   .ins 0 7 .default false, .lose 0, .reopen, .get 0, .fetch 0 8, .reopen, .get 0]

instance (k : Nat) : DecidablePred (okOpR k) := fun op => by unfold okOpR; infer_instance

def rets : HState Fifo → List HOp → List HRet
  | _, [] => []
  | s, op :: ops => (step fifoPolicy hcfg s op).2 :: rets (step fifoPolicy hcfg s op).1 ops

example : readsOk fifoPolicy hcfg 0 none (init fifoPolicy hcfg 4) ops :=
  woi_reads_truth_reopen fifoPolicy hcfg _ fifo_lawful (by decide) rfl rfl 0 4 ops (by decide)

end Foyer.Hyb.DemoReopen
