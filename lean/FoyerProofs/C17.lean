import FoyerProofs.C02
/-
  C17 — Hash collisions between distinct keys never alias their entries (memory tier).

  The in-memory index is keyed by the full key; the hash only selects the shard (and feeds the
  S3-FIFO ghost set / the TinyLFU sketch, which influence *which* entry is evicted, never *what* a
  lookup returns).  All theorems hold for an arbitrary hasher `cfg.H` — including a constant one.
  The disk-tier part (index by hash, key check after load) is in `FoyerProofs/C01.lean` /
  the hybrid correspondence.
-/
namespace Foyer.C17

variable {σ : Type} {P : Policy σ} {Ok : σ → Prop}

/-- A lookup answers with an entry of the requested key (carrying the value of its latest
not-superseded insert — `C02.reads_latest`) or with a miss; never with another key's entry. -/
theorem mem_own_key_or_miss (L : Lawful P Ok) (cfg : Cfg) (hn : 0 < cfg.nshards) (cap : Nat) (k : Nat) (ops : List Op) :
    let r := Cache.run P cfg (Cache.new P cfg cap) ops
    (Cache.lookup cfg r.1 k = none ∨ Cache.lookup cfg r.1 k = regRun k ops r.2 none) ∧
    (∀ x, Cache.lookup cfg r.1 k = some x → x.key = k) := by
  refine ⟨C02.reads_latest L cfg hn cap k ops, ?_⟩
  intro x hx
  simp only [Cache.lookup] at hx
  split at hx
  · cases hx
  · exact (findKey_some hx).2

/-- The register of key `k` is not affected by operations on another key `k'`, whatever their
hashes: inserting / removing / looking up `k'` leaves `regStep k` unchanged. -/
theorem mem_colliding_keys_independent (k k' : Nat) (hne : k' ≠ k) (cur : Option Rec) (out : Out)
    (v w : Nat) (h : Hint) (p : Bool) :
    regStep k cur (.ins k' v w h p) out = cur ∧ regStep k cur (.remove k') out = cur ∧
    regStep k cur (.get k') out = cur ∧ regStep k cur (.touch k') out = cur := by
  simp [regStep, hne]

/-! ### Non-vacuity: two keys with the same 64-bit hash coexist and are answered separately -/
namespace Demo
def cfg : Cfg := { nshards := 3, H := fun _ => 42 }
def ops : List Op := [.ins 5 1 1 .normal false, .ins 9 2 1 .normal false, .remove 5]
example : (Cache.lookup cfg (Cache.run fifoPolicy cfg (Cache.new fifoPolicy cfg 9) ops).1 9).map (fun r => (r.key, r.ver)) = some (9, 2) := by decide
example : Cache.lookup cfg (Cache.run fifoPolicy cfg (Cache.new fifoPolicy cfg 9) ops).1 5 = none := by decide
end Demo

end Foyer.C17
