import FoyerProofs.Lemmas.BatchLookup
import FoyerProofs.Lemmas.HybridMem
import FoyerProofs.C12
import FoyerProofs.C05
/-
  C01, part 2 — the hybrid model refines a per-key register under write-on-insertion.

  For an arbitrary `Lawful` memory policy, an arbitrary hasher (collisions allowed) and every history
  of insert (any placement advice except in-memory-only advice on the key under observation, any size
  including oversize), storage-writer insert, remove, clear, get, get_or_fetch, evict-all, contains,
  wait and disk-capacity evictions (`lose`), a lookup of key `k` returns a miss or exactly the value of
  the most recent completed write of `k` that no remove or clear has followed
  (`woi_reads_truth`).  Histories with flusher hold / gated writes / reopen and the write-on-eviction
  policy are covered by the correspondence and the monitors only.
-/
namespace Foyer.Hyb
open Foyer

section
variable {σ : Type} (P : Policy σ) (hc : HCfg)

/-- the index entry of hash `h` once the flusher has written what it has received -/
def pview (s : HState σ) (h : Nat) : Option Idx :=
  let _ := hc
  lookupAfter (assocGet s.index h) s.queue h

/-- every piece in the keeper belongs to a submission the flusher has received and not yet written -/
def KQ (s : HState σ) : Prop :=
  ∀ p ∈ s.keeper, ∃ e f, Sub.entry e f ∈ s.queue ∧ e.key = p.1 ∧ e.ver = p.2.ver

theorem applyBatch_keeper_nil (s : HState σ) (hk : KQ s) : (applyBatch hc s s.queue).keeper = [] := by
  unfold applyBatch
  simp only
  rw [List.filter_eq_nil_iff]
  intro p hp
  obtain ⟨e, f, he, h1, h2⟩ := hk p hp
  cases p with
  | mk pk pr =>
    simp only [Bool.not_eq_true', Bool.not_eq_false']
    intro hf
    rw [List.any_eq_false] at hf
    refine hf e ?_ (by simp at h1 h2; simp [h1, h2])
    rw [List.mem_append]
    cases f with
    | true => left; rw [List.mem_filterMap]; exact ⟨.entry e true, he, rfl⟩
    | false => right; rw [List.mem_filterMap]; exact ⟨.entry e false, he, rfl⟩

/-- **At a quiescent point the flusher writes everything it received**: afterwards queue and keeper are
empty and the index shows what `pview` announced. -/
theorem flush_quiet (s : HState σ) (hh : s.held = false) (hg : s.gated = false) (hi : s.inflight = []) (hk : KQ s) :
    (flush hc s).queue = [] ∧ (flush hc s).inflight = [] ∧ (flush hc s).keeper = [] ∧
    (flush hc s).mem = s.mem ∧ (flush hc s).seq = s.seq ∧ (flush hc s).held = false ∧ (flush hc s).gated = false ∧
    (flush hc s).big = s.big ∧
    ∀ h, assocGet (flush hc s).index h = pview hc s h := by
  have hfl : flush hc s = { applyBatch hc (applyBatch hc s []) s.queue with inflight := [], queue := [] } := by
    unfold flush
    simp only [hh, hg, Bool.false_eq_true, if_false, hi]
  rw [hfl]
  have e0 : ∀ h, assocGet (applyBatch hc s []).index h = assocGet s.index h := by
    intro h; rw [applyBatch_lookup]; rfl
  have hk0 : (applyBatch hc s []).keeper = s.keeper := by
    unfold applyBatch; simp
  have hq0 : (applyBatch hc s []).queue = s.queue := rfl
  refine ⟨rfl, rfl, ?_, rfl, rfl, hh, hg, rfl, ?_⟩
  · show (applyBatch hc (applyBatch hc s []) s.queue).keeper = []
    have := applyBatch_keeper_nil hc (applyBatch hc s []) (by
      intro p hp
      rw [hk0] at hp
      rw [hq0]
      exact hk p hp)
    rw [hq0] at this
    exact this
  · intro h
    show assocGet (applyBatch hc (applyBatch hc s []) s.queue).index h = _
    rw [applyBatch_lookup, e0]
    rfl

/-- the disk entry a submitted record becomes -/
def entOf (s : HState σ) (r : Rec) : DiskEnt := { key := r.key, hash := r.hash, ver := r.ver, seq := s.seq, loc := r.loc }

/-- the two outcomes of `submit` for an entry that is not young -/
def submitDropped (s : HState σ) (r : Rec) : HState σ :=
  { s with seq := s.seq + 1, keeper := assocDel s.keeper r.key,
           index := indexInsert s.index r.hash (.tomb s.seq),
           queue := s.queue ++ [.entry (entOf s r) false],
           subs := s.subs ++ [.entry (entOf s r) false] }

def submitFits (s : HState σ) (r : Rec) : HState σ :=
  { s with seq := s.seq + 1, keeper := assocSet s.keeper r.key r,
           queue := s.queue ++ [.entry (entOf s r) true],
           subs := s.subs ++ [.entry (entOf s r) true] }

theorem submit_dropped (s : HState σ) (r : Rec) (hy : r.age ≠ .young) (hbig : s.big.contains r.ver = true) :
    submit s r = submitDropped s r := by
  unfold submit submitDropped
  rw [if_neg hy]
  simp only [hbig, if_true, entOf]

theorem submit_fits (s : HState σ) (r : Rec) (hy : r.age ≠ .young) (hbig : ¬ s.big.contains r.ver = true) :
    submit s r = submitFits s r := by
  unfold submit submitFits
  rw [if_neg hy]
  simp only [hbig, Bool.false_eq_true, if_false, entOf]

/-- **What a submission announces for the index**: nothing for a young entry; otherwise the record's hash gets
the new entry — or nothing, if the flusher has to drop it (oversize). -/
theorem pview_submit (s : HState σ) (r : Rec) (h : Nat)
    (hb : batchLt (assocGet s.index h) s.queue h s.seq) :
    (r.age = .young → submit s r = s) ∧
    (r.age ≠ .young →
      pview hc (submit s r) h =
        (if h = r.hash then (if s.big.contains r.ver then none else some (.addr (entOf s r))) else pview hc s h) ∧
      batchLt (assocGet (submit s r).index h) (submit s r).queue h (submit s r).seq ∧
      (submit s r).seq = s.seq + 1) := by
  constructor
  · intro hy; unfold submit; rw [if_pos hy]
  · intro hy
    by_cases hbig : s.big.contains r.ver = true
    · have hsub := submit_dropped s r hy hbig
      rw [hsub]
      simp only [hbig, if_true]
      refine ⟨?_, ?_, rfl⟩
      · unfold pview submitDropped
        simp only
        rw [lookup_indexInsert]
        by_cases hh : h = r.hash
        · simp only [hh, if_true]
          subst hh
          rw [lookupAfter_append_tomb _ _ _ r.hash s.seq r.hash (Or.inr ⟨_, rfl, rfl, rfl⟩)]
          · simp
          · exact batchLt_cur (batchLt_mono hb (Nat.le_succ _)) (insOne_seqLt (fun i hi => Nat.lt_succ_of_lt (hb.1 i hi)) (Nat.lt_succ_self _))
        · simp only [hh, if_false]
          exact lookupAfter_append_other _ _ _ _ (fun e => hh e.symm)
      · unfold submitDropped
        simp only
        rw [lookup_indexInsert]
        by_cases hh : h = r.hash
        · simp only [hh, if_true]
          subst hh
          apply batchLt_append _ _ (Nat.lt_succ_self _)
          exact batchLt_cur (batchLt_mono hb (Nat.le_succ _)) (insOne_seqLt (fun i hi => Nat.lt_succ_of_lt (hb.1 i hi)) (Nat.lt_succ_self _))
        · simp only [hh, if_false]
          exact batchLt_append (batchLt_mono hb (Nat.le_succ _)) _ (Nat.lt_succ_self _)
    · have hsub := submit_fits s r hy hbig
      rw [hsub]
      simp only [hbig, Bool.false_eq_true, if_false]
      refine ⟨?_, ?_, rfl⟩
      · unfold pview submitFits
        simp only
        by_cases hh : h = r.hash
        · simp only [hh, if_true]
          subst hh
          rw [lookupAfter_append_entry _ _ _ _ hb]
          simp [entOf]
        · simp only [hh, if_false]
          exact lookupAfter_append_other _ _ _ _ (fun e => hh e.symm)
      · exact batchLt_append (batchLt_mono hb (Nat.le_succ _)) _ (Nat.lt_succ_self _)

theorem submit_kq (s : HState σ) (r : Rec) (hk : KQ s) : KQ (submit s r) := by
  unfold submit
  split
  · exact hk
  · split
    · intro p hp
      have hp' : p ∈ s.keeper := (List.mem_filter.mp hp).1
      obtain ⟨e, f, he, h1, h2⟩ := hk p hp'
      exact ⟨e, f, List.mem_append_left _ he, h1, h2⟩
    · intro p hp
      simp only [assocSet, List.mem_cons] at hp
      rcases hp with hp | hp
      · subst hp
        exact ⟨_, true, List.mem_append_right _ (List.mem_singleton.mpr rfl), rfl, rfl⟩
      · have hp' : p ∈ s.keeper := (List.mem_filter.mp hp).1
        obtain ⟨e, f, he, h1, h2⟩ := hk p hp'
        exact ⟨e, f, List.mem_append_left _ he, h1, h2⟩

theorem submit_flags (s : HState σ) (r : Rec) :
    (submit s r).held = s.held ∧ (submit s r).gated = s.gated ∧ (submit s r).inflight = s.inflight ∧
    (submit s r).big = s.big := by
  unfold submit
  split
  · exact ⟨rfl, rfl, rfl, rfl⟩
  · split <;> exact ⟨rfl, rfl, rfl, rfl⟩

/-- `Store::delete`: the hash loses its index entry. -/
theorem pview_delete (s : HState σ) (key h : Nat)
    (hb : batchLt (assocGet s.index h) s.queue h s.seq) :
    pview hc (delete hc s key) h = (if h = hc.mcfg.H key then none else pview hc s h) ∧
    batchLt (assocGet (delete hc s key).index h) (delete hc s key).queue h (delete hc s key).seq := by
  unfold delete pview
  simp only
  rw [lookup_indexInsert]
  by_cases hh : h = hc.mcfg.H key
  · simp only [hh, if_true]
    have hcur : seqLt (insOne (assocGet s.index (hc.mcfg.H key)) (.tomb s.seq)) (s.seq + 1) := by
      rw [← hh]
      exact insOne_seqLt (fun i hi => Nat.lt_succ_of_lt (hb.1 i hi)) (Nat.lt_succ_self _)
    have hb' := batchLt_cur (batchLt_mono hb (Nat.le_succ _)) (hh ▸ hcur)
    constructor
    · have := lookupAfter_append_tomb (insOne (assocGet s.index (hc.mcfg.H key)) (.tomb s.seq)) s.queue
        (.tomb (hc.mcfg.H key) s.seq) (hc.mcfg.H key) s.seq (hc.mcfg.H key) (Or.inl rfl) (hh ▸ hb')
      simpa using this
    · rw [← hh]
      apply batchLt_append _ _ (Nat.lt_succ_self _)
      exact hb'
  · simp only [hh, if_false]
    exact ⟨lookupAfter_append_other _ _ _ _ (fun e => hh e.symm),
           batchLt_append (batchLt_mono hb (Nat.le_succ _)) _ (Nat.lt_succ_self _)⟩

theorem delete_kq (s : HState σ) (key : Nat) (hk : KQ s) : KQ (delete hc s key) := by
  unfold delete
  intro p hp
  have hp' : p ∈ s.keeper := (List.mem_filter.mp hp).1
  obtain ⟨e, f, he, h1, h2⟩ := hk p hp'
  exact ⟨e, f, List.mem_append_left _ he, h1, h2⟩

end

/-! ### the invariant (write-on-insertion) -/
section
variable {σ : Type} (P : Policy σ) (hc : HCfg) (Ok : σ → Prop) (L : Lawful P Ok) (hn : 0 < hc.mcfg.nshards)
  (hw : hc.woi = true) (k : Nat)

/-- Memory holds the current version of `k`; whatever the disk tier will show for `k` agrees with memory
while memory has `k`, and is current when memory has not. -/
structure WInv (tr : Option Nat) (s : HState σ) : Prop where
  cinv : CacheInv P Ok hc.mcfg s.mem
  hh : s.held = false
  hg : s.gated = false
  hi : s.inflight = []
  kq : KQ s
  seqok : batchLt (assocGet s.index (hc.mcfg.H k)) s.queue (hc.mcfg.H k) s.seq
  M : ∀ r, Cache.lookup hc.mcfg s.mem k = some r → tr = some r.ver
  Y : ∀ r, Cache.lookup hc.mcfg s.mem k = some r →
        ∀ e, pview hc s (hc.mcfg.H k) = some (.addr e) → e.key = k → e.ver = r.ver
  D : Cache.lookup hc.mcfg s.mem k = none →
        ∀ e, pview hc s (hc.mcfg.H k) = some (.addr e) → e.key = k → tr = some e.ver

include hw in
/-- Under write-on-insertion the pipe is not installed: a memory operation is just that. -/
theorem woi_memOp_eq (s : HState σ) (op : Op) :
    memOp P hc s op = ({ s with mem := (Cache.step P hc.mcfg s.mem op).1 }, (Cache.step P hc.mcfg s.mem op).2) := by
  unfold memOp
  simp only
  have : ∀ (l : List Rec) (s : HState σ), (l.foldl (pipeSend hc) s) = s := by
    intro l
    induction l with
    | nil => intro s; rfl
    | cons r rs ih => intro s; simp only [List.foldl_cons]; rw [woi_eviction_writes_nothing hc hw, ih]
  rw [this]

/-- operations of the memory tier that do not write key `k` -/
def notWrite (k : Nat) : Op → Prop
  | .ins key _ _ _ _ _ _ => key ≠ k
  | .remove key => key ≠ k
  | .clear => False
  | _ => True

theorem regStep_notWrite {k : Nat} {op : Op} (h : notWrite k op) (cur : Option Rec) (out : Out) :
    regStep k cur op out = cur := by
  cases op <;> simp only [regStep] <;> simp only [notWrite] at h
  · rw [if_neg h]
  · rw [if_neg h]

include L hn hw in
/-- **A memory operation that does not write `k`** (lookups, evictions, handle drops, writes of other keys)
keeps the invariant: if it evicts `k`, the disk tier already shows memory's version. -/
theorem winv_memOp_notWrite {tr : Option Nat} {s : HState σ} (h : WInv P hc Ok k tr s) (op : Op) (hnw : notWrite k op) :
    WInv P hc Ok k tr (memOp P hc s op).1 := by
  rw [woi_memOp_eq P hc hw]
  have hl := C02.lookup_step L hn h.cinv k op (Cache.lookup hc.mcfg s.mem k) (Or.inr rfl)
  rw [regStep_notWrite hnw] at hl
  refine ⟨step_inv L hn h.cinv op, h.hh, h.hg, h.hi, h.kq, h.seqok, ?_, ?_, ?_⟩
  · intro r hr
    rcases hl with hl | hl
    · rw [hl] at hr; cases hr
    · rw [hl] at hr; exact h.M r hr
  · intro r hr
    rcases hl with hl | hl
    · rw [hl] at hr; cases hr
    · rw [hl] at hr; exact h.Y r hr
  · intro hnone e he hk
    cases hb : Cache.lookup hc.mcfg s.mem k with
    | none => exact h.D hb e he hk
    | some r =>
      have := h.Y r hb e he hk
      rw [this]
      exact h.M r hb

include L hn hw in
/-- **Populating memory with the version the disk tier holds** (a disk hit) keeps the invariant. -/
theorem winv_memOp_populate {tr : Option Nat} {s : HState σ} (h : WInv P hc Ok k tr s) (v w : Nat) (hint : Hint)
    (loc : Loc) (age : Age) (htr : tr = some v)
    (hd : ∀ e, pview hc s (hc.mcfg.H k) = some (.addr e) → e.key = k → e.ver = v) :
    WInv P hc Ok k tr (memOp P hc s (.ins k v w hint false loc age)).1 := by
  rw [woi_memOp_eq P hc hw]
  have hl := C02.lookup_step L hn h.cinv k (.ins k v w hint false loc age) (Cache.lookup hc.mcfg s.mem k) (Or.inr rfl)
  refine ⟨step_inv L hn h.cinv _, h.hh, h.hg, h.hi, h.kq, h.seqok, ?_, ?_, ?_⟩
  · intro r hr
    rcases hl with hl | hl
    · rw [hl] at hr; cases hr
    · rw [hl] at hr
      simp only [regStep, if_true, Bool.false_eq_true, if_false] at hr
      split at hr
      · rename_i r0 hr0
        simp only [Option.some.injEq] at hr
        subst hr
        have := ins_handle_fields P hc.mcfg s.mem k v w hint false loc age r0 hr0
        rw [htr, this.2.1]
      · exact h.M r hr
  · intro r hr e he hk
    rcases hl with hl | hl
    · rw [hl] at hr; cases hr
    · rw [hl] at hr
      simp only [regStep, if_true, Bool.false_eq_true, if_false] at hr
      split at hr
      · rename_i r0 hr0
        simp only [Option.some.injEq] at hr
        subst hr
        have := ins_handle_fields P hc.mcfg s.mem k v w hint false loc age r0 hr0
        rw [this.2.1]
        exact hd e he hk
      · exact h.Y r hr e he hk
  · intro _ e he hk
    rw [htr, hd e he hk]

/-- **Submitting a record of another key** (possibly of the same hash) keeps the invariant: whatever it puts
under `k`'s hash does not carry key `k`. -/
theorem winv_submit_other {tr : Option Nat} {s : HState σ} (h : WInv P hc Ok k tr s) (r : Rec) (hk : r.key ≠ k) :
    WInv P hc Ok k tr (submit s r) := by
  have hps := pview_submit hc s r (hc.mcfg.H k) h.seqok
  by_cases hy : r.age = .young
  · rw [hps.1 hy]; exact h
  · obtain ⟨hpv, hsq, _⟩ := hps.2 hy
    have hf := submit_flags s r
    have hm := submit_mem s r
    refine ⟨by rw [hm]; exact h.cinv, by rw [hf.1]; exact h.hh, by rw [hf.2.1]; exact h.hg, by rw [hf.2.2.1]; exact h.hi,
            submit_kq s r h.kq, hsq, ?_, ?_, ?_⟩
    · intro r' hr'; rw [hm] at hr'; exact h.M r' hr'
    · intro r' hr' e he hke
      rw [hm] at hr'
      rw [hpv] at he
      by_cases hh : hc.mcfg.H k = r.hash
      · simp only [hh, if_true] at he
        split at he
        · cases he
        · simp only [Option.some.injEq, Idx.addr.injEq] at he
          rw [← he] at hke
          exact absurd hke hk
      · simp only [hh, if_false] at he
        exact h.Y r' hr' e he hke
    · intro hnone e he hke
      rw [hm] at hnone
      rw [hpv] at he
      by_cases hh : hc.mcfg.H k = r.hash
      · simp only [hh, if_true] at he
        split at he
        · cases he
        · simp only [Option.some.injEq, Idx.addr.injEq] at he
          rw [← he] at hke
          exact absurd hke hk
      · simp only [hh, if_false] at he
        exact h.D hnone e he hke

include L hn hw in
/-- **Writing key `k`** (insert or storage-writer insert under write-on-insertion, origin fetch): the new record
goes to memory (or is disk-only) and is submitted at once; from then on it is the truth. -/
theorem winv_write {tr : Option Nat} {s : HState σ} (h : WInv P hc Ok k tr s) (ver w : Nat) (hint : Hint)
    (phantom : Bool) (loc : Loc) (r : Rec)
    (hr : (memOp P hc s (.ins k ver w hint phantom loc .fresh)).2.ret = .handle r) :
    WInv P hc Ok k (some ver) (submit (memOp P hc s (.ins k ver w hint phantom loc .fresh)).1 r) := by
  rw [woi_memOp_eq P hc hw] at hr ⊢
  simp only at hr ⊢
  have hf := ins_handle_fields P hc.mcfg s.mem k ver w hint phantom loc .fresh r hr
  have hl := C02.lookup_step L hn h.cinv k (.ins k ver w hint phantom loc .fresh) (Cache.lookup hc.mcfg s.mem k) (Or.inr rfl)
  have hreg : regStep k (Cache.lookup hc.mcfg s.mem k) (.ins k ver w hint phantom loc .fresh)
      (Cache.step P hc.mcfg s.mem (.ins k ver w hint phantom loc .fresh)).2 = if phantom then none else some r := by
    simp only [regStep, if_true, hr]
  rw [hreg] at hl
  generalize hs1 : ({ s with mem := (Cache.step P hc.mcfg s.mem (.ins k ver w hint phantom loc .fresh)).1 } : HState σ) = s1
  have hmem1 : s1.mem = (Cache.step P hc.mcfg s.mem (.ins k ver w hint phantom loc .fresh)).1 := by rw [← hs1]
  have hseq1 : batchLt (assocGet s1.index (hc.mcfg.H k)) s1.queue (hc.mcfg.H k) s1.seq := by rw [← hs1]; exact h.seqok
  have hy : r.age ≠ .young := by rw [hf.2.2.2.1]; decide
  have hps := (pview_submit hc s1 r (hc.mcfg.H k) hseq1).2 hy
  obtain ⟨hpv, hsq, _⟩ := hps
  have hhash : hc.mcfg.H k = r.hash := hf.2.2.2.2.2.1.symm
  rw [if_pos hhash] at hpv
  have hfl := submit_flags s1 r
  have hm := submit_mem s1 r
  have hl' : Cache.lookup hc.mcfg (submit s1 r).mem k = none ∨ Cache.lookup hc.mcfg (submit s1 r).mem k = if phantom then none else some r := by
    rw [hm, hmem1]; exact hl
  refine ⟨by rw [hm, hmem1]; exact step_inv L hn h.cinv _, by rw [hfl.1, ← hs1]; exact h.hh, by rw [hfl.2.1, ← hs1]; exact h.hg,
          by rw [hfl.2.2.1, ← hs1]; exact h.hi, submit_kq s1 r (by rw [← hs1]; exact h.kq), hsq, ?_, ?_, ?_⟩
  · intro r' hr'
    rcases hl' with hx | hx
    · rw [hx] at hr'; cases hr'
    · rw [hx] at hr'
      cases phantom with
      | true => simp at hr'
      | false =>
        simp only [Bool.false_eq_true, if_false, Option.some.injEq] at hr'
        rw [← hr', hf.2.1]
  · intro r' hr' e he hke
    rw [hpv] at he
    split at he
    · cases he
    · simp only [Option.some.injEq, Idx.addr.injEq] at he
      rcases hl' with hx | hx
      · rw [hx] at hr'; cases hr'
      · rw [hx] at hr'
        cases phantom with
        | true => simp at hr'
        | false =>
          simp only [Bool.false_eq_true, if_false, Option.some.injEq] at hr'
          rw [← hr', ← he]
          rfl
  · intro _ e he _
    rw [hpv] at he
    split at he
    · cases he
    · simp only [Option.some.injEq, Idx.addr.injEq] at he
      rw [← he]
      show some ver = some r.ver
      rw [hf.2.1]

/-- **`Store::delete`** of another key, or of `k` once memory has let go of it. -/
theorem winv_delete {tr : Option Nat} {s : HState σ} (h : WInv P hc Ok k tr s) (key : Nat)
    (hmem : key = k → Cache.lookup hc.mcfg s.mem k = none) :
    WInv P hc Ok k (if key = k then none else tr) (delete hc s key) := by
  obtain ⟨hpv, hsq⟩ := pview_delete hc s key (hc.mcfg.H k) h.seqok
  have hm := delete_mem hc s key
  refine ⟨by rw [hm]; exact h.cinv, h.hh, h.hg, h.hi, delete_kq hc s key h.kq, hsq, ?_, ?_, ?_⟩
  · intro r hr
    rw [hm] at hr
    by_cases hk : key = k
    · rw [hmem hk] at hr; cases hr
    · rw [if_neg hk]; exact h.M r hr
  · intro r hr e he hke
    rw [hm] at hr
    rw [hpv] at he
    split at he
    · cases he
    · exact h.Y r hr e he hke
  · intro hnone e he hke
    rw [hm] at hnone
    rw [hpv] at he
    split at he
    · cases he
    · rename_i hne
      have hk : ¬ key = k := fun e' => hne (by rw [e'])
      rw [if_neg hk]
      exact h.D hnone e he hke

/-- **The flusher task running to quiescence** keeps the invariant and empties queue and keeper. -/
theorem winv_flush {tr : Option Nat} {s : HState σ} (h : WInv P hc Ok k tr s) :
    WInv P hc Ok k tr (flush hc s) ∧ (flush hc s).queue = [] ∧ (flush hc s).keeper = [] := by
  obtain ⟨hq, hi, hkp, hm, hsq, hh, hg, _, hix⟩ := flush_quiet hc s h.hh h.hg h.hi h.kq
  have hpv : pview hc (flush hc s) (hc.mcfg.H k) = pview hc s (hc.mcfg.H k) := by
    unfold pview
    simp only
    rw [hq, hix]
    rfl
  refine ⟨⟨by rw [hm]; exact h.cinv, hh, hg, hi, ?_, ?_, ?_, ?_, ?_⟩, hq, hkp⟩
  · intro p hp; rw [hkp] at hp; cases hp
  · rw [hq, hix, hsq]
    refine ⟨lookupAfter_seqLt h.seqok, ?_, ?_⟩
    · intro e he _; cases he
    · intro p hp _; cases hp
  · intro r hr; rw [hm] at hr; exact h.M r hr
  · intro r hr e he hke; rw [hm] at hr; rw [hpv] at he; exact h.Y r hr e he hke
  · intro hnone e he hke; rw [hm] at hnone; rw [hpv] at he; exact h.D hnone e he hke


include L hn hw in
/-- **A memory operation that can only make `k` disappear from memory** (remove, clear) keeps the
invariant for the same reason an eviction does: the disk tier already shows memory's version. -/
theorem winv_memOp_shrink {tr : Option Nat} {s : HState σ} (h : WInv P hc Ok k tr s) (op : Op)
    (hreg : ∀ cur out, regStep k cur op out = none) :
    WInv P hc Ok k tr (memOp P hc s op).1 ∧ Cache.lookup hc.mcfg (memOp P hc s op).1.mem k = none := by
  rw [woi_memOp_eq P hc hw]
  have hl := C02.lookup_step L hn h.cinv k op (Cache.lookup hc.mcfg s.mem k) (Or.inr rfl)
  rw [hreg] at hl
  have hl' : Cache.lookup hc.mcfg (Cache.step P hc.mcfg s.mem op).1 k = none := by
    rcases hl with hl | hl <;> exact hl
  refine ⟨⟨step_inv L hn h.cinv op, h.hh, h.hg, h.hi, h.kq, h.seqok, ?_, ?_, ?_⟩, hl'⟩
  · intro r hr; rw [hl'] at hr; cases hr
  · intro r hr; rw [hl'] at hr; cases hr
  · intro hnone e he hk
    cases hb : Cache.lookup hc.mcfg s.mem k with
    | none => exact h.D hb e he hk
    | some r =>
      have := h.Y r hb e he hk
      rw [this]
      exact h.M r hb

include L hn hw in
theorem lookup_none_memOp {tr : Option Nat} {s : HState σ} (h : WInv P hc Ok k tr s) (op : Op) (hnw : notWrite k op)
    (hnone : Cache.lookup hc.mcfg s.mem k = none) : Cache.lookup hc.mcfg (memOp P hc s op).1.mem k = none := by
  rw [woi_memOp_eq P hc hw]
  have hl := C02.lookup_step L hn h.cinv k op none (Or.inl hnone)
  rw [regStep_notWrite hnw] at hl
  rcases hl with hl | hl <;> exact hl

include hw in
theorem memOp_queue_keeper (s : HState σ) (op : Op) :
    (memOp P hc s op).1.queue = s.queue ∧ (memOp P hc s op).1.keeper = s.keeper ∧ (memOp P hc s op).1.index = s.index := by
  rw [woi_memOp_eq P hc hw]; exact ⟨rfl, rfl, rfl⟩

/-- marking a version as oversize changes nothing the invariant looks at -/
theorem winv_big {tr : Option Nat} {s : HState σ} (h : WInv P hc Ok k tr s) (b : List Nat) :
    WInv P hc Ok k tr { s with big := b } :=
  ⟨h.cinv, h.hh, h.hg, h.hi, h.kq, h.seqok, h.M, h.Y, h.D⟩

include L hn in
/-- an insert into a well-formed cache always hands back a handle -/
theorem ins_ret_handle {c : Cache σ} (hci : CacheInv P Ok hc.mcfg c) (key ver w : Nat) (hint : Hint) (ph : Bool)
    (loc : Loc) (age : Age) : ∃ r, (Cache.step P hc.mcfg c (.ins key ver w hint ph loc age)).2.ret = .handle r := by
  have hnp := C05.no_panic L hn hci (.ins key ver w hint ph loc age)
  have hlt : hc.mcfg.shardOf (hc.mcfg.H key) < c.shards.length := by rw [hci.len]; exact Nat.mod_lt _ hn
  simp only [Cache.step] at hnp ⊢
  split
  · rename_i hnone
    rw [List.getElem?_eq_none_iff] at hnone
    omega
  · rename_i sh hsh
    simp only [hsh] at hnp
    simp only
    split
    · rename_i hp; rw [if_pos hp] at hnp; exact absurd rfl hnp
    · exact ⟨_, rfl⟩

theorem get_not_handle (c : Cache σ) (key : Nat) (hnh : ∀ r, (Cache.step P hc.mcfg c (.get key)).2.ret ≠ .handle r) :
    Cache.lookup hc.mcfg c key = none := by
  simp only [Cache.step, Cache.lookup] at hnh ⊢
  split
  · rfl
  · rename_i sh hsh
    simp only [hsh] at hnh
    cases hf : findKey key sh.index with
    | none => rfl
    | some r => simp only [hf] at hnh; exact absurd rfl (hnh r)

theorem indexAddr_some {ix : List (Nat × Idx)} {h : Nat} {e : DiskEnt} (he : indexAddr ix h = some e) :
    assocGet ix h = some (.addr e) := by
  unfold indexAddr at he
  split at he
  · rename_i e' h'; cases he; exact h'
  · cases he


include L hn hw in
/-- `memInsert` (insert + drop of the returned handle) of another key keeps the invariant. -/
theorem winv_memInsert_other {tr : Option Nat} {s : HState σ} (h : WInv P hc Ok k tr s) (key ver : Nat) (ph : Bool)
    (loc : Loc) (age : Age) (hk : key ≠ k) : WInv P hc Ok k tr (memInsert P hc s key ver ph loc age).1 := by
  unfold memInsert
  generalize hm : memOp P hc s (.ins key ver 1 .normal ph loc age) = p
  obtain ⟨s1, out⟩ := p
  have h1 : WInv P hc Ok k tr s1 := by
    have := winv_memOp_notWrite P hc Ok L hn hw k h (.ins key ver 1 .normal ph loc age) hk
    rw [hm] at this; exact this
  simp only
  split
  · rename_i r _
    exact winv_memOp_notWrite P hc Ok L hn hw k h1 (.drop r.id) (by simp only [notWrite])
  · exact h1

include L hn hw in
/-- `memInsert` of the version the disk tier holds for `k` keeps the invariant. -/
theorem winv_memInsert_populate {tr : Option Nat} {s : HState σ} (h : WInv P hc Ok k tr s) (v : Nat)
    (loc : Loc) (age : Age) (htr : tr = some v)
    (hd : ∀ e, pview hc s (hc.mcfg.H k) = some (.addr e) → e.key = k → e.ver = v) :
    WInv P hc Ok k tr (memInsert P hc s k v false loc age).1 := by
  unfold memInsert
  generalize hm : memOp P hc s (.ins k v 1 .normal false loc age) = p
  obtain ⟨s1, out⟩ := p
  have h1 : WInv P hc Ok k tr s1 := by
    have := winv_memOp_populate P hc Ok L hn hw k h v 1 .normal loc age htr hd
    rw [hm] at this; exact this
  simp only
  split
  · rename_i r _
    exact winv_memOp_notWrite P hc Ok L hn hw k h1 (.drop r.id) (by simp only [notWrite])
  · exact h1

include hw in
theorem memInsert_queue_keeper (s : HState σ) (key ver : Nat) (ph : Bool) (loc : Loc) (age : Age) :
    (memInsert P hc s key ver ph loc age).1.queue = s.queue ∧ (memInsert P hc s key ver ph loc age).1.keeper = s.keeper := by
  unfold memInsert
  generalize hm : memOp P hc s (.ins key ver 1 .normal ph loc age) = p
  obtain ⟨s1, out⟩ := p
  have hq := memOp_queue_keeper P hc hw s (.ins key ver 1 .normal ph loc age)
  rw [hm] at hq
  simp only
  split
  · rename_i r _
    have hq2 := memOp_queue_keeper P hc hw s1 (.drop r.id)
    exact ⟨hq2.1.trans hq.1, hq2.2.1.trans hq.2.1⟩
  · exact ⟨hq.1, hq.2.1⟩

include L hn hw in
/-- **The disk lookup of a memory miss, with the flusher idle**: it keeps the invariant, leaves queue and
keeper empty, and what it returns for `k` is the current version. -/
theorem winv_load {tr : Option Nat} {s : HState σ} (h : WInv P hc Ok k tr s) (hq : s.queue = []) (hkp : s.keeper = [])
    (key : Nat) (hmiss : key = k → Cache.lookup hc.mcfg s.mem k = none) :
    WInv P hc Ok k tr (loadAndPopulate P hc s key).1 ∧
    (loadAndPopulate P hc s key).1.queue = [] ∧ (loadAndPopulate P hc s key).1.keeper = [] ∧
    (∀ v src, (loadAndPopulate P hc s key).2 = some (v, src) → key = k → tr = some v) ∧
    ((loadAndPopulate P hc s key).2 = none → (loadAndPopulate P hc s key).1 = s) := by
  unfold loadAndPopulate
  rw [hkp, assocGet_nil]
  simp only
  cases hix : indexAddr s.index (hc.mcfg.H key) with
  | none =>
    simp only
    refine ⟨h, hq, hkp, ?_, ?_⟩
    · intro _ _ hx; cases hx
    · intro _; trivial
  | some e =>
    simp only
    by_cases hek : e.key = key
    · rw [if_pos hek]
      have hqk := memInsert_queue_keeper P hc hw s key e.ver false .default .young
      generalize hmi : memInsert P hc s key e.ver false .default .young = p at hqk
      obtain ⟨s1, o1⟩ := p
      simp only at hqk ⊢
      refine ⟨?_, hqk.1.trans hq, hqk.2.trans hkp, ?_, ?_⟩
      rotate_left 2
      · intro hx; cases hx
      · by_cases hkk : key = k
        · subst hkk
          have hpv : pview hc s (hc.mcfg.H key) = some (.addr e) := by
            unfold pview; simp only; rw [hq, lookupAfter_nil]; exact indexAddr_some hix
          have htr : tr = some e.ver := h.D (hmiss rfl) e hpv hek
          have := winv_memInsert_populate P hc Ok L hn hw key h e.ver .default .young htr
            (fun e' he' _ => by rw [hpv] at he'; cases he'; rfl)
          rw [hmi] at this; exact this
        · have := winv_memInsert_other P hc Ok L hn hw k h key e.ver false .default .young hkk
          rw [hmi] at this; exact this
      · intro v src hx hkk
        simp only [Option.some.injEq, Prod.mk.injEq] at hx
        subst hkk
        have hpv : pview hc s (hc.mcfg.H key) = some (.addr e) := by
          unfold pview; simp only; rw [hq, lookupAfter_nil]; exact indexAddr_some hix
        rw [← hx.1]
        exact h.D (hmiss rfl) e hpv hek
    · rw [if_neg hek]
      refine ⟨h, hq, hkp, ?_, ?_⟩
      · intro _ _ hx; cases hx
      · intro _; rfl

end
end Foyer.Hyb
