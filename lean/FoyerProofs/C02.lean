import FoyerProofs.Lemmas.Conservation
import FoyerProofs.Lemmas.LawfulBasic
import FoyerProofs.Lemmas.Linearizable
/-
  C02 — In-memory cache is linearizable per key under concurrent use.

  Part A (`reads_latest`): the sequential model refines, per key, an atomic register whose reads
  may additionally miss — for every lawful policy, hasher, shard count and operation sequence.
  Part B (`atomic_sections_linearizable`): in the interleaving semantics where every call is
  `invoke ; one atomic step ; respond` (what the shard lock provides — DESIGN.md §3.4), the order
  of the atomic steps is a linearization that respects real time.
  Part C (`held_stable`): a held handle keeps denoting the same, unchanged record.
-/
namespace Foyer.C02

variable {σ : Type} {P : Policy σ} {Ok : σ → Prop}

theorem findKey_eraseKey_self (k : Nat) (l : List Rec) : findKey k (eraseKey k l) = none := by
  rw [findKey_none]
  intro r hr
  exact (mem_eraseKey.mp hr).2

theorem findKey_sub {k : Nat} {l l' : List Rec} {x : Rec} (hn : keysNodup l)
    (hsub : ∀ y ∈ l', y ∈ l) (h : findKey k l' = some x) : findKey k l = some x := by
  have := findKey_some h
  rw [← this.2]
  exact findKey_of_mem hn (hsub x this.1)

theorem lookup_setAt (cfg : Cfg) (c : Cache σ) (i : Nat) (s' : Shard σ) (hi : i < c.shards.length)
    (k : Nat) (n : Nat) (hl : List (Rec × Nat)) :
    Cache.lookup cfg { shards := setAt c.shards i s', nextId := n, held := hl } k =
      if cfg.shardOf (cfg.H k) = i then findKey k s'.index else Cache.lookup cfg c k := by
  simp only [Cache.lookup, getElem?_setAt]
  by_cases h : cfg.shardOf (cfg.H k) = i
  · simp [h, hi]
  · simp [h]

/-- A step that does not address key `k` can only turn a hit of `k` into a miss. -/
theorem lookup_mono_of_sub (cfg : Cfg) (c c' : Cache σ) (k : Nat)
    (hkeys : ∀ (i : Nat) (s : Shard σ), c.shards[i]? = some s → keysNodup s.index)
    (hsub : ∀ (i : Nat) (s' : Shard σ), c'.shards[i]? = some s' → ∃ s, c.shards[i]? = some s ∧ ∀ y ∈ s'.index, y ∈ s.index) :
    Cache.lookup cfg c' k = none ∨ Cache.lookup cfg c' k = Cache.lookup cfg c k := by
  simp only [Cache.lookup]
  cases h' : c'.shards[cfg.shardOf (cfg.H k)]? with
  | none => left; rfl
  | some s' =>
    obtain ⟨s, hs, hsub'⟩ := hsub _ s' h'
    simp only [hs]
    cases hf : findKey k s'.index with
    | none => left; rfl
    | some x => right; exact (findKey_sub (hkeys _ s hs) hsub' hf).symm

theorem sub_of_setAt {c : Cache σ} {i : Nat} {s s' : Shard σ} (hs : c.shards[i]? = some s)
    (hsub : ∀ y ∈ s'.index, y ∈ s.index) :
    ∀ (j : Nat) (t' : Shard σ), (setAt c.shards i s')[j]? = some t' → ∃ t, c.shards[j]? = some t ∧ ∀ y ∈ t'.index, y ∈ t.index := by
  intro j t' ht
  simp only [getElem?_setAt] at ht
  split at ht
  · rename_i hj; cases ht; exact ⟨s, by rw [hj.1]; exact hs, hsub⟩
  · exact ⟨t', ht, fun y hy => hy⟩

theorem sub_of_mapShards {c : Cache σ} (f : Nat → Shard σ → Shard σ × List (Reason × Rec) × Bool)
    (hf : ∀ (i : Nat) (s : Shard σ), c.shards[i]? = some s → ∀ y ∈ (f i s).1.index, y ∈ s.index) :
    ∀ (j : Nat) (t' : Shard σ), (mapShards f 0 c.shards).1[j]? = some t' → ∃ t, c.shards[j]? = some t ∧ ∀ y ∈ t'.index, y ∈ t.index := by
  intro j t' ht
  rw [mapShards_getElem?] at ht
  cases hs : c.shards[j]? with
  | none => simp [hs] at ht
  | some s =>
    simp only [hs, Option.map_some, Option.some.injEq, Nat.zero_add] at ht
    subst ht
    exact ⟨s, rfl, hf j s hs⟩

/-- **Register refinement, one step.** -/
theorem lookup_step (L : Lawful P Ok) {cfg : Cfg} (hn : 0 < cfg.nshards) {c : Cache σ}
    (hc : CacheInv P Ok cfg c) (k : Nat) (op : Op) (cur : Option Rec)
    (hcur : Cache.lookup cfg c k = none ∨ Cache.lookup cfg c k = cur) :
    Cache.lookup cfg (Cache.step P cfg c op).1 k = none ∨
    Cache.lookup cfg (Cache.step P cfg c op).1 k = regStep k cur op (Cache.step P cfg c op).2 := by
  have hkeys : ∀ (i : Nat) (s : Shard σ), c.shards[i]? = some s → keysNodup s.index :=
    fun i s h => (hc.shard i s h).keys
  have hlt : ∀ key, cfg.shardOf (cfg.H key) < c.shards.length := by
    intro key; rw [hc.len]; exact Nat.mod_lt _ hn
  -- a step that can only shrink the indices
  have shrink : ∀ c' : Cache σ,
      (∀ (i : Nat) (s' : Shard σ), c'.shards[i]? = some s' → ∃ s, c.shards[i]? = some s ∧ ∀ y ∈ s'.index, y ∈ s.index) →
      Cache.lookup cfg c' k = none ∨ Cache.lookup cfg c' k = cur := by
    intro c' hsub
    rcases lookup_mono_of_sub cfg c c' k hkeys hsub with h | h
    · exact Or.inl h
    · rw [h]; exact hcur
  cases op with
  | ins key ver weight hint phantom loc age =>
    simp only [Cache.step]
    split
    · rename_i hnone
      exact absurd hnone (by
        have := hlt key
        intro h
        have := List.getElem?_eq_none_iff.mp h
        omega)
    · rename_i s hs
      have hsi := hc.shard _ s hs
      cases phantom with
      | true =>
        have sp := emplace_phantom_spec (r := { id := c.nextId, key, hash := cfg.H key, ver, weight, hint, phantom := true, loc, age }) L hsi rfl
        generalize Shard.emplace P s _ = res at sp
        obtain ⟨s', lv, pk⟩ := res
        obtain ⟨_, _, _, hsub, hnok, _, _⟩ := sp
        simp only [] at hsub hnok ⊢
        rw [lookup_setAt cfg c _ s' (hlt key)]
        by_cases hk : key = k
        · subst hk
          simp only [if_true]
          left
          exact findKey_none.mpr hnok
        · simp only [regStep, hk, if_false]
          split
          · rename_i hsh
            rcases hcur with h | h
            · left
              simp only [Cache.lookup, hsh, hs] at h
              cases hf : findKey k s'.index with
              | none => rfl
              | some x =>
                have := findKey_sub hsi.keys hsub hf
                rw [h] at this; cases this
            · cases hf : findKey k s'.index with
              | none => left; rfl
              | some x =>
                right
                have := findKey_sub hsi.keys hsub hf
                simp only [Cache.lookup, hsh, hs] at h
                rw [← h, this]
          · exact hcur
      | false =>
        have sp := emplace_spec (r := { id := c.nextId, key, hash := cfg.H key, ver, weight, hint, phantom := false, loc, age }) L hsi rfl
          (fun x hx => Nat.ne_of_lt (hc.fresh _ s hs x hx))
        generalize Shard.emplace P s _ = res at sp
        obtain ⟨s', lv, pk⟩ := res
        have hpk : pk = false := sp.no_panic
        subst hpk
        simp only [Bool.false_eq_true, if_false]
        rw [lookup_setAt cfg c _ s' (hlt key)]
        by_cases hk : key = k
        · subst hk
          simp only [if_true, regStep]
          right
          have := findKey_of_mem sp.inv.keys sp.index_new
          exact this
        · simp only [regStep, hk, if_false]
          split
          · rename_i hsh
            have hsub : ∀ y ∈ s'.index, y.key = k → y ∈ s.index := by
              intro y hy hyk
              rcases sp.index_old y hy with rfl | h
              · exact absurd hyk hk
              · exact h
            cases hf : findKey k s'.index with
            | none => left; rfl
            | some x =>
              have hx := findKey_some hf
              have hxs : findKey k s.index = some x := by
                rw [← hx.2]; exact findKey_of_mem hsi.keys (hsub x hx.1 hx.2)
              rcases hcur with h | h
              · simp only [Cache.lookup, hsh, hs] at h
                rw [h] at hxs; cases hxs
              · right
                simp only [Cache.lookup, hsh, hs] at h
                rw [← h, hxs]
          · exact hcur
  | get key =>
    simp only [Cache.step]
    split
    · exact hcur
    · rename_i s hs
      split
      · exact hcur
      · exact shrink _ (sub_of_setAt hs (fun y hy => hy))
  | touch key =>
    simp only [Cache.step]
    split
    · exact hcur
    · rename_i s hs
      split
      · exact hcur
      · split
        · exact shrink _ (sub_of_setAt hs (fun y hy => hy))
        · exact shrink _ (sub_of_setAt hs (fun y hy => hy))
  | contains key =>
    simp only [Cache.step]
    split <;> exact hcur
  | remove key =>
    simp only [Cache.step]
    split
    · rename_i hnone
      exact absurd hnone (by
        have := hlt key
        intro h
        have := List.getElem?_eq_none_iff.mp h
        omega)
    · rename_i s hs
      have hsi := hc.shard _ s hs
      split
      · rename_i hmiss
        by_cases hk : key = k
        · subst hk
          left
          simp only [Cache.lookup, hs]
          exact hmiss
        · simp only [regStep, hk, if_false]; exact hcur
      · rename_i r hr
        have hoi := findKey_some hr
        obtain ⟨hinv, hmem, _, _, _⟩ := unlink_inv L hsi hoi.1
        rw [lookup_setAt cfg c _ _ (hlt key)]
        by_cases hk : key = k
        · subst hk
          simp only [if_true]
          left
          rw [findKey_none]
          intro y hy hyk
          have := (hmem y).mp hy
          exact this.2 (eq_of_key_eq hsi.keys this.1 hoi.1 (by rw [hyk, hoi.2]))
        · simp only [regStep, hk, if_false]
          split
          · rename_i hsh
            cases hf : findKey k (Shard.unlink P s r).index with
            | none => left; rfl
            | some x =>
              have := findKey_sub hsi.keys (fun y hy => ((hmem y).mp hy).1) hf
              rcases hcur with h | h
              · simp only [Cache.lookup, hsh, hs] at h
                rw [h] at this; cases this
              · right
                simp only [Cache.lookup, hsh, hs] at h
                rw [← h, this]
          · exact hcur
  | clone rid =>
    simp only [Cache.step]
    split
    · exact hcur
    · exact shrink _ (fun i s' h => ⟨s', h, fun y hy => hy⟩)
  | drop rid =>
    simp only [Cache.step]
    split
    · exact hcur
    · split
      · split
        · exact shrink _ (fun i s' h => ⟨s', h, fun y hy => hy⟩)
        · split
          · exact shrink _ (fun i s' h => ⟨s', h, fun y hy => hy⟩)
          · rename_i s hs
            exact shrink _ (sub_of_setAt hs (fun y hy => hy))
      · exact shrink _ (fun i s' h => ⟨s', h, fun y hy => hy⟩)
  | clear =>
    simp only [Cache.step]
    left
    have := C05_clear_findable P cfg c
    simp only [Cache.step] at this
    simp only [Cache.lookup]
    split
    · rfl
    · rename_i s' hs'
      have hm : s' ∈ (mapShards (fun _ (s : Shard σ) =>
        (({ s with index := [], ev := P.clear s.ev, usage := 0, entries := 0 } : Shard σ),
          s.index.map fun r => (Reason.clear, r), false)) 0 c.shards).1 := List.mem_of_getElem? hs'
      have : s'.index = [] := by
        have h2 := this
        simp only [Cache.findable] at h2
        have := List.flatMap_eq_nil_iff.mp h2 s' hm
        exact this
      rw [this]; rfl
  | resize cap =>
    simp only [Cache.step]
    exact shrink _ (sub_of_mapShards _ (fun i s hs => by
      have hsi := hc.shard i s hs
      have h1 : ShardInv P Ok { s with ev := P.update s.ev (shardCapacityFor cap c.shards.length i),
                                       cap := shardCapacityFor cap c.shards.length i } :=
        ⟨L.update_ok _ _ hsi.ok, fun x => by rw [L.update_mem _ _ hsi.ok x]; exact hsi.mem_iff x,
          hsi.keys, hsi.usage_eq, hsi.entries_eq⟩
      exact (evict_shard_ok L _ h1).2))
  | evictAll =>
    simp only [Cache.step]
    exact shrink _ (sub_of_mapShards _ (fun i s hs => (evict_shard_ok L 0 (hc.shard i s hs)).2))
  | flush =>
    simp only [Cache.step]
    exact shrink _ (sub_of_mapShards _ (fun i s hs => (evict_shard_ok L 0 (hc.shard i s hs)).2))

end Foyer.C02

namespace Foyer.C02

variable {σ : Type} {P : Policy σ} {Ok : σ → Prop}

theorem reads_latest_from (L : Lawful P Ok) {cfg : Cfg} (hn : 0 < cfg.nshards) (k : Nat) :
    ∀ (ops : List Op) (c : Cache σ) (cur : Option Rec), CacheInv P Ok cfg c →
      (Cache.lookup cfg c k = none ∨ Cache.lookup cfg c k = cur) →
      Cache.lookup cfg (Cache.run P cfg c ops).1 k = none ∨
      Cache.lookup cfg (Cache.run P cfg c ops).1 k = regRun k ops (Cache.run P cfg c ops).2 cur := by
  intro ops
  induction ops with
  | nil => intro c cur _ h; simpa [Cache.run, regRun] using h
  | cons op ops ih =>
    intro c cur hc h
    have h1 := lookup_step L hn hc k op cur h
    have h2 := ih _ (regStep k cur op (Cache.step P cfg c op).2) (step_inv L hn hc op) h1
    simp only [Cache.run, regRun]
    exact h2

/-- **Part A — reads_latest**: after any operation sequence on a fresh cache a lookup of `k` finds
nothing, or exactly the record of the latest insert of `k` that no remove / clear / disk-only insert
of `k` has followed.  Evictions, resizes, other keys, other shards only ever turn hits into misses. -/
theorem reads_latest (L : Lawful P Ok) (cfg : Cfg) (hn : 0 < cfg.nshards) (cap : Nat) (k : Nat) (ops : List Op) :
    let r := Cache.run P cfg (Cache.new P cfg cap) ops
    Cache.lookup cfg r.1 k = none ∨ Cache.lookup cfg r.1 k = regRun k ops r.2 none := by
  apply reads_latest_from L hn k ops _ none (new_inv L cfg cap)
  left
  simp only [Cache.lookup, Cache.new, List.getElem?_map]
  cases (List.range cfg.nshards)[cfg.shardOf (cfg.H k)]? <;> simp [Shard.new, findKey]

/-- What `get` / `contains` / `touch` / `remove` answer is what `lookup` finds: every read observes
the register value or misses; a hit returns an entry of the requested key (whatever the hasher). -/
theorem reads_observe_lookup (cfg : Cfg) (c : Cache σ) (k : Nat) :
    ((Cache.step P cfg c (.get k)).2.ret = Ret.miss ∨ (Cache.step P cfg c (.get k)).2.ret = Ret.bad ∨
      ∃ r, (Cache.step P cfg c (.get k)).2.ret = Ret.handle r ∧ Cache.lookup cfg c k = some r ∧ r.key = k) ∧
    ((Cache.step P cfg c (.remove k)).2.ret = Ret.miss ∨ (Cache.step P cfg c (.remove k)).2.ret = Ret.bad ∨
      ∃ r, (Cache.step P cfg c (.remove k)).2.ret = Ret.handle r ∧ Cache.lookup cfg c k = some r ∧ r.key = k) ∧
    ((Cache.step P cfg c (.contains k)).2.ret = Ret.bad ∨
      (Cache.step P cfg c (.contains k)).2.ret = Ret.bool (Cache.lookup cfg c k).isSome) ∧
    ((Cache.step P cfg c (.touch k)).2.ret = Ret.bad ∨
      (Cache.step P cfg c (.touch k)).2.ret = Ret.bool (Cache.lookup cfg c k).isSome) := by
  refine ⟨?_, ?_, ?_, ?_⟩
  · simp only [Cache.step, Cache.lookup]
    split
    · right; left; rfl
    · split
      · left; rfl
      · rename_i r hr
        right; right
        exact ⟨r, rfl, hr, (findKey_some hr).2⟩
  · simp only [Cache.step, Cache.lookup]
    split
    · right; left; rfl
    · split
      · left; rfl
      · rename_i r hr
        right; right
        exact ⟨r, rfl, hr, (findKey_some hr).2⟩
  · simp only [Cache.step, Cache.lookup]
    split
    · left; rfl
    · right; rfl
  · simp only [Cache.step, Cache.lookup]
    split
    · left; rfl
    · split
      · rename_i h; right; simp [h]
      · rename_i r h; right; simp [h]

/-! ### Part C — handles stay readable and unchanged -/

theorem heldFind_inc (held : List (Rec × Nat)) (r : Rec) (rid : Nat) (x : Rec)
    (h : heldFind held rid = some x) : heldFind (heldInc held r) rid = some x := by
  induction held with
  | nil => simp [heldFind] at h
  | cons p ps ih =>
    obtain ⟨y, n⟩ := p
    simp only [heldFind] at h
    simp only [heldInc]
    split
    · simp only [heldFind]; exact h
    · simp only [heldFind]
      split
      · rename_i he; simp only [he, if_true] at h; exact h
      · rename_i hne; simp only [hne, if_false] at h; exact ih h

theorem heldFind_dec_ne (held : List (Rec × Nat)) (rid : Nat) (d x : Rec) (hne : rid ≠ d.id)
    (h : heldFind held rid = some x) : heldFind (heldDec held d) rid = some x := by
  induction held with
  | nil => simp [heldFind] at h
  | cons p ps ih =>
    obtain ⟨y, n⟩ := p
    simp only [heldFind] at h
    simp only [heldDec]
    split
    · rename_i hy
      have hyr : ¬ y.id = rid := fun e => hne (by rw [← e, hy])
      simp only [hyr, if_false] at h
      split
      · exact h
      · simp only [heldFind, hyr, if_false]; exact h
    · simp only [heldFind]
      split
      · rename_i he; simp only [he, if_true] at h; exact h
      · rename_i hn2; simp only [hn2, if_false] at h; exact ih h

theorem heldFind_id' {held : List (Rec × Nat)} {rid : Nat} {x : Rec} (h : heldFind held rid = some x) : x.id = rid := by
  induction held with
  | nil => simp [heldFind] at h
  | cons y ys ih =>
    simp only [heldFind] at h
    split at h
    · rename_i hy; cases h; exact hy
    · exact ih h

/-- **held_stable**: the record a handle denotes is never replaced or altered by any operation
other than the drop of that very handle — whatever happens to the entry in the cache (eviction,
replacement, removal, clear). -/
theorem held_stable (cfg : Cfg) (c : Cache σ) (op : Op) (rid : Nat) (x : Rec)
    (h : heldFind c.held rid = some x) (hop : op ≠ .drop rid) :
    heldFind (Cache.step P cfg c op).1.held rid = some x := by
  cases op with
  | ins key ver weight hint phantom loc age =>
    simp only [Cache.step]; split
    · exact h
    · exact heldFind_inc _ _ _ _ h
  | get key =>
    simp only [Cache.step]; split
    · exact h
    · split
      · exact h
      · exact heldFind_inc _ _ _ _ h
  | touch key =>
    simp only [Cache.step]; split
    · exact h
    · split <;> exact h
  | contains key => simp only [Cache.step]; split <;> exact h
  | remove key =>
    simp only [Cache.step]; split
    · exact h
    · split
      · exact h
      · exact heldFind_inc _ _ _ _ h
  | clone rid' =>
    simp only [Cache.step]; split
    · exact h
    · exact heldFind_inc _ _ _ _ h
  | drop rid' =>
    have hne : rid ≠ rid' := fun e => hop (by rw [e])
    simp only [Cache.step]; split
    · exact h
    · rename_i d hd
      have hne' : rid ≠ d.id := by rw [heldFind_id' hd]; exact hne
      split
      · split
        · exact heldFind_dec_ne _ _ _ _ hne' h
        · split <;> exact heldFind_dec_ne _ _ _ _ hne' h
      · exact heldFind_dec_ne _ _ _ _ hne' h
  | clear => simp only [Cache.step]; exact h
  | resize cap => simp only [Cache.step]; exact h
  | evictAll => simp only [Cache.step]; exact h
  | flush => simp only [Cache.step]; exact h

/-! ### Non-vacuity -/
namespace Demo
def cfg : Cfg := { nshards := 2, H := fun _ => 7 }   -- a constant (fully colliding) hasher
def ops : List Op := [.ins 0 1 1 .normal false, .ins 1 2 1 .normal false, .ins 0 3 1 .normal false, .remove 1]
example : ((Cache.lookup cfg (Cache.run fifoPolicy cfg (Cache.new fifoPolicy cfg 8) ops).1 0).map (·.ver)) = some 3 := by decide
example : (regRun 0 ops (Cache.run fifoPolicy cfg (Cache.new fifoPolicy cfg 8) ops).2 none).map (·.ver) = some 3 := by decide
example : (regRun 1 ops (Cache.run fifoPolicy cfg (Cache.new fifoPolicy cfg 8) ops).2 none) = none := by decide
end Demo

end Foyer.C02

/-! ### Part B — atomic sections are linearizable -/
namespace Foyer.C02
open Foyer.Conc

/-- The in-memory cache as a sequential object. -/
def memObj {σ : Type} (P : Policy σ) (cfg : Cfg) (cap : Nat) : SeqObj (Cache σ) Op Out :=
  { init := Cache.new P cfg cap, step := Cache.step P cfg }

/-- **atomic_sections_linearizable**: for *every* interleaving of invocations, atomic steps and
responses of any number of threads, the sequence of atomic steps (`lins`, ordered by time)
 * is a legal sequential history of the object (running the sequential model over it yields exactly
   the recorded results and the current object state),
 * contains, for every response, the call's linearization point with the same result, after its
   invocation and before its response,
 * and respects real time: if call `a` responded before call `b` was invoked then `a` is
   linearized before `b`. -/
theorem atomic_sections_linearizable {S O R : Type} (o : SeqObj S O R) (as : List (Action O)) :
    let c := crun o (CState.init o) as
    seqRun o o.init (c.lins.map (·.op)) = (c.obj, c.lins.map (·.ret)) ∧
    c.lins.Pairwise (fun a b => a.time < b.time) ∧
    (∀ e ∈ c.ress, ∃ l ∈ c.lins, l.id = e.id ∧ l.ret = e.ret ∧ l.time < e.time) ∧
    (∀ l ∈ c.lins, ∃ i ∈ c.invs, i.id = l.id ∧ i.op = l.op ∧ i.time < l.time) ∧
    (∀ e ∈ c.ress, ∀ i ∈ c.invs, e.time < i.time →
      ∀ la ∈ c.lins, ∀ lb ∈ c.lins, la.id = e.id → lb.id = i.id → la.time < lb.time) := by
  have h := J_run o as _ (J_init o)
  refine ⟨h.legal, h.sorted, ?_, ?_, ?_⟩
  · intro e he
    obtain ⟨h1, l, hl, h2, h3⟩ := h.res_after_lin e he
    exact ⟨l, hl, h2, h3, h1 l hl h2⟩
  · intro l hl
    obtain ⟨h1, i, hi, h2, h3⟩ := h.lin_after_inv l hl
    exact ⟨i, hi, h2, h3, h1 i hi h2⟩
  · intro e he i hi hlt la hla lb hlb ha hb
    have h1 := (h.res_after_lin e he).1 la hla ha
    have h2 := (h.lin_after_inv lb hlb).1 i hi hb.symm
    omega

/-- Part A and Part B composed: in any interleaving, after all atomic steps so far, a lookup of `k`
finds nothing or the register value determined by the *linearization order*. -/
theorem concurrent_reads_latest {σ : Type} {P : Policy σ} {Ok : σ → Prop} (L : Lawful P Ok) (cfg : Cfg)
    (hn : 0 < cfg.nshards) (cap : Nat) (k : Nat) (as : List (Action Op)) :
    let c := crun (memObj P cfg cap) (CState.init (memObj P cfg cap)) as
    Cache.lookup cfg c.obj k = none ∨
    Cache.lookup cfg c.obj k = regRun k (c.lins.map (·.op)) (c.lins.map (·.ret)) none := by
  have h := (atomic_sections_linearizable (memObj P cfg cap) as).1
  simp only [] at h ⊢
  have hr := reads_latest L cfg hn cap k ((crun (memObj P cfg cap) (CState.init (memObj P cfg cap)) as).lins.map (·.op))
  simp only [] at hr
  -- `seqRun` over the model object is `Cache.run`
  have hrun : ∀ (ops : List Op) (c0 : Cache σ), seqRun (memObj P cfg cap) c0 ops = Cache.run P cfg c0 ops := by
    intro ops
    induction ops with
    | nil => intro c0; rfl
    | cons op ops ih => intro c0; simp only [seqRun, Cache.run, memObj]; rw [← ih]; rfl
  rw [hrun] at h
  have h' : Cache.run P cfg (Cache.new P cfg cap) ((crun (memObj P cfg cap) (CState.init (memObj P cfg cap)) as).lins.map (·.op))
      = ((crun (memObj P cfg cap) (CState.init (memObj P cfg cap)) as).obj,
         (crun (memObj P cfg cap) (CState.init (memObj P cfg cap)) as).lins.map (·.ret)) := h
  rw [h'] at hr
  exact hr

end Foyer.C02
