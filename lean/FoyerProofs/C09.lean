import FoyerModel.Reclaim
/-
  C09 — reusing disk space never damages live entries and never stalls writers (event-level model
  of the block manager, `FoyerModel.Reclaim`).  Every theorem holds for *every* sequence of events,
  i.e. for every interleaving of flusher windows, completions and reclaims.
-/
namespace Foyer.Rcl

/-- how often block `x` occurs in the four sets -/
def cnt (s : St) (x : Nat) : Nat :=
  s.clean.count x + s.writing.count x + s.evictable.count x + s.reclaiming.count x

structure Inv (c : RCfg) (n : Nat) (s : St) : Prop where
  /-- every block is in exactly one of clean / writing / evictable / reclaiming -/
  one : ∀ x, cnt s x = if x < n then 1 else 0
  /-- no indexed entry lives in a clean block -/
  idx : ∀ p ∈ s.index, p.2 ∉ s.clean
  /-- a writer waits only while the clean queue is empty -/
  wait : s.waiters > 0 → s.clean = []
  /-- what `reclaim_if_needed` leaves behind: if clean blocks are short and no reclaim is running,
  nothing is evictable -/
  need : s.clean.length < c.thr → s.reclaiming = [] → s.evictable = []
  /-- blocks are picked for reclaim in the order they were filled -/
  fifo : s.finished = s.picked ++ s.evictable

theorem count_range (n x : Nat) : (List.range n).count x = if x < n then 1 else 0 := by
  induction n with
  | zero => simp
  | succ n ih =>
    rw [List.range_succ, List.count_append, ih]
    simp only [List.count_cons, List.count_nil, Nat.zero_add, beq_iff_eq]
    by_cases h1 : x < n
    · have : ¬ n = x := by omega
      have : x < n + 1 := by omega
      simp [*]
    · by_cases h2 : n = x
      · have : x < n + 1 := by omega
        simp [*]
      · have : ¬ x < n + 1 := by omega
        simp [*]

theorem inv_init (c : RCfg) (n : Nat) (hn : c.thr ≤ n) : Inv c n (init n) := by
  refine ⟨fun x => ?_, ?_, ?_, ?_, rfl⟩
  · simp only [cnt, init, List.count_nil, Nat.add_zero]
    exact count_range n x
  · intro p hp; cases hp
  · intro h; simp [init] at h
  · intro h _
    simp only [init, List.length_range] at h
    omega

theorem mem_of_contains {l : List Nat} {b : Nat} (h : l.contains b = true) : b ∈ l := by
  simpa using h

theorem count_pos_of_mem {l : List Nat} {b : Nat} (h : b ∈ l) : 0 < l.count b := List.count_pos_iff.mpr h

theorem reclaimIfNeeded_cnt (c : RCfg) (s : St) (x : Nat) : cnt (reclaimIfNeeded c s) x = cnt s x := by
  unfold reclaimIfNeeded
  split
  · split
    · rfl
    · rename_i b rest he
      simp only [cnt, he, List.count_append, List.count_cons, List.count_nil]
      omega
  · rfl

theorem reclaimIfNeeded_clean (c : RCfg) (s : St) : (reclaimIfNeeded c s).clean = s.clean := by
  unfold reclaimIfNeeded; split
  · split <;> rfl
  · rfl

theorem reclaimIfNeeded_index (c : RCfg) (s : St) : (reclaimIfNeeded c s).index = s.index := by
  unfold reclaimIfNeeded; split
  · split <;> rfl
  · rfl

theorem reclaimIfNeeded_waiters (c : RCfg) (s : St) : (reclaimIfNeeded c s).waiters = s.waiters := by
  unfold reclaimIfNeeded; split
  · split <;> rfl
  · rfl

theorem reclaimIfNeeded_writing (c : RCfg) (s : St) : (reclaimIfNeeded c s).writing = s.writing := by
  unfold reclaimIfNeeded; split
  · split <;> rfl
  · rfl

/-- `reclaim_if_needed` establishes `need`. -/
theorem reclaimIfNeeded_need (c : RCfg) (hconc : 1 ≤ c.conc) (s : St) :
    (reclaimIfNeeded c s).clean.length < c.thr → (reclaimIfNeeded c s).reclaiming = [] →
    (reclaimIfNeeded c s).evictable = [] := by
  unfold reclaimIfNeeded
  split
  · split
    · rename_i he
      intro _ _; exact he
    · intro _ h2
      simp at h2
  · rename_i hcond
    intro h1 h2
    simp only [Bool.and_eq_true, decide_eq_true_eq, not_and] at hcond
    have := hcond h1
    rw [h2] at this
    simp at this
    omega

theorem reclaimIfNeeded_fifo (c : RCfg) (s : St) (h : s.finished = s.picked ++ s.evictable) :
    (reclaimIfNeeded c s).finished = (reclaimIfNeeded c s).picked ++ (reclaimIfNeeded c s).evictable := by
  unfold reclaimIfNeeded
  split
  · split
    · exact h
    · rename_i b rest he
      rw [he] at h
      simp only [List.append_assoc, List.singleton_append]
      exact h
  · exact h

end Foyer.Rcl

namespace Foyer.Rcl

theorem not_mem_clean_of_writing {c : RCfg} {n : Nat} {s : St} (h : Inv c n s) {b : Nat} (hb : b ∈ s.writing) :
    b ∉ s.clean := by
  have h1 := h.one b
  have h2 := count_pos_of_mem hb
  have h3 : s.clean.count b = 0 := by
    simp only [cnt] at h1
    split at h1 <;> omega
  exact List.count_eq_zero.mp h3

theorem count_erase_add {l : List Nat} {b : Nat} (hb : b ∈ l) (x : Nat) :
    (l.erase b).count x + (if b = x then 1 else 0) = l.count x := by
  by_cases hx : b = x
  · subst hx
    rw [List.count_erase_self, if_pos rfl]
    have := count_pos_of_mem hb
    omega
  · rw [if_neg hx, List.count_erase_of_ne (fun e => hx e.symm)]
    omega

theorem count_snoc (l : List Nat) (b x : Nat) : (l ++ [b]).count x = l.count x + (if b = x then 1 else 0) := by
  simp only [List.count_append, List.count_cons, List.count_nil, Nat.zero_add, beq_iff_eq]

/-- **Every event keeps the invariant.** -/
theorem step_inv {c : RCfg} (hconc : 1 ≤ c.conc) {n : Nat} {s : St} (h : Inv c n s) (e : Ev) :
    Inv c n (step c s e) := by
  cases e with
  | take =>
    simp only [step]
    cases hcl : s.clean with
    | nil =>
      simp only
      refine ⟨fun x => ?_, fun p _ => by simp, fun _ => rfl, fun _ hr => ?_, h.fifo⟩
      · have := h.one x
        simp only [cnt, hcl] at this ⊢
        exact this
      · exact h.need (by rw [hcl]; assumption) hr
    | cons b rest =>
      simp only
      refine ⟨fun x => ?_, ?_, ?_, reclaimIfNeeded_need c hconc _, reclaimIfNeeded_fifo c _ h.fifo⟩
      · rw [reclaimIfNeeded_cnt, ← h.one x]
        simp only [cnt, hcl, count_snoc, List.count_cons, beq_iff_eq]
        omega
      · rw [reclaimIfNeeded_index, reclaimIfNeeded_clean]
        intro p hp hm
        exact h.idx p hp (by rw [hcl]; exact List.mem_cons_of_mem _ hm)
      · rw [reclaimIfNeeded_waiters]
        intro hw
        have := h.wait hw
        rw [hcl] at this
        cases this
  | wrote b keys =>
    simp only [step]
    split
    · rename_i hb
      have hbw := mem_of_contains hb
      refine ⟨h.one, ?_, h.wait, h.need, h.fifo⟩
      intro p hp
      rcases List.mem_append.mp hp with h1 | h1
      · simp only [List.mem_map] at h1
        obtain ⟨k, _, hk⟩ := h1
        rw [← hk]
        exact not_mem_clean_of_writing h hbw
      · exact h.idx p (List.mem_filter.mp h1).1
    · exact h
  | finish b =>
    simp only [step]
    split
    · rename_i hb
      have hbw := mem_of_contains hb
      refine ⟨fun x => ?_, ?_, ?_, reclaimIfNeeded_need c hconc _, reclaimIfNeeded_fifo c _ ?_⟩
      · rw [reclaimIfNeeded_cnt, ← h.one x]
        have := count_erase_add hbw x
        simp only [cnt, count_snoc]
        omega
      · rw [reclaimIfNeeded_index, reclaimIfNeeded_clean]
        exact h.idx
      · rw [reclaimIfNeeded_waiters, reclaimIfNeeded_clean]
        exact h.wait
      · show s.finished ++ [b] = s.picked ++ (s.evictable ++ [b])
        rw [h.fifo, List.append_assoc]
    · exact h
  | reclaimed b =>
    simp only [step]
    split
    · rename_i hb
      have hbr := mem_of_contains hb
      by_cases hw : s.waiters > 0
      · simp only [hw, if_true]
        refine ⟨fun x => ?_, ?_, ?_, reclaimIfNeeded_need c hconc _, reclaimIfNeeded_fifo c _ h.fifo⟩
        · rw [reclaimIfNeeded_cnt, ← h.one x]
          have := count_erase_add hbr x
          simp only [cnt, count_snoc]
          omega
        · rw [reclaimIfNeeded_index, reclaimIfNeeded_clean]
          intro p hp
          exact h.idx p (List.mem_filter.mp hp).1
        · rw [reclaimIfNeeded_waiters, reclaimIfNeeded_clean]
          intro _
          exact h.wait hw
      · simp only [hw, if_false]
        refine ⟨fun x => ?_, ?_, ?_, reclaimIfNeeded_need c hconc _, reclaimIfNeeded_fifo c _ h.fifo⟩
        · rw [reclaimIfNeeded_cnt, ← h.one x]
          have := count_erase_add hbr x
          simp only [cnt, count_snoc]
          omega
        · rw [reclaimIfNeeded_index, reclaimIfNeeded_clean]
          intro p hp hm
          have hp' := List.mem_filter.mp hp
          rcases List.mem_append.mp hm with h1 | h1
          · exact h.idx p hp'.1 h1
          · simp only [List.mem_singleton] at h1
            simp only [ne_eq, decide_eq_true_eq] at hp'
            exact hp'.2 h1
        · rw [reclaimIfNeeded_waiters]
          intro hw'
          exact absurd hw' hw
    · exact h
  | delete k =>
    simp only [step]
    exact ⟨h.one, fun p hp => h.idx p (List.mem_filter.mp hp).1, h.wait, h.need, h.fifo⟩

/-- … hence in every state reachable by any interleaving of events. -/
theorem run_inv {c : RCfg} (hconc : 1 ≤ c.conc) (n : Nat) (hn : c.thr ≤ n) (es : List Ev) :
    Inv c n (run c (init n) es) := by
  have gen : ∀ (es : List Ev) (s : St), Inv c n s → Inv c n (run c s es) := by
    intro es
    induction es with
    | nil => intro s h; exact h
    | cons e es ih => intro s h; exact ih _ (step_inv hconc h e)
  exact gen es _ (inv_init c n hn)

/-! ### the statements of C09 -/

/-- **A block is in exactly one state**: never handed to two writers, never reclaimed (or clean, or
evictable) while being written. -/
theorem block_in_one_state {c : RCfg} {n : Nat} {s : St} (h : Inv c n s) :
    s.all.Nodup ∧ ∀ x, x ∈ s.all ↔ x < n := by
  have hc : ∀ x, s.all.count x = cnt s x := by
    intro x; simp only [St.all, cnt, List.count_append]
  constructor
  · rw [List.nodup_iff_count]
    intro x
    rw [hc, h.one]
    split <;> omega
  · intro x
    rw [← List.count_pos_iff, hc, h.one]
    split <;> omega

theorem writers_exclusive {c : RCfg} {n : Nat} {s : St} (h : Inv c n s) :
    s.writing.Nodup ∧ ∀ b ∈ s.writing, b ∉ s.clean ∧ b ∉ s.evictable ∧ b ∉ s.reclaiming := by
  have hnd := (block_in_one_state h).1
  simp only [St.all] at hnd
  rw [List.nodup_append] at hnd
  obtain ⟨h123, h4, hd4⟩ := hnd
  rw [List.nodup_append] at h123
  obtain ⟨h12, h3, hd3⟩ := h123
  rw [List.nodup_append] at h12
  obtain ⟨h1, h2, hd12⟩ := h12
  refine ⟨h2, fun b hb => ⟨?_, ?_, ?_⟩⟩
  · intro hc; exact hd12 b hc b hb rfl
  · intro he; exact hd3 b (List.mem_append.mpr (Or.inr hb)) b he rfl
  · intro hr
    exact hd4 b (List.mem_append.mpr (Or.inl (List.mem_append.mpr (Or.inr hb)))) b hr rfl

/-- **A block is never rewritten while it still backs indexed entries**: a block a writer receives —
from the clean queue or straight from the reclaimer — has no indexed entry. -/
theorem handed_block_unindexed {c : RCfg} {n : Nat} {s : St} (h : Inv c n s) (e : Ev) (b : Nat)
    (hnew : b ∈ (step c s e).writing) (hold : b ∉ s.writing) : ∀ p ∈ (step c s e).index, p.2 ≠ b := by
  cases e with
  | take =>
    simp only [step] at hnew ⊢
    cases hcl : s.clean with
    | nil => rw [hcl] at hnew; exact absurd hnew hold
    | cons b' rest =>
      rw [hcl] at hnew
      simp only at hnew ⊢
      rw [reclaimIfNeeded_writing] at hnew
      rw [reclaimIfNeeded_index]
      rcases List.mem_append.mp hnew with h1 | h1
      · exact absurd h1 hold
      · simp only [List.mem_singleton] at h1
        subst h1
        intro p hp he
        exact h.idx p hp (by rw [hcl, he]; exact List.mem_cons_self)
  | wrote b' keys =>
    simp only [step] at hnew
    split at hnew <;> exact absurd hnew hold
  | finish b' =>
    simp only [step] at hnew
    split at hnew
    · rw [reclaimIfNeeded_writing] at hnew
      exact absurd (List.mem_of_mem_erase hnew) hold
    · exact absurd hnew hold
  | reclaimed b' =>
    simp only [step] at hnew ⊢
    split at hnew
    · rename_i hb
      rw [if_pos hb]
      by_cases hw : s.waiters > 0
      · simp only [hw, if_true] at hnew ⊢
        rw [reclaimIfNeeded_writing] at hnew
        rw [reclaimIfNeeded_index]
        rcases List.mem_append.mp hnew with h1 | h1
        · exact absurd h1 hold
        · simp only [List.mem_singleton] at h1
          subst h1
          intro p hp
          have := (List.mem_filter.mp hp).2
          simpa using this
      · simp only [hw, if_false] at hnew
        rw [reclaimIfNeeded_writing] at hnew
        exact absurd hnew hold
    · exact absurd hnew hold
  | delete k =>
    simp only [step] at hnew
    exact absurd hnew hold

/-- **Blocks are reclaimed oldest-filled first** (FIFO picker). -/
theorem reclaim_in_fill_order {c : RCfg} {n : Nat} {s : St} (h : Inv c n s) : s.picked <+: s.finished :=
  ⟨s.evictable, h.fifo.symm⟩

/-- **A waiting writer is not forgotten**: whenever a writer waits for a clean block, a reclaim is
running (its completion hands the block to a waiter), or there is nothing to reclaim because every
block is being written. -/
theorem waiting_writer_is_served {c : RCfg} (hthr : 1 ≤ c.thr) {n : Nat} {s : St} (h : Inv c n s)
    (hw : s.waiters > 0) : s.reclaiming ≠ [] ∨ (s.evictable = [] ∧ s.clean = []) := by
  have hc := h.wait hw
  by_cases hr : s.reclaiming = []
  · right
    exact ⟨h.need (by rw [hc]; simp; omega) hr, hc⟩
  · left; exact hr

/-- the reclaimer's completion serves a waiter first -/
theorem reclaim_serves_waiter (c : RCfg) (s : St) (b : Nat) (hb : s.reclaiming.contains b = true) (hw : s.waiters > 0) :
    (step c s (.reclaimed b)).waiters = s.waiters - 1 ∧ b ∈ (step c s (.reclaimed b)).writing := by
  simp only [step, hb, if_true, hw]
  rw [reclaimIfNeeded_waiters, reclaimIfNeeded_writing]
  exact ⟨rfl, List.mem_append.mpr (Or.inr (List.mem_singleton.mpr rfl))⟩

/-! ### non-vacuity -/
section Demo
def dcfg : RCfg := { thr := 1, conc := 1 }
def devs : List Ev := [.take, .wrote 0 [7, 8], .take, .finish 0, .take, .wrote 1 [9], .finish 1, .take, .reclaimed 0, .take]
-- three blocks: block 0 is filled, finished, reclaimed when clean blocks run short, and comes back clean
example : (run dcfg (init 3) devs).picked = [0, 1] := by decide
example : (run dcfg (init 3) devs).index = [(9, 1)] := by decide
example : (run dcfg (init 3) devs).writing = [2, 0] := by decide
end Demo

end Foyer.Rcl
