import FoyerProofs.Lemmas.Hybrid
import FoyerProofs.C12
/-
  C01 — the hybrid cache never returns a stale or foreign value (hybrid model).

  Part 1 (this file, so far): the disk tier's own guarantees —
    * recovery keeps, per hash, the copy with the highest sequence and drops it if a logged
      tombstone is at least as new (`recovery_picks_latest`, `recovery_honours_tombstones`);
    * a lookup answers with a value of the requested key or misses (`disk_lookup_own_key_or_miss`);
    * memory shadows everything below it (`memory_hit_returns_memory`).
-/
namespace Foyer.Hyb
open Foyer

def KeysNodup {β : Type} (l : List (Nat × β)) : Prop := (l.map (·.1)).Nodup

theorem assocGet_none_of_not_mem {β : Type} (l : List (Nat × β)) (k : Nat) (h : k ∉ l.map (·.1)) :
    assocGet l k = none := by
  induction l with
  | nil => rfl
  | cons a l ih =>
    rw [assocGet_cons]
    simp only [List.map_cons, List.mem_cons, not_or] at h
    rw [if_neg (fun e => h.1 e.symm)]
    exact ih h.2

theorem assocDel_keys_sub {β : Type} (l : List (Nat × β)) (k : Nat) :
    ((assocDel l k).map (·.1)).Sublist (l.map (·.1)) :=
  List.Sublist.map _ List.filter_sublist

theorem assocDel_not_mem {β : Type} (l : List (Nat × β)) (k : Nat) : k ∉ (assocDel l k).map (·.1) := by
  intro h
  simp only [assocDel, List.mem_map, List.mem_filter] at h
  obtain ⟨a, ⟨_, ha⟩, hk⟩ := h
  simp only [ne_eq, decide_eq_true_eq] at ha
  exact ha hk

theorem assocSet_nodup {β : Type} (l : List (Nat × β)) (k : Nat) (v : β) (h : KeysNodup l) :
    KeysNodup (assocSet l k v) := by
  unfold KeysNodup assocSet
  simp only [List.map_cons, List.nodup_cons]
  exact ⟨assocDel_not_mem l k, h.sublist (assocDel_keys_sub l k)⟩

theorem indexInsert_nodup (ix : List (Nat × Idx)) (h : Nat) (i : Idx) (hn : KeysNodup ix) :
    KeysNodup (indexInsert ix h i) := by
  unfold indexInsert
  split
  · exact assocSet_nodup ix h i hn
  · split
    · exact assocSet_nodup ix h i hn
    · exact hn

theorem insAll_nodup : ∀ (L : List (Nat × Idx)) (ix : List (Nat × Idx)), KeysNodup ix → KeysNodup (insAll ix L) := by
  intro L
  induction L with
  | nil => intro ix h; exact h
  | cons p L ih => intro ix h; exact ih _ (indexInsert_nodup ix p.1 p.2 h)

theorem assocGet_filter {β : Type} (p : Nat × β → Bool) (l : List (Nat × β)) (k : Nat) (hn : KeysNodup l) :
    assocGet (l.filter p) k = (assocGet l k).bind fun v => if p (k, v) then some v else none := by
  induction l with
  | nil => rfl
  | cons a l ih =>
    unfold KeysNodup at hn
    simp only [List.map_cons, List.nodup_cons] at hn
    rw [assocGet_cons]
    simp only [List.filter_cons]
    by_cases hk : a.1 = k
    · rw [if_pos hk]
      simp only [Option.bind_some]
      have hak : (k, a.2) = a := by cases a; simp at hk ⊢; exact hk.symm
      rw [hak]
      by_cases hp : p a = true
      · rw [if_pos hp, if_pos hp, assocGet_cons, if_pos hk]
      · rw [if_neg hp, if_neg hp]
        apply assocGet_none_of_not_mem
        intro hm
        have : k ∈ l.map (·.1) := (List.Sublist.map _ List.filter_sublist).subset hm
        rw [← hk] at this
        exact hn.1 this
    · rw [if_neg hk]
      by_cases hp : p a = true
      · rw [if_pos hp, assocGet_cons, if_neg hk]; exact ih hn.2
      · rw [if_neg hp]; exact ih hn.2

def toAddr (e : DiskEnt) : Nat × Idx := (e.hash, .addr e)
def toTomb (t : Nat × Nat) : Nat × Idx := (t.1, .tomb t.2)

theorem recover_eq (disk : List DiskEnt) (tombs : List (Nat × Nat)) :
    recover disk tombs = (insAll [] (disk.map toAddr ++ tombs.map toTomb)).filter fun p =>
      match p.2 with
      | .addr _ => true
      | .tomb _ => false := by
  unfold recover insAll
  simp only [List.foldl_append, List.foldl_map, toAddr, toTomb]
  rfl

/-- **Recovery keeps the newest copy**: an entry the recovered index serves was really written for
that hash, and no other copy on the device and no logged tombstone of that hash is newer. -/
theorem recovery_picks_latest (disk : List DiskEnt) (tombs : List (Nat × Nat)) (h : Nat) (e : DiskEnt)
    (he : indexAddr (recover disk tombs) h = some e) :
    e ∈ disk ∧ e.hash = h ∧ (∀ e' ∈ disk, e'.hash = h → e'.seq ≤ e.seq) ∧
    (∀ sq, (h, sq) ∈ tombs → sq ≤ e.seq) := by
  have hnd : KeysNodup (insAll [] (disk.map toAddr ++ tombs.map toTomb)) := insAll_nodup _ _ List.nodup_nil
  unfold indexAddr at he
  rw [recover_eq, assocGet_filter _ _ _ hnd] at he
  cases hg : assocGet (insAll [] (disk.map toAddr ++ tombs.map toTomb)) h with
  | none => rw [hg] at he; simp at he
  | some i =>
    rw [hg] at he
    cases i with
    | tomb sq => simp at he
    | addr e0 =>
      simp only [Option.bind_some, if_true, Option.some.injEq] at he
      subst he
      obtain ⟨hsrc, hmax, _⟩ := insAll_max _ _ _ _ hg
      have hmem : e0 ∈ disk ∧ e0.hash = h := by
        rcases hsrc with h1 | h1
        · rcases List.mem_append.mp h1 with h2 | h2
          · simp only [List.mem_map, toAddr, Prod.mk.injEq, Idx.addr.injEq] at h2
            obtain ⟨a, ha, hh, hae⟩ := h2
            subst hae; exact ⟨ha, hh⟩
          · simp only [List.mem_map, toTomb, Prod.mk.injEq] at h2
            obtain ⟨a, _, _, hae⟩ := h2
            cases hae
        · simp [assocGet] at h1
      refine ⟨hmem.1, hmem.2, ?_, ?_⟩
      · intro e' he' hh'
        have := hmax (.addr e') (List.mem_append.mpr (Or.inl (by
          simp only [List.mem_map, toAddr, Prod.mk.injEq, Idx.addr.injEq]
          exact ⟨e', he', hh', rfl⟩)))
        exact this
      · intro sq hsq
        have := hmax (.tomb sq) (List.mem_append.mpr (Or.inr (by
          simp only [List.mem_map, toTomb, Prod.mk.injEq, Idx.tomb.injEq]
          exact ⟨(h, sq), hsq, rfl, rfl⟩)))
        exact this

/-- **A logged tombstone wins over every older copy**: if the tombstone log holds a tombstone of
`h` that is newer than every copy of `h` on the device, recovery leaves `h` absent. -/
theorem recovery_honours_tombstones (disk : List DiskEnt) (tombs : List (Nat × Nat)) (h sq : Nat)
    (ht : (h, sq) ∈ tombs) (hold : ∀ e ∈ disk, e.hash = h → e.seq < sq) :
    indexAddr (recover disk tombs) h = none := by
  cases hr : indexAddr (recover disk tombs) h with
  | none => rfl
  | some e =>
    obtain ⟨hm, hh, _, htb⟩ := recovery_picks_latest disk tombs h e hr
    have h1 := hold e hm hh
    have h2 := htb sq ht
    omega

section
variable {σ : Type} (P : Policy σ) (hc : HCfg)

/-- **The disk tier answers with the requested key's own value or misses** (it indexes by hash
alone; the decoded key is compared before a hit is accepted). -/
theorem disk_lookup_own_key_or_miss (s : HState σ) (k v : Nat)
    (h : (loadAndPopulate P hc s k).2 = some (v, "disk")) :
    ∃ e, indexAddr s.index (hc.mcfg.H k) = some e ∧ e.key = k ∧ e.ver = v := by
  unfold loadAndPopulate at h
  split at h
  · simp at h
  · split at h
    · cases h
    · rename_i e he
      split at h
      · rename_i hk
        simp only [Option.some.injEq, Prod.mk.injEq, and_true] at h
        exact ⟨e, he, hk, h⟩
      · cases h

/-- **Memory shadows the lower tiers**: if memory holds `k`, a lookup returns memory's version. -/
theorem memory_hit_returns_memory (s : HState σ) (k : Nat) (r : Rec)
    (hl : Cache.lookup hc.mcfg s.mem k = some r) :
    (step P hc s (.get k)).2 = .val k r.ver "memory" := by
  simp only [step, stepCore]
  have ho := memOp_out P hc s (.get k)
  have hr := get_ret_handle_of_lookup P hc.mcfg s.mem k r hl
  cases hm : memOp P hc s (.get k) with
  | mk s1 out =>
    rw [hm] at ho
    simp only at ho ⊢
    rw [← ho] at hr
    rw [hr]

end

/-! ### non-vacuity -/
section Demo
def d1 : DiskEnt := { key := 1, hash := 7, ver := 10, seq := 3 }
def d2 : DiskEnt := { key := 1, hash := 7, ver := 11, seq := 5 }
def d3 : DiskEnt := { key := 2, hash := 9, ver := 20, seq := 4 }
-- the newer copy of hash 7 wins; a tombstone newer than the only copy of hash 9 removes it
example : indexAddr (recover [d1, d3, d2] [(9, 6)]) 7 = some d2 := by decide
example : indexAddr (recover [d1, d3, d2] [(9, 6)]) 9 = none := by decide
example : indexAddr (recover [d1, d3, d2] [(7, 4)]) 7 = some d2 := by decide
end Demo

end Foyer.Hyb
