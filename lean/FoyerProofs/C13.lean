import FoyerProofs.Lemmas.Conservation
import FoyerProofs.Lemmas.LawfulBasic
/-
  C13 — Each entry leaves memory exactly once, with the right reason and disk hand-off.

  For an arbitrary lawful eviction policy, hasher, shard count and every operation sequence
  (insert, replace, remove, get/hold/drop, clear, resize, evict_all, flush).
-/
namespace Foyer.C13

variable {σ : Type} {P : Policy σ} {Ok : σ → Prop}

/-- **conservation** (generalised to any invariant-satisfying start state). -/
theorem conservation_from (L : Lawful P Ok) {cfg : Cfg} (hn : 0 < cfg.nshards) :
    ∀ (ops : List Op) (c : Cache σ), CacheInv P Ok cfg c →
      (Cache.admittedAll ops (Cache.run P cfg c ops).2 ++ c.findable).Perm
        ((Cache.run P cfg c ops).1.findable ++ Cache.leftAll (Cache.run P cfg c ops).2) := by
  intro ops
  induction ops with
  | nil => intro c _; simp [Cache.run, Cache.admittedAll, Cache.leftAll]
  | cons op ops ih =>
    intro c hc
    have h1 := step_conservation L hc op
    have h2 := ih _ (step_inv L hn hc op)
    simp only [Cache.run, Cache.admittedAll, Cache.leftAll, List.flatMap_cons]
    generalize Cache.step P cfg c op = st at h1 h2 ⊢
    obtain ⟨c1, o⟩ := st
    simp only [] at h1 h2 ⊢
    generalize Cache.run P cfg c1 ops = rn at h2 ⊢
    obtain ⟨c2, os⟩ := rn
    simp only [Cache.leftAll] at h2 ⊢
    -- admitted(op) ++ admitted(rest) ++ findable c ~ admitted(rest) ++ (findable c1 ++ left(op)) ~ findable c2 ++ left(rest) ++ left(op)
    have h3 := (h1.append_left (Cache.admittedAll ops os))
    have h4 := h2.append_right (leftRecs o.leaves)
    refine List.Perm.trans ?_ (h3.trans (List.Perm.trans ?_ (h4.trans ?_)))
    · grind
    · grind
    · grind

/-- **conservation**: after any operation sequence on a fresh cache, the records admitted so far
are — as a multiset — exactly the records a lookup can still find plus the records that were
reported as having left.  Every notification is counted with its multiplicity. -/
theorem conservation (L : Lawful P Ok) (cfg : Cfg) (hn : 0 < cfg.nshards) (cap : Nat) (ops : List Op) :
    let r := Cache.run P cfg (Cache.new P cfg cap) ops
    (Cache.admittedAll ops r.2).Perm (r.1.findable ++ Cache.leftAll r.2) := by
  have := conservation_from L hn ops _ (new_inv L cfg cap)
  have e : (Cache.new P cfg cap).findable = [] := by
    simp only [Cache.findable, Cache.new, List.flatMap_map]
    simp [Shard.new]
  rw [e, List.append_nil] at this
  exact this

theorem step_nextId (cfg : Cfg) (c : Cache σ) (op : Op) :
    c.nextId ≤ (Cache.step P cfg c op).1.nextId ∧
    ∀ r ∈ admittedOf op (Cache.step P cfg c op).2, r.id = c.nextId ∧ (Cache.step P cfg c op).1.nextId = c.nextId + 1 := by
  cases op with
  | ins key ver weight hint phantom loc age =>
    simp only [Cache.step]
    split
    · simp [admittedOf]
    · refine ⟨Nat.le_succ _, ?_⟩
      intro r hr
      simp only [admittedOf] at hr
      split at hr
      · rename_i r' heq
        split at heq
        · cases heq
        · cases heq
          split at hr
          · cases hr
          · simp only [List.mem_singleton] at hr
            subst hr
            exact ⟨rfl, rfl⟩
      · cases hr
  | get key =>
    simp only [Cache.step]
    split
    · simp [admittedOf]
    · split <;> simp [admittedOf]
  | touch key =>
    simp only [Cache.step]
    split
    · simp [admittedOf]
    · split <;> simp [admittedOf]
  | contains key => simp only [Cache.step]; split <;> simp [admittedOf]
  | remove key =>
    simp only [Cache.step]
    split
    · simp [admittedOf]
    · split <;> simp [admittedOf]
  | clone rid => simp only [Cache.step]; split <;> simp [admittedOf]
  | drop rid =>
    simp only [Cache.step]
    split
    · simp [admittedOf]
    · split
      · split
        · simp [admittedOf]
        · split <;> simp [admittedOf]
      · simp [admittedOf]
  | clear => simp [Cache.step, admittedOf]
  | resize cap => simp [Cache.step, admittedOf]
  | evictAll => simp [Cache.step, admittedOf]
  | flush => simp [Cache.step, admittedOf]

/-- Admitted records carry distinct ids (each is a fresh allocation). -/
theorem admitted_ids (cfg : Cfg) : ∀ (ops : List Op) (c : Cache σ),
    (∀ r ∈ Cache.admittedAll ops (Cache.run P cfg c ops).2, c.nextId ≤ r.id) ∧
    idsNodup (Cache.admittedAll ops (Cache.run P cfg c ops).2) := by
  intro ops
  induction ops with
  | nil => intro c; simp [Cache.run, Cache.admittedAll, idsNodup]
  | cons op ops ih =>
    intro c
    have hs := step_nextId (P := P) cfg c op
    have hr := ih (Cache.step P cfg c op).1
    simp only [Cache.run, Cache.admittedAll]
    generalize Cache.step P cfg c op = st at hs hr ⊢
    obtain ⟨c1, o⟩ := st
    simp only [] at hs hr ⊢
    generalize Cache.run P cfg c1 ops = rn at hr ⊢
    obtain ⟨c2, os⟩ := rn
    simp only [] at hr ⊢
    constructor
    · intro r hr'
      rcases List.mem_append.mp hr' with h | h
      · rw [(hs.2 r h).1]; exact Nat.le_refl _
      · exact Nat.le_trans hs.1 (hr.1 r h)
    · rw [idsNodup_append]
      refine ⟨?_, hr.2, ?_⟩
      · -- at most one record is admitted per step
        unfold admittedOf
        split
        · split <;> simp [idsNodup]
        · simp [idsNodup]
      · intro x hx y hy
        have h1 := hs.2 x hx
        have h2 := hr.1 y hy
        omega

/-- **exactly once**: no record is reported as having left twice, a record that was reported is
not findable any more, and every admitted record is either still findable or was reported. -/
theorem exactly_once (L : Lawful P Ok) (cfg : Cfg) (hn : 0 < cfg.nshards) (cap : Nat) (ops : List Op) :
    let r := Cache.run P cfg (Cache.new P cfg cap) ops
    (Cache.leftAll r.2).Nodup ∧
    (∀ x ∈ Cache.leftAll r.2, x ∉ r.1.findable) ∧
    (∀ x ∈ Cache.admittedAll ops r.2, x ∈ r.1.findable ∨ x ∈ Cache.leftAll r.2) ∧
    (∀ x ∈ Cache.leftAll r.2, x ∈ Cache.admittedAll ops r.2) := by
  have hp := conservation L cfg hn cap ops
  have hid := (admitted_ids (P := P) cfg ops (Cache.new P cfg cap)).2
  simp only [] at hp ⊢
  have hnd : (Cache.admittedAll ops (Cache.run P cfg (Cache.new P cfg cap) ops).2).Nodup := by
    unfold idsNodup at hid
    exact List.Pairwise.of_map (fun r : Rec => r.id) (fun a b hab e => hab (by rw [e])) hid
  have hnd2 := hp.nodup_iff.mp hnd
  rw [List.nodup_append] at hnd2
  refine ⟨hnd2.2.1, ?_, ?_, ?_⟩
  · intro x hx hf
    exact hnd2.2.2 x hf x hx rfl
  · intro x hx
    exact List.mem_append.mp (hp.mem_iff.mp hx)
  · intro x hx
    exact hp.mem_iff.mpr (List.mem_append.mpr (Or.inr hx))

/-- **hand-off iff evicted**: the disk tier is offered exactly the records whose notification says
`evict`, in the same order — for every operation, in every state. -/
theorem pipe_iff_evict (cfg : Cfg) (c : Cache σ) (op : Op) :
    (Cache.step P cfg c op).2.piped = evictedOf (Cache.step P cfg c op).2.leaves := by
  have hclear : ∀ (l : List (Shard σ)) (i0 : Nat),
      evictedOf (mapShards (fun _ (s : Shard σ) =>
        (({ s with index := [], ev := P.clear s.ev, usage := 0, entries := 0 } : Shard σ),
          s.index.map fun r => (Reason.clear, r), false)) i0 l).2.1 = [] := by
    intro l
    induction l with
    | nil => intro i0; simp [mapShards, evictedOf]
    | cons s ss ih =>
      intro i0
      have := ih (i0 + 1)
      simp only [mapShards]
      simp only [evictedOf, List.filter_append, List.map_append] at this ⊢
      rw [this]
      simp
  cases op with
  | ins key ver weight hint phantom loc age => simp only [Cache.step]; split <;> simp [evictedOf]
  | get key =>
    simp only [Cache.step]
    split
    · simp [evictedOf]
    · split <;> simp [evictedOf]
  | touch key =>
    simp only [Cache.step]
    split
    · simp [evictedOf]
    · split <;> simp [evictedOf]
  | contains key => simp only [Cache.step]; split <;> simp [evictedOf]
  | remove key =>
    simp only [Cache.step]
    split
    · simp [evictedOf]
    · split <;> simp [evictedOf]
  | clone rid => simp only [Cache.step]; split <;> simp [evictedOf]
  | drop rid =>
    simp only [Cache.step]
    split
    · simp [evictedOf]
    · split
      · split
        · simp [evictedOf]
        · split <;> simp [evictedOf]
      · simp [evictedOf]
  | clear => simp only [Cache.step]; exact (hclear c.shards 0).symm
  | resize cap => simp [Cache.step]
  | evictAll => simp [Cache.step]
  | flush => simp [Cache.step]

/-- **reason matches cause**: which notifications an operation can produce. -/
theorem reason_correct (cfg : Cfg) (c : Cache σ) (op : Op) :
    ∀ e r, (e, r) ∈ (Cache.step P cfg c op).2.leaves →
      match op with
      | .ins key _ _ _ phantom _ _ =>
          e = Reason.evict ∨ (e = Reason.replace ∧ r.key = key) ∨ (e = Reason.remove ∧ phantom = true ∧ r.phantom = true)
      | .remove key => e = Reason.remove ∧ r.key = key
      | .drop rid => e = Reason.evict ∧ r.phantom = true ∧ r.id = rid
      | .clear => e = Reason.clear
      | .resize _ => e = Reason.evict
      | .evictAll => e = Reason.evict
      | .flush => e = Reason.evict
      | _ => False := by
  have hmapE : ∀ (f : Nat → Shard σ → Shard σ × List (Reason × Rec) × Bool) (E : Reason),
      (∀ i s e r, (e, r) ∈ (f i s).2.1 → e = E) →
      ∀ (l : List (Shard σ)) (i0 : Nat) e r, (e, r) ∈ (mapShards f i0 l).2.1 → e = E := by
    intro f E hf l
    induction l with
    | nil => intro i0 e r h; simp [mapShards] at h
    | cons s ss ih =>
      intro i0 e r h
      simp only [mapShards, List.mem_append] at h
      rcases h with h | h
      · exact hf _ _ e r h
      · exact ih _ e r h
  intro e r h
  cases op with
  | ins key ver weight hint phantom loc age =>
    simp only [Cache.step] at h
    split at h
    · simp at h
    · rename_i s hs
      simp only [Shard.emplace] at h
      split at h
      · rename_i hph
        split at h
        · rename_i old hold
          simp only [List.mem_cons, Prod.mk.injEq, List.mem_nil_iff, or_false] at h
          rcases h with ⟨rfl, rfl⟩ | ⟨rfl, rfl⟩
          · exact Or.inr (Or.inl ⟨rfl, (findKey_some hold).2⟩)
          · exact Or.inr (Or.inr ⟨rfl, hph, hph⟩)
        · simp only [List.mem_cons, Prod.mk.injEq, List.mem_nil_iff, or_false] at h
          obtain ⟨rfl, rfl⟩ := h
          exact Or.inr (Or.inr ⟨rfl, hph, hph⟩)
      · generalize Shard.evict P s (s.cap - weight) = ev at h
        obtain ⟨s1, vs, pk⟩ := ev
        simp only [] at h
        split at h
        · rename_i old hold
          simp only [List.mem_append, List.mem_map, List.mem_singleton, Prod.mk.injEq] at h
          rcases h with ⟨v, _, rfl, rfl⟩ | ⟨rfl, rfl⟩
          · exact Or.inl rfl
          · exact Or.inr (Or.inl ⟨rfl, (findKey_some hold).2⟩)
        · simp only [List.mem_map, Prod.mk.injEq] at h
          obtain ⟨v, _, rfl, rfl⟩ := h
          exact Or.inl rfl
  | get key =>
    simp only [Cache.step] at h
    split at h
    · simp at h
    · split at h <;> simp at h
  | touch key =>
    simp only [Cache.step] at h
    split at h
    · simp at h
    · split at h <;> simp at h
  | contains key => simp only [Cache.step] at h; split at h <;> simp at h
  | remove key =>
    simp only [Cache.step] at h
    split at h
    · simp at h
    · split at h
      · simp at h
      · rename_i r' hr'
        simp only [List.mem_singleton, Prod.mk.injEq] at h
        obtain ⟨rfl, rfl⟩ := h
        exact ⟨rfl, (findKey_some hr').2⟩
  | clone rid => simp only [Cache.step] at h; split at h <;> simp at h
  | drop rid =>
    simp only [Cache.step] at h
    split at h
    · simp at h
    · rename_i r' hr'
      have hid : r'.id = rid := by
        have : ∀ (l : List (Rec × Nat)), heldFind l rid = some r' → r'.id = rid := by
          intro l
          induction l with
          | nil => intro h; simp [heldFind] at h
          | cons x xs ih =>
            intro h
            simp only [heldFind] at h
            split at h
            · rename_i hx; cases h; exact hx
            · exact ih h
        exact this _ hr'
      split at h
      · split at h
        · rename_i hph
          simp only [List.mem_singleton, Prod.mk.injEq] at h
          obtain ⟨rfl, rfl⟩ := h
          exact ⟨rfl, hph, hid⟩
        · split at h <;> simp at h
      · simp at h
  | clear =>
    simp only [Cache.step] at h
    exact hmapE _ Reason.clear (by
      intro i s e r h
      simp only [List.mem_map, Prod.mk.injEq] at h
      obtain ⟨_, _, rfl, _⟩ := h; rfl) c.shards 0 e r h
  | resize cap =>
    simp only [Cache.step] at h
    exact hmapE _ Reason.evict (by
      intro i s e r h
      simp only [List.mem_map, Prod.mk.injEq] at h
      obtain ⟨_, _, rfl, _⟩ := h; rfl) c.shards 0 e r h
  | evictAll =>
    simp only [Cache.step] at h
    exact hmapE _ Reason.evict (by
      intro i s e r h
      simp only [List.mem_map, Prod.mk.injEq] at h
      obtain ⟨_, _, rfl, _⟩ := h; rfl) c.shards 0 e r h
  | flush =>
    simp only [Cache.step] at h
    exact hmapE _ Reason.evict (by
      intro i s e r h
      simp only [List.mem_map, Prod.mk.injEq] at h
      obtain ⟨_, _, rfl, _⟩ := h; rfl) c.shards 0 e r h

/-! ### Non-vacuity -/
namespace Demo
def cfg : Cfg := { nshards := 2, H := fun k => k }
def ops : List Op := [.ins 0 1 1 .normal false, .ins 2 2 1 .normal false, .ins 4 3 2 .normal false, .remove 2, .clear]
/-- a run with an eviction, a replacement, a removal and a clear: 3 admitted, all 3 reported once -/
example : (Cache.admittedAll ops (Cache.run fifoPolicy cfg (Cache.new fifoPolicy cfg 6) ops).2).map (·.ver) = [1, 2, 3] := by decide
example : (Cache.leftAll (Cache.run fifoPolicy cfg (Cache.new fifoPolicy cfg 6) ops).2).map (·.ver) = [1, 2, 3] := by decide
example : (Cache.run fifoPolicy cfg (Cache.new fifoPolicy cfg 6) ops).2.map (fun o => o.leaves.map (·.1)) =
    [[], [], [.evict], [.remove], [.clear]] := by decide
end Demo

end Foyer.C13
