import FoyerProofs.Lemmas.ListRec
