import FoyerModel.Basic
import FoyerModel.Policy
import FoyerModel.Policies.Fifo
import FoyerModel.Policies.Oracle
import FoyerModel.Mem
import FoyerModel.Mon.Mem
