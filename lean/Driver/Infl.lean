import FoyerModel.Inflight
import Driver.Proto
/-
  Driver.Infl — trace validation for the fetch-coalescing domain.
-/
namespace Driver.Infl
open Proto Foyer.Infl

def showRes : Res → String
  | .hit v => s!"hit:{v}" | .val v => s!"val:{v}" | .none => "none"
  | .errFetch => "errfetch" | .errDisk => "errdisk" | .errCancelled => "errcancelled"

def showCaller (c : Caller) : String :=
  match c.st with
  | .pending => s!"{c.id}:p"
  | .done r => s!"{c.id}:{showRes r}"
  | .dropped => s!"{c.id}:dropped"

def parseEv (f : Fields) : Option Ev :=
  let c := getNatD f "c" 0
  let k := getNatD f "k" 0
  match getD f "ev" "" with
  | "call" => some (.call c k (getD f "disk" "0" = "1") (getD f "fetch" "0" = "1"))
  | "disk" => (match tuple (getD f "r" "") with
      | ["hit", v] => v.toNat?.map fun v => Ev.disk c (.hit v)
      | ["miss"] => some (.disk c .miss)
      | ["err"] => some (.disk c .err)
      | _ => none)
  | "origin" => (match tuple (getD f "r" "") with
      | ["ok", v] => v.toNat?.map fun v => Ev.origin c (.ok v)
      | ["err"] => some (.origin c .err)
      | _ => none)
  | "insert" => some (.insert k (getNatD f "v" 0))
  | "pinsert" => some (.pinsert k (getNatD f "v" 0))
  | "remove" => some (.remove k)
  | "dropcaller" => some (.dropCaller c)
  | "abort" => some .abort
  | _ => none

def obs (s : St) (nkeys : Nat) : List (String × String) :=
  [("started", showList (s.started.map toString)),
   ("dstarted", showList (s.dstarted.map toString)),
   ("callers", showList (s.callers.map showCaller)),
   ("cache", showList (sortStrings ((List.range nkeys).filterMap fun k => (s.cache k).map fun v => s!"{k}:{v}")))]

def runEvs (nkeys : Nat) : St → List (Nat × Fields) → Nat → String
  | _, [], n => s!"ACCEPT ops={n}"
  | s, (ln, f) :: rest, n =>
    -- `callabort`: a call whose leader task is cancelled before its first poll = call ; abort, except that
    -- the task's lookup / fetch never started
    let stepped : Option St :=
      if getD f "ev" "" = "callabort" then
        let s1 := step s (.call (getNatD f "c" 0) (getNatD f "k" 0) (getD f "disk" "0" = "1") (getD f "fetch" "0" = "1"))
        let s2 := step s1 .abort
        some { s2 with started := s.started, dstarted := s.dstarted }
      else (parseEv f).map (step s)
    match stepped with
    | none => s!"REJECT line={ln} step={n} field=ev model=? impl={getD f "ev" ""}"
    | some s' =>
      let mm := (obs s' nkeys).find? fun (name, v) =>
        match get? f name with
        | some w => w ≠ v
        | none => false
      match mm with
      | some (name, v) => s!"REJECT line={ln} step={n} field={name} model={v} impl={getD f name ""}"
      | none => runEvs nkeys s' rest (n + 1)

def runTrace (cfgF : Fields) (evs : List (Nat × Fields)) : String := runEvs (getNatD cfgF "keys" 2) {} evs 0

/-! Property monitors on the implementation's own trace (C06, C11). -/

structure MSt where
  /-- per key: the value an explicit insert established and that no later insert / remove /
  successful fetch started *after* it may change: `(key, ver)` -/
  pinnedVal : List (Nat × Nat) := []
  started : List Nat := []
  /-- origin fetches running (started, not yet resolved by the harness), with their key -/
  running : List (Nat × Nat) := []
  callerKey : List (Nat × Nat) := []
  fetchOf : List (Nat × Nat) := []   -- caller ↦ key for callers with a fetch closure

def parseCallers (s : String) : List (Nat × String) :=
  (listOf s).filterMap fun t =>
    match t.splitOn ":" with
    | c :: rest => c.toNat?.map fun c => (c, String.intercalate ":" rest)
    | _ => none

def parseCache (s : String) : List (Nat × Nat) :=
  (listOf s).filterMap fun t =>
    match tuple t with
    | [k, v] => do pure ((← k.toNat?), (← v.toNat?))
    | _ => none

/-- Monitor over observed lines.  Clauses:
  C06 `one_fetch_at_a_time`: a second origin fetch for a key starts while one is still running
      and was not superseded by an insert;
  C06 `every_caller_answered`: at the end of a script in which every future was resolved or
      dropped a caller is still pending (checked by the harness epilogue, field `final=1`);
  C06 `failed_fetch_caches_nothing`;
  C11 `insert_not_overwritten`: after `insert k v` the cache shows another value for `k` although no
      insert / remove of `k` happened since;
  C11 `insert_answers_waiters`: a caller pending on `k` before `insert k v` is not answered `v`. -/
def monitor (evs : List (Nat × Fields)) : String :=
  let evs0 := evs
  let rec go (pinned : List (Nat × Nat)) (running : List (Nat × Nat)) (keyOf : List (Nat × Nat))
      (prevCallers : List (Nat × String)) (prevStarted : List Nat) (prevCache : List (Nat × Nat))
      (superseded : List Nat) (fetchers : List Nat) : List (Nat × Fields) → Nat → String
    | [], _ => "HOLDS"
    | (ln, f) :: rest, n =>
      let cache := parseCache (getD f "cache" "-")
      let callers := parseCallers (getD f "callers" "-")
      let started := natList (getD f "started" "-")
      let c := getNatD f "c" 0
      let k := getNatD f "k" 0
      let ev := getD f "ev" ""
      let keyOf' := if ev = "call" || ev = "callabort" then (c, k) :: keyOf else keyOf
      let newStarted := started.filter fun x => !prevStarted.contains x
      -- bookkeeping of running fetches
      let running0 := if ev = "origin" then running.filter (·.1 ≠ c) else running
      let running0 := if ev = "abort" || ev = "callabort" then [] else running0
      -- an explicit insert supersedes (closes) the fetch in flight for that key
      let running0 := if ev = "insert" || ev = "pinsert" then running0.filter (·.2 ≠ k) else running0
      -- a disk-only insert closes whatever lookup / fetch was in flight for the key: their late results must
      -- change nothing
      let superseded' := if ev = "pinsert" then superseded ++ (keyOf.filter (·.2 = k)).map (·.1) else superseded
      let lateWrite : Bool :=
        (ev = "origin" || ev = "disk") && superseded.contains c &&
          (let kk := ((keyOf.find? (·.1 = c)).map (·.2)).getD 0
           ((cache.find? (·.1 = kk)).map (·.2)) ≠ ((prevCache.find? (·.1 = kk)).map (·.2)))
      let keyOfFetch (x : Nat) : Nat := ((keyOf'.find? (·.1 = x)).map (·.2)).getD 0
      let clash := newStarted.find? fun x => running0.any fun (_, k') => k' = keyOfFetch x
      let running' := running0 ++ newStarted.map fun x => (x, keyOfFetch x)
      let pinned' :=
        if ev = "insert" then (k, getNatD f "v" 0) :: pinned.filter (·.1 ≠ k)
        else if ev = "remove" || ev = "pinsert" then pinned.filter (·.1 ≠ k)
        else pinned
      let overwritten := pinned'.find? fun (pk, pv) =>
        match (cache.find? (·.1 = pk)).map (·.2) with
        | some v => v ≠ pv
        | none => false
      let unanswered : Option Nat :=
        if ev = "insert" || ev = "pinsert" then
          (prevCallers.find? fun (cid, st) =>
            st = "p" && ((keyOf.find? (·.1 = cid)).map (·.2)) = some k &&
              ((callers.find? (·.1 = cid)).map (·.2)) ≠ some s!"val:{getNatD f "v" 0}").map (·.1)
        else none
      let failedCached : Bool :=
        ev = "origin" && getD f "r" "" = "err" &&
          (let kk := keyOfFetch c
           ((cache.find? (·.1 = kk)).map (·.2)) ≠ ((prevCache.find? (·.1 = kk)).map (·.2)))
      -- C17: every value in this domain is produced for exactly one key (origin results, disk hits and inserts
      -- carry fresh values); a caller or a cache slot of another key must never show it
      let valKey : List (Nat × Nat) := (evs0.filterMap fun (_, g) =>
        let gev := getD g "ev" ""
        let gk := getNatD g "k" 0
        let gc := getNatD g "c" 0
        let kOfC := ((keyOf'.find? (·.1 = gc)).map (·.2))
        if gev = "insert" || gev = "pinsert" then some (getNatD g "v" 0, gk)
        else if gev = "origin" || gev = "disk" then
          (match tuple (getD g "r" ""), kOfC with
           | [_, v], some kk => v.toNat?.map fun v => (v, kk)
           | _, _ => none)
        else none)
      let valueOf (st : String) : Option Nat :=
        match st.splitOn ":" with
        | [t, v] => if t = "val" || t = "hit" then v.toNat? else none
        | _ => none
      let foreignCaller : Option (Nat × Nat) := callers.findSome? fun (cid, st) =>
        match valueOf st, (keyOf'.find? (·.1 = cid)).map (·.2) with
        | some v, some kk =>
          (match (valKey.find? (·.1 = v)).map (·.2) with
           | some vk => if vk ≠ kk then some (cid, v) else none
           | none => none)
        | _, _ => none
      let foreignCache : Option (Nat × Nat) := cache.findSome? fun (kk, v) =>
        match (valKey.find? (·.1 = v)).map (·.2) with
        | some vk => if vk ≠ kk then some (kk, v) else none
        | none => none
      -- C06: a caller that brought a fetch closure is answered with a value or an error, never with "nothing"
      let fetchers' := if (ev = "call" || ev = "callabort") && getD f "fetch" "0" = "1" then c :: fetchers else fetchers
      let starved : Option Nat := (callers.find? fun (cid, st) => st = "none" && fetchers'.contains cid).map (·.1)
      -- C06: a caller is answered by whoever completes or takes over the flight; "waiter channel closed" means its
      -- notifier was dropped unanswered
      let closedOn : Option Nat := (callers.find? fun (_, st) => st = "errclosed").map (·.1)
      let hang := (getD f "final" "0" = "1" || ev = "abort" || ev = "callabort") && callers.any fun (_, st) => st = "p"
      -- C18: at the end (nothing held, nothing in flight) a fresh lookup holds the only reference
      let leaked : Option (Nat × Nat) := (listOf (getD f "refs" "-")).findSome? fun t =>
        match tuple t with
        | [kk, r] => (match kk.toNat?, r.toNat? with
            | some kk, some r => if r ≠ 1 then some (kk, r) else none
            | _, _ => none)
        | _ => none
      if leaked.isSome then
        s!"FAILS prop=C18 clause=reference_leaked_by_inflight_path line={ln} step={n} detail=key_{(leaked.getD (0, 0)).1}:_refs()_of_a_fresh_lookup_is_{(leaked.getD (0, 0)).2}_with_no_other_handle_outstanding"
      else
      match foreignCaller, foreignCache with
      | some (cid, v), _ => s!"FAILS prop=C17 clause=foreign_value_to_caller line={ln} step={n} detail=caller_{cid}_received_value_{v}_which_was_produced_for_another_key"
      | _, some (kk, v) => s!"FAILS prop=C17 clause=foreign_value_cached line={ln} step={n} detail=key_{kk}_caches_value_{v}_which_was_produced_for_another_key"
      | none, none =>
      match clash, overwritten, unanswered, hang with
      | some x, _, _, _ => s!"FAILS prop=C06 clause=one_fetch_at_a_time line={ln} step={n} detail=fetch_{x}_started_while_another_fetch_of_its_key_is_running"
      | _, some (pk, pv), _, _ => s!"FAILS prop=C11 clause=insert_not_overwritten line={ln} step={n} detail=key_{pk}_inserted_v{pv}_but_cache_shows_another_value"
      | _, _, some cid, _ => s!"FAILS prop=C11 clause=insert_answers_waiters line={ln} step={n} detail=caller_{cid}_was_waiting_and_did_not_receive_the_inserted_value"
      | _, _, _, true => s!"FAILS prop=C06 clause=every_caller_answered line={ln} step={n} detail=a_caller_is_still_pending_after_all_fetch_tasks_were_cancelled_or_all_futures_resolved"
      | none, none, none, false =>
        if failedCached then s!"FAILS prop=C06 clause=failed_fetch_caches_nothing line={ln} step={n} detail=-"
        else if lateWrite then s!"FAILS prop=C11 clause=late_result_after_disk_only_insert line={ln} step={n} detail=the_lookup_or_fetch_{c}_was_closed_by_a_disk-only_insert_of_its_key_but_its_late_result_changed_the_cache"
        else if closedOn.isSome then s!"FAILS prop=C06 clause=waiter_notifier_dropped_unanswered line={ln} step={n} detail=caller_{closedOn.getD 0}_was_told_that_its_waiter_channel_closed_instead_of_being_answered"
        else if starved.isSome then s!"FAILS prop=C06 clause=fetch_caller_answered_nothing line={ln} step={n} detail=caller_{starved.getD 0}_brought_a_fetch_closure_and_was_answered_with_no_entry_and_no_error"
        else go pinned' running' keyOf' callers started cache superseded' fetchers' rest (n + 1)
  go [] [] [] [] [] [] [] [] evs 0

end Driver.Infl
