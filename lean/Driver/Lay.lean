import FoyerModel.BlockSpec
import Driver.Proto
/-
  Driver.Lay — trace validation of the real `Splitter` against `FoyerModel.Block.split`, and the C07
  monitor (in-bounds / aligned / non-overlapping placement; a scan reads back exactly what was
  written) evaluated on the implementation's own output.
-/
namespace Driver.Lay
open Proto Foyer.Blk

def showBEI (e : BEI) : String := s!"{e.hash}.{e.seq}.{e.off}.{e.len}"

def showParts (blocks : List (List Part)) : String :=
  let rec go : List (List Part) → Nat → List String
    | [], _ => []
    | b :: bs, i => (b.map fun p => s!"{i}:{p.blobOff}:{p.partOff}:{p.dataLen}:{p.indices.length}") ++ go bs (i + 1)
  showList (go blocks 0)

def showIdx (blocks : List (List Part)) : String :=
  let rec go : List (List Part) → Nat → List String
    | [], _ => []
    | b :: bs, i => (b.map fun p =>
        let es := if p.index.isEmpty then "_" else String.intercalate "," (p.index.map showBEI)
        s!"{i}:{p.blobOff}:{es}") ++ go bs (i + 1)
  showList (go blocks 0)

def showPos (blocks : List (List Part)) : String :=
  let rec go : List (List Part) → Nat → List String
    | [], _ => []
    | b :: bs, i => (b.flatMap fun p => p.indices.map fun e => s!"{e.seq}:{i}:{p.blobOff + e.off}:{e.len}") ++ go bs (i + 1)
  showList (go blocks 0)

def infosOf (f : Fields) : List Info :=
  let from_ := getNatD f "from" 1
  let lens := natList (getD f "lens" "-")
  let rec go : List Nat → Nat → List Info
    | [], _ => []
    | l :: ls, i => { hash := 1000 + from_ + i, seq := from_ + i, len := l } :: go ls (i + 1)
  go lens 0

def posPairs (blocks : List (List Part)) (b0 : Nat) : List (Nat × Nat) :=
  let rec go : List (List Part) → Nat → List (Nat × Nat)
    | [], _ => []
    | b :: bs, i => (b.flatMap fun p => p.indices.map fun e => (b0 + i, p.blobOff + e.off)) ++ go bs (i + 1)
  go blocks 0

def runOps (c : LCfg) : Ctx → Spec → List (Nat × Fields) → Nat → String
  | _, _, [], n => s!"ACCEPT ops={n}"
  | ctx, sp, (ln, f) :: rest, n =>
    let (ctx', blocks) := split c ctx (infosOf f)
    -- the specification (monotone cursor allocator) must place the entries where the splitter model does
    let (sp', specPos) := placeAll c sp (infosOf f)
    let expect := [("ret", "ok"), ("nblocks", toString blocks.length), ("parts", showParts blocks),
                   ("pos", showPos blocks), ("idx", showIdx blocks)]
    if specPos ≠ posPairs blocks sp.done.length then
      s!"REJECT line={ln} step={n} field=spec model={(toString (repr specPos)).take 120} impl={(toString (repr (posPairs blocks sp.done.length))).take 120}"
    else
    match expect.find? (fun (name, v) => getD f name v ≠ v) with
    | some (name, v) =>
      let impl := getD f name ""
      s!"REJECT line={ln} step={n} field={name} model={(v.take 160).toString} impl={(impl.take 160).toString}"
    | none => runOps c ctx' sp' rest (n + 1)

def runTrace (cfgF : Fields) (ops : List (Nat × Fields)) : String :=
  let c : LCfg := { B := getNatD cfgF "block" 16384, I := getNatD cfgF "index" 4096 }
  runOps c (Ctx.new c) {} ops 0

/-! ### monitor -/

structure BlockImg where
  /-- occupied byte ranges (start, length): index pages and entries -/
  used : List (Nat × Nat) := []
  idx : IdxMap := []
  written : List Placed := []

structure MSt where
  /-- images of the blocks, newest (current) first -/
  blocks : List BlockImg := [{}]

def parseBEI (s : String) : Option BEI :=
  match s.splitOn "." with
  | [h, q, o, l] => do pure { hash := ← h.toNat?, seq := ← q.toNat?, off := ← o.toNat?, len := ← l.toNat? }
  | _ => none

/-- (block index in batch, blob offset, entries) of every index page the batch wrote -/
def parseIdx (s : String) : List (Nat × Nat × Option (List BEI)) :=
  (listOf s).filterMap fun t =>
    match t.splitOn ":" with
    | [b, o, es] => do
      let b ← b.toNat?
      let o ← o.toNat?
      if es = "BAD" then pure (b, o, none)
      else if es = "_" then pure (b, o, some [])
      else pure (b, o, some ((es.splitOn ",").filterMap parseBEI))
    | _ => none

def parseParts (s : String) : List (Nat × Nat × Nat × Nat) :=
  (listOf s).filterMap fun t =>
    match (t.splitOn ":").filterMap String.toNat? with
    | [b, bo, po, dl, _] => some (b, bo, po, dl)
    | _ => none

def parsePos (s : String) : List (Nat × Nat × Nat × Nat) :=
  (listOf s).filterMap fun t =>
    match (t.splitOn ":").filterMap String.toNat? with
    | [sq, b, off, len] => some (sq, b, off, len)
    | _ => none

def setNth {α : Type} : List α → Nat → α → List α
  | [], _, _ => []
  | _ :: xs, 0, a => a :: xs
  | x :: xs, i + 1, a => x :: setNth xs i a

def monitor (cfgF : Fields) (ops : List (Nat × Fields)) : String :=
  let c : LCfg := { B := getNatD cfgF "block" 16384, I := getNatD cfgF "index" 4096 }
  let rec go (st : MSt) : List (Nat × Fields) → Nat → String
    | [], _ => "HOLDS"
    | (ln, f) :: rest, n =>
      let fail (clause detail : String) : String :=
        s!"FAILS prop=C07 clause={clause} line={ln} step={n} detail={detail.replace " " "_"}"
      if getD f "ret" "ok" = "panic" then fail "splitter_panicked" "Splitter::split panicked"
      else if getD f "ret" "ok" = "deadlock" then fail "splitter_does_not_terminate" "Splitter::split made no progress for the watchdog period"
      else
      let nblocks := getNatD f "nblocks" 1
      -- block j of the batch: j = 0 is the current block, j > 0 are fresh blocks
      let imgs0 : List BlockImg := (List.replicate (nblocks - 1) ({} : BlockImg)).reverse ++ st.blocks
      -- index of batch-block j in `imgs0` (newest first): nblocks - 1 - j
      let pos (j : Nat) : Nat := nblocks - 1 - j
      let parts := parsePos (getD f "pos" "-")
      let idxs := parseIdx (getD f "idx" "-")
      let pparts := parseParts (getD f "parts" "-")
      -- placement checks, entry by entry
      let step1 : Except String (List BlockImg) :=
        parts.foldlM (fun imgs (sq, b, off, len) =>
          match imgs[pos b]? with
          | none => .error (fail "entry_in_unknown_block" s!"seq {sq} block {b}")
          | some img =>
            let alen := alignUp c.P len
            if off % c.P ≠ 0 then .error (fail "entry_not_page_aligned" s!"seq {sq} at {off}")
            else if off + alen > c.B then .error (fail "entry_crosses_block_end" s!"seq {sq} at {off} len {len}")
            else match img.used.find? (fun (a, m) => overlaps a m off alen) with
              | some (a, m) => .error (fail "entry_overlaps" s!"seq {sq} at {off}+{alen} overlaps {a}+{m}")
              | none =>
                let pl : Placed := { hash := 1000 + sq, seq := sq, off := off, len := len }
                let img' : BlockImg := { used := (off, alen) :: img.used, idx := img.idx, written := img.written ++ [pl] }
                .ok (setNth imgs (pos b) img'))
          imgs0
      match step1 with
      | .error e => e
      | .ok imgs1 =>
        -- index pages: in bounds, not on top of an entry; then they become part of the image
        let step2 : Except String (List BlockImg) :=
          idxs.foldlM (fun imgs (b, o, es) =>
            match imgs[pos b]?, es with
            | none, _ => .error (fail "index_in_unknown_block" s!"block {b}")
            | _, none => .error (fail "index_page_unreadable" s!"block {b} offset {o}")
            | some img, some es =>
              if o % c.P ≠ 0 || o + c.I > c.B then .error (fail "index_page_out_of_block" s!"offset {o}")
              else match img.used.find? (fun (a, m) => a ≠ o && overlaps a m o c.I) with
                | some (a, m) => .error (fail "index_page_overlaps" s!"index at {o} overlaps {a}+{m}")
                | none =>
                  let dataRange := (pparts.find? fun (b', bo, _, _) => b' = b && bo = o).map fun (_, bo, po, dl) => (bo + po, dl)
                  let (ds, dl) := dataRange.getD (0, 0)
                  let idx1 := img.idx.filter fun (o', _) => !(overlaps o' c.I ds dl) && !(overlaps o' c.I o c.I)
                  let used' := if img.used.any (·.1 = o) then img.used else (o, c.I) :: img.used
                  let img' : BlockImg := { used := used', idx := (o, es) :: idx1, written := img.written }
                  .ok (setNth imgs (pos b) img'))
            imgs1
        match step2 with
        | .error e => e
        | .ok imgs2 =>
          -- a scan of every block of the batch reads back exactly what was written to it
          let bad := (List.range nblocks).find? fun j =>
            match imgs2[pos j]? with
            | some img => recoverBlock c img.idx ≠ img.written
            | none => false
          match bad with
          | some j =>
            let img := (imgs2[pos j]?).getD {}
            fail "scan_differs_from_written" s!"block {j} of the batch: scan finds {(recoverBlock c img.idx).length} entries, {img.written.length} were written"
          | none => go { blocks := imgs2 } rest (n + 1)
  go {} ops 0

end Driver.Lay
