import FoyerModel.Block
import FoyerModel.Hybrid
import Driver.Proto
/-
  Driver.Crash — C04: for every crash point of a recorded workload (every prefix of the device
  writes, page-granular tears of the write at the crash point) the reads of the reopened real store are
  compared with the recovery model (`FoyerModel.Block.recoverBlock` per block, then the sequence-guarded
  index of `FoyerModel.Hybrid`), and the C04 monitor is evaluated on the implementation's reads.
-/
namespace Driver.Crash
open Proto Foyer.Blk

structure DEnt where
  off : Nat      -- offset inside the write
  hash : Nat
  seq : Nat
  key : Nat
  ver : Nat
  len : Nat
deriving Repr

inductive Payload where
  | data (es : List DEnt)
  | index (es : List BEI)
  | clean
  | tomb (slots : List (Nat × Nat × Nat))
deriving Repr

structure Wr where
  id : Nat
  part : Nat
  off : Nat
  len : Nat
  pl : Payload
deriving Repr

def nats (s : String) (sep : String) : List Nat := (s.splitOn sep).filterMap String.toNat?

def parsePayload (s : String) : Payload :=
  match s.splitOn ":" with
  | ["data", es] =>
    .data ((if es = "-" then [] else es.splitOn ",").filterMap fun e =>
      match nats e "." with
      | [o, h, q, k, v, l] => some { off := o, hash := h, seq := q, key := k, ver := v, len := l }
      | _ => none)
  | ["index", es] =>
    .index ((if es = "-" then [] else es.splitOn ",").filterMap fun e =>
      match nats e "." with
      | [h, q, o, l] => some { hash := h, seq := q, off := o, len := l }
      | _ => none)
  | ["tomb", es] =>
    .tomb ((if es = "-" then [] else es.splitOn ",").filterMap fun e =>
      match nats e "." with
      | [s, h, q] => some (s, h, q)
      | _ => none)
  | _ => .clean

def parseWrites (f : Fields) : List Wr :=
  let s := getD f "wr" "-"
  if s = "-" then [] else
  (s.splitOn "|").filterMap fun t =>
    match t.splitOn "@" with
    | [i, p, o, l, pl] => do
      pure { id := ← i.toNat?, part := ← p.toNat?, off := ← o.toNat?, len := ← l.toNat?, pl := parsePayload pl }
    | _ => none

/-! ### the image model -/

structure Stored where
  block : Nat
  off : Nat
  e : DEnt

structure Img where
  idx : List (Nat × IdxMap) := []          -- per block
  ents : List Stored := []
  tombs : List (Nat × Nat × Nat) := []     -- slot, hash, seq

def idxOf (im : Img) (b : Nat) : IdxMap := ((im.idx.find? (·.1 = b)).map (·.2)).getD []
def setIdx (im : Img) (b : Nat) (m : IdxMap) : Img := { im with idx := (b, m) :: im.idx.filter (·.1 ≠ b) }

def PAGE : Nat := 4096
def cfgL : LCfg := { B := 16384, I := 4096 }

/-- apply the first `bytes` bytes of a write -/
def applyWr (tomb : Bool) (im : Img) (w : Wr) (bytes : Nat) : Img :=
  let first := if tomb then 1 else 0
  if w.part < first then
    match w.pl with
    | .tomb slots =>
      let lo := w.off / 16
      let hi := (w.off + bytes) / 16
      { im with tombs := slots.filter (fun s => s.1 ≥ lo && s.1 < hi) ++ im.tombs.filter (fun s => !(s.1 ≥ lo && s.1 < hi)) }
    | _ =>
      let lo := w.off / 16
      let hi := (w.off + bytes) / 16
      { im with tombs := im.tombs.filter (fun s => !(s.1 ≥ lo && s.1 < hi)) }
  else
    let b := w.part - first
    -- whatever lay in the written range is gone
    let m0 := (idxOf im b).filter fun (o, _) => !(overlaps o cfgL.I w.off bytes)
    let ents0 := im.ents.filter fun s => !(s.block = b && overlaps s.off (alignUp PAGE s.e.len) w.off bytes)
    match w.pl with
    | .index es =>
      if bytes ≥ w.len then { setIdx im b ((w.off, es) :: m0) with ents := ents0 } else { setIdx im b m0 with ents := ents0 }
    | .data es =>
      let whole := es.filter fun e => e.off + e.len ≤ bytes
      { setIdx im b m0 with ents := whole.map (fun e => { block := b, off := w.off + e.off, e := e }) ++ ents0 }
    | _ => { setIdx im b m0 with ents := ents0 }

open Foyer.Hyb in
/-- recovery + lookup of every key -/
def readsOf (tomb : Bool) (nblocks nkeys : Nat) (im : Img) : List (Nat × Option Nat) :=
  let placed : List (Nat × Placed) := (List.range nblocks).flatMap fun b => (recoverBlock cfgL (idxOf im b)).map fun p => (b, p)
  let disk : List DiskEnt := placed.map fun (b, p) =>
    -- `load` reads `align_up(len)` bytes at the indexed position and accepts any entry there whose header,
    -- range and checksum are fine; the caller then compares the decoded key
    -- an indexed range that leaves the block (only a misdirected index page can produce one) makes the
    -- device read fail: the lookup reports an error and the index keeps the entry
    if p.off + alignUp PAGE p.len > cfgL.B then { key := 1000000009, hash := p.hash, ver := 0, seq := p.seq } else
    match im.ents.find? (fun s => s.block = b && s.off = p.off && alignUp PAGE s.e.len ≤ alignUp PAGE p.len) with
    | some s => { key := s.e.key, hash := p.hash, ver := s.e.ver, seq := p.seq }
    | none => { key := 1000000007, hash := p.hash, ver := 0, seq := p.seq }     -- unreadable: every lookup misses
  let tombs := if tomb then im.tombs.map (fun s => (s.2.1, s.2.2)) else []
  let ix0 := recover disk tombs
  -- `BlockManager::init` (clean-block threshold 1): a device recovered without a clean block reclaims its
  -- oldest block at once; the reclaimer's `wait()` makes the flusher take that block as its current one,
  -- which leaves the clean queue empty again, so the next oldest block is reclaimed as well
  let perBlock : List (Nat × List Placed) := (List.range nblocks).map fun b => (b, recoverBlock cfgL (idxOf im b))
  let anyClean := perBlock.any fun (_, ps) => ps.isEmpty
  let firstSeq (ps : List Placed) : Nat := (ps.head?.map (·.seq)).getD 0
  let sorted := perBlock.foldl (fun (acc : List (List Placed)) (_, ps) =>
    let rec ins : List (List Placed) → List (List Placed)
      | [] => [ps]
      | q :: qs => if firstSeq ps < firstSeq q then ps :: q :: qs else q :: ins qs
    ins acc) []
  let victims : List Placed := if anyClean then [] else (sorted.take 2).flatten
  let ix := victims.foldl (fun ix p => indexRemoveSeq ix p.hash p.seq) ix0
  (List.range nkeys).map fun k =>
    match indexAddr ix k with
    | some e => if e.key = 1000000009 then (k, some 18446744073709551614) else if e.key = k then (k, some e.ver) else (k, none)
    | none => (k, none)

def showReads (r : List (Nat × Option Nat)) : String :=
  String.intercalate ";" (r.map fun (k, v) => match v with
    | some v => s!"{k}:{v}"
    | none => s!"{k}:miss")

def runTrace (cfgF : Fields) (ops : List (Nat × Fields)) : String :=
  let tomb := getD cfgF "tomb" "0" = "1"
  let nblocks := getNatD cfgF "blocks" 4
  let nkeys := getNatD cfgF "keys" 2
  let writes := (ops.filter fun (_, f) => getD f "op" "" ≠ "crash").flatMap fun (_, f) => parseWrites f
  let rec go : List (Nat × Fields) → Nat → String
    | [], n => s!"ACCEPT ops={n}"
    | (ln, f) :: rest, n =>
      if getD f "op" "" ≠ "crash" then go rest (n + 1)
      else
        let at_ := getNatD f "at" 0
        let torn := getNatD f "torn" 0
        let im0 := (writes.take at_).foldl (fun im w => applyWr tomb im w w.len) {}
        let im := match torn, writes[at_]? with
          | 0, _ => im0
          | p, some w => applyWr tomb im0 w (p * PAGE)
          | _, none => im0
        let model := showReads (readsOf tomb nblocks nkeys im)
        let impl := getD f "reads" "-"
        if getD f "open" "ok" ≠ "ok" then s!"REJECT line={ln} step={n} field=open model=ok impl={getD f "open" ""}"
        else if model ≠ impl then s!"REJECT line={ln} step={n} field=reads model={model} impl={impl}"
        else go rest (n + 1)
  go ops 0

/-! ### monitor -/

inductive KOp where
  | ins (ver : Nat)
  | rm
deriving Repr, DecidableEq

structure KEv where
  key : Nat
  op : KOp
  /-- index of the write that makes the operation durable (index page listing the version / the
  tombstone page), if it ever becomes durable -/
  durable : Option Nat
  /-- number of writes issued when the application saw the next `wait` return (∞ if none) -/
  acked : Option Nat

def parseReads (s : String) : List (Nat × String) :=
  (listOf s).filterMap fun t =>
    match t.splitOn ":" with
    | [k, v] => k.toNat?.map fun k => (k, v)
    | _ => none

def monitor (cfgF : Fields) (ops : List (Nat × Fields)) : String :=
  let tomb := getD cfgF "tomb" "0" = "1"
  let work := ops.filter fun (_, f) => getD f "op" "" ≠ "crash"
  let writes := work.flatMap fun (_, f) => parseWrites f
  let reclaimAt : Option Nat := (writes.find? fun w => match w.pl with
    | .clean => true
    | _ => false).map (·.id)
  -- per line: number of writes issued up to and including it
  let counts : List Nat :=
    (work.foldl (fun (acc : List Nat × Nat) (_, f) => let n := acc.2 + (parseWrites f).length; (acc.1 ++ [n], n)) ([], 0)).1
  let lines := work.map (·.2)
  -- where a version of a key becomes durable: the index page listing its (hash, seq)
  let seqOf (k v : Nat) : Option Nat :=
    writes.findSome? fun w => match w.pl with
      | .data es => (es.find? fun e => e.key = k && e.ver = v).map (·.seq)
      | _ => none
  let durableIns (k v : Nat) : Option Nat :=
    match seqOf k v with
    | none => none
    | some q => (writes.find? fun w => match w.pl with
        | .index es => es.any fun e => e.hash = k && e.seq = q
        | _ => false).map (·.id + 1)
  let ackAfter (lineIdx : Nat) (durable : Nat) : Option Nat :=
    -- the first wait / unhold line at or after `lineIdx` whose writes include the durable point
    let rec find : List (Nat × Fields × Nat) → Option Nat
      | [] => none
      | (i, f, cnt) :: rest =>
        if i > lineIdx && (getD f "op" "" = "wait" || getD f "op" "" = "unhold") && cnt ≥ durable then some cnt else find rest
    find ((List.range lines.length).zip (lines.zip counts) |>.map fun (i, (f, c)) => (i, f, c))
  let evs : List KEv := ((List.range lines.length).zip lines).filterMap fun (i, f) =>
    let k := getNatD f "k" 0
    match getD f "op" "" with
    | "ins" | "wins" =>
      if getD f "op" "" = "wins" && getD f "ret" "" ≠ "some" then none else
      let v := getNatD f "v" 0
      let d := durableIns k v
      some { key := k, op := .ins v, durable := d, acked := d.bind (ackAfter i) }
    | "rm" =>
      -- durable with the tombstone log only: the tombstone page written by the flush that follows
      -- (if no such page is ever written, the delete still counts as acknowledged by the next completed
      -- wait(): from then on the key must not come back)
      let d : Option Nat := if tomb then
          match (writes.find? fun w => w.id ≥ (counts[i - 1]?).getD 0 && (match w.pl with
            | .tomb slots => slots.any fun s => s.2.1 = k
            | _ => false)).map (·.id + 1) with
          | some x => some x
          | none => counts[i]?
        else none
      some { key := k, op := .rm, durable := d, acked := d.bind (ackAfter i) }
    | _ => none
  let versionsOf (k : Nat) : List Nat := evs.filterMap fun e => match e.op with
    | .ins v => if e.key = k then some v else none
    | .rm => none
  let rec go : List (Nat × Fields) → Nat → String
    | [], _ => "HOLDS"
    | (ln, f) :: rest, n =>
      let fail (clause detail : String) : String :=
        s!"FAILS prop=C04 clause={clause} line={ln} step={n} detail={detail.replace " " "_"}"
      if getD f "ret" "" = "deadlock" then
        (if (get? f "post").isSome then
           fail "writes_stall_after_crash_recovery" s!"the store recovered from crash point {getD f "at" ""} accepts a write but wait()/close() never return"
         else fail "reopen_stalls" "opening the crash image made no progress")
      else if getD f "op" "" ≠ "crash" then go rest (n + 1)
      else if getD f "open" "ok" ≠ "ok" then fail "reopen_failed" s!"open={getD f "open" ""} at crash point {getD f "at" ""}"
      else
        let at_ := getNatD f "at" 0
        let reads := parseReads (getD f "reads" "-")
        let bad := reads.findSome? fun (k, v) =>
          if v = "miss" then none
          else match v.toNat? with
            | none => some (fail "garbage_after_crash" s!"key {k} reads as {v} at crash point {at_}")
            | some ver => if (versionsOf k).contains ver then none
                          else some (fail "value_never_inserted" s!"key {k} reads as version {ver}, never inserted for it (crash point {at_})")
        match bad with
        | some e => e
        | none =>
          -- acknowledged writes / deletes survive while no block has been reclaimed
          let reclaimed : Bool := (match reclaimAt with
            | some r => decide (r < at_)
            | none => false) || getNatD f "oclean" 0 > 0
          let ackBad : Option String := if reclaimed then none else reads.findSome? fun (k, v) =>
            let mine := evs.filter (·.key = k)
            -- the last operation on k (in program order) that was acknowledged before the crash
            let lastAcked := (mine.reverse.find? fun e => match e.acked with
              | some a => a ≤ at_
              | none => false)
            match lastAcked with
            | none => none
            | some e =>
              let later := mine.dropWhile (fun x => !(x.op == e.op && x.durable == e.durable))
              let laterIns := later.drop 1 |>.filterMap fun x => match x.op with
                | .ins v => some v
                | .rm => none
              let laterRm := (later.drop 1).any fun x => x.op == .rm
              match e.op with
              | .ins v0 =>
                if v = "miss" then
                  if laterRm then none else some (fail "acked_version_lost" s!"key {k}: version {v0} was flushed and acknowledged before crash point {at_}, the key reads as a miss")
                else match v.toNat? with
                  | some ver => if ver = v0 || laterIns.contains ver then none
                                else some (fail "acked_version_regressed" s!"key {k}: version {v0} was flushed and acknowledged before crash point {at_}, the key reads as the older version {ver}")
                  | none => none
              | .rm =>
                if v = "miss" then none
                else match v.toNat? with
                  | some ver => if laterIns.contains ver then none
                                else some (fail "acked_delete_resurrected" s!"key {k}: its delete was logged and acknowledged before crash point {at_}, the key reads as version {ver}")
                  | none => none
          match ackBad with
          | some e => e
          | none =>
            -- a version written after the restart supersedes everything from before it
            let postBad : Option String :=
              match (getD f "post" "").splitOn ":" with
              | [pk, pv] =>
                (match pk.toNat?, pv.toNat? with
                 | some pk, some pv =>
                   let r2 := parseReads (getD f "reads2" "-")
                   (match (r2.find? (·.1 = pk)).map (·.2) with
                    | some v => if v = toString pv || v = "miss" then none
                                else some (fail "pre_restart_version_supersedes_new_one" s!"key {pk} was written as {pv} after the restart, the next restart reads {v}")
                    | none => none)
                 | _, _ => none)
              | _ => none
            -- nothing but the post-restart write happened between the two restarts: every other key reads the same
            -- after the second restart, or is gone (block reclaim) - in particular a deleted key stays deleted
            let postKey : Option Nat := match (getD f "post" "").splitOn ":" with
              | [pk, _] => pk.toNat?
              | _ => none
            let driftBad : Option String :=
              if (get? f "reads2").isNone then none else
              let r2 := parseReads (getD f "reads2" "-")
              reads.findSome? fun (k, v1) =>
                if some k = postKey then none else
                match (r2.find? (·.1 = k)).map (·.2) with
                | some v2 =>
                  if v2 = v1 || v2 = "miss" then none
                  else some (fail "second_restart_changes_what_a_key_reads" s!"key {k} read {v1} after the restart from crash point {at_} and reads {v2} after one more restart although it was not written in between")
                | none => none
            match postBad <|> driftBad with
            | some e => e
            | none => go rest (n + 1)
  go ops 0

end Driver.Crash
