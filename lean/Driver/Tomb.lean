import FoyerModel.Tomb
import Driver.Proto
/-
  Driver.Tomb — trace validation of the real `TombstoneLog` against `FoyerModel.Tomb`, plus the
  C10 monitor evaluated on the implementation's own answers.
-/
namespace Driver.Tomb
open Proto Foyer.Tomb

def showSlots (slots : List Tomb) : String :=
  let rec go : List Tomb → Nat → List String → List String
    | [], _, acc => acc.reverse
    | t :: ts, i, acc => if t.hash = 0 && t.seq = 0 then go ts (i + 1) acc else go ts (i + 1) (s!"{i}:{t.hash}:{t.seq}" :: acc)
  showList (go slots 0 [])

def showRecovered (ts : List Tomb) : String := showList (ts.map fun t => s!"{t.hash}:{t.seq}")

def stepLine (l : Log) (f : Fields) : Log × List (String × String) :=
  match getD f "op" "" with
  | "open" => (l, [("recovered", showRecovered (recovered l.slots)), ("slots", showSlots l.slots)])
  | "append" =>
    let n := getNatD f "n" 0
    let from_ := getNatD f "from" 0
    let l' := (List.range n).foldl (fun acc i => append acc { hash := 1000 + from_ + i, seq := from_ + i }) l
    (l', [("slots", showSlots l'.slots)])
  | "reopen" =>
    let l' := openLog l.pages l.slots
    (l', [("recovered", showRecovered (recovered l'.slots)), ("slots", showSlots l'.slots)])
  | _ => (l, [("op", "?")])

def runOps : Log → List (Nat × Fields) → Nat → String
  | _, [], n => s!"ACCEPT ops={n}"
  | l, (ln, f) :: rest, n =>
    let (l', expect) := stepLine l f
    match expect.find? (fun (name, v) => getD f name v ≠ v) with
    | some (name, v) =>
      let impl := getD f name ""
      s!"REJECT line={ln} step={n} field={name} model={(v.take 120).toString} impl={(impl.take 120).toString}"
    | none => runOps l' rest (n + 1)

def runTrace (cfgF : Fields) (ops : List (Nat × Fields)) : String :=
  runOps (fresh (getNatD cfgF "pages" 1)) ops 0

/-- C10 monitor: below capacity, every tombstone appended so far must be among the recovered ones
after each reopen (computed from the operations issued and the implementation's `recovered`). -/
def monitor (cfgF : Fields) (ops : List (Nat × Fields)) : String :=
  let cap := getNatD cfgF "pages" 1 * SPP
  let rec go (total : Nat) : List (Nat × Fields) → Nat → String
    | [], _ => "HOLDS"
    | (ln, f) :: rest, n =>
      match getD f "op" "" with
      | "append" => go (total + getNatD f "n" 0) rest (n + 1)
      | "reopen" =>
        if total + 1 ≤ cap then
          let rec_ := (listOf (getD f "recovered" "-")).filterMap fun t =>
            match tuple t with
            | [_, s] => s.toNat?
            | _ => none
          let missing := (List.range total).find? fun i => !rec_.contains (i + 1)
          match missing with
          | some i => s!"FAILS prop=C10 clause=flushed_delete_lost_after_reopen line={ln} step={n} detail=tombstone_seq_{i + 1}_of_{total}_not_recovered"
          | none => go total rest (n + 1)
        else go total rest (n + 1)
      | _ => go total rest (n + 1)
  go 0 ops 0

end Driver.Tomb
