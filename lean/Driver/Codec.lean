import FoyerModel.Codec
import FoyerModel.XxHash
import Driver.Proto
/-
  Driver.Codec — recomputes every encoding the real code produced with the Lean model.
-/
namespace Driver.Codec
open Proto Foyer.Codec

def hexDigit (c : Char) : Option Nat :=
  if '0' ≤ c ∧ c ≤ '9' then some (c.toNat - '0'.toNat)
  else if 'a' ≤ c ∧ c ≤ 'f' then some (c.toNat - 'a'.toNat + 10)
  else none

def parseHex (s : String) : Option (List Nat) :=
  if s = "-" || s = "" then some []
  else
    let rec go : List Char → List Nat → Option (List Nat)
      | [], acc => some acc.reverse
      | [_], _ => none
      | a :: b :: rest, acc => do
        let x ← hexDigit a
        let y ← hexDigit b
        go rest ((x * 16 + y) :: acc)
    go s.toList []

def toHex (bs : List Nat) : String :=
  if bs.isEmpty then "-" else
  String.ofList (bs.flatMap fun b =>
    let d (n : Nat) : Char := if n < 10 then Char.ofNat (n + '0'.toNat) else Char.ofNat (n - 10 + 'a'.toNat)
    [d (b / 16), d (b % 16)])

def parseInt (s : String) : Option Int :=
  if s.startsWith "-" then (s.drop 1).toNat?.map fun n => -(n : Int) else s.toNat?.map fun n => (n : Int)

structure PushSt where
  buf : Buf

def widthOf : String → Option (Nat × Bool)
  | "u8" => some (1, false) | "i8" => some (1, true)
  | "u16" => some (2, false) | "i16" => some (2, true)
  | "u32" => some (4, false) | "i32" => some (4, true)
  | "u64" => some (8, false) | "i64" => some (8, true)
  | "usize" => some (8, false) | "isize" => some (8, true)
  | "u128" => some (16, false) | "i128" => some (16, true)
  | "f32" => some (4, false) | "f64" => some (8, false)
  | _ => none

def bad (ln : Nat) (n : Nat) (field model impl : String) : String :=
  s!"REJECT line={ln} step={n} field={field} model={model} impl={impl}"

/-- Check one item; returns the new push state and an optional mismatch. -/
def checkItem (st : Buf) (f : Fields) : Buf × Option (String × String × String) :=
  let t := getD f "t" ""
  let hexS := getD f "hex" "-"
  let common (expected : List Nat) (w : Nat) : Option (String × String × String) :=
    if toHex expected ≠ hexS then some ("hex", toHex expected, hexS)
    else if getD f "rt" "1" ≠ "1" then some ("rt", "1", getD f "rt" "")
    else if w > 0 && getD f "small" "BufferSizeLimit" ≠ "BufferSizeLimit" then some ("small", "BufferSizeLimit", getD f "small" "")
    else if getNatD f "est" w ≠ w then some ("est", toString w, getD f "est" "")
    else none
  match widthOf t with
  | some (w, signed) =>
    (match parseInt (getD f "v" "") with
      | none => (st, some ("v", "int", getD f "v" ""))
      | some i =>
        let enc := if signed then encInt w i else encLE w i.toNat
        -- decode with the model as well
        let decOk : Bool := if signed then decInt w enc == some (i, []) else decLE w enc == some (i.toNat, [])
        if !decOk then (st, some ("model-decode", "roundtrip", "failed")) else (st, common enc w))
  | none =>
  match t with
  | "bool" =>
    let b := getD f "v" "0" = "1"
    (st, common (encBool b) 1)
  | "boolbad" =>
    let r := decBool [getNatD f "b" 0]
    let m := match r with | .error .parse => "Parse" | .error _ => "other" | .ok _ => "ok"
    (st, if m = getD f "err" "" then none else some ("err", m, getD f "err" ""))
  | "vec" =>
    (match parseHex (getD f "data" "-") with
      | none => (st, some ("data", "hex", getD f "data" ""))
      | some d =>
        let enc := encVec d
        let decOk := match decVec enc with | .ok (x, []) => x == d | _ => false
        if !decOk then (st, some ("model-decode", "roundtrip", "failed"))
        else if getD f "same_as_bytes" "1" ≠ "1" then (st, some ("same_as_bytes", "1", "0"))
        else (st, common enc (8 + d.length)))
  | "vectrunc" =>
    (match parseHex (getD f "data" "-") with
      | none => (st, some ("data", "hex", getD f "data" ""))
      | some d =>
        let r := decVec (encLE 8 d.length ++ d.take (getNatD f "cut" 0))
        let m := match r with | .error .eof => "Io" | .error _ => "other" | .ok _ => "ok"
        (st, if m = getD f "err" "" then none else some ("err", m, getD f "err" "")))
  | "string" =>
    (match parseHex (getD f "data" "-") with
      | none => (st, some ("data", "hex", getD f "data" ""))
      | some d => (st, common (encVec d) (8 + d.length)))
  | "stringbad" =>
    (st, if getD f "err" "" = "Parse" then none else some ("err", "Parse", getD f "err" ""))
  | "entry" =>
    (match parseHex (getD f "vdata" "-") with
      | none => (st, some ("vdata", "hex", getD f "vdata" ""))
      | some d =>
        let k := encLE 8 (getNatD f "key" 0)
        let v := encVec d
        let bytes := encEntry Foyer.XxHash.checksum64 (getNatD f "hash" 0) (getNatD f "seq" 0) k v
        let decOk := match decEntry Foyer.XxHash.checksum64 (bytes ++ [0, 0, 0]) with
          | .ok (h, v', k') => v' == v && k' == k && h.keyLen == getNatD f "klen" 0 && h.valueLen == getNatD f "vlen" 0
          | _ => false
        if !decOk then (st, some ("model-decode", "roundtrip", "failed"))
        else if Foyer.XxHash.checksum64 (v ++ k) ≠ getNatD f "checksum" 0 then
          (st, some ("checksum", toString (Foyer.XxHash.checksum64 (v ++ k)), getD f "checksum" ""))
        else (st, common bytes 0))
  | "entryc" =>
    let comp := match getD f "comp" "none" with | "zstd" => 1 | "lz4" => 2 | _ => 0
    let h : Header := { keyLen := getNatD f "klen" 0, valueLen := getNatD f "vlen" 0, hash := getNatD f "hash" 0,
                        seq := getNatD f "seq" 0, checksum := getNatD f "checksum" 0, compression := comp }
    let hb := encHeader h
    if toHex hb ≠ getD f "hdr" "" then (st, some ("hdr", toHex hb, getD f "hdr" ""))
    else if getD f "rt" "1" ≠ "1" then (st, some ("rt", "1", getD f "rt" ""))
    else (st, none)
  | "entrybad" =>
    (st, if getD f "err" "" = "ChecksumMismatch" then none else some ("err", "ChecksumMismatch", getD f "err" ""))
  | "hdrbad" =>
    (match parseHex hexS with
      | none => (st, some ("hex", "hex", hexS))
      | some b =>
        let m := match decHeader b with
          | .error .magic => "MagicMismatch" | .error .parse => "Parse" | .error .eof => "Io" | .ok _ => "ok"
        (st, if m = getD f "err" "" then none else some ("err", m, getD f "err" "")))
  | "pushinit" =>
    ({ cap := getNatD f "cap" 0, written := 0, maxEntry := getNatD f "max" 0, infos := [] }, none)
  | "push" =>
    let (st', ok) := st.push (getNatD f "hash" 0) (getNatD f "seq" 0) (getNatD f "klen" 0) (getNatD f "vlen" 0)
    let okS := if ok then "1" else "0"
    if okS ≠ getD f "ok" "" then (st', some ("ok", okS, getD f "ok" ""))
    else if st'.written ≠ getNatD f "written" 0 then (st', some ("written", toString st'.written, getD f "written" ""))
    else (st', none)
  | "pushfin" =>
    let m := showList (st.infos.map fun (a, b, c, d) => s!"{a}:{b}:{c}:{d}")
    (st, if m = getD f "infos" "-" then none else some ("infos", m, getD f "infos" "-"))
  | _ => (st, some ("t", "?", t))

def runItems : Buf → List (Nat × Fields) → Nat → String
  | _, [], n => s!"ACCEPT ops={n}"
  | st, (ln, f) :: rest, n =>
    match checkItem st f with
    | (_, some (field, m, i)) => bad ln n field m i
    | (st', none) => runItems st' rest (n + 1)

def runTrace (_cfg : Fields) (items : List (Nat × Fields)) : String :=
  runItems { cap := 0, written := 0, maxEntry := 0, infos := [] } items 0

/-- Property monitor on the implementation's own answers (no model involved):
round trips succeeded, small buffers gave BufferSizeLimit, bad inputs were rejected. -/
def monitor (items : List (Nat × Fields)) : String :=
  let badItem := items.find? fun (_, f) =>
    getD f "rt" "1" ≠ "1" ||
    (match get? f "small" with | some s => s ≠ "BufferSizeLimit" && s ≠ "-" | none => false) ||
    (match get? f "err" with | some s => s = "ok" | none => false)
  match badItem with
  | some (ln, f) =>
    let clause := if getD f "rt" "1" ≠ "1" then "roundtrip" else if (get? f "err").isSome then "bad_input_accepted" else "small_buffer_not_reported"
    s!"FAILS prop=C08 clause={clause} line={ln} step=0 detail=t_{getD f "t" ""}"
  | none => "HOLDS"

end Driver.Codec
