import Driver.Crash
/-
  Driver.Fault — C03: single-page and multi-page faults on the device image of a cleanly closed store.
  The harness describes every fault as one-page "slice writes" (what each damaged page now holds);
  they are applied to the image model of `Driver.Crash`, whose recovery + load model predicts what the
  reopened real store reads.  The monitor checks the implementation's reads on their own: a value that
  was really stored for the key, a miss or an error — never anything else, and no panic.
-/
namespace Driver.Fault
open Proto Driver.Crash

/-- A damaged partition, re-described by the harness from its bytes: the valid blob index pages and the
well-formed entries of a block (`B@part@I:off:entries;E:off:hash.seq.key.ver.len;…`), or the slots of the
tombstone page (`T@part@slot.hash.seq,…`). -/
inductive Redesc where
  | block (part : Nat) (idx : Foyer.Blk.IdxMap) (ents : List (Nat × DEnt))
  | tomb (slots : List (Nat × Nat × Nat))

def parseFw (f : Fields) : List Redesc :=
  let s := getD f "fw" "-"
  if s = "-" then [] else
  (s.splitOn "|").filterMap fun t =>
    match t.splitOn "@" with
    | ["B", p, body] => do
      let p ← p.toNat?
      let items := if body = "-" then [] else body.splitOn ";"
      let idx : Foyer.Blk.IdxMap := items.filterMap fun it =>
        match it.splitOn ":" with
        | ["I", o, es] => do
          let o ← o.toNat?
          let es := if es = "_" then [] else (es.splitOn ",").filterMap fun e =>
            match nats e "." with
            | [h, q, off, l] => some ({ hash := h, seq := q, off := off, len := l } : Foyer.Blk.BEI)
            | _ => none
          pure (o, es)
        | _ => none
      let ents : List (Nat × DEnt) := items.filterMap fun it =>
        match it.splitOn ":" with
        | ["E", o, e] => do
          let o ← o.toNat?
          match nats e "." with
          | [h, q, k, v, l] => pure (o, { off := 0, hash := h, seq := q, key := k, ver := v, len := l })
          | _ => none
        | _ => none
      pure (.block p idx ents)
    | ["T", _, body] =>
      some (.tomb ((if body = "-" then [] else body.splitOn ",").filterMap fun e =>
        match nats e "." with
        | [s, h, q] => some (s, h, q)
        | _ => none))
    | _ => none

def applyRedesc (tomb : Bool) (im : Img) : Redesc → Img
  | .tomb slots => { im with tombs := slots }
  | .block part idx ents =>
    let b := part - (if tomb then 1 else 0)
    { setIdx im b idx with
      ents := (ents.map fun (o, e) => ({ block := b, off := o, e := e } : Stored)) ++ im.ents.filter (·.block ≠ b) }

def runTrace (cfgF : Fields) (ops : List (Nat × Fields)) : String :=
  let tomb := getD cfgF "tomb" "0" = "1"
  let nblocks := getNatD cfgF "blocks" 4
  let nkeys := getNatD cfgF "keys" 2
  let writes := (ops.filter fun (_, f) => getD f "op" "" ≠ "fault").flatMap fun (_, f) => parseWrites f
  let base := writes.foldl (fun im w => applyWr tomb im w w.len) {}
  let rec go : List (Nat × Fields) → Nat → String
    | [], n => s!"ACCEPT ops={n}"
    | (ln, f) :: rest, n =>
      if getD f "op" "" ≠ "fault" then go rest (n + 1)
      else
        let kind := getD f "kind" ""
        let _ := kind
        if false then go rest (n + 1)
        else
          let im := (parseFw f).foldl (applyRedesc tomb) base
          -- version 2^64-2 marks an entry whose header passes every check but names another compression
          -- codec: the load fails to decompress and reports an error
          let model := (showReads (readsOf tomb nblocks nkeys im)).replace ":18446744073709551614" ":err"
          let impl := getD f "reads" "-"
          if getD f "open" "ok" ≠ "ok" then s!"REJECT line={ln} step={n} field=open model=ok impl={getD f "open" ""}"
          else if model ≠ impl then s!"REJECT line={ln} step={n} field=reads model={model} impl={impl}"
          else go rest (n + 1)
  go ops 0

def monitor (_cfgF : Fields) (ops : List (Nat × Fields)) : String :=
  let work := ops.filter fun (_, f) => getD f "op" "" ≠ "fault"
  let versionsOf (k : Nat) : List Nat := work.filterMap fun (_, f) =>
    let op := getD f "op" ""
    if (op = "ins" || (op = "wins" && getD f "ret" "" = "some")) && getNatD f "k" 0 = k then some (getNatD f "v" 0) else none
  let rec go : List (Nat × Fields) → Nat → String
    | [], _ => "HOLDS"
    | (ln, f) :: rest, n =>
      let fail (clause detail : String) : String :=
        s!"FAILS prop=C03 clause={clause} line={ln} step={n} detail={detail.replace " " "_"}"
      if getD f "ret" "" = "deadlock" then fail "reopen_stalls" s!"opening the damaged image ({getD f "kind" ""}) made no progress"
      else if getD f "op" "" ≠ "fault" then go rest (n + 1)
      else if ((getD f "fw" "-").splitOn "X:").length > 1 then
        fail "index_reader_panicked_on_damaged_page" s!"fault {getD f "kind" ""}: BlobIndexReader::read panicked on the bytes of a damaged page"
      else if getD f "open" "ok" ≠ "ok" then fail "reopen_panicked" s!"fault {getD f "kind" ""}: open={getD f "open" ""}"
      else
        let reads := parseReads (getD f "reads" "-")
        let bad := reads.findSome? fun (k, v) =>
          if v = "panic" then some (fail "load_panicked_on_damaged_bytes" s!"fault {getD f "kind" ""}: the load of key {k} panicked")
          else if v = "miss" || v = "err" then none
          else match v.toNat? with
            | none => some (fail "garbage_surfaced_as_value" s!"fault {getD f "kind" ""}: key {k} reads as a {v} value")
            | some ver => if (versionsOf k).contains ver then none
                          else some (fail "garbage_surfaced_as_value" s!"fault {getD f "kind" ""}: key {k} reads as version {ver}, which was never stored for it")
        match bad with
        | some e => e
        | none => go rest (n + 1)
  go ops 0

end Driver.Fault
