/-
  Driver.Proto — line protocol helpers shared by all domains.

  A line is a sequence of space-separated `key=value` tokens.  Lists are `;`-separated (`-` is the
  empty list), tuples are `:`-separated.
-/
namespace Proto

abbrev Fields := List (String × String)

def splitTok (t : String) : String × String :=
  match t.splitOn "=" with
  | [] => ("", "")
  | [k] => (k, "")
  | k :: rest => (k, String.intercalate "=" rest)

def parseLine (line : String) : Fields :=
  ((line.trimAscii.toString.splitOn " ").filter (· ≠ "")).map splitTok

def get? (f : Fields) (k : String) : Option String :=
  match f with
  | [] => none
  | (a, b) :: rest => if a = k then some b else get? rest k

def getD (f : Fields) (k : String) (d : String) : String := (get? f k).getD d

def getNat? (f : Fields) (k : String) : Option Nat := (get? f k).bind String.toNat?

def getNatD (f : Fields) (k : String) (d : Nat) : Nat := (getNat? f k).getD d

def listOf (s : String) : List String :=
  if s = "-" || s = "" then [] else s.splitOn ";"

def natList (s : String) : List Nat := (listOf s).filterMap String.toNat?

def tuple (s : String) : List String := s.splitOn ":"

def showList (l : List String) : String :=
  if l.isEmpty then "-" else String.intercalate ";" l

/-- Insertion sort on strings (canonicalisation of hash-map ordered outputs). -/
def insertSorted (x : String) : List String → List String
  | [] => [x]
  | y :: ys => if x ≤ y then x :: y :: ys else y :: insertSorted x ys

def sortStrings (l : List String) : List String := l.foldr insertSorted []

end Proto
