import Driver.Mem
import Driver.MemConc
import Driver.Infl
import Driver.Codec
import Driver.Tomb
import Driver.Hyb
import Driver.Lay
import Driver.Rcl
import Driver.Crash
import Driver.Fault
/-
  `foyer_model`: reads traces from stdin, prints one verdict line per trace.
  A trace is a `cfg domain=<d> …` line followed by that domain's lines, up to the next `cfg`.
-/
open Proto

partial def readAll (h : IO.FS.Stream) (acc : Array String) : IO (Array String) := do
  let line ← h.getLine
  if line.isEmpty then return acc
  readAll h (acc.push line)

def monitor (cfgF : Fields) (body : List (Nat × Fields)) : String :=
  match getD cfgF "domain" "" with
  | "mem" => Driver.Mem.runMonitor cfgF body
  | "memc" => Driver.MemConc.runTrace cfgF body
  | "infl" => Driver.Infl.monitor body
  | "codec" => Driver.Codec.monitor body
  | "tomb" => Driver.Tomb.monitor cfgF body
  | "hyb" => Driver.Hyb.monitor cfgF body
  | "lay" => Driver.Lay.monitor cfgF body
  | "crash" => Driver.Crash.monitor cfgF body
  | "fault" => Driver.Fault.monitor cfgF body
  | "blk" =>
    let r := Driver.Rcl.monitor cfgF body
    if r = "HOLDS" then Driver.Hyb.monitor cfgF body else r
  | _ => "HOLDS"

def dispatch (cfgF : Fields) (body : List (Nat × Fields)) : String :=
  match getD cfgF "domain" "" with
  | "mem" => Driver.Mem.runTrace cfgF body
  | "memc" => s!"ACCEPT ops={body.length}"
  | "infl" => Driver.Infl.runTrace cfgF body
  | "codec" => Driver.Codec.runTrace cfgF body
  | "tomb" => Driver.Tomb.runTrace cfgF body
  | "hyb" =>
    -- directed scenarios with a lookup in flight across other calls are judged by the monitors only
    if getD cfgF "directed" "" = "inflight" then s!"ACCEPT ops={body.length}" else Driver.Hyb.runTrace cfgF body
  | "lay" => Driver.Lay.runTrace cfgF body
  | "crash" => Driver.Crash.runTrace cfgF body
  | "fault" => Driver.Fault.runTrace cfgF body
  | "blk" => Driver.Rcl.runTrace cfgF body
  | d => s!"REJECT line=0 step=0 field=domain model=unknown impl={d}"

def main : IO Unit := do
  let lines ← readAll (← IO.getStdin) #[]
  let mut cur : Option (Nat × Fields) := none
  let mut body : Array (Nat × Fields) := #[]
  let mut idx := 0
  let out ← IO.getStdout
  for h : i in [0:lines.size] do
    let f := parseLine lines[i]
    if f.isEmpty then continue
    if (f.head?.map (·.1)) = some "cfg" then
      if let some (_, c) := cur then
        out.putStrLn s!"T {idx} {dispatch c body.toList}"
        out.putStrLn s!"M {idx} {monitor c body.toList}"
        idx := idx + 1
      cur := some (i + 1, f)
      body := #[]
    else
      body := body.push (i + 1, f)
  if let some (_, c) := cur then
    out.putStrLn s!"T {idx} {dispatch c body.toList}"
    out.putStrLn s!"M {idx} {monitor c body.toList}"
