import FoyerModel
import Driver.Proto
/-
  Driver.Mem — trace validation for the in-memory cache domain.

  Input: a trace = one `cfg` line followed by `op=…` lines, each carrying the operation and what the
  real `foyer_memory::Cache` was observed to do.  The driver runs the Lean model on the same
  operations and compares every observed field.
-/
namespace Driver.Mem
open Foyer Proto

def showRec (r : Rec) : String := s!"{r.id}:{r.key}:{r.ver}"

def showRet : Ret → String
  | .unit => "unit"
  | .handle r => s!"h:{showRec r}"
  | .miss => "miss"
  | .bool true => "t"
  | .bool false => "f"
  | .bad => "bad"
  | .panic => "panic"

def showLeaves (l : List (Reason × Rec)) : List String :=
  l.map fun (e, r) => s!"{e.toString}:{showRec r}"

def parseOp (f : Fields) : Option Op :=
  let k := getNatD f "k" 0
  match getD f "op" "" with
  | "ins" => some (.ins k (getNatD f "v" 0) (getNatD f "w" 0)
      (if getD f "hint" "n" = "l" then .low else .normal) (getD f "ph" "0" = "1"))
  | "get" => some (.get k)
  | "touch" => some (.touch k)
  | "contains" => some (.contains k)
  | "remove" => some (.remove k)
  | "clone" => some (.clone (getNatD f "rid" 0))
  | "drop" => some (.drop (getNatD f "rid" 0))
  | "clear" => some .clear
  | "resize" => some (.resize (getNatD f "cap" 0))
  | "evictall" => some .evictAll
  | "flush" => some .flush
  | _ => none

def parseH (s : String) : Nat → Nat :=
  match s.splitOn ":" with
  | ["const", c] => fun _ => c.toNat?.getD 0
  | ["mod", m] => fun k => k % (m.toNat?.getD 1)
  | ["div", m] => fun k => k / (m.toNat?.getD 1)
  | _ => fun k => k

/-- Hooks that depend on the concrete policy type. -/
structure Hooks (σ : Type) where
  /-- install the scripted victims (oracle mode only) -/
  setScript : σ → List Nat → σ
  /-- scripted victims not consumed by this shard -/
  scriptLeft : σ → List Nat

def noHooks {σ : Type} : Hooks σ := { setScript := fun s _ => s, scriptLeft := fun _ => [] }

def victimsOf (f : Fields) : List Nat :=
  (listOf (getD f "leaves" "-")).filterMap fun t =>
    match tuple t with
    | ["evict", rid, _, _] => rid.toNat?
    | _ => none

structure Mismatch where
  field : String
  model : String
  impl : String

def cmpField (f : Fields) (name : String) (model : String) : Option Mismatch :=
  match get? f name with
  | none => none   -- field not observed on this line
  | some v => if v = model then none else some { field := name, model, impl := v }

def firstSome {α : Type} : List (Option α) → Option α
  | [] => none
  | some a :: _ => some a
  | none :: r => firstSome r

def heldObs {σ : Type} (cfg : Cfg) (c : Cache σ) : List String :=
  sortStrings (c.held.map fun (r, n) =>
    let outdated : Bool := match Cache.lookup cfg c r.key with
      | some r' => decide (r' ≠ r)
      | none => true
    s!"{r.id}:{n}:{if outdated then 1 else 0}")

def hasObs {σ : Type} (cfg : Cfg) (c : Cache σ) (nkeys : Nat) : List String :=
  -- keys `0..nkeys`, plus the keys a re-entrant listener inserts (1000..1002)
  (((List.range nkeys) ++ [1000, 1001, 1002]).filter fun k => (Cache.lookup cfg c k).isSome).map toString

/-- Process one op line.  Returns the new cache and an optional mismatch. -/
def stepLine {σ : Type} (P : Policy σ) (hk : Hooks σ) (cfg : Cfg) (nkeys : Nat)
    (c : Cache σ) (f : Fields) : Cache σ × Option Mismatch :=
  match parseOp f with
  | none => (c, some { field := "op", model := "?", impl := getD f "op" "" })
  | some op =>
    let script := match op with
      | .ins .. => victimsOf f
      | .resize _ => victimsOf f
      | .evictAll => victimsOf f
      | .flush => victimsOf f
      | _ => []
    let c0 := { c with shards := c.shards.map fun s => { s with ev := hk.setScript s.ev script } }
    let (c1, out) := Cache.step P cfg c0 op
    -- a scripted victim is consumed iff some shard removed it from its copy of the script
    let left := (script.filter fun i => c1.shards.all fun s => (hk.scriptLeft s.ev).contains i).length
    let c2 := { c1 with shards := c1.shards.map fun s => { s with ev := hk.setScript s.ev [] } }
    let sorted := match op with
      | .clear => true
      | .resize _ => true
      | _ => false
    let canon (l : List String) := if sorted then sortStrings l else l
    let implLeaves := showList (canon (listOf (getD f "leaves" "-")))
    let implPiped := showList (canon (listOf (getD f "piped" "-")))
    let f' : Fields :=
      (if (get? f "leaves").isSome then [("leaves", implLeaves)] else []) ++
      (if (get? f "piped").isSome then [("piped", implPiped)] else []) ++
      f.filter fun (k, _) => k ≠ "leaves" && k ≠ "piped"
    let mm := firstSome [
      cmpField f' "ret" (showRet out.ret),
      cmpField f' "leaves" (showList (canon (showLeaves out.leaves))),
      cmpField f' "piped" (showList (canon (out.piped.map showRec))),
      (if left = 0 then none else some { field := "victims", model := s!"{left} scripted victims not evicted by the model", impl := getD f "leaves" "-" }),
      cmpField f' "usage" (toString (Cache.usage c2)),
      cmpField f' "entries" (toString (Cache.entries c2)),
      cmpField f' "has" (showList (hasObs cfg c2 nkeys)),
      cmpField f' "held" (showList (heldObs cfg c2))
    ]
    (c2, mm)

def runOps {σ : Type} (P : Policy σ) (hk : Hooks σ) (cfg : Cfg) (nkeys : Nat) :
    Cache σ → List (Nat × Fields) → Nat → String
  | _, [], n => s!"ACCEPT ops={n}"
  | c, (ln, f) :: rest, n =>
    match stepLine P hk cfg nkeys c f with
    | (c', none) => runOps P hk cfg nkeys c' rest (n + 1)
    | (_, some mm) => s!"REJECT line={ln} step={n} field={mm.field} model={mm.model} impl={mm.impl}"

def parseORec (t : String) : Option Mon.ORec :=
  match tuple t with
  | [a, b, c] => do pure { rid := ← a.toNat?, key := ← b.toNat?, ver := ← c.toNat? }
  | _ => none

def parseReason : String → Option Reason
  | "evict" => some .evict | "replace" => some .replace | "remove" => some .remove | "clear" => some .clear
  | _ => none

def parseObs (f : Fields) : Option Mon.MemObs := do
  let op ← parseOp f
  let retS := getD f "ret" "unit"
  let ret : Mon.ORet ← match tuple retS with
    | ["h", a, b, c] => (parseORec s!"{a}:{b}:{c}").map Mon.ORet.handle
    | ["miss"] => some .miss
    | ["t"] => some (.bool true)
    | ["f"] => some (.bool false)
    | ["unit"] => some .unit
    | ["bad"] => some .bad
    | ["panic"] => some .panic
    | _ => none
  let leaves := (listOf (getD f "leaves" "-")).filterMap fun t =>
    match tuple t with
    | [e, a, b, c] => do pure ((← parseReason e), (← parseORec s!"{a}:{b}:{c}"))
    | _ => none
  let piped := (listOf (getD f "piped" "-")).filterMap parseORec
  let held := (get? f "held").map fun hs => (listOf hs).filterMap fun t =>
    match tuple t with
    | [a, b, c] => do pure ((← a.toNat?), (← b.toNat?), decide (c = "1"))
    | _ => none
  pure { op, ret, leaves, piped, usage := getNat? f "usage", entries := getNat? f "entries",
         has := (get? f "has").map natList, held, stable := getD f "stable" "1" = "1",
         pipedKnown := (get? f "piped").isSome }

/-- Evaluate the property monitors on the implementation's own trace. -/
def runMonitor (cfgF : Fields) (ops : List (Nat × Fields)) : String :=
  let nshards := getNatD cfgF "shards" 1
  let cfg : Cfg := { nshards, H := parseH (getD cfgF "hmode" "id") }
  let p : Mon.Params := { cfg, isLru := getD cfgF "impl" "" = "lru" }
  let obs := ops.filterMap fun (_, f) => parseObs f
  match ops.find? (fun (_, f) => getD f "ret" "" = "deadlock") with
  | some (ln, f) =>
    s!"FAILS prop=C16 clause=reentrant_callback_deadlocks line={ln} step={ops.length - 1} detail=operation_{getD f "op" ""}_never_returned_(callback_or_destructor_invoked_under_a_cache_lock)"
  | none =>
  -- a cache built without an event listener shows no notifications: only the stall check applies
  if getD cfgF "listener" "1" = "0" then "HOLDS"
  else if obs.length ≠ ops.length then "FAILS prop=- clause=unparsable step=0 detail=unparsable-line"
  else match Mon.run p (getNatD cfgF "cap" 0) obs with
    | none => "HOLDS"
    | some (i, fl) =>
      let ln := ((ops.drop i).head?.map (·.1)).getD 0
      s!"FAILS prop={fl.prop} clause={fl.clause} line={ln} step={i} detail={fl.detail.replace " " "_"}"

def oracleHooks : Hooks Oracle :=
  { setScript := fun s l => { s with script := l }, scriptLeft := fun s => s.script }

/-- Run one trace (cfg fields + op lines). -/
def runTrace (cfgF : Fields) (ops : List (Nat × Fields)) : String :=
  let nshards := getNatD cfgF "shards" 1
  let cap := getNatD cfgF "cap" 0
  let nkeys := getNatD cfgF "keys" 0
  let cfg : Cfg := { nshards, H := parseH (getD cfgF "hmode" "id") }
  let ratioFn (name : String) : Nat → Nat :=
    let ratio := Float.ofBits (UInt64.ofNat (getNatD cfgF name 0))
    fun c => (c.toFloat * ratio).toUInt64.toNat
  match getD cfgF "algo" "oracle" with
  | "oracle" => runOps oraclePolicy oracleHooks cfg nkeys (Cache.new oraclePolicy cfg cap) ops 0
  | "fifo" => runOps fifoPolicy noHooks cfg nkeys (Cache.new fifoPolicy cfg cap) ops 0
  | "lru" =>
    let P := lruPolicy (ratioFn "hp_bits")
    runOps P noHooks cfg nkeys (Cache.new P cfg cap) ops 0
  | "sieve" => runOps sievePolicy noHooks cfg nkeys (Cache.new sievePolicy cfg cap) ops 0
  | "s3fifo" =>
    let P := s3Policy (ratioFn "s3_small_bits") (ratioFn "s3_ghost_bits") (getNatD cfgF "s3_thr" 1)
    runOps P noHooks cfg nkeys (Cache.new P cfg cap) ops 0
  | "lfu" =>
    let nb := getNatD cfgF "cm_buckets" 2719
    let k : SketchCfg := { rows := getNatD cfgF "cm_rows" 3, decay := nb, bucket := Murmur.bucket nb }
    let P := lfuPolicy (ratioFn "lfu_window_bits") (ratioFn "lfu_protected_bits") k
    runOps P noHooks cfg nkeys (Cache.new P cfg cap) ops 0
  | a => s!"REJECT line=0 step=0 field=algo model=unsupported impl={a}"

end Driver.Mem
