import FoyerModel
import FoyerModel.Mon.Register
import Driver.Proto
/-
  Driver.MemConc — concurrent histories of the real memory cache, checked per key against the
  register-with-misses specification.
-/
namespace Driver.MemConc
open Proto Foyer.Mon.Register

def verOf (ret : String) : Option Nat :=
  match tuple ret with
  | ["h", _, v] => v.toNat?
  | _ => none

def keyOf (ret : String) : Option Nat :=
  match tuple ret with
  | ["h", k, _] => k.toNat?
  | _ => none

/-- The call as seen by key `k` (none: irrelevant for this key). -/
def project (k : Nat) (f : Fields) : Option Call :=
  let inv := getNatD f "inv" 0
  let res := getNatD f "res" 0
  let key := getNatD f "k" 0
  let ret := getD f "ret" ""
  match getD f "op" "" with
  | "ins" => if key = k then some { inv, res, kind := .write (if getD f "ph" "0" = "1" then none else getNat? f "v") } else none
  | "get" => if key = k then some { inv, res, kind := .read (verOf ret) } else none
  | "remove" => if key = k then some { inv, res, kind := .del (verOf ret) } else none
  | "contains" => if key = k && ret = "t" then some { inv, res, kind := .present } else none
  | "touch" => if key = k && ret = "t" then some { inv, res, kind := .present } else none
  | "clear" => some { inv, res, kind := .write none }
  | _ => none

def runTrace (cfgF : Fields) (calls : List (Nat × Fields)) : String :=
  let nkeys := getNatD cfgF "keys" 1
  -- a hit must carry the requested key (C17) and handles must stay stable
  let foreign := calls.find? fun (_, f) =>
    match getD f "op" "", keyOf (getD f "ret" "") with
    | "get", some k' => k' ≠ getNatD f "k" 0
    | "remove", some k' => k' ≠ getNatD f "k" 0
    | _, _ => false
  let unstable := calls.find? fun (_, f) => getD f "stable" "1" ≠ "1"
  match foreign, unstable with
  | some (ln, _), _ => s!"FAILS prop=C17 clause=foreign_value line={ln} step=0 detail=lookup_returned_an_entry_of_another_key"
  | _, some (ln, _) => s!"FAILS prop=C02 clause=held_data_unchanged line={ln} step=0 detail=data_read_through_a_held_handle_changed"
  | none, none =>
    let bad := (List.range nkeys).find? fun k =>
      !linearizable (calls.filterMap fun (_, f) => project k f)
    match bad with
    | some k => s!"FAILS prop=C02 clause=not_linearizable_as_register_with_misses line=0 step=0 detail=key_{k}"
    | none => "HOLDS"

end Driver.MemConc
