import FoyerModel.Hybrid
import FoyerModel.Policies.Fifo
import FoyerModel.Policies.Lru
import Driver.Proto
import Driver.Mem
/-
  Driver.Hyb — trace validation of the real `HybridCache` against `FoyerModel.Hybrid`, and the
  property monitors of C01 / C12 / C15 / C17 (disk tier) evaluated on the implementation's trace.
-/
namespace Driver.Hyb
open Proto Foyer Foyer.Hyb

def parseLoc : String → Loc
  | "m" => .inMem | "d" => .onDisk | _ => .default

def parseOp (f : Fields) : Option HOp :=
  let k := getNatD f "k" 0
  match getD f "op" "" with
  | "ins" => some (.ins k (getNatD f "v" 0) (parseLoc (getD f "loc" "-")) (getD f "sz" "s" = "x"))
  | "wins" => some (.wins k (getNatD f "v" 0) (getD f "force" "0" = "1"))
  | "rm" => some (.rm k)
  | "clear" => some .clear
  | "get" => some (.get k)
  | "fetch" => some (.fetch k (getNatD f "ov" 0))
  | "evict" => some .evict
  | "contains" => some (.contains k)
  | "wait" => some .wait
  | "hold" => some .hold
  | "unhold" => some .unhold
  | "gate" => some .gate
  | "releasebatch" => some .releaseBatch
  | "releaseall" => some .releaseAll
  | "reopen" => some .reopen
  | _ => none

def showRet : HRet → String
  | .ok => "ok"
  | .miss => "miss"
  | .val k v s => s!"v:{k}:{v}:{s}"
  | .bool true => "t"
  | .bool false => "f"

def runOps {σ : Type} (P : Policy σ) (hc : HCfg) (nkeys : Nat) (lossy : Bool) : HState σ → List (Nat × Fields) → Nat → String
  | _, [], n => s!"ACCEPT ops={n}"
  | s, (ln, f) :: rest, n =>
    match parseOp f with
    | none => s!"REJECT line={ln} step={n} field=op model=? impl={getD f "op" ""}"
    | some op =>
      let (s0a, reta) := step P hc s op
      -- lossy mode: a disk hit the implementation no longer has (its block was reclaimed) is a `lose` step
      let lostHit : Bool := lossy && getD f "ret" "" = "miss" && (match reta with
        | .val _ _ "disk" => true
        | _ => false)
      let (s0, ret) := if lostHit then step P hc (step P hc s (.lose (hc.mcfg.H (getNatD f "k" 0)))).1 op else (s0a, reta)
      -- lossy mode: follow the disk-capacity evictions the trace shows (environment `lose` steps)
      let s' := if lossy && (f.find? (·.1 = "disk")).isSome then
          let implDisk := natList (getD f "disk" "-")
          (List.range nkeys).foldl (fun st k =>
            if (indexAddr st.index (hc.mcfg.H k)).isSome && !implDisk.contains k then (step P hc st (.lose (hc.mcfg.H k))).1 else st) s0
        else s0
      -- `wins` / `ins` / … return "ok" in the model; the implementation prints some/none for `wins`
      let implRet := let r := getD f "ret" "ok"; if r = "some" then "ok" else r
      let memM := showList (((List.range nkeys).filter fun k => (Cache.lookup hc.mcfg s'.mem k).isSome).map toString)
      let diskM := showList (((List.range nkeys).filter fun k => (indexAddr s'.index (hc.mcfg.H k)).isSome).map toString)
      let quiescent := !s'.held && !s'.gated && getD f "pending" "0" = "0"
      if showRet ret ≠ implRet then s!"REJECT line={ln} step={n} field=ret model={showRet ret} impl={implRet}"
      else if memM ≠ getD f "mem" memM then s!"REJECT line={ln} step={n} field=mem model={memM} impl={getD f "mem" ""}"
      else if quiescent && diskM ≠ getD f "disk" diskM then s!"REJECT line={ln} step={n} field=disk model={diskM} impl={getD f "disk" ""}"
      else runOps P hc nkeys lossy s' rest (n + 1)

def runTrace (cfgF : Fields) (ops : List (Nat × Fields)) : String :=
  let hc : HCfg := { woi := getD cfgF "policy" "woe" = "woi", foc := getD cfgF "foc" "1" = "1",
                     tombLog := getD cfgF "tomb" "0" = "1",
                     mcfg := { nshards := 1, H := Driver.Mem.parseH (getD cfgF "hmode" "id") } }
  let memcap := getNatD cfgF "memcap" 2
  let nkeys := getNatD cfgF "keys" 4
  let lossy := getD cfgF "lossy" "0" = "1"
  match getD cfgF "memalgo" "fifo" with
  | "lru" =>
    let P := lruPolicy (fun c => (c.toFloat * 0.9).toUInt64.toNat)
    runOps P hc nkeys lossy (init P hc memcap) ops 0
  | _ => runOps fifoPolicy hc nkeys lossy (init fifoPolicy hc memcap) ops 0

/-! ### monitors (on the implementation's own trace) -/

structure MSt where
  truth : List (Nat × Nat) := []          -- key ↦ latest completed, not removed version
  /-- advice kinds used for the key since its last remove / clear: (sawInMem, sawOther) -/
  advice : List (Nat × (Bool × Bool)) := []
  big : List Nat := []                    -- versions beyond the per-entry disk limit
  prevMem : List Nat := []
  /-- keys outside the claim until their next completed write / remove: memory-only versions were
      dropped by a close that does not flush (the property covers a *flushing* close only) -/
  wild : List Nat := []
  /-- keys that were removed when the store was closed without a tombstone log -/
  ghost : List Nat := []
  /-- keys whose disk copies were invalidated (removed / update dropped) with no disk-eligible write since -/
  inval : List Nat := []
  /-- placement advice of the latest insert of each key -/
  lastLoc : List (Nat × String) := []
  /-- (key, version) a flushing close had to persist: later lookups must deliver that version -/
  persisted : List (Nat × Nat) := []
  /-- keys whose memory copy was populated by a disk hit (and not written since) -/
  fromDisk : List Nat := []
  held : Bool := false
  gated : Bool := false

def aGet (l : List (Nat × (Bool × Bool))) (k : Nat) : Bool × Bool := ((l.find? (·.1 = k)).map (·.2)).getD (false, false)
def tGet (l : List (Nat × Nat)) (k : Nat) : Option Nat := (l.find? (·.1 = k)).map (·.2)
def tSet (l : List (Nat × Nat)) (k v : Nat) : List (Nat × Nat) := (k, v) :: l.filter (·.1 ≠ k)
def tDel (l : List (Nat × Nat)) (k : Nat) : List (Nat × Nat) := l.filter (·.1 ≠ k)

def parseVal (s : String) : Option (Nat × Nat × String) :=
  match tuple s with
  | ["v", k, v, src] => do pure ((← k.toNat?), (← v.toNat?), src)
  | _ => none

def monitor (cfgF : Fields) (ops : List (Nat × Fields)) : String :=
  let woi := getD cfgF "policy" "woe" = "woi"
  let foc := getD cfgF "foc" "1" = "1"
  let tomb := getD cfgF "tomb" "0" = "1"
  let idHash := getD cfgF "hmode" "id" = "id"
  let lossy := getD cfgF "lossy" "0" = "1"
  let reins := getNatD cfgF "reins" 0 > 0
  -- directed scenario: a lookup's disk load was held in flight across a remove / an overwrite of its key
  let directed := getD cfgF "directed" "" = "inflight"
  -- `deferred`: a failure that does not stop the evaluation of the rest of the trace (the redundant second write
  -- of a queued entry, a recorded finding): it is reported only if nothing else fails
  let rec go (st : MSt) (reopened : Bool) (deferred : Option String) : List (Nat × Fields) → Nat → String
    | [], _ => deferred.getD "HOLDS"
    | (ln, f) :: rest, n =>
      let op := getD f "op" ""
      let k := getNatD f "k" 0
      let ret := getD f "ret" ""
      let w := getNatD f "w" 0
      let mem := natList (getD f "mem" "-")
      let disk := natList (getD f "disk" "-")
      let pending := getNatD f "pending" 0
      let held' := if op = "hold" then true else if op = "unhold" || op = "reopen" then false else st.held
      let gated' := if op = "gate" then true else if op = "releaseall" || op = "reopen" then false else st.gated
      let quiet := !held' && !gated' && pending = 0 && !st.held && !st.gated
      let fail (prop clause detail : String) : String :=
        s!"FAILS prop={prop} clause={clause} line={ln} step={n} detail={detail.replace " " "_"}"
      -- C01 / C17: what a lookup returned
      let lookupFail : Option String :=
        if op = "get" || op = "fetch" then
          match parseVal ret with
          | some (rk, rv, src) =>
            if rk ≠ k then some (fail "C17" "foreign_value" s!"lookup of {k} returned a value of key {rk}")
            else
              let (inMem, other) := aGet st.advice k
              let excluded := (inMem && other) || st.wild.contains k
              let expected := if op = "fetch" && src = "outer" then some (getNatD f "ov" 0) else tGet st.truth k
              if excluded || expected = some rv then none
              else
                let clause :=
                  if st.ghost.contains k then "removed_value_after_restart_without_tombstone_log"
                  else if (tGet st.truth k).isNone then "removed_value_returned"
                  else if st.big.contains ((tGet st.truth k).getD 0) then "stale_after_oversize_update"
                  else if reins then "stale_value_returned_with_reinsertion"
                  else "stale_value_returned"
                let clause := if directed then clause ++ "_after_inflight_load" else clause
                some (fail "C01" clause s!"lookup of {k} returned version {rv} from {src}, source of truth is {repr (tGet st.truth k)}")
          | none => none
        else none
      -- C12: a cache hit causes no disk write (write-on-insertion: nothing else can write during a lookup)
      let hitWrite : Option String :=
        if (op = "get" || op = "fetch") && quiet then
          match parseVal ret with
          | some (_, _, src) =>
            if (src = "memory" || (woi && src = "disk")) && w > 0 then
              some (fail "C12" "cache_hit_writes_to_disk" s!"{op} of {k} hit in {src} and wrote {w} bytes")
            else none
          | none => none
        else none
      -- bookkeeping of the source of truth and the advice history
      let truth' : List (Nat × Nat) :=
        match op with
        | "ins" => tSet st.truth k (getNatD f "v" 0)
        | "wins" => if ret = "some" then tSet st.truth k (getNatD f "v" 0) else st.truth
        | "rm" => tDel st.truth k
        | "clear" => []
        | "fetch" => (match parseVal ret with
            | some (_, rv, "outer") => tSet st.truth k rv
            | _ => st.truth)
        | _ => st.truth
      let advice' : List (Nat × (Bool × Bool)) :=
        match op with
        | "ins" =>
          let (a, b) := aGet st.advice k
          let isMem := getD f "loc" "-" = "m"
          (k, (a || isMem, b || !isMem)) :: st.advice.filter (·.1 ≠ k)
        | "wins" => let (a, _) := aGet st.advice k; (k, (a, true)) :: st.advice.filter (·.1 ≠ k)
        | "fetch" => (match parseVal ret with
            | some (_, _, "outer") => let (a, _) := aGet st.advice k; (k, (a, true)) :: st.advice.filter (·.1 ≠ k)
            | _ => st.advice)
        | "rm" => st.advice.filter (·.1 ≠ k)
        | "clear" => []
        | _ => st.advice
      let wild' : List Nat :=
        match op with
        | "reopen" => if foc then st.wild else (st.prevMem ++ st.wild)
        | "ins" | "rm" => st.wild.filter (· ≠ k)
        | "wins" => if ret = "some" then st.wild.filter (· ≠ k) else st.wild
        | "fetch" => (match parseVal ret with
            | some (_, _, "outer") => st.wild.filter (· ≠ k)
            | _ => st.wild)
        | "clear" => []
        | _ => st.wild
      let diskWrite : Bool :=
        match op with
        | "ins" => getD f "loc" "-" ≠ "m" && getD f "sz" "s" ≠ "x"
        | "wins" => ret = "some"
        | "fetch" => (match parseVal ret with
            | some (_, _, "outer") => true
            | _ => false)
        | _ => false
      let inval' : List Nat :=
        if diskWrite then st.inval.filter (· ≠ k)
        else match op with
          | "rm" => k :: st.inval
          | "ins" => if getD f "sz" "s" = "x" && getD f "loc" "-" ≠ "m" then k :: st.inval else st.inval
          | "clear" => []
          | _ => st.inval
      let ghost' : List Nat :=
        if diskWrite then st.ghost.filter (· ≠ k)
        else match op with
          | "reopen" => if tomb then st.ghost else st.inval ++ st.ghost
          | "clear" => []
          | _ => st.ghost
      let big' := if op = "ins" && getD f "sz" "s" = "x" then getNatD f "v" 0 :: st.big else st.big
      -- C12: placement advice
      let inMemOnDisk : Option String :=
        if idHash && quiet && (tomb || !(reopened || op = "reopen")) then
          (disk.find? fun d => let (a, b) := aGet advice' d; a && !b).map fun d =>
            fail "C12" "inmem_entry_reached_the_disk" s!"key {d} was only ever inserted with in-memory-only advice but the disk tier holds it (after {op})"
        else none
      let onDiskResident : Option String :=
        if op = "ins" && getD f "loc" "-" = "d" then
          (if mem.contains k then some (fail "C12" "ondisk_entry_kept_in_memory" s!"key {k}")
           else if idHash && quiet && !disk.contains k && getD f "sz" "s" ≠ "x" then
             some (fail "C12" "ondisk_entry_not_written" s!"key {k}")
           else none)
        else none
      let woiInsert : Option String :=
        if woi && op = "ins" && getD f "loc" "-" = "-" && quiet && getD f "sz" "s" ≠ "x" then
          (if w = 0 then some (fail "C12" "write_on_insertion_did_not_write" s!"insert of {k}")
           else if idHash && !disk.contains k then some (fail "C12" "write_on_insertion_not_indexed" s!"insert of {k}") else none)
        else none
      let evicted := (listOf (getD f "ev" "-")).any fun e => e.startsWith "evict:"
      let woeInsert : Option String :=
        if !woi && op = "ins" && getD f "loc" "-" ≠ "d" && quiet && w > 0 && !evicted then
          some (fail "C12" "write_on_eviction_wrote_at_insert" s!"insert of {k} wrote {w} bytes although nothing was evicted")
        else none
      -- C12: one call puts an entry on the device at most once
      let wentL := listOf (getD f "went" "-")
      let rec firstDup : List String → Option String
        | [] => none
        | x :: xs => if xs.contains x then some x else firstDup xs
      -- in a call that only lets the flusher run (unhold, release, wait, close) two copies mean the entry was
      -- queued twice earlier
      let flushOnly := op = "unhold" || op = "releaseall" || op = "releasebatch" || op = "wait" || op = "reopen"
      let dupAny : Option String :=
        if reins then none else (firstDup wentL).map fun x =>
          fail "C12" (if flushOnly then "queued_entry_written_twice" else "entry_written_twice_by_one_call")
            s!"entry key.version {x} was written to the device twice during {op}"
      let dupWrite : Option String := if flushOnly then none else dupAny
      let deferred' : Option String := deferred <|> (if flushOnly then dupAny else none)
      let woiEvict : Option String :=
        if woi && op = "evict" && quiet && w > 0 then some (fail "C12" "write_on_insertion_wrote_at_eviction" s!"{w} bytes") else none
      -- C15: graceful close
      -- bytes written to block partitions, not counting all-zero pages (block cleaning by the reclaimer, e.g. the
      -- reclaim a recovered device without a clean block starts while it is being opened)
      let firstBlock := if tomb then 1 else 0
      let wNonZero : Nat := ((listOf (getD f "wlog" "-")).filterMap fun t =>
        match t.splitOn ":" with
        | [p, _, len] => (match p.toNat?, len.toNat? with
            | some p, some l => if p ≥ firstBlock then some l else none
            | _, _ => none)
        | _ => none).foldl (· + ·) 0
      let closeFail : Option String :=
        if op = "reopen" && getD f "early" "0" = "1" then
          some (fail "C15" "close_returned_before_device_writes_completed" "close() returned while the device writes of a flusher batch were still outstanding")
        else if op = "reopen" && idHash then
          -- (on a device small enough for block reclaim the disk's own capacity eviction may have removed the copy:
          -- outside the claim)
          if foc && !woi && !lossy then
            (st.prevMem.find? fun x => let (a, b) := aGet st.advice x; !(a && !b) && !a && !disk.contains x &&
                !(st.big.contains ((tGet st.truth x).getD 0))).map fun x =>
              fail "C15" "resident_entry_not_persisted_by_close" s!"key {x} was resident before close(flush_on_close) and is not on disk after reopen"
          else if !foc && !woi && quiet && wNonZero > 0 && st.prevMem.isEmpty then
            some (fail "C15" "close_without_flush_wrote" s!"{wNonZero} bytes")
          else none
        else none
      -- C15: what a flushing close persisted must come back with exactly that version
      let persistFail : Option String :=
        if (op = "get" || op = "fetch") && idHash then
          match st.persisted.find? (·.1 = k) with
          | some (_, pv) =>
            (match parseVal ret with
             | some (_, rv, src) =>
               if src ≠ "outer" && rv ≠ pv then
                 some (fail "C15" "close_persisted_stale_version" s!"key {k} was resident with version {pv} at a flushing close, a later lookup delivers version {rv} from {src}")
               else none
             | none =>
               if ret = "miss" && !lossy then
                 some (fail "C15" "resident_entry_lost_by_close" s!"key {k} (version {pv}) was resident at a flushing close and is gone")
               else none)
          | none => none
        else none
      let lastLoc' : List (Nat × String) :=
        match op with
        | "ins" => (k, getD f "loc" "-") :: st.lastLoc.filter (·.1 ≠ k)
        | "wins" => if ret = "some" then (k, "-") :: st.lastLoc.filter (·.1 ≠ k) else st.lastLoc
        | "fetch" => (match parseVal ret with
            | some (_, _, "outer") => (k, "-") :: st.lastLoc.filter (·.1 ≠ k)
            | _ => st.lastLoc)
        | "clear" => []
        | _ => st.lastLoc
      let persisted' : List (Nat × Nat) :=
        match op with
        | "reopen" =>
          if foc then
            (st.prevMem.filterMap fun x =>
              match tGet st.truth x, (st.lastLoc.find? (·.1 = x)).map (·.2) with
              | some v, some loc => if loc ≠ "m" && !st.big.contains v then some (x, v) else none
              | _, _ => none) ++ (st.persisted.filter fun p => !st.prevMem.contains p.1)
          else st.persisted
        | "ins" | "rm" => st.persisted.filter (·.1 ≠ k)
        | "wins" => if ret = "some" then st.persisted.filter (·.1 ≠ k) else st.persisted
        | "fetch" => (match parseVal ret with
            | some (_, _, "outer") => st.persisted.filter (·.1 ≠ k)
            | _ => st.persisted)
        | "clear" => []
        | _ => st.persisted
      -- C12: under write-on-eviction an entry that was loaded from disk is not written again when it is evicted
      -- (devices without block reclaim: no block is ever marked for imminent reclaim)
      let evictedKeys : List Nat := (listOf (getD f "ev" "-")).filterMap fun e =>
        match e.splitOn ":" with
        | ["evict", ek, _] => ek.toNat?
        | _ => none
      let isLookup := op = "get" || op = "evict" || (op = "fetch" && (match parseVal ret with
        | some (_, _, "outer") => false
        | _ => true))
      let rewriteFail : Option String :=
        if !woi && quiet && !lossy && isLookup && w > 0 && !evictedKeys.isEmpty && evictedKeys.all (fun ek => st.fromDisk.contains ek) then
          some (fail "C12" "entry_loaded_from_disk_rewritten" s!"{op}: the evicted entries {evictedKeys} were loaded from disk and not modified, yet {w} bytes were written")
        else none
      let fromDisk' : List Nat :=
        let base := st.fromDisk.filter fun x => !evictedKeys.contains x
        match op with
        | "get" | "fetch" => (match parseVal ret with
            | some (_, _, "disk") => k :: base.filter (· ≠ k)
            | some (_, _, "outer") => base.filter (· ≠ k)
            | _ => base)
        | "ins" | "wins" | "rm" => base.filter (· ≠ k)
        | "clear" | "reopen" => []
        | _ => base
      match lookupFail <|> persistFail <|> rewriteFail <|> hitWrite <|> inMemOnDisk <|> onDiskResident <|> woiInsert <|> woeInsert <|> woiEvict <|> dupWrite <|> closeFail with
      | some s => s
      | none =>
        go { truth := truth', advice := advice', big := big', prevMem := mem, wild := wild', ghost := ghost', inval := inval', lastLoc := lastLoc', persisted := persisted', fromDisk := fromDisk', held := held', gated := gated' }
          (reopened || op = "reopen") deferred' rest (n + 1)
  go {} false none ops 0

end Driver.Hyb
