import FoyerModel.Reclaim
import Driver.Hyb
/-
  Driver.Rcl — `blk` traces (the hybrid executor on a tiny device under sustained load):

    T: the key-level behaviour is validated against the hybrid model (lossy mode), and — for one
       flusher — the block-level events read off the device write log (first data write into a block =
       `take`, leaving a block = `finish`, zero page at offset 0 = `reclaimed`) must be accepted by
       the block-manager model `FoyerModel.Reclaim`;
    M: the C09 monitors (and C07's "every claimed key loads") on the implementation's own trace.
-/
namespace Driver.Rcl
open Proto Foyer.Rcl

structure W where
  block : Nat
  off : Nat
  len : Nat
  zero : Bool
deriving Repr

/-- the writes of a line that go to block partitions (partition 0 is the tombstone log if enabled) -/
def blockWrites (tomb : Bool) (f : Fields) : List W :=
  (listOf (getD f "wlog" "-")).filterMap fun t =>
    match t.splitOn ":" with
    | p :: o :: l :: rest => do
      let p ← p.toNat?
      let o ← o.toNat?
      let l ← l.toNat?
      let first := if tomb then 1 else 0
      if p < first then none else pure { block := p - first, off := o, len := l, zero := rest = ["z"] }
    | _ => none

/-! ### T: the block manager's own transitions (verif hook) replayed on the model -/

structure BEv where
  kind : String
  block : Nat
  clean : Nat
  evictable : Nat
  reclaiming : Nat
  waiters : Nat

def blockEvents (f : Fields) : List BEv :=
  (listOf (getD f "bev" "-")).filterMap fun t =>
    match t.splitOn ":" with
    | [k, b, c, e, r, w] => do
      pure { kind := k, block := ← b.toNat?, clean := ← c.toNat?, evictable := ← e.toNat?, reclaiming := ← r.toNat?, waiters := ← w.toNat? }
    | _ => none

structure TSt where
  m : St
  /-- a pick the model made inside the previous transition and the hook reports next -/
  pendingPick : Option Nat := none
  /-- number of blocks the device turned out to have (from the manager's `init` event) -/
  nblocks : Nat := 0
  /-- the last `pickinv` event: (block, invalid bytes) of the block the manager is about to pick -/
  lastInv : Option (Nat × Nat) := none

def counts (m : St) : String := s!"clean={m.clean.length},evictable={m.evictable.length},reclaiming={m.reclaiming.length},waiters={m.waiters}"
def evCounts (e : BEv) : String := s!"clean={e.clean},evictable={e.evictable},reclaiming={e.reclaiming},waiters={e.waiters}"

/-- the state right before the pick that `reclaim_if_needed` made inside the transition -/
def beforePick (m : St) (p : Nat) : St :=
  { m with evictable := p :: m.evictable, reclaiming := m.reclaiming.filter (· ≠ p) }

/-- The model's picker is first-filled-first; the default picker chain may instead take a block that is at least
80% invalid: the trace says so (`pickinv`), and the model then follows the implementation's choice. -/
def repick (m : St) (p b : Nat) : St :=
  { m with evictable := (p :: m.evictable).filter (· ≠ b),
           reclaiming := m.reclaiming.map fun x => if x = p then b else x,
           picked := m.picked.dropLast ++ [b] }

def evStep (c : RCfg) (bsz : Nat) (n : Nat) (t : TSt) (e : BEv) : Except String TSt :=
  let after (m m' : St) : Except String TSt :=
    -- the hook records a transition before `reclaim_if_needed` runs and the pick as an event of its own
    let pick := if m'.picked.length > m.picked.length then m'.picked.getLast? else none
    let shown := match pick with
      | some p => beforePick m' p
      | none => m'
    if counts shown ≠ evCounts e then .error s!"after {e.kind} {e.block}: model {counts shown}, implementation {evCounts e}"
    else .ok { t with m := m', pendingPick := pick }
  match t.pendingPick, e.kind with
  | _, "pickinv" => .ok { t with lastInv := some (e.block, e.clean) }
  | some p, "pick" =>
    let justified : Bool := match t.lastInv with
      | some (b, inv) => b = e.block && inv * 10 ≥ bsz * 8 && t.m.evictable.contains e.block
      | none => false
    if p ≠ e.block && justified then
      let m' := repick t.m p e.block
      if counts m' ≠ evCounts e then .error s!"after pick {e.block}: model {counts m'}, implementation {evCounts e}"
      else .ok { t with m := m', pendingPick := none }
    else
    if p ≠ e.block then .error s!"the implementation picked block {e.block} for reclaim, the model block {p}"
    else if counts t.m ≠ evCounts e then .error s!"after pick {p}: model {counts t.m}, implementation {evCounts e}"
    else .ok { t with pendingPick := none }
  | some p, k => .error s!"the model starts reclaiming block {p} here, the implementation continues with {k}"
  | none, "pick" =>
    -- `BlockManager::init` ends with `reclaim_if_needed` (no transition precedes this pick)
    let m' := reclaimIfNeeded c t.m
    if m'.picked.length > t.m.picked.length && m'.picked.getLast? = some e.block then
      (if counts m' ≠ evCounts e then .error s!"after the initial pick {e.block}: model {counts m'}, implementation {evCounts e}"
       else .ok { t with m := m' })
    else .error s!"the implementation picked block {e.block} for reclaim where the model does not reclaim ({counts t.m})"
  | none, "init" => .ok { m := init (if t.nblocks > 0 then t.nblocks else n), nblocks := t.nblocks }
  | none, "init-evictable" =>
    .ok { t with m := { t.m with clean := t.m.clean.filter (· ≠ e.block), evictable := t.m.evictable ++ [e.block],
                                 finished := t.m.finished ++ [e.block] } }
  | none, "take" =>
    let m' := step c t.m .take
    if t.m.clean.head? ≠ some e.block then .error s!"block {e.block} handed out, the model's clean queue is {t.m.clean}"
    else after t.m m'
  | none, "wait" =>
    if !t.m.clean.isEmpty then .error s!"a writer waits although the model has clean blocks {t.m.clean}"
    else after t.m (step c t.m .take)
  | none, "finish" =>
    if !(enabled t.m (.finish e.block)) then .error s!"block {e.block} finished but the model has writing={t.m.writing}"
    else after t.m (step c t.m (.finish e.block))
  | none, "reclaimed" =>
    if !(enabled t.m (.reclaimed e.block)) then .error s!"block {e.block} reclaimed but the model has reclaiming={t.m.reclaiming}"
    else if t.m.waiters > 0 then .error s!"block {e.block} went to the clean queue although the model has {t.m.waiters} waiting writer(s)"
    else after t.m (step c t.m (.reclaimed e.block))
  | none, "reclaimed-handover" =>
    if !(enabled t.m (.reclaimed e.block)) then .error s!"block {e.block} reclaimed but the model has reclaiming={t.m.reclaiming}"
    else if t.m.waiters = 0 then .error s!"block {e.block} handed to a waiter the model does not have"
    else after t.m (step c t.m (.reclaimed e.block))
  | none, k => .error s!"unknown block event {k}"

def runEvents (c : RCfg) (bsz : Nat) (n : Nat) : TSt → List (Nat × Fields) → Nat → String
  | _, [], k => s!"ACCEPT ops={k}"
  | t, (ln, f) :: rest, k =>
    -- the device's real block count: clean blocks at `init` plus the blocks recovery found data in
    let evs := blockEvents f
    let t := match evs.find? (·.kind = "init") with
      | some e => { t with nblocks := e.clean + (evs.filter (·.kind = "init-evictable")).length }
      | none => t
    match evs.foldlM (evStep c bsz n) t with
    | .error e => s!"REJECT line={ln} step={k} field=block-events model={(e.replace " " "_").take 220} impl=bev"
    | .ok t' => runEvents c bsz n t' rest (k + 1)

def runTrace (cfgF : Fields) (ops : List (Nat × Fields)) : String :=
  -- The key-level hybrid model completes a flusher batch atomically; with gated device writes a batch that spans
  -- several blocks becomes visible block by block, which that model does not describe: such traces are checked
  -- against the block-manager model and by the (model-independent) monitors only.
  let gated := ops.any fun (_, f) => getD f "op" "" = "gate"
  let hyb := if gated then "ACCEPT" else Driver.Hyb.runTrace cfgF ops
  if hyb.startsWith "REJECT" then hyb.replace "field=" "field=hyb-"
  else
    let n := getNatD cfgF "blocks" 4
    let c : RCfg := { thr := getNatD cfgF "thr" 1, conc := getNatD cfgF "reclaimers" 1 }
    runEvents c (getNatD cfgF "bsize" 16384) n { m := init n } ops 0

/-! ### M: C09 monitors -/

structure MSt where
  /-- per block: end of the highest data write since its last cleaning -/
  epochMax : List (Nat × Nat) := []
  /-- (block, offset) where data regions of the current epoch start / where blob index pages live -/
  starts : List (Nat × Nat) := []
  idxOffs : List (Nat × Nat) := []
  removed : Bool := false
  /-- the last `pickinv` event: (block, invalid bytes of the picked block) -/
  lastInv : Option (Nat × Nat) := none
  /-- the monitor's own bookkeeping of the manager's sets, from the hook's events -/
  writing : List Nat := []
  queue : List Nat := []        -- finished, not yet picked (oldest first)
  reclaiming : List Nat := []

def emGet (l : List (Nat × Nat)) (b : Nat) : Nat := ((l.find? (·.1 = b)).map (·.2)).getD 0
def emSet (l : List (Nat × Nat)) (b v : Nat) : List (Nat × Nat) := (b, v) :: l.filter (·.1 ≠ b)

def monitor (cfgF : Fields) (ops : List (Nat × Fields)) : String :=
  let tomb := getD cfgF "tomb" "0" = "1"
  let bsize := getNatD cfgF "bsize" 16384
  let rec go (st : MSt) : List (Nat × Fields) → Nat → String
    | [], _ => "HOLDS"
    | (ln, f) :: rest, n =>
      let fail (prop clause detail : String) : String :=
        s!"FAILS prop={prop} clause={clause} line={ln} step={n} detail={detail.replace " " "_"}"
      let op := getD f "op" ""
      if getD f "ret" "" = "deadlock" then fail "C09" "writer_or_close_stalls" s!"{op} made no progress for the watchdog period"
      else
      let evs := blockEvents f
      let owned0 := st.writing
      let recl0 := st.reclaiming
      -- the manager's events: exclusivity and reclaim order
      let r0 : Except String MSt := evs.foldlM (fun st e =>
        match e.kind with
        | "init" => .ok { st with writing := [], queue := [], reclaiming := [], removed := false }
        | "init-evictable" => .ok { st with queue := st.queue ++ [e.block] }
        | "take" | "reclaimed-handover" =>
          if st.writing.contains e.block || st.queue.contains e.block || (e.kind = "take" && st.reclaiming.contains e.block) then
            .error (fail "C09" "block_handed_out_twice" s!"block {e.block} given to a writer while writing={st.writing} evictable={st.queue} reclaiming={st.reclaiming}")
          else .ok { st with writing := st.writing ++ [e.block], reclaiming := st.reclaiming.filter (· ≠ e.block) }
        | "finish" => .ok { st with writing := st.writing.filter (· ≠ e.block), queue := st.queue ++ [e.block] }
        | "pickinv" => .ok { st with lastInv := some (e.block, e.clean) }
        | "pick" =>
          -- the default pickers: a block at least 80% invalid may be taken out of order (invalid-ratio picker);
          -- every other pick is the fifo picker's and must be the block that was filled first
          let mostlyInvalid : Bool := match st.lastInv with
            | some (b, inv) => b = e.block && inv * 10 ≥ bsize * 8
            | none => st.removed
          if st.writing.contains e.block then
            .error (fail "C09" "block_reclaimed_while_written" s!"block {e.block} picked for reclaim while a writer owns it")
          else if !mostlyInvalid && st.queue.head? ≠ some e.block then
            .error (fail "C09" "reclaim_not_oldest_first" s!"block {e.block} (invalid bytes {(st.lastInv.map (·.2)).getD 0}) picked, blocks were filled in the order {st.queue}")
          else .ok { st with queue := st.queue.filter (· ≠ e.block), reclaiming := st.reclaiming ++ [e.block] }
        | "reclaimed" => .ok { st with reclaiming := st.reclaiming.filter (· ≠ e.block) }
        | _ => .ok st) st
      match r0 with
      | .error e => e
      | .ok stE =>
      let ownedAny := owned0 ++ (evs.filter fun e => e.kind = "take" || e.kind = "reclaimed-handover").map (·.block)
      let reclAny := recl0 ++ (evs.filter fun e => e.kind = "pick").map (·.block)
      let ws := blockWrites tomb f
      let r : Except String MSt := ws.foldlM (fun st w =>
        if w.zero && w.off = 0 then
          if op = "clear" then .ok { st with epochMax := emSet st.epochMax w.block 0, starts := st.starts.filter (·.1 ≠ w.block), idxOffs := st.idxOffs.filter (·.1 ≠ w.block) }
          else if !reclAny.contains w.block then
            .error (fail "C09" "cleaned_block_not_reclaiming" s!"block {w.block} was cleaned but the manager never picked it for reclaim")
          else .ok { st with epochMax := emSet st.epochMax w.block 0, starts := st.starts.filter (·.1 ≠ w.block), idxOffs := st.idxOffs.filter (·.1 ≠ w.block) }
        else if w.off = 0 then .ok st
        else if !ownedAny.contains w.block then
          .error (fail "C09" "write_into_block_not_owned" s!"data written into block {w.block}, writers own {ownedAny}")
        else if w.len = 4096 && (st.idxOffs.contains (w.block, w.off) || st.starts.contains (w.block, w.off + 4096)) then
          -- the index page of a later blob of the block: it sits right in front of the blob's first data write
          .ok { st with idxOffs := if st.idxOffs.contains (w.block, w.off) then st.idxOffs else (w.block, w.off) :: st.idxOffs }
        else if w.off < emGet st.epochMax w.block then
          .error (fail "C09" "block_rewritten_without_reclaim" s!"data written at {w.off} of block {w.block} although it holds data up to {emGet st.epochMax w.block} and was not reclaimed")
        else .ok { st with epochMax := emSet st.epochMax w.block (w.off + w.len), starts := (w.block, w.off) :: st.starts }) stE
      match r with
      | .error e => e
      | .ok st1 =>
        let loads := (listOf (getD f "loads" "-")).filterMap fun t =>
          match t.splitOn ":" with
          | [k, v] => k.toNat?.map fun k => (k, v)
          | _ => none
        let disk := natList (getD f "disk" "-")
        match loads.find? (fun (_, v) => v = "damaged" || v = "foreign" || v = "err") with
        | some (k, v) => fail "C09" "loaded_entry_damaged" s!"load of key {k} delivered a {v} value"
        | none =>
          match loads.find? (fun (k, v) => v = "miss" && disk.contains k) with
          | some (k, _) => fail "C07" "claimed_entry_not_loadable" s!"the disk tier claims key {k} but cannot load it"
          | none =>
            let st2 := if op = "rm" then { st1 with removed := true } else st1
            go st2 rest (n + 1)
  go {} ops 0

end Driver.Rcl
