#!/usr/bin/env python3
"""Regenerate /verif/MANIFEST.json from bin/props.py (claimed = every property with an entry in PROPS)."""
import json, os, subprocess, sys

sys.path.insert(0, os.path.dirname(os.path.abspath(__file__)))
from props import PROPS, CLAIMS, NOT_CLAIMED  # noqa: E402

props = [json.loads(l) for l in open("/verif/properties.jsonl")]
hook_commits = []
try:
    out = subprocess.run(["git", "-C", "/repo", "log", "--format=%h %s"], capture_output=True, text=True).stdout
    hook_commits = [l.split(" ")[0] for l in out.splitlines() if " verif-hook:" in l or l.split(" ", 1)[1].startswith("verif hook")]
except Exception:
    pass

man = {
    "version": 1,
    "setup_cmd": "/verif/bin/setup.sh",
    "hooks": {
        "guard": "cargo feature `verif` (foyer-storage, foyer)",
        "enable": "the harness crate /verif/harness depends on /repo's crates by path with features = [\"verif\"]; "
                  "`cargo build --release` of the harness rebuilds them from /repo's working tree on every check",
        "baseline_off_cmd": "cd /repo && cargo test --workspace --no-fail-fast --offline",
        "source_commits": hook_commits,
        "add_only": True,
    },
    "engines": [
        {"name": "lean-model+proofs", "path": "/verif/lean", "serves_properties": sorted(CLAIMS),
         "kind_free_text": "Lean 4 executable models (FoyerModel), theorems (FoyerProofs), compiled trace-validation driver (foyer_model)"},
        {"name": "harness", "path": "/verif/harness", "serves_properties": sorted(CLAIMS),
         "kind_free_text": "Rust crate driving the real foyer code (path deps on /repo), emitting traces for the Lean driver"},
    ],
    "checks": [],
    "not_applicable": [],
    "notes": "single entry point bin/check.py; see DESIGN.md. Property theorems: lean/FoyerProofs/Cxx.lean.",
}
for p in props:
    pid = p["id"]
    if pid in CLAIMS:
        c = CLAIMS[pid]
        man["checks"].append({
            "property_id": pid,
            "quick_cmd": f"python3 /verif/bin/check.py {pid} --tier quick",
            "thorough_cmd": f"python3 /verif/bin/check.py {pid} --tier thorough",
            "evidence_file": f"/verif/evidence/{pid}.json",
            "replay_cmd_template": f"python3 /verif/bin/check.py {pid} --replay {{path}}",
            "engine": "lean-model+proofs",
            "level_claimed": {"category": "proof", "text": c["text"], "design_ref": f"DESIGN.md §5 {pid}"},
            "level_note": c["note"],
            "technique": c["technique"],
        })
    else:
        man["not_applicable"].append({"property_id": pid, "reason": NOT_CLAIMED.get(
            pid, "not yet claimed: model/proofs for this property are still being built (DESIGN.md §8)")})
json.dump(man, open("/verif/MANIFEST.json", "w"), indent=1)
print("claimed:", sorted(CLAIMS))
