#!/bin/bash
# confirm_seeded.sh <ID>: re-verify a seeded change in its scratch worktree /tmp/wt-<ID>:
#   tests pass with the change, the demo fails with it and passes without it.
id=$1
wt=/tmp/wt-$id
cd $wt || exit 2
export CARGO_NET_OFFLINE=true
out=$wt/SEEDED/confirm.txt
: > $out
demo=$(python3 -c "import json;print(json.load(open('$wt/SEEDED/meta.json'))['demo_command'])")
echo "== suite with change" >> $out
cargo test --workspace --no-fail-fast --offline 2>&1 | grep -E "^test result|FAILED|panicked" >> $out
suite_failed=$(grep -c "FAILED" $out)
echo "== demo with change" >> $out
( cd $wt && bash -c "$demo" ) > $wt/SEEDED/demo_changed.log 2>&1; rc_changed=$?
grep -E "^test result|test .* (ok|FAILED)" $wt/SEEDED/demo_changed.log >> $out
git apply -R SEEDED/patch.diff || echo "REVERT FAILED" >> $out
echo "== demo without change" >> $out
( cd $wt && bash -c "$demo" ) > $wt/SEEDED/demo_unchanged.log 2>&1; rc_unchanged=$?
grep -E "^test result|test .* (ok|FAILED)" $wt/SEEDED/demo_unchanged.log >> $out
git apply SEEDED/patch.diff || echo "REAPPLY FAILED" >> $out
# remove the demo files from the tree again
git status --short | grep '^??' | grep -v SEEDED | awk '{print $2}' | xargs -r rm -rf
echo "suite_failed=$suite_failed demo_changed_failed=$(grep -c FAILED $wt/SEEDED/demo_changed.log) demo_unchanged_failed=$(grep -c FAILED $wt/SEEDED/demo_unchanged.log)" >> $out
rm -rf $wt/target
tail -1 $out
