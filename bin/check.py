#!/usr/bin/env python3
"""
check.py <PROPERTY> [--tier quick|thorough] [--seed N] [--replay FILE]

One entry point for every property (see DESIGN.md §2.1):
  1. rebuild the harness from /repo's working tree (hooks on) and the Lean project;
  2. audit the proofs (forbidden tokens, `#print axioms` of every property theorem);
  3. run the corpus and the generated campaigns: the harness drives the real code and writes
     traces, the Lean driver validates every trace against the model (`T i ACCEPT|REJECT`) and
     evaluates the property monitors on the implementation's own trace (`M i HOLDS|FAILS`);
  4. decide, shrink, write the replay file and the evidence.
"""
import argparse, fcntl, hashlib, json, os, re, subprocess, sys, time

sys.path.insert(0, os.path.dirname(os.path.abspath(__file__)))
from props import PROPS, FIELD_PROPS  # noqa: E402

VERIF = "/verif"
BUILD = f"{VERIF}/.build"
HARNESS = f"{BUILD}/target/release/verif-harness"
MODEL = f"{VERIF}/lean/.lake/build/bin/foyer_model"
ALLOWED_AXIOMS = {"propext", "Classical.choice", "Quot.sound"}
FORBIDDEN = r"\bsorry\b|\badmit\b|^\s*axiom |native_decide|bv_decide|implemented_by|\bunsafe |maxHeartbeats 0"

ENV = dict(os.environ, CARGO_NET_OFFLINE="true")


def sh(cmd, cwd=None, timeout=None, stdin=None):
    try:
        p = subprocess.run(cmd, cwd=cwd, env=ENV, stdin=stdin, stdout=subprocess.PIPE, stderr=subprocess.STDOUT,
                           text=True, timeout=timeout)
    except subprocess.TimeoutExpired as e:
        # a command that does not come back (the real code hangs under the harness) is reported like a crash
        out = e.stdout if isinstance(e.stdout, str) else (e.stdout or b"").decode("utf-8", "replace")
        return 124, out + f"\nTIMEOUT after {timeout}s: {' '.join(map(str, cmd))}\n"
    return p.returncode, p.stdout


REPLAY_HANGS = []   # (domain, lines) of replays that did not come back


class Lock:
    def __init__(self, name):
        os.makedirs(BUILD, exist_ok=True)
        self.f = open(f"{BUILD}/{name}.lock", "w")

    def __enter__(self):
        fcntl.flock(self.f, fcntl.LOCK_EX)

    def __exit__(self, *a):
        fcntl.flock(self.f, fcntl.LOCK_UN)


def build_harness():
    with Lock("cargo"):
        rc, out = sh(["cargo", "build", "--release", "--quiet"], cwd=f"{VERIF}/harness", timeout=3600)
    return rc == 0, out


def build_lean(targets):
    with Lock("lake"):
        rc, out = sh(["lake", "build"] + targets, cwd=f"{VERIF}/lean", timeout=3600)
    return rc == 0, out


def strip_comments(text):
    text = re.sub(r"/-.*?-/", "", text, flags=re.S)
    return "\n".join(l.split("--")[0] for l in text.splitlines())


def audit(prop, thorough):
    """Returns (obligations, discharged, problems, axioms_by_theorem)."""
    problems = []
    for root in ("FoyerModel", "FoyerProofs"):
        for d, _, fs in os.walk(f"{VERIF}/lean/{root}"):
            for fn in fs:
                if fn.endswith(".lean"):
                    body = strip_comments(open(os.path.join(d, fn)).read())
                    for i, l in enumerate(body.splitlines()):
                        if re.search(FORBIDDEN, l):
                            problems.append(f"forbidden token in {root}/{fn}: {l.strip()[:80]}")
    thms = PROPS[prop]["theorems"]
    mod = PROPS[prop]["proof_module"]
    os.makedirs(f"{BUILD}/audit", exist_ok=True)
    path = f"{BUILD}/audit/{prop}.lean"
    with open(path, "w") as f:
        f.write(f"import {mod}\n")
        for m in PROPS[prop].get("extra_modules", []):
            f.write(f"import {m}\n")
        for t in thms:
            f.write(f"#print axioms {t}\n")
    with Lock("lake"):
        rc, out = sh(["lake", "env", "lean", path], cwd=f"{VERIF}/lean", timeout=1800)
    axioms = {}
    cur = None
    # output: 'name' depends on axioms: [a, b]   |   'name' does not depend on any axioms
    for m in re.finditer(r"'([^']+)' (does not depend on any axioms|depends on axioms: \[([^\]]*)\])", out, flags=re.S):
        name = m.group(1)
        axs = [] if m.group(3) is None else [a.strip() for a in m.group(3).replace("\n", " ").split(",") if a.strip()]
        axioms[name] = axs
    discharged = 0
    for t in thms:
        if t not in axioms:
            problems.append(f"theorem {t} not found / not checked: {out.strip()[:300]}")
            continue
        bad = [a for a in axioms[t] if a not in ALLOWED_AXIOMS]
        if bad:
            problems.append(f"theorem {t} depends on disallowed axioms {bad}")
        else:
            discharged += 1
    if thorough and not problems:
        with Lock("lake"):
            for m in [mod] + PROPS[prop].get("extra_modules", []):
                rc, out = sh(["lake", "env", "leanchecker", m], cwd=f"{VERIF}/lean", timeout=3600)
                if rc != 0:
                    problems.append(f"leanchecker {m} failed: {out.strip()[:300]}")
    return len(thms), discharged, problems, axioms


def split_traces(text):
    traces, cur = [], []
    for l in text.splitlines():
        if l.startswith("cfg "):
            if cur:
                traces.append(cur)
            cur = [l]
        elif l.strip() and cur:
            cur.append(l)
    if cur:
        traces.append(cur)
    return traces


def run_model(trace_text):
    """Returns list of (T-verdict dict, M-verdict dict) per trace."""
    p = subprocess.run([MODEL], input=trace_text, stdout=subprocess.PIPE, stderr=subprocess.STDOUT, text=True, timeout=3600)
    res = {}
    for l in p.stdout.splitlines():
        parts = l.split(" ")
        if len(parts) < 3 or parts[0] not in ("T", "M"):
            continue
        idx = int(parts[1])
        d = {"verdict": parts[2]}
        for t in parts[3:]:
            if "=" in t:
                k, v = t.split("=", 1)
                d[k] = v
        res.setdefault(idx, {})[parts[0]] = d
    return [(res[i].get("T", {"verdict": "REJECT", "field": "driver", "model": "no-verdict", "impl": p.stdout[-200:]}),
             res[i].get("M", {"verdict": "HOLDS"})) for i in sorted(res)]


NOT_REPLAYABLE = {"memc", "codec", "crash", "fault"}   # concurrent histories: the recorded history itself is the replay


def domain_of(lines):
    m = re.search(r"\bdomain=(\w+)", lines[0]) if lines else None
    return m.group(1) if m else "mem"


def classify(prop, t, m, domain=None):
    """What does this trace mean for `prop`?  'ok' | ('fails', clause, step) | ('reject', field, step)"""
    domain = domain or PROPS[prop]["domain"]
    relevant_mon = PROPS[prop].get("monitor_props", [prop])
    # a clause can belong to several properties ("C05+C18")
    mprops = (m.get("prop") or "").split("+")
    if m["verdict"] == "FAILS" and any(x in relevant_mon for x in mprops):
        return ("fails", m.get("clause", "?"), int(m.get("step", 0)), m.get("detail", ""))
    if t["verdict"] == "REJECT":
        field = t.get("field", "?")
        owners = FIELD_PROPS.get(domain, {}).get(field)
        if field in PROPS[prop].get("reject_is_fail_fields", []):
            return ("fails", "differs_from_documented_algorithm:" + field, int(t.get("step", 0)),
                    f"model={t.get('model')} impl={t.get('impl')}")
        if owners is None or prop in owners:
            # a monitor failure of another property *before* this step explains the divergence
            if m["verdict"] == "FAILS" and int(m.get("step", 0)) <= int(t.get("step", 0)) and not any(x in relevant_mon for x in mprops):
                return ("ok",)
            return ("reject", field, int(t.get("step", 0)), f"model={t.get('model')} impl={t.get('impl')}")
    return ("ok",)


def harness_replay(domain, lines):
    os.makedirs(f"{BUILD}/run", exist_ok=True)
    path = f"{BUILD}/run/replay-{os.getpid()}.trace"
    with open(path, "w") as f:
        f.write("\n".join(lines) + "\n")
    rc, out = sh([HARNESS, domain, f"replay={path}"], timeout=300)
    os.unlink(path)
    if rc == 124:
        REPLAY_HANGS.append((domain, lines))
        return ""
    return out


def same_failure(prop, cls, lines, domain):
    out = harness_replay(domain, lines)
    res = run_model(out)
    if not res:
        return None
    c = classify(prop, *res[0], domain=domain)
    if c[0] == cls[0] and c[1] == cls[1]:
        return split_traces(out)[0], c
    return None


def shrink(prop, cls, lines, domain, budget_s=30):
    """Delta-debug the op lines (the real code is re-run at every step)."""
    t0 = time.time()
    best = lines
    if domain in NOT_REPLAYABLE:
        return lines, cls
    r = same_failure(prop, cls, best, domain)
    if r is None:
        return lines, cls  # not reproducible through replay: keep the original
    best, bcls = r
    # cut everything after the failing step
    best = best[: 2 + bcls[2]] if len(best) > 2 + bcls[2] else best
    n = 2
    while len(best) > 2 and time.time() - t0 < budget_s:
        ops = best[1:]
        chunk = max(1, len(ops) // n)
        reduced = False
        for i in range(0, len(ops), chunk):
            cand = [best[0]] + ops[:i] + ops[i + chunk:]
            if len(cand) < 2:
                continue
            r = same_failure(prop, cls, cand, domain)
            if r is not None:
                best, bcls = r
                best = best[: 2 + bcls[2]] if len(best) > 2 + bcls[2] else best
                n = max(n - 1, 2)
                reduced = True
                break
            if time.time() - t0 > budget_s:
                break
        if not reduced:
            if chunk == 1:
                break
            n = min(n * 2, len(ops))
    return best, bcls


def op_kind(line):
    m = re.search(r"\bop=(\w+)", line)
    return m.group(1) if m else "?"


def load_known():
    try:
        return json.load(open(f"{VERIF}/known_findings.json"))["findings"]
    except Exception:
        return []


def match_known(prop, clause, opk):
    for k in load_known():
        if k.get("status") == "known" and k["property"] == prop and k["signature"].get("clause") == clause \
                and k["signature"].get("op") in (None, opk):
            return k
    return None


def write_replay(prop, tier, seed, kind, clause, detail, lines, note=""):
    os.makedirs(f"{VERIF}/replays", exist_ok=True)
    h = hashlib.sha1(("\n".join(lines) + clause).encode()).hexdigest()[:10]
    path = f"{VERIF}/replays/{prop}-{h}.replay"
    with open(path, "w") as f:
        f.write(f"# property={prop} tier={tier} seed={seed}\n# kind={kind} clause={clause}\n# detail={detail}\n")
        if note:
            f.write(f"# note={note}\n")
        f.write(f"# rerun: /verif/bin/check.py {prop} --replay {path}\n")
        f.write("\n".join(lines) + "\n")
    return path


def nontrivial(prop, lines):
    rx = PROPS[prop].get("nontrivial")
    if not rx:
        return len(lines) > 2
    return any(re.search(rx, l) for l in lines)


def main():
    ap = argparse.ArgumentParser()
    ap.add_argument("prop")
    ap.add_argument("--tier", default=os.environ.get("VERIF_TIER", "quick"))
    ap.add_argument("--seed", type=int, default=int(os.environ.get("VERIF_SEED", "0")))
    ap.add_argument("--replay")
    a = ap.parse_args()
    if os.environ.get("VERIF_TIER") in ("quick", "thorough"):
        a.tier = os.environ["VERIF_TIER"]
    prop, tier, seed = a.prop, a.tier, a.seed
    P = PROPS[prop]
    domain = P["domain"]
    t0 = time.time()
    violations = []   # (replay_path, suffix)
    known_lines = []
    notes = []
    crashes = []

    ok_h, out_h = build_harness()
    ok_l, out_l = build_lean([P["proof_module"]] + P.get("extra_modules", []) + ["foyer_model"])
    obligations, discharged, problems, axioms = (len(P["theorems"]), 0, [], {})
    if ok_l:
        obligations, discharged, problems, axioms = audit(prop, tier == "thorough")
    proof_broken = (not ok_l) or bool(problems)

    if a.replay:
        text = "\n".join(l for l in open(a.replay).read().splitlines() if not l.startswith("#"))
        rdom = domain_of(text.splitlines())
        out = text + "\n" if rdom in NOT_REPLAYABLE else harness_replay(rdom, text.splitlines())
        res = run_model(out)
        rc = 0
        for i, (t, m) in enumerate(res):
            c = classify(prop, t, m, domain=rdom)
            print(f"replay trace {i}: T={t} M={m} -> {c}")
            if c[0] != "ok":
                rc = 1
                print(f"VIOLATION property={prop} replay={a.replay}")
        sys.exit(rc)

    evaluations = 0
    distinct = set()
    samples = []
    accepted = 0
    hist = {}
    failing = []   # (cls, lines)
    if not ok_h:
        path = write_replay(prop, tier, seed, "tie-broken", "harness-build",
                            "the correspondence harness no longer builds against /repo", out_h.strip().splitlines()[-30:])
        violations.append((path, " no-failing-input-found"))
    else:
        campaigns = []
        corpus_dir = f"{VERIF}/corpus/{prop}"
        if os.path.isdir(corpus_dir):
            for fn in sorted(os.listdir(corpus_dir)):
                campaigns.append(("corpus:" + fn, None, os.path.join(corpus_dir, fn), domain))
        for c in P["campaigns"][tier]:
            campaigns.append((c["name"], c["args"], None, c.get("domain", domain)))
        for name, args, corpus_file, cdom in campaigns:
            if corpus_file:
                text = "\n".join(l for l in open(corpus_file).read().splitlines() if not l.startswith("#"))
                cdom = domain_of(text.splitlines())
                out = text + "\n" if cdom in NOT_REPLAYABLE else harness_replay(cdom, text.splitlines())
                if not split_traces(out):
                    crashes.append((name, cdom, [HARNESS, cdom, "replay=" + corpus_file], 124, "the replay of this corpus trace on the real code produced no trace (crash or hang)"))
            else:
                rc, out = sh([HARNESS, cdom, f"seed={seed}"] + args, timeout=7200)
                if rc != 0:
                    notes.append(f"campaign {name}: harness exited {rc}: {out[-300:]}")
                # exit 3 = the watchdog's deadlock report (a trace with a ret=deadlock line, judged below); any other
                # failure of the harness, or a campaign without a single trace, means the real code could not be
                # driven through the campaign: the tie to /repo is gone for it
                if rc not in (0, 3) or not split_traces(out):
                    crashes.append((name, cdom, [HARNESS, cdom, f"seed={seed}"] + args, rc, out[-3000:]))
            traces = split_traces(out)
            res = run_model(out)
            if len(res) != len(traces):
                notes.append(f"campaign {name}: {len(traces)} traces but {len(res)} verdicts")
            for lines, (t, m) in zip(traces, res):
                evaluations += 1
                for l in lines[1:]:
                    k = op_kind(l)
                    hist[k] = hist.get(k, 0) + 1
                key = hashlib.sha1("\n".join(re.sub(r" ret=.*", "", l) for l in lines).encode()).hexdigest()
                if nontrivial(prop, lines):
                    distinct.add(key)
                if len(samples) < 3 and len(lines) > 3:
                    samples.append(lines[:12])
                c = classify(prop, t, m, domain=cdom)
                if c[0] == "ok":
                    accepted += 1
                else:
                    failing.append((c, lines, cdom))

    # decide
    seen_sig = set()
    for cls, lines, fdom in failing[:200]:
        sig0 = (cls[0], cls[1], op_kind(lines[min(len(lines) - 1, 1 + cls[2])]))
        if sig0 in seen_sig:
            continue
        small, scls = shrink(prop, cls, lines, fdom, budget_s=20 if tier == "quick" else 60)
        opk = op_kind(small[min(len(small) - 1, 1 + scls[2])])
        sig = (scls[0], scls[1], opk)
        seen_sig.add(sig0)
        if sig in seen_sig and sig != sig0:
            continue
        seen_sig.add(sig)
        if scls[0] == "fails":
            k = match_known(prop, scls[1], opk)
            if k:
                known_lines.append(f"KNOWN-FINDING: property={prop} {k['what']}")
                continue
            path = write_replay(prop, tier, seed, "property-fails-on-implementation", scls[1], scls[3], small)
            violations.append((path, ""))
        else:
            path = write_replay(prop, tier, seed, "correspondence-broken", f"field={scls[1]}", scls[3], small,
                                note=f"model and implementation disagree; monitors of {prop} hold on this trace; "
                                     f"correspondence {P['proof_module']}/Driver.{fdom} no longer checks")
            violations.append((path, " no-failing-input-found"))

    for name, cdom, cmd, rc, tail in crashes:
        path = write_replay(prop, tier, seed, "harness-crashed", f"campaign={name}",
                            f"the harness exited with code {rc} / produced no trace while driving the real code",
                            ["# command: " + " ".join(cmd)] + ["# " + l for l in tail.splitlines()[-40:]],
                            note=f"the correspondence campaign {name} (Driver.{cdom}) could not be run against /repo")
        violations.append((path, " no-failing-input-found"))

    if proof_broken:
        # the search for a failing input is the campaign above; if it found one it is already reported
        if not any(s == "" for _, s in violations):
            what = (out_l.strip().splitlines()[-25:] if not ok_l else problems)
            path = write_replay(prop, tier, seed, "proof-broken", "lean-build-or-audit",
                                "theorems of " + P["proof_module"] + " no longer check", [str(w) for w in what])
            violations.append((path, " no-failing-input-found"))

    wall = time.time() - t0
    ev = {
        "property_id": prop, "tier": tier, "seed": seed, "level": "proof",
        "coverage": {
            "obligations": obligations, "discharged": discharged,
            "checker_cmd": f"cd /verif/lean && lake build {P['proof_module']} && lake env lean .build/audit/{prop}.lean  (#print axioms)" +
                           (" && lake env leanchecker " + P["proof_module"] if tier == "thorough" else ""),
            "trusted_base": P["trusted_base"],
            "theorems": [{"name": t, "axioms": axioms.get(t)} for t in P["theorems"]],
            "evaluations": evaluations,
            "distinct_nontrivial": len(distinct),
            "rule": P["rule"],
            "samples": samples,
            "traces_validated_against_impl": accepted,
            "op_histogram": hist,
            "notes": notes,
        },
        "assumptions": P["assumptions"],
        "wall_s": round(wall, 2),
        "violations": len(violations),
    }
    os.makedirs(f"{VERIF}/evidence", exist_ok=True)
    with open(f"{VERIF}/evidence/{prop}.json", "w") as f:
        json.dump(ev, f, indent=1)
    for l in sorted(set(known_lines)):
        print(l)
    print(f"{prop} tier={tier} seed={seed}: theorems {discharged}/{obligations}, traces {accepted}/{evaluations} accepted, "
          f"{len(distinct)} distinct non-trivial, {len(violations)} violation(s), {wall:.1f}s")
    for path, suffix in violations:
        print(f"VIOLATION property={prop} replay={path}{suffix}")
    sys.exit(1 if violations else 0)


if __name__ == "__main__":
    main()
