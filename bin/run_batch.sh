#!/bin/bash
# run_batch.sh <tier> <seed> <PROP>... : run checks one after the other, each under the /repo lock
tier=$1; seed=$2; shift 2
mkdir -p /verif/.build/$tier
for p in "$@"; do
  ( flock 9; cd /verif; VERIF_SEED=$seed python3 bin/check.py $p --tier $tier > /verif/.build/$tier/$p.log 2>&1 ) 9>/verif/.build/repo.lock
done
echo done > /verif/.build/$tier/batch-$seed.done
