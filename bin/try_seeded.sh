#!/bin/bash
# try_seeded.sh <patch.diff> <PROP>...: apply a seeded change to /repo, run the quick checks, undo it.
patch=$1; shift
# serialize with background check batches: nothing else may build from /repo while it is patched
exec 9>/verif/.build/repo.lock; flock 9
git -C /repo apply "$patch" || { echo "PATCH DOES NOT APPLY"; exit 2; }
for p in "$@"; do
  python3 /verif/bin/check.py $p --tier ${TIER:-quick} 2>&1 | grep -E "VIOLATION|KNOWN|tier=" | cut -c1-260
done
git -C /repo checkout -- .
git -C /repo status --short | head -3
