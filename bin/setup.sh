#!/bin/sh
# MANIFEST.setup_cmd: build the framework from files on disk only (offline).
set -e
cd /verif/lean && lake build FoyerModel FoyerProofs foyer_model
cd /verif/harness && CARGO_NET_OFFLINE=true cargo build --release --quiet
echo setup-ok
