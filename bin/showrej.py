#!/usr/bin/env python3
"""debug helper: show traces whose model verdict is REJECT (optionally only those the monitor HOLDS) or a given clause"""
import re,sys
tr,ver=sys.argv[1],sys.argv[2]
mode=sys.argv[3] if len(sys.argv)>3 else 'unexplained'
limit=int(sys.argv[4]) if len(sys.argv)>4 else 3
T={};M={}
for l in open(ver):
    p=l.split()
    if p[0]=='T': T[int(p[1])]=l.strip()
    if p[0]=='M': M[int(p[1])]=l.strip()
traces=[];cur=None
for l in open(tr):
    if l.startswith('cfg '):
        cur=[l.rstrip()];traces.append(cur)
    elif cur is not None: cur.append(l.rstrip())
n=0
for i in sorted(T):
    if mode=='unexplained': sel='REJECT' in T[i] and 'HOLDS' in M.get(i,'HOLDS'); src=T[i]
    else: sel=mode in M.get(i,''); src=M.get(i,'')
    if sel:
        n+=1
        if n>limit: break
        print('=====',i,T[i]); print('     ',M.get(i))
        m=re.search(r'line=(\d+)',src);ln=int(m.group(1)) if m else 10**9
        m=re.search(r'step=(\d+)',src);st=int(m.group(1)) if m else 10**9
        print(traces[i][0])
        for j,l in enumerate(traces[i][1:st+3],0):
            print(j,l[:260])
