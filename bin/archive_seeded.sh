#!/bin/bash
# archive_seeded.sh <PROP> <slug>: keep a confirmed seeded change as /verif/seeded/<PROP>-<slug>/ and remove its worktree
id=$1; slug=$2
src=/tmp/wt-$id/SEEDED
dst=/verif/seeded/$id-$slug
mkdir -p $dst
cp $src/patch.diff $dst/patch.diff
cp -r $src/demo $dst/demo
cp $src/meta.json $dst/meta.json
[ -f $src/confirm.txt ] && cp $src/confirm.txt $dst/confirm.txt
git -C /repo worktree remove --force /tmp/wt-$id
rm -rf /tmp/wt-$id
echo archived $dst
