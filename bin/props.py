"""
Per-property configuration of check.py: proof module, theorem names (the obligations), campaigns
(harness arguments per tier), which observed fields belong to which property's projection of the
correspondence, trusted base and assumptions.
"""

TB_COMMON = [
    "Lean 4.33 kernel (leanchecker re-check in the thorough tier); axioms allowed: propext, Classical.choice, Quot.sound",
    "correspondence harness /verif/harness (Rust) + generators + the Lean driver's line-protocol parser",
    "hand-written model FoyerModel/* tied to /repo by trace validation on every run (differential testing, not proof)",
]

MEM_ASSUME = [
    "one synchronous API call = one atomic model step (shard RwLock); atomics outside the lock (refs, flags) are refined only in C18",
    "memory safety of the unsafe intrusive lists / UnsafeCell state, parking_lot and hashbrown are trusted, not modelled",
    "f64 pool-size rounding is computed by the driver with IEEE doubles; the proofs treat pool sizes as arbitrary naturals",
]

# Which property owns which observed field of a domain (a mismatch in a field is charged to its owners).
FIELD_PROPS = {
    "mem": {
        "ret": ["C02", "C17", "C13", "C18", "C14"],
        "leaves": ["C13", "C05", "C14", "C18"],
        "piped": ["C13"],
        "usage": ["C05"],
        "entries": ["C05"],
        "has": ["C02", "C05", "C13", "C17"],
        "held": ["C18"],
        "stable": ["C02", "C18"],
        "victims": ["C05", "C14"],
    },
}


def mem_campaigns(mode="oracle", quick_cases=1500, thorough_cases=60000, maxops_q=40, maxops_t=80, extra=None):
    extra = extra or []
    return {
        "quick": [
            {"name": f"mem-{mode}-random", "args": [f"mode={mode}", f"cases={quick_cases}", f"maxops={maxops_q}"] + extra},
        ],
        "thorough": [
            {"name": f"mem-{mode}-random", "args": [f"mode={mode}", f"cases={thorough_cases}", f"maxops={maxops_t}"] + extra},
        ],
    }


PROPS = {
    "C05": {
        "domain": "mem",
        "proof_module": "FoyerProofs.C05",
        "theorems": [
            "Foyer.C05.caps_sum", "Foyer.C05.new_capacity", "Foyer.C05.usage_exact", "Foyer.C05.usage_exact_inv",
            "Foyer.C05.findable_iff_lookup", "Foyer.C05.insert_evicts_minimally", "Foyer.C05.phantom_neutral",
            "Foyer.C05.clear_zero", "Foyer.C05.resize_bound", "Foyer.C05.no_panic",
            "Foyer.fifo_lawful", "Foyer.oracle_lawful",
        ],
        "monitor_props": ["C05"],
        "campaigns": mem_campaigns("oracle"),
        "nontrivial": r"leaves=[^ ]*evict|op=clear|op=resize",
        "rule": "random op sequences (insert with arbitrary weights/hints/phantom, get-and-hold, touch, clone, drop, remove, "
                "clear, resize, evict_all, flush; capacities 0..14, shards 1..4 incl. shards > capacity, colliding hashers) "
                "for each of the 5 algorithms, executed on the real Cache; a case is non-trivial if it contains an eviction, "
                "a clear or a resize; distinct = distinct (cfg, op sequence)",
        "trusted_base": TB_COMMON,
        "assumptions": MEM_ASSUME,
    },
}
