"""
Per-property configuration of check.py: proof module, theorem names (the obligations), campaigns
(harness arguments per tier), which observed fields belong to which property's projection of the
correspondence, trusted base and assumptions.
"""

TB_COMMON = [
    "Lean 4.33 kernel (leanchecker re-check in the thorough tier); axioms allowed: propext, Classical.choice, Quot.sound",
    "correspondence harness /verif/harness (Rust) + generators + the Lean driver's line-protocol parser",
    "hand-written model FoyerModel/* tied to /repo by trace validation on every run (differential testing, not proof)",
]

MEM_ASSUME = [
    "one synchronous API call = one atomic model step (shard RwLock); atomics outside the lock (refs, flags) are refined only in C18",
    "memory safety of the unsafe intrusive lists / UnsafeCell state, parking_lot and hashbrown are trusted, not modelled",
    "f64 pool-size rounding is computed by the driver with IEEE doubles; the proofs treat pool sizes as arbitrary naturals",
]

# Which property owns which observed field of a domain (a mismatch in a field is charged to its owners).
INFL_ASSUME = [
    "one model step = one external event followed by running the woken tasks to quiescence (what a current-thread runtime does); "
    "the check-then-act window inside one poll of a fetch task on a multi-threaded runtime is not modelled",
    "the in-flight entry and its open leader task are one object in the model (a closed leader has no further effect)",
    "memory-only level (Cache::get_or_fetch_inner with harness-owned disk / origin futures); the hybrid level is covered by the "
    "hybrid campaigns",
]

FIELD_PROPS = {
    "codec": {},
    "tomb": {},
    "infl": {
        "started": ["C06", "C11", "C17"],
        "dstarted": ["C06", "C17"],
        "callers": ["C06", "C11", "C17"],
        "cache": ["C06", "C11", "C17"],
    },
    "lay": {},
    "crash": {},
    "fault": {},
    "blk": {
        "block-events": ["C09"],
        "hyb-ret": ["C01", "C17", "C12"],
        "hyb-mem": ["C12", "C01"],
        "hyb-disk": ["C12", "C15"],
    },
    "hyb": {
        "ret": ["C01", "C17", "C12"],
        "mem": ["C12", "C01"],
        "disk": ["C12", "C15"],
    },
    "mem": {
        "ret": ["C02", "C17", "C13", "C18", "C14", "C16"],
        "leaves": ["C13", "C05", "C14", "C18"],
        "piped": ["C13"],
        "usage": ["C05"],
        "entries": ["C05"],
        "has": ["C02", "C05", "C13", "C17", "C16"],
        "held": ["C18"],
        "stable": ["C02", "C18"],
        "victims": ["C05", "C14"],
    },
}


def mem_campaigns(mode="oracle", quick_cases=1500, thorough_cases=60000, maxops_q=40, maxops_t=80, extra=None):
    extra = extra or []
    return {
        "quick": [
            {"name": f"mem-{mode}-random", "args": [f"mode={mode}", f"cases={quick_cases}", f"maxops={maxops_q}"] + extra},
        ],
        "thorough": [
            {"name": f"mem-{mode}-random", "args": [f"mode={mode}", f"cases={thorough_cases}", f"maxops={maxops_t}"] + extra},
        ],
    }


def mem_algo_campaigns():
    return {
        "quick": [{"name": "mem-algo-random", "args": ["mode=algo", "cases=2500", "maxops=60"]},
                  {"name": "mem-algo-lru", "args": ["mode=algo", "cases=2000", "maxops=60", "algos=lru"]}],
        "thorough": [{"name": "mem-algo-random", "args": ["mode=algo", "cases=60000", "maxops=120"]},
                     {"name": "mem-algo-lru", "args": ["mode=algo", "cases=40000", "maxops=120", "algos=lru"]}],
    }


PROPS = {
    "C14": {
        "domain": "mem",
        "proof_module": "FoyerProofs.C14",
        "theorems": [
            "Foyer.C14.fifo_lawful", "Foyer.C14.lru_lawful", "Foyer.C14.sieve_lawful", "Foyer.C14.s3fifo_lawful",
            "Foyer.C14.lfu_lawful", "Foyer.C14.fifo_evicts_in_insertion_order", "Foyer.C14.lru_never_pops_pinned",
            "Foyer.C14.lru_low_before_high", "Foyer.C14.lru_high_pool_bounded", "Foyer.C14.sieve_victim_unvisited",
            "Foyer.C14.s3fifo_evict_total", "Foyer.C14.s3fifo_push_rule", "Foyer.C14.lfu_pop_rule",
        ],
        "monitor_props": ["C14"],
        # in algorithm mode the model *is* the documented algorithm: a different victim sequence is a failure
        "reject_is_fail_fields": ["leaves", "victims", "has", "usage", "entries"],
        "campaigns": mem_algo_campaigns(),
        "nontrivial": r"leaves=[^ ]*evict",
        "rule": "single shard, identity hasher, algorithm mode: the Lean model of the configured algorithm (FIFO, LRU with "
                "several pool ratios, SIEVE, S3-FIFO with several small/ghost ratios and thresholds, w-TinyLFU with several "
                "window/protected ratios and the exact count-min sketch) predicts every victim; random op sequences "
                "(insert with weights and hints, get, hold/release, touch, remove, resize, clear); non-trivial = at least "
                "one eviction; distinct = distinct (cfg, op sequence)",
        "trusted_base": TB_COMMON + ["MurmurHash3/count-min port FoyerModel/Murmur.lean (validated by the correspondence only)"],
        "assumptions": MEM_ASSUME,
    },
    "C13": {
        "domain": "mem",
        "proof_module": "FoyerProofs.C13",
        "theorems": [
            "Foyer.C13.conservation", "Foyer.C13.conservation_from", "Foyer.C13.exactly_once", "Foyer.C13.admitted_ids",
            "Foyer.C13.pipe_iff_evict", "Foyer.C13.reason_correct", "Foyer.step_conservation",
            "Foyer.fifo_lawful", "Foyer.oracle_lawful",
        ],
        "monitor_props": ["C13"],
        "campaigns": mem_campaigns("oracle"),
        "nontrivial": r"leaves=[^- ]",
        "rule": "same generator as C05 (random op sequences over insert/replace/remove/get/hold/drop/clear/resize/evict_all/"
                "flush, incl. disk-only inserts, 5 algorithms, shards 1..4) with an EventListener and a recording Pipe on the "
                "real Cache; non-trivial = at least one leave notification; distinct = distinct (cfg, op sequence)",
        "trusted_base": TB_COMMON,
        "assumptions": MEM_ASSUME + ["multi-threaded leave/hand-off multiset check is part of the C02 concurrent campaign"],
    },
    "C02": {
        "domain": "mem",
        "proof_module": "FoyerProofs.C02",
        "theorems": [
            "Foyer.C02.reads_latest", "Foyer.C02.reads_latest_from", "Foyer.C02.lookup_step", "Foyer.C02.reads_observe_lookup",
            "Foyer.C02.held_stable", "Foyer.C02.atomic_sections_linearizable", "Foyer.C02.concurrent_reads_latest",
            "Foyer.Conc.J_step", "Foyer.fifo_lawful", "Foyer.oracle_lawful",
        ],
        "monitor_props": ["C02"],
        "campaigns": {
            "quick": [
                {"name": "mem-oracle-random", "args": ["mode=oracle", "cases=800", "maxops=40"]},
                {"name": "memc-threads", "domain": "memc", "args": ["cases=400", "threads=4", "ops=6"]},
            ],
            "thorough": [
                {"name": "mem-oracle-random", "args": ["mode=oracle", "cases=20000", "maxops=80"]},
                {"name": "memc-threads", "domain": "memc", "args": ["cases=20000", "threads=4", "ops=7"]},
            ],
        },
        "nontrivial": r"ret=h:|op=remove|op=clear",
        "rule": "(i) sequential traces of the real Cache validated against the model (same generator as C05); (ii) concurrent "
                "histories: 2-4 OS threads run random programs (insert / remove / get / contains / touch / clear / resize / "
                "evict_all, handles held across calls; keys shared, 1-3 keys; 5 algorithms; shards 1..4) on one Cache, each call "
                "stamped with a global clock at invoke and response; per key the Lean driver decides linearizability against "
                "the register-with-misses by exhaustive search over real-time-respecting orders (exact per history; schedules "
                "are whatever the OS gives plus PRNG spin jitter); non-trivial = contains a hit, a remove or a clear",
        "trusted_base": TB_COMMON,
        "assumptions": MEM_ASSUME + ["Part B's premise: every call is one atomic section (the shard lock); memory-model effects "
                                     "(Relaxed/Acquire) and the two-phase handle drop are outside the model"],
    },
    "C17": {
        "domain": "mem",
        "proof_module": "FoyerProofs.C17",
        "extra_modules": ["FoyerProofs.C01"],
        "theorems": ["Foyer.C17.mem_own_key_or_miss", "Foyer.C17.mem_colliding_keys_independent", "Foyer.C02.reads_latest",
                     "Foyer.C02.reads_observe_lookup", "Foyer.Hyb.disk_lookup_own_key_or_miss",
                     "Foyer.Hyb.recovery_picks_latest"],
        "monitor_props": ["C17", "C02"],
        "campaigns": {
            "quick": [
                {"name": "mem-colliding", "args": ["mode=oracle", "cases=800", "maxops=40", "collide=1"]},
                {"name": "memc-colliding", "domain": "memc", "args": ["cases=200", "threads=3", "ops=6", "collide=1"]},
                {"name": "hyb-colliding", "domain": "hyb", "args": ["cases=250", "maxops=25", "collide=1", "reopen=1"]},
                {"name": "infl-colliding", "domain": "infl", "args": ["cases=1200", "maxev=16", "collide=1"]},
            ],
            "thorough": [
                {"name": "mem-colliding", "args": ["mode=oracle", "cases=20000", "maxops=80", "collide=1"]},
                {"name": "memc-colliding", "domain": "memc", "args": ["cases=5000", "threads=4", "ops=7", "collide=1"]},
                {"name": "hyb-colliding", "domain": "hyb", "args": ["cases=6000", "maxops=40", "collide=1", "reopen=1"]},
                {"name": "infl-colliding", "domain": "infl", "args": ["cases=40000", "maxev=24", "collide=1"]},
            ],
        },
        "nontrivial": r"ret=(h:|v:)",
        "rule": "memory part: user-supplied hashers with full 64-bit collisions (constant hash) and same-shard collisions "
                "(mod / div), op sequences over the colliding key set, sequential (model-validated) and concurrent; hybrid part: "
                "the real HybridCache with constant / mod-2 hashers (all keys or half of them share one disk index slot), "
                "histories with hold / gate windows and frequent close+reopen, results compared with the hybrid model and "
                "checked for foreign values; non-trivial = at least one hit",
        "trusted_base": TB_COMMON,
        "assumptions": MEM_ASSUME,
    },
    "C18": {
        "domain": "mem",
        "proof_module": "FoyerProofs.C18",
        "theorems": [
            "Foyer.C18.held_data_stable", "Foyer.C18.lru_get_pins", "Foyer.C18.lru_held_not_victim",
            "Foyer.C18.lru_pinned_is_held", "Foyer.C18.lru_no_leak", "Foyer.C18.lru_protects", "Foyer.C18.lru_unprotects",
            "Foyer.protected_step", "Foyer.heldInv_step", "Foyer.C14.lru_never_pops_pinned",
        ],
        "monitor_props": ["C18"],
        "campaigns": {
            "quick": [
                {"name": "mem-oracle-random", "args": ["mode=oracle", "cases=800", "maxops=40"]},
                {"name": "mem-algo-lru", "args": ["mode=algo", "cases=1200", "maxops=60", "algos=lru"]},
                # in-flight fetches: after every case (everything resolved or dropped) a fresh lookup holds the only
                # reference to each cached record
                {"name": "infl-refs", "domain": "infl", "args": ["cases=1500", "maxev=14"]},
            ],
            "thorough": [
                {"name": "mem-oracle-random", "args": ["mode=oracle", "cases=20000", "maxops=80"]},
                {"name": "mem-algo-lru", "args": ["mode=algo", "cases=40000", "maxops=120", "algos=lru"]},
                {"name": "infl-refs", "domain": "infl", "args": ["cases=40000", "maxev=24"]},
            ],
        },
        "nontrivial": r"held=[0-9]",
        "rule": "handle-centric random sequences (insert / get / touch / clone / drop interleaved with replace, remove, clear, "
                "resize, evicting inserts; every trace ends by dropping all handles and one more insert) on the real Cache: after "
                "every op refs()/is_outdated()/key/value/weight of every held handle are compared with the model and with the "
                "monitor; LRU additionally in algorithm mode (pin list predicted); non-trivial = some handle held across an op",
        "trusted_base": TB_COMMON,
        "assumptions": MEM_ASSUME + ["the two-step handle drop (dec_refs, then lock + release) is modelled as one step; the "
                                     "window between the two halves is outside the model (DESIGN.md §6 C18, F-E)"],
    },
    "C06": {
        "domain": "infl",
        "proof_module": "FoyerProofs.C06",
        "theorems": [
            "Foyer.Infl.inv_step", "Foyer.Infl.inv_run", "Foyer.Infl.no_orphan_waiter", "Foyer.Infl.origin_ok_answers_all",
            "Foyer.Infl.origin_err_answers_all", "Foyer.Infl.next_call_fetches_again", "Foyer.Infl.abort_answers_all",
            "Foyer.Infl.donated_fetch_used",
        ],
        "monitor_props": ["C06"],
        "campaigns": {
            "quick": [{"name": "infl-random", "args": ["cases=2500", "maxev=12"]}],
            "thorough": [{"name": "infl-random", "args": ["cases=80000", "maxev=16"]}],
        },
        "nontrivial": r"callers=[^ ]*(val|err|none)",
        "rule": "random event scripts on the real Cache::get_or_fetch_inner (1-2 keys): callers arrive with/without a disk lookup "
                "and with/without a fetch closure, disk lookups resolve (hit/miss/error), origin fetches resolve (ok/error), "
                "explicit insert/remove, callers dropped, the runtime hosting the fetch tasks shut down (tasks cancelled); every "
                "future is a harness-owned oneshot; after each event the runtime is driven to quiescence and which closures "
                "started, every caller's state and the cache content are compared with the model; each script ends by resolving "
                "or dropping everything, after which a pending caller is a hang; non-trivial = some waiter was answered through a "
                "notifier; distinct = distinct scripts",
        "trusted_base": TB_COMMON,
        "assumptions": INFL_ASSUME,
    },
    "C11": {
        "domain": "infl",
        "proof_module": "FoyerProofs.C11",
        "theorems": [
            "Foyer.Infl.insert_answers_waiters", "Foyer.Infl.cached_stable_step", "Foyer.Infl.late_fetch_discarded",
            "Foyer.Infl.insert_not_overwritten", "Foyer.Infl.inv_step",
            "Foyer.Infl.pinsert_closes_flight", "Foyer.Infl.closed_flight_ignores_results",
        ],
        "monitor_props": ["C11"],
        "campaigns": {
            "quick": [{"name": "infl-random", "args": ["cases=2500", "maxev=12"]},
                      {"name": "infl-colliding", "args": ["cases=800", "maxev=14", "collide=1"]}],
            "thorough": [{"name": "infl-random", "args": ["cases=80000", "maxev=16"]},
                         {"name": "infl-colliding", "args": ["cases=20000", "maxev=20", "collide=1"]}],
        },
        "nontrivial": r"ev=insert",
        "rule": "same scripts as C06; non-trivial = contains an explicit insert; the monitor checks that after insert(k,v) the "
                "cache shows v for k until the next explicit insert/remove of k and that every caller waiting for k received v",
        "trusted_base": TB_COMMON,
        "assumptions": INFL_ASSUME,
    },
    "C08": {
        "domain": "codec",
        "proof_module": "FoyerProofs.C08",
        "theorems": [
            "Foyer.Codec.decLE_encLE", "Foyer.Codec.decBE_encBE", "Foyer.Codec.decInt_encInt", "Foyer.Codec.decBool_encBool",
            "Foyer.Codec.bool_decode_rejects", "Foyer.Codec.decVec_encVec", "Foyer.Codec.decVec_truncated",
            "Foyer.Codec.decString_encVec", "Foyer.Codec.decString_rejects_invalid", "Foyer.Codec.decHeader_encHeader",
            "Foyer.Codec.decHeader_rejects", "Foyer.Codec.decEntry_encEntry", "Foyer.Codec.decEntry_detects",
            "Foyer.Codec.compressed_value_roundtrip", "Foyer.Codec.push_all_or_nothing", "Foyer.Codec.push_within",
        ],
        "monitor_props": ["C08"],
        "campaigns": {
            "quick": [{"name": "codec", "args": ["cases=300"]}],
            "thorough": [{"name": "codec", "args": ["cases=20000"]}],
        },
        "nontrivial": r"t=(entry|entryc|vec|string|push) ",
        "rule": "the real Code::encode/decode for every built-in type at boundary and random values (u8..u128, usize, i8..i128, isize, "
                "f32/f64 bit patterns incl. NaN payloads, bool, Vec<u8>, Bytes, String incl. multi-byte and invalid UTF-8), truncated "
                "inputs, one-byte-too-small writers; EntrySerializer/EntryDeserializer/EntryHeader x {None, Zstd, Lz4} x value lengths "
                "(0, 1, page boundary +-1, random up to 9 KiB, compressible / incompressible), flipped payload bytes, corrupted magic / "
                "compression tag; Buffer::push sequences around page / buffer / max-entry boundaries. The Lean model recomputes every "
                "encoding (hex), the header bytes, the XxHash64 checksum (own port) and the push bookkeeping; a trace = ~40 items; "
                "non-trivial = contains entries / length-prefixed values / pushes",
        "trusted_base": TB_COMMON + ["XxHash64 port FoyerModel/XxHash.lean (validated against the implementation's checksums on every run)"],
        "assumptions": ["zstd / lz4 are assumed lossless (decompress . compress = id); exercised by round trips, not proved",
                        "UTF-8 validity is a parameter predicate of the String decoder model",
                        "the serde/bincode path (feature `serde`) is not modelled; it replaces these impls wholesale"],
    },
    "C10": {
        "domain": "tomb",
        "proof_module": "FoyerProofs.C10",
        "theorems": [
            "Foyer.Tomb.open_finds_tail", "Foyer.Tomb.flushed_deletes_survive", "Foyer.Tomb.latestIndex_image",
            "Foyer.Tomb.good_step", "Foyer.Tomb.recovered_image", "Foyer.Tomb.slotIndex_small",
        ],
        # the directed store-level campaign (the engine sizes the log from the device; 280-330 flushed removes, two
        # restarts): there a removed value that comes back (a C01 clause) is a failure of the log, C10's claim
        "monitor_props": ["C10", "C01"],
        "campaigns": {
            "quick": [{"name": "tomb-unit", "args": ["cases=150"]},
                      {"name": "hyb-tomblog", "domain": "hyb", "args": ["cases=2", "tomblog=1"]}],
            "thorough": [{"name": "tomb-unit", "args": ["cases=6000"]},
                         {"name": "hyb-tomblog", "domain": "hyb", "args": ["cases=12", "tomblog=1"]}],
        },
        "nontrivial": r"op=reopen",
        "rule": "the real TombstoneLog on an FsDevice + PsyncIoEngine (1-3 log pages = 256-768 slots): random histories of append "
                "batches (1, a few, 200-300, up to 600 tombstones; strictly increasing sequences) and reopens, mostly below the "
                "capacity, one in six wrapping on purpose; after every operation the raw partition file is decoded slot by slot and "
                "compared with the model, after every reopen the recovered list too; non-trivial = a reopen that recovered "
                "something; distinct = distinct histories",
        "trusted_base": TB_COMMON,
        "assumptions": ["unit level: the log itself; that a recovered tombstone suppresses older entries of its hash and that "
                        "sequences keep increasing across restarts is part of the recovery model (C04 / C01)",
                        "a crash in the middle of a page write is covered by C04's crash enumeration, not here"],
    },
    "C16": {
        "domain": "mem",
        "proof_module": "FoyerProofs.C16",
        "theorems": [
            "Foyer.C16.callbacks_after_unlock", "Foyer.C16.no_callback", "Foyer.C16.reentrant_inv", "Foyer.C16.lock_order_acyclic",
            "Foyer.C05.no_panic", "Foyer.step_inv",
        ],
        "monitor_props": ["C16"],
        # every observed field belongs to C16 here: a callback that sees another state or never returns
        "reject_is_fail_fields": ["ret"],
        "campaigns": {
            "quick": [{"name": "mem-reentrant", "args": ["mode=oracle", "cases=1500", "maxops=30", "cb=1", "watchdog=45"]},
                      {"name": "mem-drop-reentrant", "args": ["mode=algo", "cases=600", "maxops=30", "dropre=1", "watchdog=45"]}],
            "thorough": [{"name": "mem-reentrant", "args": ["mode=oracle", "cases=40000", "maxops=60", "cb=1", "watchdog=60"]},
                         {"name": "mem-reentrant-algo", "args": ["mode=algo", "cases=20000", "maxops=60", "cb=1", "watchdog=60"]},
                         {"name": "mem-drop-reentrant", "args": ["mode=algo", "cases=20000", "maxops=60", "dropre=1", "watchdog=60"]}],
        },
        "nontrivial": r"nested=1",
        "rule": "single-shard caches of all five algorithms whose EventListener re-enters the same cache from inside on_leave "
                "(contains / get+drop / insert of a fresh key / remove), while weighter and filter are ordinary closures; random op "
                "sequences; each operation runs under a watchdog (no progress for 45 s = deadlock, reported with the operation); the "
                "nested operations' results and the state they observe are compared with the model's post-unlock semantics; "
                "a second campaign gives the values a destructor that looks its key up in the same cache, on caches built with "
                "and without an event listener (all five algorithms, model-predicted victims): a value dropped under a shard "
                "lock deadlocks and is reported by the watchdog; "
                "non-trivial = at least one nested (re-entrant) operation; distinct = distinct (cfg, op sequence)",
        "trusted_base": TB_COMMON,
        "assumptions": MEM_ASSUME + ["that no lock is held during callbacks is exhibited for the real code by absence of deadlock and by "
                                     "state agreement, not proved; key/value destructors and the hybrid cache's locks (keeper, block "
                                     "manager, indexer) are not yet exercised re-entrantly (thorough multi-threaded deadlock detection: TODO)"],
    },
    "C05": {
        "domain": "mem",
        "proof_module": "FoyerProofs.C05",
        "theorems": [
            "Foyer.C05.caps_sum", "Foyer.C05.new_capacity", "Foyer.C05.usage_exact", "Foyer.C05.usage_exact_inv",
            "Foyer.C05.findable_iff_lookup", "Foyer.C05.insert_evicts_minimally", "Foyer.C05.phantom_neutral",
            "Foyer.C05.clear_zero", "Foyer.C05.resize_bound", "Foyer.C05.no_panic",
            "Foyer.fifo_lawful", "Foyer.oracle_lawful",
        ],
        "monitor_props": ["C05"],
        "campaigns": mem_campaigns("oracle"),
        "nontrivial": r"leaves=[^ ]*evict|op=clear|op=resize",
        "rule": "random op sequences (insert with arbitrary weights/hints/phantom, get-and-hold, touch, clone, drop, remove, "
                "clear, resize, evict_all, flush; capacities 0..14, shards 1..4 incl. shards > capacity, colliding hashers) "
                "for each of the 5 algorithms, executed on the real Cache; a case is non-trivial if it contains an eviction, "
                "a clear or a resize; distinct = distinct (cfg, op sequence)",
        "trusted_base": TB_COMMON,
        "assumptions": MEM_ASSUME,
    },
}

MEM_NOTE = ("trusted: Lean kernel; axioms propext/Classical.choice/Quot.sound; the Rust harness + Lean driver parser; "
            "modelled, not verified: one API call = one atomic step (shard lock), unsafe intrusive lists, hashbrown, parking_lot")
MEM_TECH = "Lean 4 proof (invariants by induction over operation lists, for any lawful eviction policy) + trace-validating correspondence against the real Cache"

# what MANIFEST.json says per claimed property
CLAIMS = {
    "C05": {"text": "Lean 4 theorems about an executable model of the memory shard, for every operation sequence, weight, "
                    "capacity, shard count, hasher and lawful eviction policy (all five algorithms are proved lawful): usage/entries "
                    "exact, capacities sum, evictions necessary and sufficient, clear/resize bounds, no unwrap reachable; tied to "
                    "/repo on every run by validating traces of the real Cache against the model and by independent monitors",
            "note": MEM_NOTE, "technique": MEM_TECH},
    "C13": {"text": "Lean 4 theorems: multiset conservation (admitted = findable + left, hence exactly one leave notification and "
                    "none while findable), reason matches cause, hand-off iff evicted — for every operation sequence and lawful "
                    "policy; tied to /repo by trace validation with an EventListener and a recording Pipe on the real Cache",
            "note": MEM_NOTE, "technique": MEM_TECH},
    "C14": {"text": "Lean 4 models of FIFO, LRU, SIEVE, S3-FIFO and w-TinyLFU (incl. exact count-min/Murmur port) proved to obey "
                    "the Eviction contract, plus the rules the property names (FIFO order, LRU low-before-high / never pops "
                    "pinned / pool bound, SIEVE victim unvisited, S3-FIFO eviction total, TinyLFU sketch comparison); the models "
                    "predict every victim of the real Cache in algorithm-mode correspondence",
            "note": MEM_NOTE + "; determinism is definitional (the models are functions)", "technique":
                "Lean 4 proof (lawfulness via permutation laws, per-algorithm rules) + victim-by-victim correspondence"},
}
CLAIMS.update({
    "C02": {"text": "Lean 4 theorems: (A) the sequential model refines, per key, an atomic register whose reads may miss, for every "
                    "operation sequence, lawful policy, hasher and shard count; (B) for every interleaving of invoke / atomic step / "
                    "respond over any sequential object the atomic-step order is a real-time-respecting legal linearization, composed "
                    "with (A) for the cache; (C) held handles keep denoting the same record. Tied to /repo by sequential trace "
                    "validation and by exact per-history linearizability checks of recorded multi-threaded histories",
            "note": MEM_NOTE + "; Part B assumes each call is one atomic section (lock); schedule coverage of the concurrent "
                    "campaign is whatever the OS provides (history check itself is exact); memory-model effects not modelled",
            "technique": "Lean 4 proof (refinement to a per-key register + generic atomic-sections-linearizable theorem) + "
                         "sequential trace validation + exact linearizability check of recorded concurrent histories"},
    "C17": {"text": "Lean 4 theorems for an arbitrary (also constant) hasher: a memory lookup returns an entry of the requested key "
                    "carrying its latest not-superseded insert, or a miss; operations on another key never change a key's register; "
                    "the hybrid model's disk tier (indexed by hash alone) answers a lookup with the requested key's own value or a "
                    "miss, also after recovery. Correspondence with user-supplied colliding hashers (full 64-bit and same-shard "
                    "collisions): memory cache sequential and concurrent, real HybridCache with write-queue windows and restarts",
            "note": MEM_NOTE + "; the in-flight (get_or_fetch) table under collisions is exercised by the hybrid campaign and by the in-flight campaign with a constant hasher (the in-flight model is per key), not proved",
            "technique": MEM_TECH},
    "C18": {"text": "Lean 4 theorems: held handles denote unchanged records; under LRU a looked-up record is pinned, a pinned record "
                    "is never a victim and stays pinned until an operation addresses it; in every reachable state every pinned "
                    "record has an outstanding handle, so with no handles outstanding an insert that fits brings the shard within "
                    "capacity (no leak). Correspondence: refs()/is_outdated()/data of every held handle after every op vs. model "
                    "and monitor, LRU pin list predicted in algorithm mode",
            "note": MEM_NOTE + "; is_outdated is definitional in the model (index membership) and tied to the IN_INDEXER flag only "
                    "by the correspondence; the two-step drop race (F-E) is outside the model",
            "technique": "Lean 4 proof (generic protected-record invariants instantiated for the LRU pin list) + trace validation"},
})
INFL_NOTE = ("trusted: Lean kernel; axioms propext/Classical.choice/Quot.sound; harness + driver; modelled, not verified: quiescence "
             "granularity (one event + run-to-quiescence on a current-thread runtime), entry and open leader as one object; the "
             "check-then-act window inside one poll on a multi-threaded runtime and tokio/mea channel semantics are outside the model")
CLAIMS.update({
    "C06": {"text": "Lean 4 theorems over every event sequence of the fetch-coalescing state machine: no caller ever waits outside "
                    "the flight of its key and every flight awaits a future that has started (hang-freedom as safety); every terminal "
                    "transition of a leader (success, error, no-fetch, cancellation, explicit insert) answers all its waiters; a "
                    "failed fetch caches nothing and the next call fetches again; a donated fetch closure is used; at most one open "
                    "leader per key is structural in the model. Tied to /repo by scripted futures on the real get_or_fetch_inner",
            "note": INFL_NOTE + "; termination additionally needs the fairness premise 'futures resolve or are dropped'",
            "technique": "Lean 4 proof (inductive invariant over all event orderings) + trace-validating correspondence with harness-owned futures"},
    "C11": {"text": "Lean 4 theorems: insert(k,v) answers every waiter of k with v, closes the leader, and from then on k reads v in "
                    "every reachable state under every event sequence that contains no explicit insert/remove of k — whatever the "
                    "late fetch resolves to. Tied to /repo by the same scripted-future correspondence",
            "note": INFL_NOTE, "technique": "Lean 4 proof (inductive invariant + stability lemma) + trace-validating correspondence"},
})
CLAIMS.update({
    "C08": {"text": "Lean 4 theorems: decode(encode x ++ rest) = (x, rest) for the little-endian fixed-width integers of every width "
                    "(two's complement for signed, floats as bit patterns), bool (and rejection of bytes > 1), length-prefixed "
                    "Vec<u8>/Bytes/String (truncation is an error, invalid UTF-8 rejected), the big-endian 36-byte entry header "
                    "(bad magic / compression tag rejected), a whole entry header||value||key (lengths recorded = bytes written; any "
                    "payload whose checksum differs is rejected), zstd/lz4 under the hypothesis that the codec is lossless, and the "
                    "all-or-nothing / in-bounds bookkeeping of Buffer::push. The model recomputes byte-for-byte what the real code wrote",
            "note": "trusted: Lean kernel; axioms propext/Classical.choice/Quot.sound; harness + driver; XxHash64 port validated by "
                    "correspondence only; zstd/lz4 assumed lossless; bincode path not modelled",
            "technique": "Lean 4 proof (round-trip laws by induction on width / arithmetic) + byte-exact recomputation of the real encoders' output"},
})
CLAIMS.update({
    "C10": {"text": "Lean 4 theorems about the tombstone ring: for every history (append* ; reopen)* with strictly increasing non-zero "
                    "sequences and fewer tombstones than slots, after every open the tail is right behind the last tombstone and every "
                    "tombstone ever appended is recovered, in order — for any number of pages, batches and restarts. Tied to /repo by "
                    "slot-by-slot comparison of the real TombstoneLog's partition file with the model after every operation",
            "note": "trusted: Lean kernel; axioms propext/Classical.choice/Quot.sound; harness + driver; unit level plus one directed "
                    "store-level campaign (the engine's sizing of the log; the general hybrid remove -> close/crash -> reopen path "
                    "rests on the recovery model of C04/C01); wrap-around beyond capacity is "
                    "exercised by the correspondence but not covered by the theorem",
            "technique": "Lean 4 proof (image invariant by induction over the history) + trace-validating correspondence on raw device bytes"},
})
CLAIMS.update({
    "C16": {"text": "Lean 4 theorems about the re-entrant semantics of the memory-cache model: notifications are delivered after the "
                    "operation's critical section; for every callback behaviour and nesting depth the nested operations are ordinary "
                    "steps that keep the invariant and never panic; the lock nesting table of the memory cache is acyclic. Tied to "
                    "/repo by running a listener that re-enters the same single-shard cache under a watchdog and comparing what the "
                    "nested operations return and observe with the model",
            "note": MEM_NOTE + "; PARTIAL: memory cache with a re-entrant listener only; destructor re-entrancy, hybrid-cache locks and "
                    "multi-threaded lock-order detection are not covered yet",
            "technique": "Lean 4 proof (re-entrant step semantics preserves the invariant for all callbacks) + watchdog'd re-entrant correspondence"},
})
HYB_ASSUME = [
    "one model step = one API call followed by quiescence of the flusher / reclaimer tasks (current-thread runtime, "
    "deterministic sim io engine); flusher hold windows and gated device writes are explicit model steps; concurrent "
    "callers and the multi-threaded runtime are not modelled",
    "the disk tier is abstract in this model: per-entry addresses, blobs and blocks are C07's model, block choice for "
    "reclaim is C09's; here disk-capacity eviction is an environment step (`lose`) that may drop any indexed entry "
    "together with everything written before it",
    "admission filter = admit-all, compression none, one memory shard; value bytes carry (key, version) so stale and "
    "foreign values are observable",
]
HYB_RULE = ("the real HybridCache (builder API, block engine, FsDevice files, deterministic sim io engine) driven by random "
            "histories of insert (each Location; sizes small..beyond the per-entry limit) / storage-writer insert / remove / "
            "clear / get / get_or_fetch / evict-all / contains / wait / hold+unhold flusher / gate+release device writes / "
            "close+reopen over 2-5 keys, both write policies, flush_on_close on/off, tombstone log on/off, FIFO and LRU "
            "memory, identity / mod-2 / constant hashers, 1-2 flushers, a quarter of the cases on a 4-8 block device "
            "(block reclaim happens; `lossy`); every line reports the result, the memory and disk key sets, the bytes "
            "written to block partitions and the listener events; the Lean driver replays the history on the model and "
            "evaluates the property monitors on the implementation's own trace; ")
PROPS.update({
    "C01": {
        "domain": "hyb",
        "proof_module": "FoyerProofs.C01",
        "theorems": ["Foyer.Hyb.recovery_picks_latest", "Foyer.Hyb.recovery_honours_tombstones",
                     "Foyer.Hyb.disk_lookup_own_key_or_miss", "Foyer.Hyb.memory_hit_returns_memory",
                     "Foyer.Hyb.insAll_max",
                     "Foyer.Hyb.woi_stepCore", "Foyer.Hyb.woi_step", "Foyer.Hyb.woi_reads_truth",
                     "Foyer.Hyb.woe_stepCore", "Foyer.Hyb.woe_step", "Foyer.Hyb.woe_reads_truth",
                     "Foyer.Hyb.rb_stepCore", "Foyer.Hyb.reopen_view", "Foyer.Hyb.woi_reads_truth_reopen",
                     "Foyer.Hyb.woe_reads_truth_reopen_partial", "Foyer.Hyb.woe_reads_truth_reopen"],
        "extra_modules": ["FoyerProofs.C01Woi", "FoyerProofs.C01Woe", "FoyerProofs.C01Reopen", "FoyerProofs.C15Flush"],
        "monitor_props": ["C01"],
        "campaigns": {
            "quick": [{"name": "hyb-random", "args": ["cases=250", "maxops=25"]},
                      {"name": "hyb-big", "args": ["cases=80", "maxops=25", "big=1"]},
                      {"name": "blk-overload", "domain": "blk", "args": ["cases=80", "maxops=60", "overload=1"]},
                      {"name": "blk-reinsertion", "domain": "blk", "args": ["cases=40", "maxops=120", "overload=1", "reins=1"]},
                      {"name": "blk-blobreuse", "domain": "blk", "args": ["cases=2", "blobreuse=1"]},
                      {"name": "hyb-inflight", "args": ["cases=12", "inflight=1"]}],
            "thorough": [{"name": "hyb-random", "args": ["cases=6000", "maxops=40"]},
                         {"name": "hyb-big", "args": ["cases=2000", "maxops=40", "big=1"]},
                         {"name": "blk-overload", "domain": "blk", "args": ["cases=2000", "maxops=80", "overload=1"]},
                         {"name": "blk-reinsertion", "domain": "blk", "args": ["cases=300", "maxops=160", "overload=1", "reins=1"]},
                         {"name": "blk-blobreuse", "domain": "blk", "args": ["cases=10", "blobreuse=1"]},
                         {"name": "hyb-inflight", "args": ["cases=120", "inflight=1"]}],
        },
        "nontrivial": r"ret=v:\d+:\d+:(disk|memory)",
        "rule": HYB_RULE + "non-trivial = at least one lookup that hit; distinct = distinct (cfg, op sequence)",
        "trusted_base": TB_COMMON,
        "assumptions": HYB_ASSUME,
    },
    "C12": {
        "domain": "hyb",
        "proof_module": "FoyerProofs.C12",
        "theorems": ["Foyer.Hyb.inmem_never_submitted", "Foyer.Hyb.step_noInMem", "Foyer.Hyb.woi_eviction_writes_nothing",
                     "Foyer.Hyb.woi_memOp_subs", "Foyer.Hyb.woe_no_eviction_no_write", "Foyer.Hyb.young_not_rewritten",
                     "Foyer.Hyb.origin_only_after_misses"],
        "monitor_props": ["C12"],
        "campaigns": {
            "quick": [{"name": "hyb-random", "args": ["cases=250", "maxops=25"]}],
            "thorough": [{"name": "hyb-random", "args": ["cases=6000", "maxops=40"]}],
        },
        "nontrivial": r" w=[1-9]",
        "rule": HYB_RULE + "non-trivial = at least one operation that wrote to a block partition; distinct = distinct (cfg, op sequence)",
        "trusted_base": TB_COMMON,
        "assumptions": HYB_ASSUME,
    },
    "C15": {
        "domain": "hyb",
        "proof_module": "FoyerProofs.C15",
        "theorems": ["Foyer.Hyb.close_persists_flushed", "Foyer.Hyb.close_drains_queue",
                     "Foyer.Hyb.close_without_flush_submits_nothing", "Foyer.Hyb.reopen_index_is_recovery",
                     "Foyer.Hyb.recovery_picks_latest", "Foyer.Hyb.recovery_complete", "Foyer.Hyb.rinv_restarted",
                     "Foyer.Hyb.reopen_view", "Foyer.Hyb.woi_reads_truth_reopen",
                     "Foyer.Hyb.woe_reads_truth_reopen_partial", "Foyer.flush_lookup_none", "Foyer.fifo_drains",
                     "Foyer.Hyb.mw_stepCore", "Foyer.Hyb.woe_reads_truth_reopen"],
        "extra_modules": ["FoyerProofs.C01Reopen", "FoyerProofs.C15Flush"],
        "monitor_props": ["C15"],
        "campaigns": {
            "quick": [{"name": "hyb-reopen", "args": ["cases=250", "maxops=20", "reopen=1"]}],
            "thorough": [{"name": "hyb-reopen", "args": ["cases=6000", "maxops=35", "reopen=1"]}],
        },
        "nontrivial": r"op=reopen",
        "rule": HYB_RULE + "this campaign reopens three times as often; non-trivial = at least one close+reopen; distinct = distinct (cfg, op sequence)",
        "trusted_base": TB_COMMON,
        "assumptions": HYB_ASSUME,
    },
})
HYB_NOTE = ("trusted: Lean kernel; axioms propext/Classical.choice/Quot.sound; harness + sim io engine + driver; the model is "
            "hand-written and tied to /repo by trace validation only; ")
CLAIMS.update({
    "C01": {"text": "Lean 4 refinement theorems: the hybrid model (arbitrary Lawful memory policy, arbitrary hasher, any "
                    "capacity) refines a per-key register - every lookup answers a miss or the value of the latest completed "
                    "write not followed by a remove / clear - for every history of insert (any size, any advice but in-memory-only "
                    "on the observed key), storage-writer insert, remove, clear, get, get_or_fetch, evict, contains, wait and "
                    "disk-capacity evictions, under write-on-insertion (woi_reads_truth) and write-on-eviction (woe_reads_truth), "
                    "and across any number of graceful restarts with the tombstone log on (woi_reads_truth_reopen; "
                    "woe_reads_truth_reopen for flush-on-close and draining policies); plus the recovery lemmas (newest copy "
                    "per hash unless a logged tombstone is as new; recovery complete). Tied to /repo by replaying random hybrid "
                    "histories (hold / gate / reclaim / reopen windows, colliding hashers, oversize values, reinsertion, block "
                    "reuse, lookups with a device read in flight) on the model and by the stale / foreign / removed-value "
                    "monitors evaluated on the real HybridCache's trace",
            "note": HYB_NOTE + "PARTIAL: the refinement theorems assume an idle flusher at every call boundary (histories "
                    "with a held flusher or gated device writes are covered by correspondence and monitors only) and "
                    "sequential callers; D10 / D11 / tombstone-log-off are known findings",
            "technique": "Lean 4 proof (register refinement by invariant over all histories; disk-side invariant index = recovery view) + trace-validating correspondence with property monitors"},
    "C12": {"text": "Lean 4 theorems about the hybrid model: in every history nothing advised in-memory-only is ever submitted "
                    "to the disk tier (close included); under write-on-insertion evictions submit nothing; under "
                    "write-on-eviction an operation that evicts nothing submits nothing; entries just loaded from disk are "
                    "not rewritten; the origin is asked only after memory and the disk tier missed. Tied to /repo by comparing "
                    "the model with the real HybridCache's results, key sets and per-operation device write log",
            "note": HYB_NOTE + "admission filters other than admit-all and throttled / failed disk reads are not exercised yet",
            "technique": "Lean 4 proof (invariant over all histories of the hybrid model) + trace-validating correspondence on the device write log"},
    "C15": {"text": "Lean 4 theorems about the hybrid model: with flush-on-close under write-on-eviction everything the closing "
                    "flush takes out of memory (not in-memory-only, not just loaded, not oversize) is on the device when close "
                    "returns, whatever the flusher state; close drains the queue; without flush-on-close close submits nothing; "
                    "the reopened index is the recovery of the device (newest copy per hash). Tied to /repo by close+reopen "
                    "heavy histories on the real HybridCache compared with the model (also close() raced with gated device "
                    "writes); the restart theorems of C01 (reopen_view, woi/woe_reads_truth_reopen) and flush_lookup_none "
                    "(the closing flush empties memory for draining policies, proved for FIFO) are part of this claim",
            "note": HYB_NOTE + "PARTIAL: for policies other than FIFO that the closing flush takes *every* resident entry is "
                    "checked by correspondence only; idempotence of close / writes after close are not exercised",
            "technique": "Lean 4 proof (pending-entry invariant through close) + trace-validating correspondence across reopen"},
})
PROPS.update({
    "C07": {
        "domain": "lay",
        "proof_module": "FoyerProofs.C07",
        "theorems": ["Foyer.Blk.splitter_refines_spec", "Foyer.Blk.split_refines", "Foyer.Blk.handle_refines",
                     "Foyer.Blk.layout_sound", "Foyer.Blk.block_layout_sound", "Foyer.Blk.placeAll_inv",
                     "Foyer.Blk.scan_reads_back", "Foyer.Blk.recover_reads_back", "Foyer.Blk.scan_chain"],
        # the blob-reuse campaign runs the whole store (flusher placement, reclaim, reuse of a block whose previous
        # life left complete blobs behind the new data, close + reopen): there a stale or foreign value delivered
        # after the restart (a C01 clause) means recovery reconstructed entries that were not written in the block's
        # current life, which is C07's claim too
        "monitor_props": ["C07", "C01"],
        "campaigns": {
            "quick": [{"name": "lay-unit", "args": ["cases=400", "maxops=12"]},
                      {"name": "blk-blobreuse", "domain": "blk", "args": ["cases=2", "blobreuse=1"]}],
            "thorough": [{"name": "lay-unit", "args": ["cases=12000", "maxops=20"]},
                         {"name": "blk-blobreuse", "domain": "blk", "args": ["cases=10", "blobreuse=1"]}],
        },
        "nontrivial": r"nblocks=([2-9]|\d\d)|op=reopen",
        "rule": "the real Splitter::split with its SplitCtx carried across 1-20 batches per case, driven with synthetic entry "
                "lengths (1 byte, exact page multiples +-1, the per-entry maximum and maximum-minus-a-page, random) on 16/32/64 KiB "
                "blocks (block-full and blob-continuation paths) and 1 MiB blocks with batches of 169/170/171/1-340 one-page entries "
                "(blob-index-full paths); every batch's blob parts, the blob index pages as decoded by the real BlobIndexReader and "
                "every entry position are compared with the splitter model, the model with the cursor specification, and the C07 "
                "monitor (alignment, block bounds, overlap with any earlier entry or index page of the block, scan == written) is "
                "evaluated on the implementation's output; a watchdog turns non-termination into a failure; non-trivial = a batch "
                "that spans several blocks; distinct = distinct (block size, index size, batch length sequences)",
        "trusted_base": TB_COMMON,
        "assumptions": [
            "unit level: Splitter / SplitCtx / BlobIndex(Reader) only; that the flusher writes the parts where the splitter says, "
            "that the index holds blob offset + in-blob offset, and that load() finds every claimed key are exercised at engine "
            "level by the hybrid / block campaigns (C01, C09) and by C04's recovery checks",
            "the theorems are about the transcription FoyerModel.Block.split; entries longer than block - index size are refused "
            "before the splitter (Buffer::push), which is the theorems' hypothesis `I + alignUp P len <= B`",
            "the scanner theorem is about a block whose index pages are exactly the blobs written (fresh or cleaned block); stale "
            "blobs of a reused block are cut off by recovery's sequence guard, which is modelled (guardSeq) but that argument is "
            "not proved",
        ],
    },
})
CLAIMS.update({
    "C07": {"text": "Lean 4 theorems: the splitter model (a transcription of Splitter::split with the split context carried across "
                    "batches) refines a monotone cursor allocator for every sequence of batches of entries that fit a block; in the "
                    "allocator every index page and entry is page aligned, inside one block and disjoint from every other, and the "
                    "scanner model reads every block back exactly (hash, sequence, position, length), stopping behind the last blob. "
                    "Tied to /repo by driving the real Splitter / BlobIndexReader with generated batch sequences and comparing every "
                    "part, index page and position with the model",
            "note": "trusted: Lean kernel; axioms propext/Classical.choice/Quot.sound; harness + driver; hand-written model tied by "
                    "differential testing; PARTIAL: unit level (see assumptions) - the 'every claimed key loads' sentence is checked "
                    "by correspondence at engine level only, reuse of blocks after reclaim is C09's",
            "technique": "Lean 4 proof (refinement of the splitter model to a cursor specification + scanner-on-chain theorem) + "
                         "trace-validating correspondence on the real Splitter"},
})
PROPS.update({
    "C09": {
        "domain": "blk",
        "proof_module": "FoyerProofs.C09",
        "theorems": ["Foyer.Rcl.run_inv", "Foyer.Rcl.step_inv", "Foyer.Rcl.block_in_one_state", "Foyer.Rcl.writers_exclusive",
                     "Foyer.Rcl.handed_block_unindexed", "Foyer.Rcl.reclaim_in_fill_order", "Foyer.Rcl.waiting_writer_is_served",
                     "Foyer.Rcl.reclaim_serves_waiter"],
        "monitor_props": ["C09"],
        "campaigns": {
            "quick": [{"name": "blk-overload", "args": ["cases=250", "maxops=60", "overload=1", "watchdog=60"]},
                      {"name": "blk-overload-nodel", "args": ["cases=100", "maxops=60", "overload=1", "nodel=1", "watchdog=60"]},
                      {"name": "blk-reinsertion", "args": ["cases=60", "maxops=120", "overload=1", "reins=1", "watchdog=60"]},
                      {"name": "blk-invalid", "args": ["cases=6", "invalid=1", "watchdog=60"]}],
            "thorough": [{"name": "blk-overload", "args": ["cases=6000", "maxops=100", "overload=1", "watchdog=60"]},
                         {"name": "blk-overload-nodel", "args": ["cases=3000", "maxops=100", "overload=1", "nodel=1", "watchdog=60"]},
                         {"name": "blk-reinsertion", "args": ["cases=400", "maxops=160", "overload=1", "reins=1", "watchdog=60"]},
                         {"name": "blk-invalid", "args": ["cases=60", "invalid=1", "watchdog=60"]}],
        },
        "nontrivial": r"bev=\S*pick:",
        "rule": "the real HybridCache / block engine on a 4-8 block device (16 KiB blocks: about 3 entries per block) under "
                "sustained write-on-insertion load of several device capacities: mixed entry sizes up to the per-entry maximum, "
                "overwrites, removes, storage-writer inserts, hold/unhold of the flusher (batches spanning more blocks than the "
                "device has), gated device writes released batch by batch, close+reopen; flushers 1-3, reclaimers 1-2, clean-block "
                "threshold 1-2, only configurations the engine accepts without warning; the block manager's own transitions "
                "(verif hook: take / wait / finish / pick / reclaimed with the set sizes) are replayed on the model, the device "
                "write log and per-key loads feed the C09 monitors; a watchdog reports stalled wait()/close(); non-trivial = at "
                "least one reclaim; distinct = distinct (cfg, op sequence)",
        "trusted_base": TB_COMMON + ["verif hook `verif_events` in foyer-storage/src/engine/block/manager.rs (records under the "
                                     "manager's state lock; feature `verif`)"],
        "assumptions": [
            "event level: one model event per acquisition of the block manager's state lock; the flusher's and reclaimer's IO "
            "between events is not modelled (the byte layout is C07's, the key-level effect C01's hybrid model, which the same "
            "traces are also validated against)",
            "FIFO picker only in the model; the invalid-ratio picker (which acts after deletes) is exercised but its choice is "
            "not predicted: the oldest-first monitor is switched off after the first remove of a run",
            "liveness is proved as 'a waiting writer always has a running reclaim or nothing is evictable'; that windows being "
            "written eventually finish is exercised by the watchdog, not proved; reinsertion filters are not exercised (see D11)",
        ],
    },
})
CLAIMS.update({
    "C09": {"text": "Lean 4 theorems about the event-level model of the block manager, for every interleaving of flusher and "
                    "reclaimer events: every block is in exactly one of clean / writing / evictable / reclaiming (never handed "
                    "to two writers, never reclaimed while written); a block a writer receives has no indexed entry; blocks are "
                    "picked for reclaim in the order they were filled; a waiting writer always has a running reclaim that will "
                    "serve it first, or nothing is evictable. Tied to /repo by replaying the real block manager's transitions "
                    "(verif hook) under sustained overload on the model and by monitors on the device write log and per-key loads",
            "note": "trusted: Lean kernel; axioms propext/Classical.choice/Quot.sound; harness + sim io engine + driver + the "
                    "event-log hook; PARTIAL: reinsertion is not exercised or modelled (known finding D11); eventual completion "
                    "of writes is tested by a watchdog, not proved",
            "technique": "Lean 4 proof (invariant of the block-manager event system over all event sequences) + trace-validating "
                         "correspondence on the manager's own event log"},
})
PROPS.update({
    "C04": {
        "domain": "crash",
        "proof_module": "FoyerProofs.C04",
        "extra_modules": ["FoyerProofs.C01", "FoyerProofs.C07", "FoyerProofs.C04Crash"],
        "theorems": ["Foyer.Blk.scan_subset", "Foyer.Blk.recoverBlock_subset", "Foyer.Blk.guardSeq_subset",
                     "Foyer.Hyb.recovery_picks_latest", "Foyer.Hyb.recovery_honours_tombstones",
                     "Foyer.Blk.recover_reads_back", "Foyer.Blk.scan_reads_back",
                     "Foyer.Hyb.recovery_monotone", "Foyer.Hyb.recovery_complete", "Foyer.Hyb.crash_recovers_written",
                     "Foyer.Hyb.crash_acked_or_newer", "Foyer.Hyb.crash_delete_survives"],
        "monitor_props": ["C04"],
        "reject_is_fail_fields": [],
        "campaigns": {
            "quick": [{"name": "crash-enum", "args": ["cases=60", "maxops=16", "watchdog=45"]}],
            "thorough": [{"name": "crash-enum", "args": ["cases=1500", "maxops=30", "watchdog=60"]}],
        },
        "nontrivial": r"op=crash at=[1-9]",
        "rule": "a workload of inserts (all size classes), overwrites, storage-writer inserts, removes, waits, evictions and "
                "hold/unhold batches runs on the real hybrid cache over the recording sim io engine (write-on-insertion and "
                "write-on-eviction, tombstone log on/off, a 12-block device without reclaim or a 4-block device with reclaim); "
                "then for EVERY prefix of the device writes it issued, and for every page-granular tear of the write at the crash "
                "point, a device image is built, a fresh store is opened on it (quiet recovery) and every key is read; at one in six "
                "crash points a new version is written after the restart, the store is restarted again and read again; every read "
                "vector is compared with the recovery model's prediction and fed to the C04 monitor; a watchdog reports stalls; "
                "non-trivial = a crash point after at least one write; distinct = distinct (cfg, workload)",
        "trusted_base": TB_COMMON,
        "assumptions": [
            "a crash leaves exactly a prefix of the issued writes on the device, the last one possibly torn at 4 KiB page "
            "granularity (no reordering inside the prefix, no torn single-page write); one flusher",
            "the harness describes each write (entries, decoded blob index, tombstone slots) with the real parsers; the model "
            "works on those descriptions, not on raw bytes (the byte formats are C08's)",
            "the theorems cover the building blocks (scan/recover never invent entries, recovery keeps the newest copy and "
            "honours newer tombstones, a block written in sequence order is read back exactly); the end-to-end statement over "
            "write-log prefixes is checked by the exhaustive crash-point enumeration, not proved",
        ],
    },
})
CLAIMS.update({
    "C04": {"text": "Lean 4 theorems about the recovery model: whatever the device holds, the scanner and the per-block recovery "
                    "only return entries listed in blob index pages that are on the device; recovery keeps per hash the copy with the "
                    "highest sequence unless a logged tombstone is at least as new; a block written in sequence order is read back "
                    "exactly; for every pair of prefixes of the model's device log and tombstone log (a superset of the crash "
                    "points): what is served was written before the crash, an entry on the device before the crash is recovered or "
                    "something newer of its hash is (never an older copy), a logged delete survives (crash_acked_or_newer, "
                    "crash_delete_survives, recovery_complete). Tied to /repo by exhaustive crash-point enumeration: for every prefix (and page tear) of the write log "
                    "of generated workloads the reopened real store's reads equal the model's, and satisfy the C04 monitor (no "
                    "garbage, acknowledged versions/deletes survive while nothing was reclaimed, post-restart writes win)",
            "note": "trusted: Lean kernel; axioms propext/Classical.choice/Quot.sound; harness + sim io engine + driver; PARTIAL: "
                    "the prefix-level statement is established by enumeration over generated workloads, the theorems are about the "
                    "recovery functions; crashes reorder nothing and tear only at page granularity",
            "technique": "Lean 4 proof (scanner/recovery soundness lemmas) + exhaustive crash-point enumeration validated against "
                         "the recovery model"},
})
PROPS.update({
    "C03": {
        "domain": "fault",
        "proof_module": "FoyerProofs.C03",
        "extra_modules": ["FoyerProofs.C01"],
        "theorems": ["Foyer.Codec.decEntry_sound", "Foyer.Codec.load_genuine_or_error", "Foyer.Codec.decEntry_detects",
                     "Foyer.Codec.decHeader_rejects", "Foyer.Blk.scan_subset", "Foyer.Blk.recoverBlock_subset",
                     "Foyer.Hyb.disk_lookup_own_key_or_miss"],
        "monitor_props": ["C03"],
        "campaigns": {
            "quick": [{"name": "fault-enum", "args": ["cases=25", "maxops=14", "watchdog=45"]}],
            "thorough": [{"name": "fault-enum", "args": ["cases=600", "maxops=24", "watchdog=60"]}],
        },
        "nontrivial": r"op=fault kind=(flip|zero|swapw|swapx|stale|tombflip|multi)",
        "rule": "a workload (inserts of all size classes, overwrites, storage-writer inserts, removes, waits, evictions; both "
                "write policies, tombstone log on/off) runs on the real hybrid cache and is closed gracefully; then for EVERY page "
                "of every partition of the final device image (6 blocks x 4 pages, plus the tombstone page): the page zeroed, a "
                "bit flipped inside the bytes the reader must notice (anywhere in a blob index or tombstone page; inside an "
                "entry's header length / checksum / magic fields or its payload), the page swapped with the next page of its "
                "block and with the same page of the next block, the page replaced by each of its two previous generations; plus "
                "random sets of 2-4 of these faults; a fresh store is opened on every damaged image in quiet recovery mode and "
                "every key is read; the damaged partitions are re-described from their bytes with the real primitive parsers "
                "(blob index reader, entry header + checksum) and the recovery + load model predicts the reads; the C03 monitor "
                "checks the reads on their own; non-trivial = at least one fault; distinct = distinct (cfg, workload)",
        "trusted_base": TB_COMMON,
        "assumptions": [
            "XxHash64 tells every injected damaged payload / index page from the stored one (hypothesis of "
            "load_genuine_or_error; checked on each injected fault by the campaign, not provable)",
            "compression none only (BlockEngineConfig has no compression setter in this snapshot: the builder's "
            "with_compression never reaches the engine); the zstd / lz4 round trips are C08's",
            "bytes 8..24 of an entry header (hash, sequence) are covered by no checksum and are not used by load(): a flip "
            "there is invisible and harmless, and is not injected; the tombstone log has no checksum at all: a flipped slot "
            "can hide a key (a miss) or fail to hide a removed one (an older real value), never produce garbage",
            "faults are applied to the image of a cleanly closed store; faults while the store is running are not modelled",
        ],
    },
})
CLAIMS.update({
    "C03": {"text": "Lean 4 theorems about the load and recovery model for arbitrary device bytes: whatever load accepts is, bit for "
                    "bit, the byte string the stored checksum vouches for; a genuine header followed by other bytes than were "
                    "stored is rejected unless the checksum cannot tell them apart; bad magic / compression tags are rejected; "
                    "recovery takes only entries listed in blob index pages present on the device; the caller's key comparison "
                    "turns a foreign entry into a miss. Tied to /repo by exhaustive single-page fault injection (and random "
                    "multi-fault sets) on device images of real workloads, the reopened real store's reads being compared with "
                    "the model's and checked to be real values, misses or errors, with no panic",
            "note": "trusted: Lean kernel; axioms propext/Classical.choice/Quot.sound; harness + sim io engine + driver + the "
                    "real primitive parsers used to re-describe damaged partitions; the NoForgery idealisation of XxHash64; "
                    "compression none only at engine level",
            "technique": "Lean 4 proof (soundness of the load / recovery decoders for arbitrary bytes) + exhaustive per-page "
                         "fault injection validated against the recovery + load model"},
})
NOT_CLAIMED = {}
