//! Memory-cache domain: runs operation sequences against the real `foyer_memory::Cache` and
//! prints, per operation, what was observed (return value, leave events, pipe hand-offs, usage,
//! entries, `contains` over the key universe, refs / outdatedness of every held handle).

use std::{
    collections::BTreeMap,
    fmt::Write as _,
    future::Future,
    hash::{BuildHasher, Hasher},
    pin::Pin,
    sync::Arc,
};

use foyer_common::{
    event::{Event, EventListener},
    properties::Hint,
};
use foyer_memory::{
    Cache, CacheBuilder, CacheEntry, CacheProperties, EvictionConfig, FifoConfig, LfuConfig, LruConfig, Piece, Pipe,
    S3FifoConfig, SieveConfig,
};
use parking_lot::Mutex;

use crate::{Args, arg_str, arg_u64, rng::Rng};

/// The cached value: carries its own identity so that stale / foreign values are visible.
#[derive(Clone, Debug, PartialEq, Eq)]
pub struct Val {
    pub key: u64,
    pub ver: u64,
    pub rid: u64,
    pub weight: usize,
    pub phantom: bool,
}

/// Destructor re-entrancy (C16): when set, every `Val` that is dropped looks its key up in this cache.  A value
/// dropped while a shard lock is held then deadlocks, which the watchdog reports.
pub static DROP_HOOK: Mutex<Option<Arc<dyn Fn(u64) + Send + Sync>>> = Mutex::new(None);
thread_local! {
    static IN_DROP_HOOK: std::cell::Cell<bool> = const { std::cell::Cell::new(false) };
}

impl Drop for Val {
    fn drop(&mut self) {
        if IN_DROP_HOOK.with(|f| f.get()) {
            return;
        }
        let hook = DROP_HOOK.lock().clone();
        if let Some(h) = hook {
            IN_DROP_HOOK.with(|f| f.set(true));
            h(self.key);
            IN_DROP_HOOK.with(|f| f.set(false));
        }
    }
}

#[derive(Clone, Copy, Debug, PartialEq)]
pub enum HMode {
    Id,
    Const(u64),
    Mod(u64),
    Div(u64),
}

impl HMode {
    pub fn parse(s: &str) -> HMode {
        let mut it = s.split(':');
        match (it.next(), it.next().and_then(|x| x.parse::<u64>().ok())) {
            (Some("const"), Some(c)) => HMode::Const(c),
            (Some("mod"), Some(m)) => HMode::Mod(m.max(1)),
            (Some("div"), Some(m)) => HMode::Div(m.max(1)),
            _ => HMode::Id,
        }
    }
    pub fn show(&self) -> String {
        match self {
            HMode::Id => "id".into(),
            HMode::Const(c) => format!("const:{c}"),
            HMode::Mod(m) => format!("mod:{m}"),
            HMode::Div(m) => format!("div:{m}"),
        }
    }
    pub fn apply(&self, k: u64) -> u64 {
        match self {
            HMode::Id => k,
            HMode::Const(c) => *c,
            HMode::Mod(m) => k % m,
            HMode::Div(m) => k / m,
        }
    }
}

/// A user-supplied `BuildHasher` for `u64` keys with a known, possibly colliding, hash function.
#[derive(Clone, Debug)]
pub struct FnBuildHasher(pub HMode);
pub struct FnHasher(HMode, u64);
impl Hasher for FnHasher {
    fn finish(&self) -> u64 {
        self.0.apply(self.1)
    }
    fn write(&mut self, bytes: &[u8]) {
        for b in bytes {
            self.1 = (self.1 << 8) | *b as u64;
        }
    }
    fn write_u64(&mut self, i: u64) {
        self.1 = i;
    }
}
impl BuildHasher for FnBuildHasher {
    type Hasher = FnHasher;
    fn build_hasher(&self) -> FnHasher {
        FnHasher(self.0, 0)
    }
}

#[derive(Clone, Debug)]
pub struct MemCfg {
    /// algorithm the real cache is built with
    pub imp: String,
    /// what the model uses: "oracle" or the algorithm name
    pub algo: String,
    pub shards: usize,
    pub cap: usize,
    pub keys: u64,
    pub hmode: HMode,
    pub hp: f64,
    pub s3_small: f64,
    pub s3_ghost: f64,
    pub s3_thr: u8,
    pub lfu_window: f64,
    pub lfu_protected: f64,
    pub cb: CbMode,
    /// values re-enter the cache from their destructor
    pub dropre: bool,
    /// build the cache with an event listener (without one the notifications are not observed)
    pub listener: bool,
    /// install the disk-tier pipe (without it, and without a listener, the cache takes its "nobody is watching" paths)
    pub pipe: bool,
}

impl MemCfg {
    pub fn line(&self) -> String {
        format!(
            "cfg domain=mem algo={} impl={} shards={} cap={} keys={} hmode={} hp_bits={} s3_small_bits={} s3_ghost_bits={} s3_thr={} lfu_window_bits={} lfu_protected_bits={} cm_rows={} cm_buckets={} cb={} dropre={} listener={} pipe={}",
            self.algo,
            self.imp,
            self.shards,
            self.cap,
            self.keys,
            self.hmode.show(),
            self.hp.to_bits(),
            self.s3_small.to_bits(),
            self.s3_ghost.to_bits(),
            self.s3_thr,
            self.lfu_window.to_bits(),
            self.lfu_protected.to_bits(),
            datasketches::countmin::CountMinSketch::<u16>::suggest_num_hashes(0.9),
            datasketches::countmin::CountMinSketch::<u16>::suggest_num_buckets(0.001),
            self.cb.name(),
            self.dropre as u8,
            self.listener as u8,
            self.pipe as u8,
        )
    }

    pub fn parse(line: &str) -> MemCfg {
        let f = fields(line);
        let g = |k: &str, d: &str| f.get(k).cloned().unwrap_or_else(|| d.to_string());
        let bits = |k: &str, d: f64| f.get(k).and_then(|v| v.parse::<u64>().ok()).map(f64::from_bits).unwrap_or(d);
        MemCfg {
            imp: g("impl", "fifo"),
            algo: g("algo", "oracle"),
            shards: g("shards", "1").parse().unwrap_or(1),
            cap: g("cap", "0").parse().unwrap_or(0),
            keys: g("keys", "0").parse().unwrap_or(0),
            hmode: HMode::parse(&g("hmode", "id")),
            hp: bits("hp_bits", 0.9),
            s3_small: bits("s3_small_bits", 0.1),
            s3_ghost: bits("s3_ghost_bits", 1.0),
            s3_thr: g("s3_thr", "1").parse().unwrap_or(1),
            lfu_window: bits("lfu_window_bits", 0.1),
            lfu_protected: bits("lfu_protected_bits", 0.8),
            cb: CbMode::parse(&g("cb", "none")),
            dropre: g("dropre", "0") == "1",
            listener: g("listener", "1") == "1",
            pipe: g("pipe", "1") == "1",
        }
    }

    pub fn eviction_config(&self) -> EvictionConfig {
        match self.imp.as_str() {
            "fifo" => FifoConfig::default().into(),
            "lru" => LruConfig { high_priority_pool_ratio: self.hp }.into(),
            "sieve" => SieveConfig.into(),
            "s3fifo" => S3FifoConfig {
                small_queue_capacity_ratio: self.s3_small,
                ghost_queue_capacity_ratio: self.s3_ghost,
                small_to_main_freq_threshold: self.s3_thr,
            }
            .into(),
            "lfu" => LfuConfig {
                window_capacity_ratio: self.lfu_window,
                protected_capacity_ratio: self.lfu_protected,
                cmsketch_eps: 0.001,
                cmsketch_confidence: 0.9,
            }
            .into(),
            other => panic!("unknown algorithm {other}"),
        }
    }
}

pub fn fields(line: &str) -> BTreeMap<String, String> {
    let mut m = BTreeMap::new();
    for t in line.split_whitespace() {
        if let Some((k, v)) = t.split_once('=') {
            m.insert(k.to_string(), v.to_string());
        } else {
            m.insert(t.to_string(), String::new());
        }
    }
    m
}

#[derive(Clone, Debug, PartialEq)]
pub enum MemOp {
    Ins { k: u64, w: usize, low: bool, phantom: bool },
    Get { k: u64 },
    Touch { k: u64 },
    Contains { k: u64 },
    Remove { k: u64 },
    Clone { rid: u64 },
    Drop { rid: u64 },
    Clear,
    Resize { cap: usize },
    EvictAll,
    Flush,
}

type Log<T> = Arc<Mutex<Vec<T>>>;

/// What the listener does, re-entrantly, from inside `on_leave` (C16).
#[derive(Clone, Copy, Debug, PartialEq)]
pub enum CbMode {
    None,
    /// `contains(leaving key)`
    Contains,
    /// `get(leaving key)` and drop the handle
    Get,
    /// insert a fresh key (1000 + leaving key) of weight 1
    Insert,
    /// `remove(0)`
    Remove,
}

impl CbMode {
    pub fn parse(s: &str) -> CbMode {
        match s {
            "contains" => CbMode::Contains,
            "get" => CbMode::Get,
            "insert" => CbMode::Insert,
            "remove" => CbMode::Remove,
            _ => CbMode::None,
        }
    }
    pub fn name(&self) -> &'static str {
        match self {
            CbMode::None => "none",
            CbMode::Contains => "contains",
            CbMode::Get => "get",
            CbMode::Insert => "insert",
            CbMode::Remove => "remove",
        }
    }
}

pub struct Reentry {
    pub mode: CbMode,
    pub cache: Option<MCache>,
    pub depth: u32,
    pub keys: u64,
    /// fully formatted trace lines of the nested operations, in execution order
    pub lines: Vec<String>,
    pub next_rid: u64,
    pub next_ver: u64,
}

struct Listener {
    log: Log<(Event, u64, u64, u64)>,
    re: Arc<Mutex<Reentry>>,
}
impl EventListener for Listener {
    type Key = u64;
    type Value = Val;
    fn on_leave(&self, reason: Event, key: &u64, value: &Val) {
        let (mode, cache, keys) = {
            let mut re = self.re.lock();
            if re.depth > 0 || re.mode == CbMode::None || re.cache.is_none() {
                drop(re);
                self.log.lock().push((reason, value.rid, *key, value.ver));
                return;
            }
            re.depth = 1;
            (re.mode, re.cache.clone().unwrap(), re.keys)
        };
        self.log.lock().push((reason, value.rid, *key, value.ver));
        // the nested operation: its own leave events are logged behind a marker
        let mark = self.log.lock().len();
        let (text, ret) = match mode {
            CbMode::Contains => (format!("op=contains k={key}"), (if cache.contains(key) { "t" } else { "f" }).to_string()),
            CbMode::Get => match cache.get(key) {
                Some(e) => {
                    let v = e.value().clone();
                    let r = format!("h:{}:{}:{}", v.rid, e.key(), v.ver);
                    (format!("op=get k={key}"), r)
                }
                None => (format!("op=get k={key}"), "miss".to_string()),
            },
            CbMode::Insert => {
                let (rid, ver) = {
                    let mut re = self.re.lock();
                    let r = (re.next_rid, re.next_ver);
                    re.next_rid += 1;
                    re.next_ver += 1;
                    r
                };
                let k = 1000 + *key % 3;
                let e = cache.insert(k, Val { key: k, ver, rid, weight: 1, phantom: false });
                let r = format!("h:{rid}:{k}:{ver}");
                drop(e);
                (format!("op=ins k={k} w=1 hint=n ph=0 v={ver} id={rid}"), r)
            }
            CbMode::Remove => match cache.remove(&0) {
                Some(e) => {
                    let v = e.value().clone();
                    (format!("op=remove k=0"), format!("h:{}:{}:{}", v.rid, e.key(), v.ver))
                }
                None => ("op=remove k=0".to_string(), "miss".to_string()),
            },
            CbMode::None => unreachable!(),
        };
        let nested: Vec<(Event, u64, u64, u64)> = self.log.lock().drain(mark..).collect();
        let leaves: Vec<String> = nested.iter().map(|(e, rid, k, v)| format!("{}:{rid}:{k}:{v}", ev_name(*e))).collect();
        let has: Vec<String> = (0..keys).chain(1000..1003).filter(|k| cache.contains(k)).map(|k| k.to_string()).collect();
        let mut line = format!(
            "{text} nested=1 ret={ret} leaves={} usage={} entries={} has={}",
            show_list(leaves),
            cache.usage(),
            cache.entries(),
            show_list(has)
        );
        // get / insert / remove returned a handle that was dropped at once
        if matches!(mode, CbMode::Get | CbMode::Insert | CbMode::Remove) && ret.starts_with("h:") {
            let rid = ret.split(':').nth(1).unwrap();
            line.push_str(&format!("\nop=drop rid={rid} nested=1 ret=unit"));
        }
        let mut re = self.re.lock();
        re.lines.push(line);
        re.depth = 0;
    }
}

#[derive(Debug)]
struct RecPipe {
    log: Log<(u64, u64, u64)>,
}
impl Pipe for RecPipe {
    type Key = u64;
    type Value = Val;
    type Properties = CacheProperties;
    fn is_enabled(&self) -> bool {
        true
    }
    fn send(&self, piece: Piece<u64, Val, CacheProperties>) {
        self.log.lock().push((piece.value().rid, *piece.key(), piece.value().ver));
    }
    fn flush(&self, pieces: Vec<Piece<u64, Val, CacheProperties>>) -> Pin<Box<dyn Future<Output = ()> + Send>> {
        let mut l = self.log.lock();
        for p in pieces.iter() {
            l.push((p.value().rid, *p.key(), p.value().ver));
        }
        Box::pin(async {})
    }
}

pub type MCache = Cache<u64, Val, FnBuildHasher, CacheProperties>;
pub type MEntry = CacheEntry<u64, Val, FnBuildHasher, CacheProperties>;

pub struct MemExec {
    pub cfg: MemCfg,
    pub cache: MCache,
    pub re: Arc<Mutex<Reentry>>,
    leaves: Log<(Event, u64, u64, u64)>,
    piped: Log<(u64, u64, u64)>,
    /// handles held by the harness, by record id; each with the snapshot taken at acquisition
    pub handles: BTreeMap<u64, Vec<(MEntry, Val)>>,
    pub last_ins_rid: u64,
    rt: tokio::runtime::Runtime,
}

fn ev_name(e: Event) -> &'static str {
    match e {
        Event::Evict => "evict",
        Event::Replace => "replace",
        Event::Remove => "remove",
        Event::Clear => "clear",
    }
}

fn show_list(v: Vec<String>) -> String {
    if v.is_empty() { "-".into() } else { v.join(";") }
}

impl MemExec {
    pub fn new(cfg: MemCfg) -> Self {
        let leaves: Log<(Event, u64, u64, u64)> = Default::default();
        let piped: Log<(u64, u64, u64)> = Default::default();
        let re = Arc::new(Mutex::new(Reentry { mode: CbMode::None, cache: None, depth: 0, keys: cfg.keys, lines: vec![], next_rid: 0, next_ver: 1 }));
        // drop the previous case's hook (and with it its cache) outside the hook's own lock
        let old = DROP_HOOK.lock().take();
        drop(old);
        let b = CacheBuilder::new(cfg.cap)
            .with_shards(cfg.shards)
            .with_eviction_config(cfg.eviction_config())
            .with_hash_builder(FnBuildHasher(cfg.hmode))
            .with_weighter(|_k: &u64, v: &Val| v.weight)
            .with_filter(|_k: &u64, v: &Val| !v.phantom);
        let b = if cfg.listener { b.with_event_listener(Arc::new(Listener { log: leaves.clone(), re: re.clone() })) } else { b };
        let cache: MCache = b.build::<CacheProperties>();
        let cache: MCache = if cfg.pipe { cache.with_pipe(Arc::new(RecPipe { log: piped.clone() })) } else { cache };
        if cfg.dropre {
            let c = cache.clone();
            *DROP_HOOK.lock() = Some(Arc::new(move |k: u64| {
                let _ = c.contains(&k);
            }));
        }
        let rt = tokio::runtime::Builder::new_current_thread().enable_all().build().unwrap();
        re.lock().cache = Some(cache.clone());
        re.lock().mode = cfg.cb;
        MemExec {
            cfg,
            cache,
            re,
            leaves,
            piped,
            handles: BTreeMap::new(),
            last_ins_rid: 0,
            rt,
        }
    }

    fn hold(&mut self, e: MEntry) -> String {
        let v = e.value().clone();
        let s = format!("h:{}:{}:{}", v.rid, e.key(), v.ver);
        self.handles.entry(v.rid).or_default().push((e, v));
        s
    }

    pub fn op_text(op: &MemOp) -> String {
        match op {
            MemOp::Ins { k, w, low, phantom } => format!(
                "op=ins k={k} w={w} hint={} ph={}",
                if *low { "l" } else { "n" },
                if *phantom { 1 } else { 0 }
            ),
            MemOp::Get { k } => format!("op=get k={k}"),
            MemOp::Touch { k } => format!("op=touch k={k}"),
            MemOp::Contains { k } => format!("op=contains k={k}"),
            MemOp::Remove { k } => format!("op=remove k={k}"),
            MemOp::Clone { rid } => format!("op=clone rid={rid}"),
            MemOp::Drop { rid } => format!("op=drop rid={rid}"),
            MemOp::Clear => "op=clear".into(),
            MemOp::Resize { cap } => format!("op=resize cap={cap}"),
            MemOp::EvictAll => "op=evictall".into(),
            MemOp::Flush => "op=flush".into(),
        }
    }

    /// Execute one operation on the real cache and return the trace line.
    pub fn exec(&mut self, op: &MemOp) -> String {
        let line = self.exec_inner(op);
        crate::CUR_OP.lock().clear();
        let mut t = crate::CUR_TRACE.lock();
        t.push_str(&line);
        t.push('\n');
        line
    }

    /// Drop the cache itself (C13: entries still resident must be notified, as by `clear`).  Reported as a
    /// `clear` operation whose notifications come from `Drop for RawCacheInner`.
    pub fn drop_cache(&mut self) -> String {
        crate::progress("op=clear dropped=1");
        self.leaves.lock().clear();
        self.piped.lock().clear();
        self.handles.clear();
        self.re.lock().cache = None;
        let hook = DROP_HOOK.lock().take();
        drop(hook);
        let dummy: MCache = CacheBuilder::new(1)
            .with_shards(1)
            .with_eviction_config(self.cfg.eviction_config())
            .with_hash_builder(FnBuildHasher(self.cfg.hmode))
            .with_weighter(|_k: &u64, v: &Val| v.weight)
            .with_filter(|_k: &u64, v: &Val| !v.phantom)
            .build::<CacheProperties>();
        let old = std::mem::replace(&mut self.cache, dummy);
        drop(old);
        let leaves: Vec<String> = self
            .leaves
            .lock()
            .iter()
            .map(|(e, rid, k, v)| format!("{}:{rid}:{k}:{v}", ev_name(*e)))
            .collect();
        let line = if self.cfg.listener {
            // nothing is findable any more: every record still resident must have been notified just now
            format!("op=clear dropped=1 ret=unit leaves={} piped=- usage=0 entries=0 has=-", show_list(leaves))
        } else {
            if self.cfg.pipe { "op=clear dropped=1 ret=unit piped=- usage=0 entries=0 has=-".to_string() } else { "op=clear dropped=1 ret=unit usage=0 entries=0 has=-".to_string() }
        };
        crate::CUR_OP.lock().clear();
        let mut t = crate::CUR_TRACE.lock();
        t.push_str(&line);
        t.push('\n');
        line
    }

    fn exec_inner(&mut self, op: &MemOp) -> String {
        crate::progress(&Self::op_text(op));
        self.leaves.lock().clear();
        self.piped.lock().clear();
        let mut line = Self::op_text(op);
        let ret = match op {
            MemOp::Ins { k, w, low, phantom } => {
                let (rid, ver) = {
                    let mut re = self.re.lock();
                    let r = (re.next_rid, re.next_ver);
                    re.next_rid += 1;
                    re.next_ver += 1;
                    r
                };
                self.last_ins_rid = rid;
                let _ = write!(line, " v={ver} id={rid}");
                let val = Val { key: *k, ver, rid, weight: *w, phantom: *phantom };
                let props = CacheProperties::default().with_hint(if *low { Hint::Low } else { Hint::Normal });
                let e = self.cache.insert_with_properties(*k, val, props);
                self.hold(e)
            }
            MemOp::Get { k } => match self.cache.get(k) {
                Some(e) => self.hold(e),
                None => "miss".into(),
            },
            MemOp::Touch { k } => (if self.cache.touch(k) { "t" } else { "f" }).into(),
            MemOp::Contains { k } => (if self.cache.contains(k) { "t" } else { "f" }).into(),
            MemOp::Remove { k } => match self.cache.remove(k) {
                Some(e) => self.hold(e),
                None => "miss".into(),
            },
            MemOp::Clone { rid } => match self.handles.get_mut(rid) {
                Some(v) if !v.is_empty() => {
                    let c = (v[0].0.clone(), v[0].1.clone());
                    v.push(c);
                    "unit".into()
                }
                _ => "bad".into(),
            },
            MemOp::Drop { rid } => match self.handles.get_mut(rid) {
                Some(v) if !v.is_empty() => {
                    let h = v.pop().unwrap();
                    if v.is_empty() {
                        self.handles.remove(rid);
                    }
                    drop(h);
                    "unit".into()
                }
                _ => "bad".into(),
            },
            MemOp::Clear => {
                self.cache.clear();
                "unit".into()
            }
            MemOp::Resize { cap } => {
                let _ = self.cache.resize(*cap);
                "unit".into()
            }
            MemOp::EvictAll => {
                self.cache.evict_all();
                "unit".into()
            }
            MemOp::Flush => {
                let c = self.cache.clone();
                self.rt.block_on(async move { c.flush().await });
                "unit".into()
            }
        };
        let leaves: Vec<String> = self
            .leaves
            .lock()
            .iter()
            .map(|(e, rid, k, v)| format!("{}:{rid}:{k}:{v}", ev_name(*e)))
            .collect();
        let piped: Vec<String> = self.piped.lock().iter().map(|(rid, k, v)| format!("{rid}:{k}:{v}")).collect();
        let reentrant = self.re.lock().mode != CbMode::None;
        let nested: Vec<String> = std::mem::take(&mut self.re.lock().lines);
        if reentrant {
            // the outer operation: return value only (its notifications interleave with what the
            // callbacks did, which follows); the state observations come on a separate pure line
            let _ = write!(line, " ret={ret} leaves={}", show_list(leaves));
            for n in nested {
                line.push('\n');
                line.push_str(&n);
            }
            line.push_str("\nop=contains k=0 ret=");
            line.push_str(if self.cache.contains(&0) { "t" } else { "f" });
        } else if self.cfg.listener {
            let _ = write!(line, " ret={ret} leaves={} piped={}", show_list(leaves), show_list(piped));
        } else if self.cfg.pipe {
            let _ = write!(line, " ret={ret} piped={}", show_list(piped));
        } else {
            let _ = write!(line, " ret={ret}");
        }
        let has: Vec<String> = (0..self.cfg.keys)
            .chain(if reentrant { 1000..1003 } else { 0..0 })
            .filter(|k| self.cache.contains(k))
            .map(|k| k.to_string())
            .collect();
        let mut held = vec![];
        let mut stable = true;
        for (rid, hs) in self.handles.iter() {
            if let Some((e, _snap)) = hs.first() {
                held.push(format!("{rid}:{}:{}", e.refs(), if e.is_outdated() { 1 } else { 0 }));
            }
            for (e, snap) in hs {
                if e.value() != snap || *e.key() != snap.key || e.weight() != snap.weight {
                    stable = false;
                }
            }
        }
        held.sort();
        let _ = write!(
            line,
            " usage={} entries={} has={} held={} stable={}",
            self.cache.usage(),
            self.cache.entries(),
            show_list(has),
            show_list(held),
            if stable { 1 } else { 0 }
        );
        line
    }
}

/// Set by `cb=1`: re-entrant listener campaigns (C16), single shard.
pub static REENTRANT: std::sync::atomic::AtomicBool = std::sync::atomic::AtomicBool::new(false);

/// Set by `dropre=1`: values re-enter the cache from their destructor; half of the caches have no listener (C16).
pub static DROPRE: std::sync::atomic::AtomicBool = std::sync::atomic::AtomicBool::new(false);

/// Set by `collide=1`: only colliding hashers (C17 campaigns).
pub static COLLIDE: std::sync::atomic::AtomicBool = std::sync::atomic::AtomicBool::new(false);

pub fn gen_cfg(rng: &mut Rng, mode: &str, algo: &str) -> MemCfg {
    let shards = *rng.pick(&[1usize, 1, 1, 2, 3, 4]);
    let cap = match rng.below(10) {
        0 => 0,
        1 => rng.range(1, 3) as usize,
        _ => rng.range(2, 14) as usize,
    };
    let keys = rng.range(3, 7);
    let hmode = if COLLIDE.load(std::sync::atomic::Ordering::Relaxed) {
        match rng.below(4) {
            0 | 1 => HMode::Const(rng.below(1 << 20)),
            2 => HMode::Mod(rng.range(1, 2)),
            _ => HMode::Div(rng.range(2, 4)),
        }
    } else {
        match rng.below(8) {
            0 => HMode::Const(rng.below(4)),
            1 => HMode::Mod(rng.range(1, 3)),
            2 => HMode::Div(2),
            _ => HMode::Id,
        }
    };
    MemCfg {
        imp: algo.to_string(),
        algo: if mode == "oracle" { "oracle".into() } else { algo.to_string() },
        shards: if mode == "oracle" { shards } else { 1 },
        cap,
        keys,
        hmode: if mode == "oracle" { hmode } else { HMode::Id },
        hp: *rng.pick(&[0.9, 0.5, 0.0, 1.0, 0.3, 0.75]),
        s3_small: *rng.pick(&[0.1, 0.25, 0.5, 0.8]),
        s3_ghost: *rng.pick(&[1.0, 0.0, 0.5, 2.0]),
        s3_thr: *rng.pick(&[1u8, 0, 2, 3, 5]),
        lfu_window: *rng.pick(&[0.1, 0.3, 0.5]),
        lfu_protected: *rng.pick(&[0.8, 0.5, 0.3]),
        cb: CbMode::None,
        dropre: false,
        listener: true,
        pipe: true,
    }
    .fix()
}

impl MemCfg {
    fn fix(mut self) -> Self {
        if self.lfu_window + self.lfu_protected >= 1.0 {
            self.lfu_protected = 0.9 - self.lfu_window;
        }
        self
    }
}

/// Generate the next operation given the executor state (held handles are known).
pub fn gen_op(rng: &mut Rng, ex: &MemExec) -> MemOp {
    let keys = ex.cfg.keys.max(1);
    let cap = ex.cfg.cap as u64;
    let held: Vec<u64> = ex.handles.keys().copied().collect();
    loop {
        let r = rng.below(100);
        return match r {
            0..=37 => {
                let w = match rng.below(10) {
                    0 => 0,
                    1 => cap + rng.below(3),
                    2 => rng.range(1, cap.max(1)),
                    _ => rng.range(1, 3),
                };
                MemOp::Ins { k: rng.below(keys), w: w as usize, low: rng.chance(1, 4), phantom: rng.chance(1, 12) }
            }
            38..=52 => MemOp::Get { k: rng.below(keys) },
            53..=57 => MemOp::Touch { k: rng.below(keys) },
            58..=59 => MemOp::Contains { k: rng.below(keys) },
            60..=67 => MemOp::Remove { k: rng.below(keys) },
            68..=70 => {
                if held.is_empty() {
                    continue;
                }
                MemOp::Clone { rid: *rng.pick(&held) }
            }
            71..=89 => {
                if held.is_empty() {
                    continue;
                }
                MemOp::Drop { rid: *rng.pick(&held) }
            }
            90..=91 => MemOp::Clear,
            92..=95 => MemOp::Resize { cap: rng.below(cap + 4) as usize },
            96..=97 => MemOp::EvictAll,
            _ => MemOp::Flush,
        };
    }
}

/// Run one generated case; returns the trace text.
pub fn run_case(rng: &mut Rng, mode: &str, algo: &str, maxops: u64) -> String {
    let mut cfg = gen_cfg(rng, mode, algo);
    if REENTRANT.load(std::sync::atomic::Ordering::Relaxed) {
        cfg.shards = 1;
        cfg.cb = *rng.pick(&[CbMode::Contains, CbMode::Get, CbMode::Insert, CbMode::Remove]);
    }
    if DROPRE.load(std::sync::atomic::Ordering::Relaxed) {
        cfg.shards = 1;
        cfg.dropre = true;
        cfg.listener = rng.chance(1, 2);
        // without a listener, half of the caches have no pipe either
        cfg.pipe = cfg.listener || rng.chance(1, 2);
    }
    let mut out = cfg.line();
    out.push('\n');
    *crate::CUR_TRACE.lock() = out.clone();
    let mut ex = MemExec::new(cfg);
    let n = rng.range(1, maxops);
    let mut i = 0;
    while i < n {
        let op = gen_op(rng, &ex);
        out.push_str(&ex.exec(&op));
        out.push('\n');
        i += 1;
        // an inserted / looked-up handle is usually given back immediately
        let fresh = match &op {
            MemOp::Ins { .. } => Some((ex.last_ins_rid, 3)),
            MemOp::Get { .. } | MemOp::Remove { .. } => None,
            _ => None,
        };
        if let Some((rid, keep_of_4)) = fresh {
            if !rng.chance(4 - keep_of_4, 4) {
                let d = MemOp::Drop { rid };
                out.push_str(&ex.exec(&d));
                out.push('\n');
            }
        }
    }
    // epilogue: give every handle back, then one more insert (C18: nothing leaks)
    let rids: Vec<u64> = ex.handles.iter().flat_map(|(r, v)| std::iter::repeat(*r).take(v.len())).collect();
    for rid in rids {
        out.push_str(&ex.exec(&MemOp::Drop { rid }));
        out.push('\n');
    }
    let k = rng.below(ex.cfg.keys.max(1));
    out.push_str(&ex.exec(&MemOp::Ins { k, w: 1, low: false, phantom: false }));
    out.push('\n');
    // finally the cache itself goes away: whatever is still resident must be notified (C13)
    if ex.cfg.cb == CbMode::None {
        let rid = ex.last_ins_rid;
        if ex.handles.contains_key(&rid) {
            out.push_str(&ex.exec(&MemOp::Drop { rid }));
            out.push('\n');
        }
        out.push_str(&ex.drop_cache());
        out.push('\n');
    }
    out
}

/// Re-execute the operations of a trace file (observed fields are ignored).  `ins` lines carry the
/// record id they had when generated (`id=`); handle operations that refer to records that no
/// longer exist (because a shrinker removed the insert) are skipped.
pub fn replay(text: &str) -> String {
    let mut out = String::new();
    let mut ex: Option<MemExec> = None;
    let mut idmap: BTreeMap<u64, u64> = BTreeMap::new();
    for line in text.lines() {
        let f = fields(line);
        if f.contains_key("cfg") {
            let cfg = MemCfg::parse(line);
            out.push_str(&cfg.line());
            out.push('\n');
            *crate::CUR_TRACE.lock() = cfg.line() + "\n";
            ex = Some(MemExec::new(cfg));
            idmap.clear();
            continue;
        }
        let Some(ex) = ex.as_mut() else { continue };
        let n = |k: &str| f.get(k).and_then(|v| v.parse::<u64>().ok()).unwrap_or(0);
        let op = match f.get("op").map(|s| s.as_str()) {
            Some("ins") => {
                if let Some(id) = f.get("id").and_then(|v| v.parse::<u64>().ok()) {
                    idmap.insert(id, ex.re.lock().next_rid);
                }
                MemOp::Ins {
                    k: n("k"),
                    w: n("w") as usize,
                    low: f.get("hint").map(|s| s == "l").unwrap_or(false),
                    phantom: f.get("ph").map(|s| s == "1").unwrap_or(false),
                }
            }
            Some("get") => MemOp::Get { k: n("k") },
            Some("touch") => MemOp::Touch { k: n("k") },
            Some("contains") => MemOp::Contains { k: n("k") },
            Some("remove") => MemOp::Remove { k: n("k") },
            Some("clone") | Some("drop") => {
                let Some(rid) = idmap.get(&n("rid")).copied() else { continue };
                if !ex.handles.contains_key(&rid) {
                    continue;
                }
                if f.get("op").unwrap() == "clone" { MemOp::Clone { rid } } else { MemOp::Drop { rid } }
            }
            Some("clear") => MemOp::Clear,
            Some("resize") => MemOp::Resize { cap: n("cap") as usize },
            Some("evictall") => MemOp::EvictAll,
            Some("flush") => MemOp::Flush,
            _ => continue,
        };
        out.push_str(&ex.exec(&op));
        out.push('\n');
    }
    out
}

pub fn main(args: &Args) -> i32 {
    if let Some(path) = args.get("replay") {
        let text = std::fs::read_to_string(path).expect("read replay file");
        print!("{}", replay(&text));
        return 0;
    }
    let seed = arg_u64(args, "seed", 0);
    let cases = arg_u64(args, "cases", 100);
    let maxops = arg_u64(args, "maxops", 40);
    COLLIDE.store(arg_u64(args, "collide", 0) == 1, std::sync::atomic::Ordering::Relaxed);
    REENTRANT.store(arg_u64(args, "cb", 0) == 1, std::sync::atomic::Ordering::Relaxed);
    DROPRE.store(arg_u64(args, "dropre", 0) == 1, std::sync::atomic::Ordering::Relaxed);
    let mode = arg_str(args, "mode", "oracle").to_string();
    let algo_arg = arg_str(args, "algos", "fifo,lru,sieve,s3fifo,lfu").to_string();
    let algos: Vec<&str> = algo_arg.split(',').collect();
    let mut rng = Rng::new(seed);
    for i in 0..cases {
        let algo = algos[(i as usize) % algos.len()];
        let mut r = rng.fork();
        let t = run_case(&mut r, &mode, algo, maxops);
        crate::CUR_TRACE.lock().clear();
        print!("{t}");
    }
    0
}
