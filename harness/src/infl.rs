//! Fetch-coalescing domain (C06, C11): scripted callers / disk lookups / origin fetches on the real
//! `Cache::get_or_fetch_inner`, on a current-thread runtime that the harness drives to quiescence
//! after every event.

use std::{
    collections::BTreeMap,
    fmt::Write as _,
    pin::Pin,
    sync::Arc,
    task::{Context, Poll},
};

use foyer_common::{
    error::{Error, ErrorKind},
    spawn::Spawner,
};
use foyer_memory::{Cache, CacheBuilder, CacheEntry, CacheProperties, FetchTarget, FifoConfig, GetOrFetch, LruConfig};
use futures_util::FutureExt;
use parking_lot::Mutex;
use tokio::sync::oneshot;

use crate::{Args, arg_str, arg_u64, mem::fields, rng::Rng};

use crate::mem::{FnBuildHasher, HMode};
type ICache = Cache<u64, u64, FnBuildHasher>;
const PHANTOM_BASE: u64 = 1_000_000_000;
type IEntry = CacheEntry<u64, u64, FnBuildHasher>;
type IFut = GetOrFetch<u64, u64, FnBuildHasher>;

#[derive(Clone, Debug, PartialEq)]
pub enum Ev {
    Call { c: u64, k: u64, disk: bool, fetch: bool },
    Disk { c: u64, r: Option<Result<Option<u64>, ()>> },
    Origin { c: u64, r: Result<u64, ()> },
    Insert { k: u64, v: u64 },
    /// an explicit insert whose value the memory filter rejects (values >= PHANTOM_BASE): a disk-only record
    PInsert { k: u64, v: u64 },
    Remove { k: u64 },
    DropCaller { c: u64 },
    Abort,
    /// a call whose leader task is cancelled before it is polled for the first time
    CallAbort { c: u64, k: u64, disk: bool, fetch: bool },
}

enum CallerSt {
    Pending(Pin<Box<IFut>>, bool),
    Done(String),
    Dropped,
}

pub struct Exec {
    cache: ICache,
    rt: Option<tokio::runtime::Runtime>,
    callers: BTreeMap<u64, CallerSt>,
    held: Vec<IEntry>,
    disk_tx: BTreeMap<u64, oneshot::Sender<Result<Option<u64>, ()>>>,
    origin_tx: BTreeMap<u64, oneshot::Sender<Result<u64, ()>>>,
    started: Arc<Mutex<Vec<u64>>>,
    dstarted: Arc<Mutex<Vec<u64>>>,
    keys: u64,
}

fn new_rt() -> tokio::runtime::Runtime {
    tokio::runtime::Builder::new_current_thread().enable_all().build().unwrap()
}

fn err_name(e: &Error) -> String {
    match e.kind() {
        ErrorKind::External => "errfetch".into(),
        ErrorKind::Io => "errdisk".into(),
        ErrorKind::TaskCancelled => "errcancelled".into(),
        ErrorKind::ChannelClosed => "errclosed".into(),
        k => format!("err:{k:?}"),
    }
}

impl Exec {
    pub fn new(algo: &str, keys: u64, hmode: HMode) -> Self {
        // values >= PHANTOM_BASE are rejected by the memory filter: their records are disk-only ("phantom")
        let b = CacheBuilder::new(1000).with_shards(1).with_filter(|_k: &u64, v: &u64| *v < PHANTOM_BASE).with_hash_builder(FnBuildHasher(hmode));
        let cache: ICache = match algo {
            "lru" => b.with_eviction_config(LruConfig::default()).build(),
            _ => b.with_eviction_config(FifoConfig::default()).build(),
        };
        Exec {
            cache,
            rt: Some(new_rt()),
            callers: BTreeMap::new(),
            held: vec![],
            disk_tx: BTreeMap::new(),
            origin_tx: BTreeMap::new(),
            started: Default::default(),
            dstarted: Default::default(),
            keys,
        }
    }

    /// Let every woken task run until nothing progresses, polling the callers' futures in between.
    fn settle(&mut self) {
        let rt = self.rt.as_ref().unwrap();
        let callers = &mut self.callers;
        let held = &mut self.held;
        rt.block_on(async {
            for _ in 0..6 {
                for _ in 0..20 {
                    tokio::task::yield_now().await;
                }
                for (_c, st) in callers.iter_mut() {
                    if let CallerSt::Pending(fut, hit) = st {
                        let polled = std::future::poll_fn(|cx: &mut Context<'_>| Poll::Ready(fut.as_mut().poll_inner(cx))).await;
                        if let Poll::Ready(res) = polled {
                            let s = match res {
                                Ok(Some(e)) => {
                                    let s = if *hit { format!("hit:{}", e.value()) } else { format!("val:{}", e.value()) };
                                    held.push(e);
                                    s
                                }
                                Ok(None) => "none".to_string(),
                                Err(e) => err_name(&e),
                            };
                            *st = CallerSt::Done(s);
                        }
                    }
                }
            }
        });
        // entries are dropped right away: handles are not the subject here
        self.held.clear();
    }

    pub fn ev_text(ev: &Ev) -> String {
        match ev {
            Ev::Call { c, k, disk, fetch } => format!("ev=call c={c} k={k} disk={} fetch={}", *disk as u8, *fetch as u8),
            Ev::Disk { c, r } => format!(
                "ev=disk c={c} r={}",
                match r {
                    Some(Ok(Some(v))) => format!("hit:{v}"),
                    Some(Ok(None)) | None => "miss".into(),
                    Some(Err(())) => "err".into(),
                }
            ),
            Ev::Origin { c, r } => format!(
                "ev=origin c={c} r={}",
                match r {
                    Ok(v) => format!("ok:{v}"),
                    Err(()) => "err".into(),
                }
            ),
            Ev::Insert { k, v } => format!("ev=insert k={k} v={v}"),
            Ev::PInsert { k, v } => format!("ev=pinsert k={k} v={v}"),
            Ev::Remove { k } => format!("ev=remove k={k}"),
            Ev::DropCaller { c } => format!("ev=dropcaller c={c}"),
            Ev::Abort => "ev=abort".into(),
            Ev::CallAbort { c, k, disk, fetch } => format!("ev=callabort c={c} k={k} disk={} fetch={}", *disk as u8, *fetch as u8),
        }
    }

    /// Is the event applicable now (futures exist / unresolved)?
    pub fn enabled(&self, ev: &Ev) -> bool {
        match ev {
            Ev::Call { c, .. } | Ev::CallAbort { c, .. } => !self.callers.contains_key(c),
            Ev::Disk { c, .. } => self.disk_tx.contains_key(c) && self.dstarted.lock().contains(c),
            Ev::Origin { c, .. } => self.origin_tx.contains_key(c) && self.started.lock().contains(c),
            Ev::DropCaller { c } => matches!(self.callers.get(c), Some(CallerSt::Pending(..))),
            _ => true,
        }
    }

    pub fn exec(&mut self, ev: &Ev) -> String {
        let mut line = Self::ev_text(ev);
        if let Ev::CallAbort { c, k, disk, fetch } = ev {
            // register the call (this spawns the leader task) and shut the runtime down before the task runs
            self.apply(&Ev::Call { c: *c, k: *k, disk: *disk, fetch: *fetch });
            self.apply(&Ev::Abort);
        } else {
            self.apply(ev);
        }
        self.finish_line(&mut line);
        line
    }

    fn apply(&mut self, ev: &Ev) {
        match ev {
            Ev::CallAbort { .. } => {}
            Ev::Call { c, k, disk, fetch } => {
                let spawner = Spawner::from(self.rt.as_ref().unwrap().handle().clone());
                let (dtx, drx) = oneshot::channel::<Result<Option<u64>, ()>>();
                let (otx, orx) = oneshot::channel::<Result<u64, ()>>();
                let started = self.started.clone();
                let dstarted = self.dstarted.clone();
                let (cc, dd, ff) = (*c, *disk, *fetch);
                let fut = self.cache.get_or_fetch_inner(
                    k,
                    move || {
                        if !dd {
                            return None;
                        }
                        Some(Box::new(move |_ctx: &mut ()| {
                            async move {
                                dstarted.lock().push(cc);
                                match drx.await {
                                    Ok(Ok(Some(v))) => Ok(Some(FetchTarget::Entry { value: v, properties: CacheProperties::default() })),
                                    Ok(Ok(None)) => Ok(None),
                                    _ => Err(Error::new(ErrorKind::Io, "disk lookup failed")),
                                }
                            }
                            .boxed()
                        }) as _)
                    },
                    move || {
                        if !ff {
                            return None;
                        }
                        Some(Box::new(move |_ctx: &mut ()| {
                            async move {
                                started.lock().push(cc);
                                match orx.await {
                                    Ok(Ok(v)) => Ok(FetchTarget::Entry { value: v, properties: CacheProperties::default() }),
                                    _ => Err(Error::new(ErrorKind::External, "fetch failed")),
                                }
                            }
                            .boxed()
                        }) as _)
                    },
                    (),
                    &spawner,
                );
                if *disk {
                    self.disk_tx.insert(*c, dtx);
                }
                if *fetch {
                    self.origin_tx.insert(*c, otx);
                }
                let hit = !fut.need_await();
                self.callers.insert(*c, CallerSt::Pending(Box::pin(fut), hit));
            }
            Ev::Disk { c, r } => {
                if let Some(tx) = self.disk_tx.remove(c) {
                    let _ = tx.send(r.clone().unwrap_or(Ok(None)));
                }
            }
            Ev::Origin { c, r } => {
                if let Some(tx) = self.origin_tx.remove(c) {
                    let _ = tx.send(r.clone());
                }
            }
            Ev::Insert { k, v } | Ev::PInsert { k, v } => {
                self.cache.insert(*k, *v);
            }
            Ev::Remove { k } => {
                self.cache.remove(k);
            }
            Ev::DropCaller { c } => {
                self.callers.insert(*c, CallerSt::Dropped);
            }
            Ev::Abort => {
                // shutting the runtime down drops (cancels) every fetch task it hosts
                if let Some(rt) = self.rt.take() {
                    drop(rt);
                }
                self.rt = Some(new_rt());
                self.disk_tx.clear();
                self.origin_tx.clear();
            }
        }
    }

    fn finish_line(&mut self, line: &mut String) {
        self.settle();
        let callers: Vec<String> = self
            .callers
            .iter()
            .map(|(c, st)| match st {
                CallerSt::Pending(..) => format!("{c}:p"),
                CallerSt::Done(s) => format!("{c}:{s}"),
                CallerSt::Dropped => format!("{c}:dropped"),
            })
            .collect();
        let mut cache = vec![];
        for k in 0..self.keys {
            if let Some(e) = self.cache.get(&k) {
                cache.push(format!("{k}:{}", e.value()));
            }
        }
        cache.sort();
        let show = |v: Vec<String>| if v.is_empty() { "-".to_string() } else { v.join(";") };
        let _ = write!(
            line,
            " started={} dstarted={} callers={} cache={}",
            show(self.started.lock().iter().map(|x| x.to_string()).collect()),
            show(self.dstarted.lock().iter().map(|x| x.to_string()).collect()),
            show(callers),
            show(cache)
        );
    }

    /// Resolve or drop everything that is still outstanding; afterwards no caller may be pending.
    pub fn epilogue(&mut self, out: &mut String) {
        loop {
            let ds: Vec<u64> = self.disk_tx.keys().copied().filter(|c| self.dstarted.lock().contains(c)).collect();
            let os: Vec<u64> = self.origin_tx.keys().copied().filter(|c| self.started.lock().contains(c)).collect();
            if ds.is_empty() && os.is_empty() {
                break;
            }
            if let Some(c) = ds.first() {
                let l = self.exec(&Ev::Disk { c: *c, r: Some(Ok(None)) });
                out.push_str(&l);
                out.push('\n');
                continue;
            }
            if let Some(c) = os.first() {
                let l = self.exec(&Ev::Origin { c: *c, r: Err(()) });
                out.push_str(&l);
                out.push('\n');
            }
        }
        // a final no-op event carrying the `final=1` mark
        let mut l = self.exec(&Ev::Remove { k: 9999 });
        l.push_str(" final=1");
        // every future has resolved or was dropped; drop the entries the callers received: nothing refers to the
        // cached records any more, so a fresh lookup must hold the only reference (C18: nothing leaks)
        self.held.clear();
        self.callers.clear();
        self.settle();
        let mut refs = vec![];
        for k in 0..self.keys {
            if let Some(e) = self.cache.get(&k) {
                refs.push(format!("{k}:{}", e.refs()));
            }
        }
        l.push_str(&format!(" refs={}", if refs.is_empty() { "-".to_string() } else { refs.join(";") }));
        out.push_str(&l);
        out.push('\n');
    }
}

fn gen_ev(rng: &mut Rng, ex: &Exec, next_c: &mut u64, next_v: &mut u64, keys: u64) -> Ev {
    loop {
        let ev = match rng.below(100) {
            0..=34 => {
                let c = *next_c;
                Ev::Call { c, k: rng.below(keys), disk: rng.chance(1, 3), fetch: rng.chance(3, 4) }
            }
            35..=49 => {
                let cs: Vec<u64> = ex.disk_tx.keys().copied().filter(|c| ex.dstarted.lock().contains(c)).collect();
                if cs.is_empty() {
                    continue;
                }
                *next_v += 1;
                let r = match rng.below(4) {
                    0 => Some(Ok(Some(*next_v))),
                    1 => Some(Err(())),
                    _ => Some(Ok(None)),
                };
                Ev::Disk { c: *rng.pick(&cs), r }
            }
            50..=71 => {
                let cs: Vec<u64> = ex.origin_tx.keys().copied().filter(|c| ex.started.lock().contains(c)).collect();
                if cs.is_empty() {
                    continue;
                }
                *next_v += 1;
                Ev::Origin { c: *rng.pick(&cs), r: if rng.chance(3, 4) { Ok(*next_v) } else { Err(()) } }
            }
            72..=83 => {
                *next_v += 1;
                if rng.chance(1, 4) {
                    Ev::PInsert { k: rng.below(keys), v: PHANTOM_BASE + *next_v }
                } else {
                    Ev::Insert { k: rng.below(keys), v: *next_v }
                }
            }
            84..=90 => Ev::Remove { k: rng.below(keys) },
            91..=96 => {
                let cs: Vec<u64> =
                    ex.callers.iter().filter(|(_, s)| matches!(s, CallerSt::Pending(..))).map(|(c, _)| *c).collect();
                if cs.is_empty() {
                    continue;
                }
                Ev::DropCaller { c: *rng.pick(&cs) }
            }
            97 => {
                let c = *next_c;
                let disk = rng.chance(1, 3);
                Ev::CallAbort { c, k: rng.below(keys), disk, fetch: !disk || rng.chance(1, 2) }
            }
            _ => Ev::Abort,
        };
        if let Ev::Call { .. } | Ev::CallAbort { .. } = ev {
            *next_c += 1;
        }
        return ev;
    }
}

pub fn run_case(rng: &mut Rng, maxev: u64) -> String {
    let algo = if rng.chance(1, 2) { "fifo" } else { "lru" };
    let collide = crate::mem::COLLIDE.load(std::sync::atomic::Ordering::Relaxed);
    let keys = if collide { rng.range(2, 3) } else { rng.range(1, 2) };
    // with `collide=1` every key has the same 64-bit hash: the in-flight table must still tell the keys apart
    let hmode = if collide { HMode::Const(7) } else { HMode::Id };
    let mut out = format!("cfg domain=infl algo={algo} keys={keys} hmode={}\n", hmode.show());
    let mut ex = Exec::new(algo, keys, hmode);
    let n = rng.range(1, maxev);
    let (mut next_c, mut next_v) = (0u64, 100u64);
    for _ in 0..n {
        let ev = gen_ev(rng, &ex, &mut next_c, &mut next_v, keys);
        out.push_str(&ex.exec(&ev));
        out.push('\n');
    }
    ex.epilogue(&mut out);
    out
}

pub fn replay(text: &str) -> String {
    let mut out = String::new();
    let mut ex: Option<Exec> = None;
    for line in text.lines() {
        let f = fields(line);
        if f.contains_key("cfg") {
            let algo = f.get("algo").cloned().unwrap_or_else(|| "fifo".into());
            let keys = f.get("keys").and_then(|v| v.parse().ok()).unwrap_or(2);
            let hmode = HMode::parse(f.get("hmode").map(|s| s.as_str()).unwrap_or("id"));
            let _ = writeln!(out, "cfg domain=infl algo={algo} keys={keys} hmode={}", hmode.show());
            if let Some(mut old) = ex.take() {
                let _ = &mut old;
            }
            ex = Some(Exec::new(&algo, keys, hmode));
            continue;
        }
        let Some(ex) = ex.as_mut() else { continue };
        if f.get("final").map(|s| s == "1").unwrap_or(false) {
            continue;
        }
        let n = |k: &str| f.get(k).and_then(|v| v.parse::<u64>().ok()).unwrap_or(0);
        let r = f.get("r").cloned().unwrap_or_default();
        let ev = match f.get("ev").map(|s| s.as_str()) {
            Some("call") => Ev::Call { c: n("c"), k: n("k"), disk: n("disk") == 1, fetch: n("fetch") == 1 },
            Some("disk") => Ev::Disk {
                c: n("c"),
                r: Some(if let Some(v) = r.strip_prefix("hit:") {
                    Ok(Some(v.parse().unwrap_or(0)))
                } else if r == "err" {
                    Err(())
                } else {
                    Ok(None)
                }),
            },
            Some("origin") => Ev::Origin {
                c: n("c"),
                r: if let Some(v) = r.strip_prefix("ok:") { Ok(v.parse().unwrap_or(0)) } else { Err(()) },
            },
            Some("insert") => Ev::Insert { k: n("k"), v: n("v") },
            Some("pinsert") => Ev::PInsert { k: n("k"), v: n("v") },
            Some("remove") => Ev::Remove { k: n("k") },
            Some("dropcaller") => Ev::DropCaller { c: n("c") },
            Some("abort") => Ev::Abort,
            Some("callabort") => Ev::CallAbort { c: n("c"), k: n("k"), disk: n("disk") == 1, fetch: n("fetch") == 1 },
            _ => continue,
        };
        if !ex.enabled(&ev) {
            continue;
        }
        out.push_str(&ex.exec(&ev));
        out.push('\n');
    }
    if let Some(ex) = ex.as_mut() {
        ex.epilogue(&mut out);
    }
    out
}

pub fn main(args: &Args) -> i32 {
    if let Some(path) = args.get("replay") {
        // one Exec per trace: split on cfg lines
        let text = std::fs::read_to_string(path).expect("read replay file");
        let mut cur = String::new();
        for line in text.lines() {
            if line.starts_with("cfg ") && !cur.is_empty() {
                print!("{}", replay(&cur));
                cur.clear();
            }
            cur.push_str(line);
            cur.push('\n');
        }
        if !cur.is_empty() {
            print!("{}", replay(&cur));
        }
        return 0;
    }
    let seed = arg_u64(args, "seed", 0);
    let cases = arg_u64(args, "cases", 100);
    let maxev = arg_u64(args, "maxev", 10);
    let _ = arg_str(args, "mode", "");
    crate::mem::COLLIDE.store(arg_u64(args, "collide", 0) == 1, std::sync::atomic::Ordering::Relaxed);
    let mut rng = Rng::new(seed ^ 0x1F1F);
    use std::io::Write;
    let stdout = std::io::stdout();
    let mut w = std::io::BufWriter::new(stdout.lock());
    for _ in 0..cases {
        let mut r = rng.fork();
        let t = run_case(&mut r, maxev);
        w.write_all(t.as_bytes()).unwrap();
    }
    0
}
