//! Codec domain (C08): the real `Code` impls, `EntrySerializer` / `EntryDeserializer`, the entry
//! header and `Buffer::push`, printed as hex for the Lean model to recompute.

use std::{fmt::Write as _, sync::Arc};

use foyer_common::{code::Code, metrics::Metrics};
use foyer_storage::{
    Compression,
    verif::{Buffer, EntryDeserializer, EntryHeader, EntrySerializer, IoSliceMut, PAGE},
};

use crate::{Args, arg_u64, rng::Rng};

fn hex(b: &[u8]) -> String {
    if b.is_empty() {
        return "-".into();
    }
    let mut s = String::with_capacity(b.len() * 2);
    for x in b {
        let _ = write!(s, "{x:02x}");
    }
    s
}

fn enc<T: Code>(v: &T) -> Vec<u8> {
    let mut buf = vec![];
    v.encode(&mut buf).unwrap();
    buf
}

/// encode into a buffer one byte too small: which error kind?
fn small<T: Code>(v: &T) -> String {
    let n = enc(v).len();
    if n == 0 {
        return "-".into();
    }
    let mut buf = vec![0u8; n - 1];
    match v.encode(&mut buf.as_mut_slice()) {
        Ok(()) => "ok".into(),
        Err(e) => format!("{:?}", e.kind()),
    }
}

/// A reader that hands out at most `1` .. `self.1` bytes per `read` call (as stream decoders and sockets do).
struct Chunked<'a>(&'a [u8], usize);
impl std::io::Read for Chunked<'_> {
    fn read(&mut self, buf: &mut [u8]) -> std::io::Result<usize> {
        let n = buf.len().min(self.1).min(self.0.len());
        buf[..n].copy_from_slice(&self.0[..n]);
        self.0 = &self.0[n..];
        Ok(n)
    }
}

macro_rules! uint_item {
    ($out:expr, $t:ty, $name:expr, $v:expr) => {{
        let v: $t = $v;
        let b = enc(&v);
        let back = <$t>::decode(&mut b.as_slice()).ok();
        let _ = writeln!($out, "item t={} v={} hex={} rt={} small={} est={}", $name, v, hex(&b), (back == Some(v)) as u8, small(&v), v.estimated_size());
    }};
}

fn boundary_u(bits: u32, rng: &mut Rng) -> Vec<u128> {
    let max: u128 = if bits == 128 { u128::MAX } else { (1u128 << bits) - 1 };
    let mut v = vec![0, 1, 2, 127, 128, 255, 256, max, max - 1, max / 2, max / 2 + 1];
    for _ in 0..6 {
        let r = ((rng.next() as u128) << 64 | rng.next() as u128) & max;
        v.push(r);
    }
    v.retain(|x| *x <= max);
    v
}

pub fn main(args: &Args) -> i32 {
    let seed = arg_u64(args, "seed", 0);
    let n = arg_u64(args, "cases", 200);
    let mut rng = Rng::new(seed ^ 0xC0DEC);
    let mut out = String::from("cfg domain=codec\n");

    // integers
    for v in boundary_u(8, &mut rng) { uint_item!(out, u8, "u8", v as u8); uint_item!(out, i8, "i8", v as u8 as i8); }
    for v in boundary_u(16, &mut rng) { uint_item!(out, u16, "u16", v as u16); uint_item!(out, i16, "i16", v as u16 as i16); }
    for v in boundary_u(32, &mut rng) { uint_item!(out, u32, "u32", v as u32); uint_item!(out, i32, "i32", v as u32 as i32); }
    for v in boundary_u(64, &mut rng) {
        uint_item!(out, u64, "u64", v as u64);
        uint_item!(out, i64, "i64", v as u64 as i64);
        uint_item!(out, usize, "usize", v as usize);
        uint_item!(out, isize, "isize", v as u64 as isize);
    }
    for v in boundary_u(128, &mut rng) { uint_item!(out, u128, "u128", v); uint_item!(out, i128, "i128", v as i128); }
    // floats as bit patterns (incl. NaN payloads, infinities, -0.0)
    for bits in [0u32, 0x8000_0000, 0x7f80_0000, 0xff80_0000, 0x7fc0_0001, 0x3f80_0000, rng.next() as u32, rng.next() as u32] {
        let f = f32::from_bits(bits);
        let b = enc(&f);
        let back = f32::decode(&mut b.as_slice()).ok();
        let _ = writeln!(out, "item t=f32 v={} hex={} rt={} small={} est={}", bits, hex(&b), (back.map(|x| x.to_bits()) == Some(bits)) as u8, small(&f), f.estimated_size());
    }
    for bits in [0u64, 1 << 63, 0x7ff0_0000_0000_0000, 0x7ff8_0000_0000_0001, 0x3ff0_0000_0000_0000, rng.next(), rng.next()] {
        let f = f64::from_bits(bits);
        let b = enc(&f);
        let back = f64::decode(&mut b.as_slice()).ok();
        let _ = writeln!(out, "item t=f64 v={} hex={} rt={} small={} est={}", bits, hex(&b), (back.map(|x| x.to_bits()) == Some(bits)) as u8, small(&f), f.estimated_size());
    }
    // bool
    for v in [false, true] {
        let b = enc(&v);
        let back = bool::decode(&mut b.as_slice()).ok();
        let _ = writeln!(out, "item t=bool v={} hex={} rt={} small={} est={}", v as u8, hex(&b), (back == Some(v)) as u8, small(&v), v.estimated_size());
    }
    for bad in [2u8, 3, 127, 128, 255, rng.range(2, 255) as u8] {
        let r = bool::decode(&mut [bad].as_slice());
        let _ = writeln!(out, "item t=boolbad b={} err={}", bad, match r { Ok(_) => "ok".into(), Err(e) => format!("{:?}", e.kind()) });
    }
    // Vec<u8> / Bytes / String
    for i in 0..n {
        let len = match i % 5 { 0 => 0, 1 => 1, 2 => rng.range(2, 40), 3 => rng.range(41, 200), _ => rng.range(0, 16) } as usize;
        let data: Vec<u8> = (0..len).map(|_| if rng.chance(1, 3) { 0x41 } else { rng.next() as u8 }).collect();
        let b = enc(&data);
        let back = Vec::<u8>::decode(&mut b.as_slice()).ok();
        let bb = bytes::Bytes::from(data.clone());
        let b2 = enc(&bb);
        let back2 = bytes::Bytes::decode(&mut b2.as_slice()).ok();
        // the same bytes through a reader that returns short reads
        let chunk = 1 + (i as usize % 7);
        let back3 = Vec::<u8>::decode(&mut Chunked(&b, chunk)).ok();
        let back4 = bytes::Bytes::decode(&mut Chunked(&b2, chunk)).ok();
        let _ = writeln!(out, "item t=vec data={} hex={} rt={} small={} est={} same_as_bytes={}", hex(&data), hex(&b),
            (back.as_ref() == Some(&data) && back2.as_ref() == Some(&bb) && back3.as_ref() == Some(&data) && back4.as_ref() == Some(&bb)) as u8,
            small(&data), data.estimated_size(), (b == b2) as u8);
        // truncated input must be an error, never a shorter value
        if b.len() > 8 {
            let cut = rng.range(8, b.len() as u64 - 1) as usize;
            let r = Vec::<u8>::decode(&mut &b[..cut]);
            let _ = writeln!(out, "item t=vectrunc data={} cut={} err={}", hex(&data), cut - 8, match r { Ok(_) => "ok".into(), Err(e) => format!("{:?}", e.kind()) });
        }
    }
    for s in ["", "a", "héllo wörld", "日本語テキスト", "🦀🦀", "plain ascii text 0123456789"] {
        let st = s.to_string();
        let b = enc(&st);
        let back = String::decode(&mut b.as_slice()).ok();
        let backc = String::decode(&mut Chunked(&b, 3)).ok();
        let _ = writeln!(out, "item t=string data={} hex={} rt={} small={} est={}", hex(s.as_bytes()), hex(&b),
            (back.as_ref() == Some(&st) && backc.as_ref() == Some(&st)) as u8, small(&st), st.estimated_size());
    }
    for bad in [vec![0xffu8], vec![0xc3, 0x28], vec![0x61, 0x80], vec![0xf0, 0x28, 0x8c, 0x28]] {
        let mut b = enc(&bad.len());
        b.extend_from_slice(&bad);
        let r = String::decode(&mut b.as_slice());
        let _ = writeln!(out, "item t=stringbad data={} err={}", hex(&bad), match r { Ok(_) => "ok".into(), Err(e) => format!("{:?}", e.kind()) });
    }
    // whole entries through EntrySerializer / header / EntryDeserializer
    for i in 0..n {
        let key: u64 = rng.next();
        // every 16th entry is large enough for the stream decoders to deliver it in several reads
        let vlen = if i % 16 == 15 { *rng.pick(&[40_000usize, 70_000, 140_000]) } else {
            match i % 6 { 0 => 0, 1 => 1, 2 => PAGE - 36 - 8 - 8, 3 => PAGE - 36 - 8 - 8 + 1, 4 => rng.range(2, 300) as usize, _ => rng.range(300, 9000) as usize } };
        let compressible = rng.chance(1, 2);
        let value: Vec<u8> = (0..vlen).map(|j| if compressible { (j % 7) as u8 } else { rng.next() as u8 }).collect();
        for comp in [Compression::None, Compression::Zstd, Compression::Lz4] {
            let mut payload = vec![0u8; vlen * 2 + 4096];
            let info = EntrySerializer::serialize(&key, &value, comp, &mut payload.as_mut_slice()).unwrap();
            payload.truncate(info.key_len + info.value_len);
            let checksum = foyer_storage::verif::Checksummer::checksum64(&payload);
            let (hash, seq) = (rng.next(), rng.next());
            let header = EntryHeader { key_len: info.key_len as u32, value_len: info.value_len as u32, hash, sequence: seq, checksum, compression: comp };
            let mut hb = vec![0u8; EntryHeader::serialized_len()];
            header.write(&mut hb.as_mut_slice());
            let hback = EntryHeader::read(hb.as_slice()).ok();
            let back: Option<(u64, Vec<u8>)> = EntryDeserializer::deserialize(&payload, info.key_len, info.value_len, comp, Some(checksum)).ok();
            // the same stored bytes decoded as a `Bytes` value
            let backb: Option<(u64, bytes::Bytes)> = EntryDeserializer::deserialize(&payload, info.key_len, info.value_len, comp, Some(checksum)).ok();
            let rt = (back.as_ref() == Some(&(key, value.clone())) && hback.as_ref() == Some(&header)
                && backb.as_ref().map(|(k, v)| (*k, v.to_vec())) == Some((key, value.clone()))) as u8;
            let cname = match comp { Compression::None => "none", Compression::Zstd => "zstd", Compression::Lz4 => "lz4" };
            if matches!(comp, Compression::None) && vlen <= 300 {
                let _ = writeln!(out, "item t=entry comp=none hash={hash} seq={seq} key={key} vdata={} klen={} vlen={} checksum={checksum} hex={}{} rt={rt}",
                    hex(&value), info.key_len, info.value_len, hex(&hb), if payload.is_empty() { String::new() } else { hex(&payload) });
            } else {
                let _ = writeln!(out, "item t=entryc comp={cname} klen={} vlen={} rawvlen={} hdr={} hash={hash} seq={seq} checksum={checksum} rt={rt}",
                    info.key_len, info.value_len, vlen + 8, hex(&hb));
            }
            // a flipped payload byte must be rejected
            if !payload.is_empty() {
                let mut bad = payload.clone();
                let pos = rng.below(bad.len() as u64) as usize;
                bad[pos] ^= 1 << rng.below(8);
                let r: Result<(u64, Vec<u8>), _> = EntryDeserializer::deserialize(&bad, info.key_len, info.value_len, comp, Some(checksum));
                let _ = writeln!(out, "item t=entrybad comp={cname} err={}", match r { Ok(_) => "ok".into(), Err(e) => format!("{:?}", e.kind()) });
            }
        }
        // a bad magic / compression tag in the header is rejected
        let mut hb = vec![0u8; EntryHeader::serialized_len()];
        EntryHeader { key_len: 8, value_len: 8, hash: 1, sequence: 1, checksum: 1, compression: Compression::None }.write(&mut hb.as_mut_slice());
        let which = rng.below(4) as usize;
        hb[32 + which] ^= if which == 3 { 0x04 << rng.below(6) } else { 1 << rng.below(8) };
        let r = EntryHeader::read(hb.as_slice());
        let _ = writeln!(out, "item t=hdrbad hex={} err={}", hex(&hb), match r { Ok(_) => "ok".into(), Err(e) => format!("{:?}", e.kind()) });
    }
    // Buffer::push sequences around page / buffer / max-entry boundaries
    for _ in 0..(n / 4).max(4) {
        let pages = rng.range(2, 8) as usize;
        let cap = pages * PAGE;
        let max = *rng.pick(&[PAGE, 2 * PAGE, 3 * PAGE, cap]);
        let mut buffer = Buffer::new(IoSliceMut::new(cap), max, Arc::new(Metrics::noop()));
        let _ = writeln!(out, "item t=pushinit cap={cap} max={max}");
        let mut written = 0usize;
        for j in 0..rng.range(1, 8) {
            let vlen = match rng.below(6) { 0 => 0, 1 => PAGE - 36 - 8 - 8, 2 => PAGE - 36 - 8 - 8 + 1, 3 => max - 36 - 16, 4 => max - 36 - 16 + 1, _ => rng.range(1, 2 * PAGE as u64) as usize };
            let value = vec![j as u8; vlen];
            let ok = buffer.push(&(j as u64), &value, j as u64, Compression::None, 100 + j as u64);
            if ok {
                written += (36 + 8 + 8 + vlen).div_ceil(PAGE) * PAGE;
            }
            let _ = writeln!(out, "item t=push hash={j} seq={} klen=8 vlen={} ok={} written={}", 100 + j, vlen + 8, ok as u8, written);
        }
        let (_bytes, infos) = buffer.finish();
        let desc: Vec<String> = infos.iter().map(|i| format!("{}:{}:{}:{}", i.hash, i.sequence, i.offset, i.len)).collect();
        let _ = writeln!(out, "item t=pushfin infos={}", if desc.is_empty() { "-".to_string() } else { desc.join(";") });
    }
    // cut into traces of ~40 items (push sequences stay together)
    let mut n_in = 0;
    let mut first = true;
    for line in out.lines() {
        if line.starts_with("cfg ") {
            continue;
        }
        if first || (n_in >= 40 && !line.contains("t=push ") && !line.contains("t=pushfin")) {
            println!("cfg domain=codec");
            n_in = 0;
            first = false;
        }
        println!("{line}");
        n_in += 1;
    }
    0
}
